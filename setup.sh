#!/bin/sh
# Build the framework from files on disk only (offline). Run once in /verif after a fresh restore.
set -e
cd "$(dirname "$0")"
export GOFLAGS=-mod=mod GOPROXY=off GOSUMDB=off GOTOOLCHAIN=local
mkdir -p .work
export GOCACHE="$(pwd)/.work/gocache"
if [ -d extract ]; then
  (cd extract && go build -o ../.work/extract . && ../.work/extract -repo "${VERIF_REPO:-/repo}" -out ../lean/Gen)
fi
cp "${VERIF_REPO:-/repo}/go.sum" harness/go.sum
(cd harness && go build -tags verif -o ../.work/harness .)
(cd lean && lake build)
echo "setup done"
