/-
  Driver.AliasCase — alias histories (C15): the history is replayed on the value-level models
  (in which rows are independent values by construction) and compared with the snapshots of
  the implementation; the oracle checks directly on the implementation's snapshots that a
  step changes nothing but the root it operates on.
-/
import Driver.Line
import Model.Template
import Model.Path

namespace Jl.Driver.AliasCase
open Jl Jl.Driver Jl.Driver.Line Jl.Value Jl.Template

abbrev RowV := List (Bytes × Val)

def showRow (r : RowV) : String := (Val.row (Members.ofList r)).show

def showState (e : Option ErrClass) (proto : RowV) (rows : List RowV) : String :=
  "e=" ++ (match e with | some e => e.name | none => "-") ++ " | proto=" ++ showRow proto ++ " | " ++
    (if rows.isEmpty then "none" else " ;; ".intercalate (rows.map showRow))

/-- `Set(k, x)` on a value-level row. -/
def setKey (env : Env) (r : RowV) (k : Bytes) (x : Dyn) : Outcome RowV :=
  match lookup r k with
  | some c =>
    match setExisting env c x with
    | .ok c' => .ok (upsert r k c')
    | .err e => .err e
    | .panic s => .panic s
  | none => .ok (upsert r k (Cells.newCell x))

inductive StepRes
  | ok (rows : List RowV) (e : Option ErrClass) (touched : Option Nat)   -- index of the root operated on
  | abstain
  | bad (why : String)

def applyOp (env : Env) (t : Tmpl) (rows : List RowV) (ts : List String) : StepRes :=
  let lift (o : Outcome (RowV × Option ErrClass)) (f : RowV → Option ErrClass → StepRes) : StepRes :=
    match o with
    | .ok (r, e) => f r e
    | .err .ext => .abstain
    | .err e => .bad s!"model error {e.name}"
    | .panic s => .bad s!"model panic {s}"
  let create (v : Option Dyn) : StepRes :=
    match v with
    | none => .bad "cannot parse value"
    | some v => lift (createRow env t v) fun r e =>
        match e with
        | none => .ok (rows ++ [r]) none none
        | some e => .ok rows (some e) none
  match ts with
  | ["ce"] =>
    (match createRowEmpty env t with
     | .ok r => .ok (rows ++ [r]) none none
     | .err .ext => .abstain
     | _ => .bad "createRowEmpty failed")
  | "cm" :: rest => create (Dyn.parse? (" ".intercalate rest))
  | "cs" :: rest => create (Dyn.parse? (" ".intercalate rest))
  | ["cj", h] => create ((unhexTok h).map Dyn.str)
  -- the next line of a long-lived importer of the template: a fresh row filled from the text, exactly
  -- what CreateRow(text) gives, whatever lines (accepted or rejected) the importer read before
  | ["imp", h] => create ((unhexTok h).map Dyn.str)
  | ["cr", i] =>
    (match i.toNat?.bind fun i => rows[i]? with
     | some r => create (some (.val (.row (Members.ofList r))))
     | none => .bad "bad row index")
  | ["um", i, h] =>
    (match i.toNat?, unhexTok h with
     | some i, some text =>
       match rows[i]? with
       | some r => lift (unmarshalInto env r text) fun r' e => .ok (rows.set i r') e (some i)
       | none => .bad "bad row index"
     | _, _ => .bad "bad um")
  | "set" :: i :: k :: rest =>
    (match i.toNat?, parseKey k, Dyn.parse? (" ".intercalate rest) with
     | some i, some k, some x =>
       match rows[i]? with
       | some r =>
         (match setKey env r k x with
          | .ok r' => .ok (rows.set i r') none (some i)
          | .err .ext => .abstain
          | _ => .bad "set failed")
       | none => .bad "bad row index"
     | _, _, _ => .bad "bad set")
  | "iak" :: i :: k :: rest =>
    (match i.toNat?, parseKey k, Dyn.parse? (" ".intercalate rest) with
     | some i, some k, some x =>
       match rows[i]? with
       | some r => lift (importAtKeyWith (importVal env) r k x) fun r' e => .ok (rows.set i r') e (some i)
       | none => .bad "bad row index"
     | _, _, _ => .bad "bad iak")
  | "imp2" :: i :: rest =>
    -- Row.Import handed a slice or a Go map
    (match i.toNat?.bind (fun i => rows[i]?.map fun r => (i, r)), Dyn.parse? (" ".intercalate rest) with
     | some (i, r), some x =>
       (match importVal env (.row (Members.ofList r)) x with
        | .ok (.row ms, e) => .ok (rows.set i ms.toList) e (some i)
        | .err .ext => .abstain
        | _ => .bad "imp2: not a row")
     | _, _ => .bad "bad imp2")
  | ["irow", i, j] =>
    -- Row.Import handed another row
    (match i.toNat?.bind (fun i => rows[i]?.map fun r => (i, r)), j.toNat?.bind (fun j => rows[j]?) with
     | some (i, r), some r2 =>
       (match importVal env (.row (Members.ofList r)) (.val (.row (Members.ofList r2))) with
        | .ok (.row ms, e) => .ok (rows.set i ms.toList) e (some i)
        | .err .ext => .abstain
        | _ => .bad "irow: not a row")
     | _, _ => .bad "bad irow")
  | "iap" :: i :: k :: rest =>
    -- ImportAtPath: a nested in-place mutation through one consumer of the template
    (match i.toNat?, parseKey k, Dyn.parse? (" ".intercalate rest) with
     | some i, some path, some x =>
       match rows[i]? with
       | some r => lift (Path.importAtPath env r path x) fun r' e => .ok (rows.set i r') e (some i)
       | none => .bad "bad row index"
     | _, _, _ => .bad "bad iap")
  | ["ex", i] =>
    (match i.toNat?.bind fun i => rows[i]? with
     | some r =>
       match exportLine env t (.val (.row (Members.ofList r))) with
       | .ok (_, e) => .ok rows e none
       | .err .ext => .abstain
       | _ => .bad "export failed"
     | none => .bad "bad row index")
  | ["cl", i] =>
    (match i.toNat?.bind fun i => rows[i]? with
     | some r =>
       match cloneRow env r with
       | .ok r' => .ok (rows ++ [r']) none none
       | .err .ext => .abstain
       | _ => .bad "clone failed"
     | none => .bad "bad row index")
  | ["st", _] => .ok rows none none
  | _ => .bad s!"unknown op {ts}"

/-- Split an implementation snapshot into (proto, rows) strings. -/
def splitObs (ob : String) : Option (String × List String) :=
  match ob.splitOn " | " with
  | [_, p, rs] => some (p, if rs == "none" then [] else rs.splitOn " ;; ")
  | [_, p, rs, _] => some (p, if rs == "none" then [] else rs.splitOn " ;; ")
  | _ => none

/-- The optional 4th field of an `imp` step: what the same text gives through CreateRow on its own. -/
def freshOf (ob : String) : Option String :=
  match ob.splitOn " | " with
  | [_, _, _, f] => if f.startsWith "fresh=" then some (dropS f 6) else none
  | _ => none

def withoutFresh (ob : String) : String :=
  match ob.splitOn " | " with
  | [a, b, c, _] => a ++ " | " ++ b ++ " | " ++ c
  | _ => ob

/-- Every column the template declares as a cell still carries its declared format and raw type in a row the
    template made, whatever was stored, imported or REFUSED since (no operation of these histories hands a
    `jsonline.Value` to a row): a refused import or a failed unmarshal leaves declarations alone. -/
def declLost (t : Tmpl) (rowS : String) : Option String :=
  match Val.parse? rowS with
  | some (.row ms) =>
    t.findSome? fun kc =>
      match kc.2 with
      | .cell _ f ty =>
        (match OMap.lookup ms.toList kc.1 with
         | some (.cell _ f' ty') => if f' == f && ty' == ty then none else some s!"declared-column-lost-its-declaration:{hexOf kc.1}"
         | _ => none)
      | _ => none
  | _ => none

def runCase (tmplS opsS extS obsS : String) (prop : String := "C15") : Result := Id.run do
  let env : Env := ⟨drvTables, parseExt extS⟩
  match tmplOf env tmplS with
  | none => return ⟨"B", "cannot parse template"⟩
  | some t =>
    let opStrs := opsS.splitOn " ; "
    let obs := obsS.splitOn " ## "
    if opStrs.length != obs.length then return ⟨"B", "ops/obs mismatch"⟩
    let mut rows : List RowV := []
    let mut prev : Option (String × List String) := none
    let mut stepNo := 0
    -- the first model difference; the history is followed to its end all the same, because the oracle
    -- only needs the implementation's own snapshots (and which root each op touches)
    let mut firstD : Option String := none
    for (os, ob) in opStrs.zip obs do
      if (ob.splitOn "PANIC").length > 1 then
        return ⟨"P", s!"step {stepNo} [{os}] impl [{ob}] violates C15: key=panic"⟩
      match applyOp env t rows (toks os) with
      | .bad why =>
        match firstD with
        | some d => return ⟨"D", d⟩
        | none => return ⟨"B", s!"step {stepNo} [{os}]: {why}"⟩
      | .abstain =>
        match firstD with
        | some d => return ⟨"D", d⟩
        | none => return ⟨"X", "model abstains"⟩
      | .ok rows' e touched =>
        rows := rows'
        let proto := match createRowEmpty env t with | .ok r => r | _ => []
        let ms := showState e proto rows
        -- oracle on the implementation's own snapshots: nothing but the touched root changes
        let cur := splitObs ob
        let mut p : Option String := none
        match prev, cur with
        | some (pp, prs), some (cp, crs) =>
          if pp != cp then p := some "template-product-changed"
          else
            for idx in List.range prs.length do
              if some idx != touched && crs[idx]? != prs[idx]? then p := some s!"other-row-changed"
        | _, _ => pure ()
        -- declarations survive everything these histories do
        match cur with
        | some (_, crs) =>
          for rs in crs do
            match declLost t rs with
            | some c => if p.isNone then p := some c
            | none => pure ()
        | none => pure ()
        -- a row handed out by a long-lived importer is what its line gives on its own
        match freshOf ob, cur with
        | some f, some (_, crs) =>
          let accepted := (ob.splitOn " | ").head? == some "e=-"
          if accepted && f == "ERR" then p := some "importer-accepted-what-the-text-alone-rejects"
          else if !accepted && f != "ERR" then p := some "importer-rejected-what-the-text-alone-accepts"
          else if accepted && crs.getLast? != some f then p := some "imported-row-depends-on-earlier-lines"
        | _, _ => pure ()
        let d := ms != withoutFresh ob
        if p.isSome then
          let tag := (if d || firstD.isSome then "D" else "") ++ "P"
          return ⟨tag, s!"step {stepNo} [{os}] impl [{ob}] model [{ms}]" ++
            (match p with | some c => s!" violates {prop}: key={c}" | none => "")⟩
        if d && firstD.isNone then
          firstD := some s!"step {stepNo} [{os}] impl [{ob}] model [{ms}]"
        prev := cur
      stepNo := stepNo + 1
    match firstD with
    | some d => return ⟨"D", d⟩
    | none => return ⟨"S", ""⟩

/-- `tfamily`: templates alive together, attached to one another and extended afterwards; the products of all of them
    after every builder call. The oracle needs the implementation's snapshots only: a call on template `i`
    (`with i …`, `withrow i … j`) changes the product of no template but `i`; `new` adds a template and `create`
    (a row made from a template and written into) changes nothing at all. -/
def runFamily (opsS obsS : String) : Result := Id.run do
  let ops := opsS.splitOn " ; "
  let obs := obsS.splitOn " ## "
  if ops.length != obs.length then return ⟨"B", "tfamily: ops/obs count mismatch"⟩
  let mut prev : List String := []
  let mut step := 0
  for (op, ob) in ops.zip obs do
    let cur := ob.splitOn " ;; "
    if cur.any (· == "PANIC") then
      return ⟨"P", s!"tfamily step {step} op [{op}]: panic while a template made a row violates C15: key=panic"⟩
    let touched : Option Nat :=
      match toks op with
      | "with" :: i :: _ => i.toNat?
      | "withrow" :: i :: _ => i.toNat?
      | _ => none
    let isNew := op == "new"
    -- every template that existed before the call and is not the one called keeps its product
    let changed := (List.range prev.length).filter fun j =>
      some j != touched && prev[j]? != cur[j]?
    if !changed.isEmpty then
      return ⟨"P", s!"tfamily step {step} op [{op}]: the product of template {changed} changed (before [{prev}] after [{cur}]) violates C15: key=template-changed-without-a-builder-call-on-it"⟩
    if !isNew && cur.length != prev.length then
      return ⟨"B", "tfamily: template count changed"⟩
    prev := cur
    step := step + 1
  return ⟨"S", ""⟩

end Jl.Driver.AliasCase
