import Model.Codec
import Model.Cast

namespace Jl.Driver
open Jl

structure Result where
  tag : String      -- "S" same, "D" model differs, "P" property (spec) violated, "DP", "B" bad line
  detail : String

/-- Parse the `ext` field of a case: stdlib answers supplied by the harness. -/
def parseExt (field : String) : Ext :=
  let entries := if field == "-" then [] else toks field
  let kvs : List (String × String) := entries.filterMap fun e =>
    match e.splitOn "=" with
    | [k, v] => some (k, v)
    | _ => none
  let ff : List ((Nat × Nat) × Bytes) := kvs.filterMap fun (k, v) =>
    match k.splitOn ":" with
    | ["ff", b, bits] => do
      let b ← hexNat b
      let bits ← bits.toNat?
      let s ← unhex v
      pure ((b, bits), s)
    | _ => none
  let pf : List ((Bytes × Nat) × Option Nat) := kvs.filterMap fun (k, v) =>
    match k.splitOn ":" with
    | ["pf", s, bits] => do
      let s ← unhex s
      let bits ← bits.toNat?
      if v == "E" then pure ((s, bits), none) else do
        let b ← hexNat v
        pure ((s, bits), some b)
    | _ => none
  let zo : List (Int × Int) := kvs.filterMap fun (k, v) =>
    match k.splitOn ":" with
    | ["zo", s] => do
      let s ← s.toInt?
      let o ← v.toInt?
      pure (s, o)
    | _ => none
  let jf : List ((Nat × Nat) × Option Bytes) := kvs.filterMap fun (k, v) =>
    match k.splitOn ":" with
    | ["jf", b, bits] => do
      let b ← hexNat b
      let bits ← bits.toNat?
      if v == "E" then pure ((b, bits), none) else do
        let s ← unhex v
        pure ((b, bits), some s)
    | _ => none
  { jsonFloat := fun b bits => (jf.find? fun e => e.1 == (b, bits)).map (·.2),
    fmtFloat := fun b bits => (ff.find? fun e => e.1 == (b, bits)).map (·.2),
    parseFloat := fun s bits => (pf.find? fun e => e.1 == (s, bits)).map (·.2),
    zoneOffset := fun s => (zo.find? fun e => e.1 == s).map (·.2) }

def showOutcome : Outcome Dyn → String
  | .ok d => "ok " ++ d.show
  | .err e => "err " ++ e.name
  | .panic s => "panic " ++ s

/-- Parse an implementation result "ok <Dyn>" | "err <class>" | "panic …". -/
def parseOutcome (s : String) : Option (Outcome Dyn) :=
  if s.startsWith "ok " then (Dyn.parse? (dropS s 3)).map .ok
  else if s.startsWith "err " then
    let c := dropS s 4
    let cls : ErrClass :=
      if c == "cast" then .cast else if c == "syntax" then .syntax
      else if c == "unsupported-import" then .unsupportedImport
      else if c == "unsupported-export" then .unsupportedExport
      else if c == "unsupported-format" then .unsupportedFormat
      else if c == "path-not-found" then .pathNotFound
      else if c == "io" then .io else if c == "too-long" then .tooLong
      else if c == "marshal" then .marshal else .other
    some (.err cls)
  else if s.startsWith "panic" then some (.panic (dropS s 6))
  else none

end Jl.Driver
