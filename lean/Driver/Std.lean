/-
  Driver.Std — validation of the standard-library ports against the standard library.
  std \t <fn> \t <args> \t <result>
-/
import Driver.Common
import Model.IntText
import Model.Time
import Model.Float
import Model.Base64
import Model.JsonWrite

namespace Jl.Driver.Std
open Jl Jl.Driver

def unhexTok (s : String) : Option Bytes := if s == "-" then some [] else unhex s
def hexTok (b : Bytes) : String := if b.isEmpty then "-" else hexOf b

def showFVal : FVal → String
  | .nan => "nan"
  | .inf false => "inf+"
  | .inf true => "inf-"
  | .fin t frac neg => s!"fin {t} {frac} {neg}"

def model (fn : String) (args : List String) : Option String :=
  match fn, args with
  | "parseint", [s, bits] => do
    let s ← unhexTok s
    let bits ← bits.toNat?
    pure (match IntText.parseInt0 s bits with | some v => s!"ok {v}" | none => "err")
  | "parseuint", [s, bits] => do
    let s ← unhexTok s
    let bits ← bits.toNat?
    pure (match IntText.parseUint0 s bits with | some v => s!"ok {v}" | none => "err")
  | "parsebool", [s] => do
    let s ← unhexTok s
    pure (match IntText.parseBool s with | some b => s!"ok {b}" | none => "err")
  | "fmtint", [v] => do
    let v ← v.toInt?
    pure (hexOf (IntText.formatInt v))
  | "i2f64", [v] => do
    let v ← v.toInt?
    pure (natHex (Float.ofInt Float.f64 v) 16)
  | "i2f32", [v] => do
    let v ← v.toInt?
    pure (natHex (Float.ofInt Float.f32 v) 8)
  | "f64to32", [b] => do
    let b ← hexNat b
    pure (natHex (Float.f64to32 b) 8)
  | "f32to64", [b] => do
    let b ← hexNat b
    pure (natHex (Float.f32to64 b) 16)
  | "fval64", [b] => do
    let b ← hexNat b
    pure (showFVal (Float.toFVal Float.f64 b))
  | "fval32", [b] => do
    let b ← hexNat b
    pure (showFVal (Float.toFVal Float.f32 b))
  | "b64enc", [s] => do
    let s ← unhexTok s
    pure (hexTok (Base64.encode s))
  | "b64dec", [s] => do
    let s ← unhexTok s
    pure (match Base64.decode s with | some d => "ok " ++ hexTok d | none => "err")
  | "timeparse", [s] => do
    let s ← unhexTok s
    pure (match Time.parseRFC3339 s with | some t => s!"ok {t.sec} {t.nsec} {t.off}" | none => "err")
  | "dateparse", [s] => do
    let s ← unhexTok s
    pure (if Time.parseDateOk s then "ok" else "err")
  | "timefmt", [sec, off] => do
    let sec ← sec.toInt?
    let off ← off.toInt?
    let t : GoTime := ⟨sec, 0, off⟩
    pure (hexOf (Time.formatRFC3339 t) ++ " " ++ hexOf (Time.formatDate t) ++ " " ++ toString (Time.year t))
  | "quote", [s] => do
    let s ← unhexTok s
    pure (hexOf (JsonWrite.quote s))
  | _, _ => none

def runCase (fn args impl : String) : Result :=
  match model fn (toks args) with
  | none => ⟨"B", s!"std {fn}: cannot interpret [{args}]"⟩
  | some m => if m == impl then ⟨"S", ""⟩ else ⟨"D", s!"std {fn}({args}) stdlib [{impl}] port [{m}]"⟩

end Jl.Driver.Std
