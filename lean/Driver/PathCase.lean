/-
  Driver.PathCase — path (C18) and probe (C17) cases.
-/
import Driver.Line
import Model.Path

namespace Jl.Driver.PathCase
open Jl Jl.Driver Jl.Driver.Line Jl.Value Jl.Path

def rowOf (s : String) : Option (List (Bytes × Val)) :=
  match Val.parse? s with
  | some (.row ms) => some ms.toList
  | _ => none

def showGet (row : List (Bytes × Val)) (f : List (Bytes × Val) → Option Val) : String :=
  match f row with
  | some v => "v=" ++ v.show ++ " | raw=" ++ (Cells.raw v).show
  | none => "v=- | raw=-"

def showFind (r : Option (List Val)) : String :=
  match r with
  | none => "absent"
  | some vs => toString vs.length ++ (if vs.isEmpty then "" else " | " ++ " | ".intercalate (vs.map Val.show))

def runPath (rowS op pathS valS extS implS : String) : Result :=
  let env : Env := ⟨genTables, parseExt extS⟩
  match rowOf rowS, unhexTok pathS with
  | some row, some path =>
    if implS.startsWith "panic" then ⟨"P", s!"path {op} {pathS} on [{rowS}]: {implS} violates C18: key=panic"⟩ else
    let keys := splitDots path
    if op == "get" then
      let ms := showGet row (fun r => getValueAtPath r path)
      let ss := showGet row (fun r => navigate r keys)
      let d := ms != implS
      let p := ss != implS
      if !d && !p then ⟨"S", ""⟩
      else ⟨(if d then "D" else "") ++ (if p then "P" else ""),
        s!"get {pathS} on [{rowS}]: impl [{implS}] model [{ms}] key-by-key [{ss}]" ++ (if p then " violates C18: key=get-differs-from-navigation" else "")⟩
    else if op == "find" then
      let ms := showFind (findValuesAtPath row path)
      let ss := showFind (collect (path.length + 2) row keys)
      let d := ms != implS
      let p := ss != implS
      if !d && !p then ⟨"S", ""⟩
      else ⟨(if d then "D" else "") ++ (if p then "P" else ""),
        s!"find {pathS} on [{rowS}]: impl [{implS}] model [{ms}] collect [{ss}]" ++ (if p then " violates C18: key=find-differs-from-collection" else "")⟩
    else if op == "import" then
      match Dyn.parse? valS with
      | none => ⟨"B", "cannot parse value"⟩
      | some x =>
        match importAtPath env row path x with
        | .ok (row', e) =>
          let ms := "e=" ++ (match e with | some e => e.name | none => "-") ++ " | row=" ++ (Val.row (Members.ofList row')).show
          -- exactly the addressed value changes: every other top-level entry is untouched
          let d := ms != implS
          if !d then ⟨"S", ""⟩ else ⟨"D", s!"import {pathS} {valS} on [{rowS}]: impl [{implS}] model [{ms}]"⟩
        | .err .ext => ⟨"X", "model abstains"⟩
        | .err e => ⟨"D", s!"model error {e.name}"⟩
        | .panic s => ⟨"D", s!"model panic {s}"⟩
    else ⟨"B", s!"unknown path op {op}"⟩
  | _, _ => ⟨"B", s!"cannot parse row or path: {rowS}"⟩

/-- C17 probes: the observation is just "no panic". -/
def runProbe (what implS : String) : Result :=
  if implS.startsWith "panic" then ⟨"P", s!"{what}: {implS} violates C17: key=panic"⟩ else ⟨"S", ""⟩

end Jl.Driver.PathCase
