/-
  Driver.PathCase — path (C18) and probe (C17) cases.
-/
import Driver.Line
import Model.Path
import Model.Getters
import Model.CastSpec

namespace Jl.Driver.PathCase
open Jl Jl.Driver Jl.Driver.Line Jl.Value Jl.Path

def rowOf (s : String) : Option (List (Bytes × Val)) :=
  match Val.parse? s with
  | some (.row ms) => some ms.toList
  | _ => none

def showGet (row : List (Bytes × Val)) (f : List (Bytes × Val) → Option Val) : String :=
  match f row with
  | some v => "v=" ++ v.show ++ " | raw=" ++ (Cells.raw v).show
  | none => "v=- | raw=-"

def showFind (r : Option (List Val)) : String :=
  match r with
  | none => "absent"
  | some vs => toString vs.length ++ (if vs.isEmpty then "" else " | " ++ " | ".intercalate (vs.map Val.show))

/-- C18 `import_touches_only_addressed` on the implementation's own before/after rows: along the
    key path, everything but the addressed entry is unchanged (same keys in the same order, same
    cells); `fuel` bounds the depth. -/
def changedElsewhere : Nat → List (Bytes × Val) → List (Bytes × Val) → List Bytes → Bool
  | 0, _, _, _ => false
  | _, before, after, [] => (Val.row (Members.ofList before)).show != (Val.row (Members.ofList after)).show
  | fuel + 1, before, after, k :: rest =>
    before.map Prod.fst != after.map Prod.fst ||
    (before.zip after).any fun (b, a) =>
      if b.1 != k then b.2.show != a.2.show
      else if rest.isEmpty then false
      else
        match asRow b.2, asRow a.2 with
        | some sb, some sa => changedElsewhere fuel sb sa rest
        | _, _ => b.2.show != a.2.show

def runPath (rowS op pathS valS extS implS : String) : Result :=
  let env : Env := ⟨drvTables, parseExt extS⟩
  match rowOf rowS, unhexTok pathS with
  | some row, some path =>
    if implS.startsWith "panic" then ⟨"P", s!"path {op} {pathS} on [{rowS}]: {implS} violates C18: key=panic"⟩ else
    let keys := splitDots path
    if op == "get" then
      let ms := showGet row (fun r => getValueAtPath r path)
      let ss := showGet row (fun r => navigate r keys)
      let d := ms != implS
      let p := ss != implS
      if !d && !p then ⟨"S", ""⟩
      else ⟨(if d then "D" else "") ++ (if p then "P" else ""),
        s!"get {pathS} on [{rowS}]: impl [{implS}] model [{ms}] key-by-key [{ss}]" ++ (if p then " violates C18: key=get-differs-from-navigation" else "")⟩
    else if op == "find" then
      let ms := showFind (findValuesAtPath row path)
      let ss := showFind (collect (path.length + 2) row keys)
      let d := ms != implS
      let p := ss != implS
      if !d && !p then ⟨"S", ""⟩
      else ⟨(if d then "D" else "") ++ (if p then "P" else ""),
        s!"find {pathS} on [{rowS}]: impl [{implS}] model [{ms}] collect [{ss}]" ++ (if p then " violates C18: key=find-differs-from-collection" else "")⟩
    else if op == "import" then
      match Dyn.parse? valS with
      | none => ⟨"B", "cannot parse value"⟩
      | some x =>
        match importAtPath env row path x with
        | .ok (row', e) =>
          let ms := "e=" ++ (match e with | some e => e.name | none => "-") ++ " | row=" ++ (Val.row (Members.ofList row')).show
          -- exactly the addressed value changes: every other top-level entry is untouched
          let d := ms != implS
          let implRow : Option (List (Bytes × Val)) :=
            match implS.splitOn " | row=" with
            | [_, r] => rowOf r
            | _ => none
          let p : Option String :=
            match implRow with
            | some after => if changedElsewhere 16 row after keys then some "import-changed-another-cell" else none
            | none => none
          match d, p with
          | false, none => ⟨"S", ""⟩
          | true, none => ⟨"D", s!"import {pathS} {valS} on [{rowS}]: impl [{implS}] model [{ms}]"⟩
          | _, some c => ⟨(if d then "D" else "") ++ "P",
              s!"import {pathS} {valS} on [{rowS}]: impl [{implS}] model [{ms}] violates C18: key={c}"⟩
        | .err .ext => ⟨"X", "model abstains"⟩
        | .err e => ⟨"D", s!"model error {e.name}"⟩
        | .panic s => ⟨"D", s!"model panic {s}"⟩
    else ⟨"B", s!"unknown path op {op}"⟩
  | _, _ => ⟨"B", s!"cannot parse row or path: {rowS}"⟩

mutual
  /-- Equality of JSON trees up to the order of members (a Go map prints its keys sorted). -/
  def jvSame : Nat → JV → JV → Bool
    | 0, _, _ => true
    | _ + 1, .null, .null => true
    | _ + 1, .bool a, .bool b => a == b
    | _ + 1, .num a, .num b => a == b
    | _ + 1, .str a, .str b => a == b
    | f + 1, .arr a, .arr b => a.toList.length == b.toList.length && (a.toList.zip b.toList).all fun p => jvSame f p.1 p.2
    | f + 1, .obj a, .obj b =>
      let la := (LineSpec.normDup a).toList
      let lb := (LineSpec.normDup b).toList
      la.length == lb.length && la.all fun kv =>
        match lb.find? (fun kw => kw.1 == kv.1) with
        | some kw => jvSame f kv.2 kw.2
        | none => false
    | _ + 1, _, _ => false
end

/-- Key-by-key navigation of the PRINTED document: through objects only. -/
def navigateDoc : JV → List Bytes → Option JV
  | v, [] => some v
  | .obj ms, k :: ks =>
    match LineSpec.lookupJV (LineSpec.normDup ms) k with
    | some v => navigateDoc v ks
    | none => none
  | _, _ :: _ => none

/-- pathdoc \t C18 \t <hex of row.String()> \t <hex path> \t <found <hex of the Value's JSON> | absent>: what a
    dotted path finds against key-by-key navigation of the document as the row PRINTS it — an oracle that needs
    neither the model of rows nor the harness's encoding of them. Only what navigation of the printed document
    finds is demanded of the path (hidden cells are not printed). -/
def runPathDoc (docS pathS implS : String) : Result :=
  if implS.startsWith "panic" then ⟨"P", s!"pathdoc {pathS}: {implS} violates C18: key=panic"⟩ else
  match unhexTok docS, unhexTok pathS with
  | some doc, some path =>
    let (ms, okDoc) := Json.unmarshal doc
    if !okDoc then ⟨"X", "the row does not print as one object"⟩ else
    match navigateDoc (.obj ms) (splitDots path) with
    | none => ⟨"S", ""⟩
    | some dv =>
      match toks implS with
      | ["found", h] =>
        (match unhexTok h with
         | some js =>
           -- the value's own JSON, parsed as the member of a wrapper object
           let (wm, okW) := Json.unmarshal ([0x7B, 0x22, 0x76, 0x22, 0x3A] ++ js ++ [0x7D])
           (match okW, LineSpec.lookupJV wm [0x76] with
            | true, some rv =>
              if jvSame 64 dv rv then ⟨"S", ""⟩
              else ⟨"P", s!"pathdoc {pathS} on {docS}: the path finds {h}, navigation of the printed document finds another value violates C18: key=path-differs-from-printed-document"⟩
            | _, _ => ⟨"X", "the value found does not print as JSON"⟩)
         | none => ⟨"B", "cannot parse pathdoc value"⟩)
      | ["absent"] => ⟨"P", s!"pathdoc {pathS} on {docS}: the path finds nothing, navigation of the printed document finds a value violates C18: key=path-misses-printed-member"⟩
      | ["unprintable"] => ⟨"X", "the value found does not print"⟩
      | _ => ⟨"B", s!"cannot parse pathdoc observation: {implS}"⟩
  | _, _ => ⟨"B", "cannot parse pathdoc case"⟩

/-- getter \t C17 \t <row Val> \t <getter> \t K:<key> \t <ext> \t <impl Dyn | panic …>: a typed getter
    against the model; C17's oracle: no panic, and the result is of the getter's own type (the value or
    the zero value — absent or unconvertible data never surface any other way). -/
def runGetter (rowS name keyS extS implS : String) (prop : String := "C17") : Result :=
  let env : Env := ⟨drvTables, parseExt extS⟩
  if implS.startsWith "panic" then ⟨"P", s!"{name}({keyS}) on [{rowS}]: {implS} violates C17: key=panic"⟩ else
  match rowOf rowS, parseKey keyS, Dyn.parse? implS with
  | some row, some k, some impl =>
    match Getters.typedGet env name row k, Getters.table.lookup name with
    | some m, some (_, ty) =>
      let p : Option String :=
        if Cast.typeOf impl != ty then some "getter-result-of-another-type"
        else if prop == "C09" then
          -- an integer getter answers the integer the column carries when it fits the getter's type, the zero value
          -- otherwise — never a wrapped one
          match impl, (Value.lookup row k).map Cells.raw with
          | .int t r, some raw =>
            if r == 0 then none
            else (CastSpec.intCastViolation t raw (.ok impl)).map fun c => "getter-" ++ c
          | _, _ => none
        else none
      match m, p with
      | _, some c => ⟨"P", s!"{name}({keyS}) on [{rowS}]: impl [{implS}] violates {prop}: key={c}"⟩
      | .err .ext, none => ⟨"X", "model abstains"⟩
      | .ok r, none => if r.show == impl.show then ⟨"S", ""⟩
          else ⟨"D", s!"{name}({keyS}) on [{rowS}]: impl [{implS}] model [{r.show}]"⟩
      | .err e, none => ⟨"D", s!"{name}: model error {e.name}"⟩
      | .panic s, none => ⟨"D", s!"{name}: model panic {s}"⟩
    | _, _ => ⟨"B", s!"unknown getter {name}"⟩
  | _, _, _ => ⟨"B", s!"cannot parse getter case: {rowS} / {keyS} / {implS}"⟩

/-- C17 probes: the observation is just "no panic". -/
def runProbe (what implS : String) : Result :=
  if implS.startsWith "panic" then ⟨"P", s!"{what}: {implS} violates C17: key=panic"⟩ else ⟨"S", ""⟩

end Jl.Driver.PathCase
