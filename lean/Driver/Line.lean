/-
  Driver.Line — line / emit cases (C01, C02, C03, C04, C16 …).
-/
import Driver.Common
import Model.Base64
import Model.Time
import Model.CastMerge
import Model.Template
import Model.LineSpec

namespace Jl.Driver.Line
open Jl Jl.Driver Jl.Value Jl.Template

/-- Parse a template descriptor: T<n> (K:<hex> (F:<format>:<ty> | T<m> …))* -/
def parseTmpl (env : Env) : Nat → List String → Option (Tmpl × List String)
  | 0, _ => none
  | fuel + 1, tok :: rest =>
    if tok.startsWith "T" then do
      let n ← (dropS tok 1).toNat?
      let rec cols (fuel' : Nat) (n : Nat) (t : Tmpl) (rest : List String) : Option (Tmpl × List String) :=
        match fuel', n, rest with
        | _, 0, rest => some (t, rest)
        | 0, _, _ => none
        | f + 1, n + 1, ktok :: vtok :: rest' =>
          match parseKey ktok with
          | none => none
          | some k =>
            if vtok.startsWith "F:" then
              match vtok.splitOn ":" with
              | [_, fm, ty] =>
                match Format.ofName? fm, Ty.ofName? ty with
                | some fm, some ty => cols f n (withCol t k fm ty) rest'
                | _, _ => none
              | _ => none
            else
              match parseTmpl env fuel (vtok :: rest') with
              | some (sub, rest'') =>
                match withRow env t k sub with
                | .ok t' => cols f n t' rest''
                | _ => none
              | none => none
        | _, _, _ => none
      cols fuel n [] rest
    else none
  | _, [] => none

def tmplOf (env : Env) (s : String) : Option Tmpl :=
  let ts := toks s
  match parseTmpl env (ts.length + 2) ts with
  | some (t, []) => some t
  | _ => none

/-- The column declarations of a descriptor (specification side). -/
def parseCols : Nat → List String → Option (List LineSpec.Col × List String)
  | 0, _ => none
  | fuel + 1, tok :: rest =>
    if tok.startsWith "T" then do
      let n ← (dropS tok 1).toNat?
      let rec cols (fuel' : Nat) (n : Nat) (acc : List LineSpec.Col) (rest : List String) :
          Option (List LineSpec.Col × List String) :=
        match fuel', n, rest with
        | _, 0, rest => some (acc, rest)
        | 0, _, _ => none
        | f + 1, n + 1, ktok :: vtok :: rest' =>
          match parseKey ktok with
          | none => none
          | some k =>
            -- a later declaration of the same name replaces the earlier one in place
            let put (c : LineSpec.Col) : List LineSpec.Col :=
              if acc.any (fun x => x.name == k) then acc.map (fun x => if x.name == k then c else x)
              else acc ++ [c]
            if vtok.startsWith "F:" then
              match vtok.splitOn ":" with
              | [_, fm, ty] =>
                match Format.ofName? fm, Ty.ofName? ty with
                | some fm, some ty => cols f n (put (.leaf k fm ty)) rest'
                | _, _ => none
              | _ => none
            else
              match parseCols fuel (vtok :: rest') with
              | some (sub, rest'') => cols f n (put (.sub k sub)) rest''
              | none => none
        | _, _, _ => none
      cols fuel n [] rest
    else none
  | _, [] => none

def colsOf (s : String) : Option (List LineSpec.Col) :=
  let ts := toks s
  match parseCols (ts.length + 2) ts with
  | some (c, []) => some c
  | _ => none

def hexTok (b : Bytes) : String := if b.isEmpty then "-" else hexOf b
def unhexTok (s : String) : Option Bytes := if s == "-" then some [] else unhex s

/-- Render the model's outcome in the harness's format (without the write count). -/
def showLine : Outcome (Bytes × Option ErrClass) → String
  | .ok (b, none) => "ok " ++ hexTok b
  | .ok (_, some e) => "err " ++ e.name
  | .err e => "err " ++ e.name
  | .panic s => "panic " ++ s

structure Impl where
  ok : Bool
  cls : String
  bytes : Bytes
  writes : Nat
  panic : Bool

def parseImpl (s : String) : Option Impl :=
  match toks s with
  | ["ok", h, w] => do
    let b ← unhexTok h
    let n ← (dropS w 2).toNat?
    pure ⟨true, "", b, n, false⟩
  | ["err", c, w, h] => do
    let b ← unhexTok h
    let n ← (dropS w 2).toNat?
    pure ⟨false, c, b, n, false⟩
  | "panic" :: _ => some ⟨false, "panic", [], 0, true⟩
  | _ => none

/-- C01 on the implementation's observation: one complete write holding exactly one valid
    JSON object followed by a newline and no other newline; nothing at all on error. -/
def c01Violation (i : Impl) : Option String :=
  if i.panic then some "panic"
  else if i.ok then
    if i.writes != 1 then some "not-a-single-write"
    else
      match i.bytes.reverse with
      | 0x0A :: revBody =>
        let body := revBody.reverse
        if body.contains 0x0A then some "raw-newline-inside"
        else if !(Json.accepts body) then some "invalid-json-object"
        else none
      | _ => some "no-trailing-newline"
  else if i.writes != 0 || !i.bytes.isEmpty then some "bytes-written-on-error"
  else none

/-- The input AS THE EXPORTER RECEIVES IT when the importer has a template of its own: the importer's declared
    columns first, in declaration order (null when the line lacks them), then the line's other members in order
    of first appearance.  With the same names on both sides (the configuration the property speaks of) this changes
    nothing for `expectedKeys`: declared names are filtered out of the undeclared tail. -/
def asImported (tiCols : List LineSpec.Col) (inMs : JVMembers) : JVMembers :=
  let declared := LineSpec.dedup (tiCols.map LineSpec.Col.name)
  let first := declared.map fun n => (n, (LineSpec.lookupJV inMs n).getD .null)
  let rest := inMs.toList.filter fun kv => !declared.contains kv.1
  JVMembers.ofList (first ++ rest)

/-- C03 / C04 on an emitted line, given the rendering template's columns and the input. -/
def lineSpecViolation (prop : String) (cols : List LineSpec.Col) (input : Bytes) (i : Impl)
    (tiCols : List LineSpec.Col := []) : Option String :=
  if i.panic then some "panic"
  else if !i.ok then none
  else
    match i.bytes.reverse with
    | 0x0A :: revBody =>
      let (outMs, okOut) := Json.unmarshal revBody.reverse
      let (inMs, okIn) := Json.unmarshal input
      if !okOut then some "invalid-json-object"
      else if !okIn && prop == "C03" then some "accepted-invalid-input"   -- C04 judges the output alone
      else
        let rowIn := asImported tiCols (LineSpec.normDup inMs)
        let v := if prop == "C03" then LineSpec.orderViolation 8 cols rowIn outMs false
                 else LineSpec.classViolation 8 cols outMs
        match v with
        | none => if prop == "C03" then LineSpec.missingColumnViolation cols rowIn outMs else none
        | some (clause, inSub) => some (if inSub then "subrow-flatten:" ++ clause else clause)
    | _ => some "no-trailing-newline"

/-- C14 at column level (the generator declares date-time / timestamp columns only): every input
    member that is a date-time string with an explicit offset comes out as the same instant — and, when
    written as a date-time, with the same offset and no sub-second digits. -/
def c14LineViolation (input : Bytes) (i : Impl) : Option String :=
  if i.panic then some "panic"
  else if !i.ok then
    -- a readable date-time within years 0..9999 is not rejected
    let (inMs, okIn) := Json.unmarshal input
    if okIn && inMs.toList.all (fun kv => match kv.2 with
        | .str s => (match Time.parseRFC3339 s with
          | some t => let y := Time.year t; 0 ≤ y && y ≤ 9999 && t.off % 60 == 0 && t.off.natAbs < 86400
          | none => false)
        | _ => false) && !inMs.toList.isEmpty then some "explicit-offset-string-rejected"
    -- "an integer is read as Unix seconds": a line whose members are all integers 0 .. 253402214400 is not rejected
    else if okIn && !inMs.toList.isEmpty && inMs.toList.all (fun kv => match kv.2 with
        | .num s => (match IntText.parseInt0 s 64 with
          | some n => s == IntText.formatInt n && 0 ≤ n && n ≤ 253402214400
          | none => false)
        | _ => false) then some "integer-timestamp-rejected"
    else none
  else
    match i.bytes.reverse with
    | 0x0A :: revBody =>
      let (outMs, okOut) := Json.unmarshal revBody.reverse
      let (inMs, okIn) := Json.unmarshal input
      if !okOut || !okIn then some "invalid-json-object"
      else
        (LineSpec.normDup inMs).toList.foldl (fun (acc : Option String) kv =>
          match acc with
          | some _ => acc
          | none =>
            match kv.2 with
            | .str s =>
              match Time.parseRFC3339 s with
              | some want =>
                match LineSpec.lookupJV outMs kv.1 with
                | some (.str out) =>
                  (match Time.parseRFC3339 out with
                   | some back =>
                     if back.sec != want.sec then some "instant-changed"
                     else if back.off != want.off then some "offset-changed"
                     else if back.nsec != 0 then some "subsecond-not-dropped"
                     else none
                   | none => some "written-text-unreadable")
                | some (.num lit) =>
                  (match IntText.parseInt0 lit 64 with
                   | some v => if v == want.sec then none else some "timestamp-differs-from-instant"
                   | none => some "timestamp-not-an-integer")
                | _ => some "member-missing-or-wrong-type"
              | none => none
            | _ => none) none
    | _ => some "no-trailing-newline"

/-- Width in bytes of the fixed-width raw types (C11). -/
def fixedWidth : Ty → Option Nat
  | .int t => some (t.bits / 8)
  | .f64 => some 8
  | .f32 => some 4
  | .bool => some 1
  | _ => none

/-- C11 at line level: under a binary column declared with a fixed-width raw type an accepted line carries a
    payload of exactly that width (null apart), and the column re-emits the canonical base64 of the bytes it
    accepted. -/
def c11LineViolation (cols : List LineSpec.Col) (input : Bytes) (i : Impl) : Option String :=
  if i.panic then some "panic"
  else if !i.ok then none
  else
    match i.bytes.reverse with
    | 0x0A :: revBody =>
      let (outMs, okOut) := Json.unmarshal revBody.reverse
      let (inMs0, okIn) := Json.unmarshal input
      let inMs := LineSpec.normDup inMs0
      if !okOut || !okIn then some "invalid-json-object"
      else
        cols.findSome? fun c =>
          match c with
          | .leaf n .binary ty =>
            match fixedWidth ty, LineSpec.lookupJV inMs n with
            | some w, some (.str s) =>
              match Base64.decode s with
              | some b =>
                if b.length != w then some "wrong-size-accepted"
                else if ty == .bool && b != [0] && b != [1] then none   -- any non-zero byte reads as true
                else
                  match LineSpec.lookupJV outMs n with
                  | some (.str o) => if o == Base64.encode b then none else some "not-re-emitted-as-accepted"
                  | _ => some "member-missing-or-wrong-type"
              | none => some "invalid-base64-accepted"
            | _, _ => none
          | _ => none
    | _ => some "no-trailing-newline"

def oracle (prop : String) (cols : Option (List LineSpec.Col)) (input : Bytes) (i : Impl)
    (tiCols : List LineSpec.Col := []) : Option String :=
  if prop == "C11" then
    match cols with
    | some cols => c11LineViolation cols input i
    | none => none
  else
  if prop == "C01" then c01Violation i
  else if prop == "C03" || prop == "C04" then
    match cols with
    | some cols => lineSpecViolation prop cols input i tiCols
    | none => none
  else if prop == "C14" then c14LineViolation input i
  else if prop == "C16" then c01Violation i   -- a rejected line yields no output at all; an accepted one exactly one line
  else if prop == "C12" then c01Violation i   -- "non-finite floats never produce a number that marshals": a valid line or nothing
  else if i.panic then some "panic" else none

def judge (prop : String) (what : String) (m : Outcome (Bytes × Option ErrClass)) (implS : String)
    (cols : Option (List LineSpec.Col) := none) (input : Bytes := []) (tiCols : List LineSpec.Col := []) : Result :=
  match parseImpl implS with
  | none => ⟨"B", s!"cannot parse impl observation: {implS}"⟩
  | some i =>
    let ms := showLine m
    let is := if i.panic then "panic" else if i.ok then "ok " ++ hexTok i.bytes else "err " ++ i.cls
    let abstain := ms == "err EXT"
    -- the command route (jl binary) reports a rejected line without its error class: `err any`
    let d := if i.cls == "any" && !i.ok && !i.panic then !(ms.startsWith "err ") else ms != is
    let p := oracle prop cols input i tiCols
    match d, p with
    | false, none => ⟨"S", ""⟩
    | true, none =>
      if abstain then ⟨"X", s!"{what}: model abstains"⟩ else ⟨"D", s!"{what} impl [{is}] model [{ms}]"⟩
    | _, some c =>
      let tag := (if d && !abstain then "D" else "") ++ "P"
      ⟨tag, s!"{what} impl [{implS}] model [{ms}] violates {prop}: key={c}"⟩

def runLine (prop tiS toS lineS extS implS : String) : Result :=
  let env : Env := ⟨drvTables, parseExt extS⟩
  match tmplOf env tiS, tmplOf env toS, unhexTok lineS with
  | some ti, some to, some line =>
    judge prop s!"line ti=[{tiS}] to=[{toS}] in={lineS}" (jlLine env ti to line) implS (colsOf toS) line
      (if prop == "C03" then (colsOf tiS).getD [] else [])
  | _, _, _ => ⟨"B", "cannot parse templates or line"⟩

/-- `shortw`: a row exported to a writer that takes only part of the line. Oracle (C01: "reaches the writer as one
    complete write"): exactly one slice is offered, it is the whole line the model writes, and a short write is a
    failed export. -/
def runShortWrite (toS valS extS implS : String) : Result :=
  let env : Env := ⟨drvTables, parseExt extS⟩
  if implS.startsWith "panic" then ⟨"P", s!"shortw to=[{toS}] v=[{valS}]: {implS} violates C01: key=panic"⟩ else
  match tmplOf env toS, Dyn.parse? valS with
  | some to, some v =>
    let fields := (toks implS).filterMap fun t => match t.splitOn "=" with | [k, x] => some (k, x) | _ => none
    let get (k : String) : Option String := (fields.find? fun kv => kv.1 == k).map Prod.snd
    match (get "calls").bind String.toNat?, get "ret", get "short", (get "first").bind unhexTok with
    | some calls, some ret, some short, some first =>
      let p : Option String :=
        if calls > 1 then some "line-offered-in-pieces"
        else if short == "true" && ret == "ok" then some "short-write-unreported"
        else none
      match exportLine env to v with
      | .ok (b, none) =>
        let d := calls != 1 || first != b
        (match d, p with
         | false, none => ⟨"S", ""⟩
         | true, none => ⟨"D", s!"shortw to=[{toS}] v=[{valS}]: impl [{implS}] model [one write of {hexTok b}]"⟩
         | _, some c => ⟨(if d then "D" else "") ++ "P", s!"shortw to=[{toS}] v=[{valS}]: impl [{implS}] violates C01: key={c}"⟩)
      | .ok (_, some _) =>
        if calls == 0 then ⟨"S", ""⟩ else ⟨"P", s!"shortw to=[{toS}] v=[{valS}]: impl [{implS}] violates C01: key=bytes-written-for-a-row-that-does-not-render"⟩
      | .err .ext => (match p with | some c => ⟨"P", s!"shortw: impl [{implS}] violates C01: key={c}"⟩ | none => ⟨"X", "model abstains"⟩)
      | _ => ⟨"D", "shortw: model error"⟩
    | _, _, _, _ => ⟨"B", s!"cannot parse shortw observation: {implS}"⟩
  | _, _ => ⟨"B", "cannot parse shortw case"⟩

def runEmit (prop toS valS extS implS : String) : Result :=
  let env : Env := ⟨drvTables, parseExt extS⟩
  match tmplOf env toS, Dyn.parse? valS with
  | some to, some v =>
    -- JSON text handed to Export: the emitted line is judged against the rendering template (C03, C04)
    match v with
    | .str line => judge prop s!"emit to=[{toS}] v=[{valS}]" (exportLine env to v) implS (colsOf toS) line
    | .bytes line => judge prop s!"emit to=[{toS}] v=[{valS}]" (exportLine env to v) implS (colsOf toS) line
    | _ =>
      -- a Go value (row, map, slice …): the lexical classes of what is emitted are judged all the same (C04)
      if prop == "C04" then judge prop s!"emit to=[{toS}] v=[{valS}]" (exportLine env to v) implS (colsOf toS) []
      else judge prop s!"emit to=[{toS}] v=[{valS}]" (exportLine env to v) implS
  | _, _ => ⟨"B", "cannot parse template or value"⟩

mutual
  def jvEq : JV → JV → Bool
    | .null, .null => true
    | .bool a, .bool b => a == b
    | .num a, .num b => a == b
    | .str a, .str b => a == b
    | .arr a, .arr b => jvEqL a b
    | .obj a, .obj b => jvEqM a b
    | _, _ => false
  def jvEqL : JVList → JVList → Bool
    | .nil, .nil => true
    | .cons a as, .cons b bs => jvEq a b && jvEqL as bs
    | _, _ => false
  def jvEqM : JVMembers → JVMembers → Bool
    | .nil, .nil => true
    | .cons k a as, .cons k' b bs => k == k' && jvEq a b && jvEqM as bs
    | _, _ => false
end

/-- C02 on one in-domain line: accepted; the output denotes the same ordered tree (strings
    decoded, number literals verbatim); writing is a fixed point. -/
def c02Violation (input : Bytes) (first : Impl) (second : Option Impl) : Option String :=
  if first.panic then some "panic"
  else if !first.ok then some "valid-object-rejected"
  else
    match first.bytes.reverse with
    | 0x0A :: rb =>
      let out := rb.reverse
      let (inMs, okIn) := Json.unmarshal input
      let (outMs, okOut) := Json.unmarshal out
      if !okIn then some "generator-produced-invalid-input"
      else if !okOut then some "output-not-a-json-object"
      else if !(jvEqM inMs outMs) then some "tree-changed"
      else
        match second with
        | none => some "second-pass-missing"
        | some s2 => if s2.ok && s2.bytes == first.bytes then none else some "not-a-fixed-point"
    | _ => some "no-trailing-newline"

def runRoundTrip (lineS domS extS firstS secondS : String) : Result :=
  let env : Env := ⟨drvTables, parseExt extS⟩
  match unhexTok lineS, parseImpl firstS with
  | some line, some first =>
    let second := if secondS == "-" then none else parseImpl secondS
    let m1 := jlLine env [] [] line
    let ms1 := showLine m1
    let is1 := if first.panic then "panic" else if first.ok then "ok " ++ hexTok first.bytes else "err " ++ first.cls
    let m2s : String :=
      match m1 with
      | .ok (b, none) =>
        (match b.reverse with
         | 0x0A :: rb => showLine (jlLine env [] [] rb.reverse)
         | _ => "-")
      | _ => "-"
    let is2 := match second with
      | none => "-"
      | some s2 => if s2.panic then "panic" else if s2.ok then "ok " ++ hexTok s2.bytes else "err " ++ s2.cls
    let same (m i : String) : Bool := if i == "err any" then m.startsWith "err " else m == i
    let d := !(same ms1 is1) || !(same m2s is2)
    let p := if domS == "1" then c02Violation line first second else (if first.panic then some "panic" else none)
    match d, p with
    | false, none => ⟨"S", ""⟩
    | true, none => ⟨"D", s!"rtrip in={lineS} impl [{is1} / {is2}] model [{ms1} / {m2s}]"⟩
    | _, some c => ⟨(if d then "D" else "") ++ "P", s!"rtrip in={lineS} impl [{is1} / {is2}] model [{ms1} / {m2s}] violates C02: key={c}"⟩
  | _, _ => ⟨"B", "cannot parse rtrip case"⟩

/-- accept \t C16 \t ti \t line \t ext \t "<ok|err cls|panic> rownil=<b> agree=<b>" \t "govalid=<b>" -/
def runAccept (tiS lineS extS implS goS : String) : Result :=
  let env : Env := ⟨drvTables, parseExt extS⟩
  match tmplOf env tiS, unhexTok lineS with
  | some ti, some line =>
    let its := toks implS
    let implOk := its.head? == some "ok"
    let implPanic := its.head? == some "panic"
    let rownil := its.contains "rownil=1"
    let agree := its.contains "agree=1"
    let nextOk := !(its.contains "next=0")
    let goValid := goS == "govalid=1"
    let recognised := Json.accepts line
    let m := getRow env ti line
    let mOk : Option Bool := match m with
      | .ok (_, none) => some true
      | .ok (_, some _) => some false
      | .err .ext => none
      | .err _ => some false
      | .panic _ => some false
    -- the recogniser itself against encoding/json (model validation)
    if recognised != goValid then
      ⟨"D", s!"recogniser disagrees with encoding/json on {lineS}: model {recognised} go {goValid}"⟩
    else if implPanic then ⟨"P", s!"accept {lineS}: panic violates C16: key=panic"⟩
    else
      -- "whose declared columns convert", judged without the cast tables where the hand-written calendar suffices:
      -- a text under a date column that is neither a day the calendar has nor an integer does not convert
      let badDate : Bool := implOk && recognised &&
        (match colsOf tiS with
         | some cols =>
           let inMs := LineSpec.normDup (Json.unmarshal line).1
           cols.any fun c =>
             match c with
             | .leaf n .date .none =>   -- with a raw type the column converts with cast.To(T, ·), not as a date
               (match LineSpec.lookupJV inMs n with
                | some (.str s) => !(Time.parseDateOk s) && (IntText.parseInt0 s 64).isNone
                | _ => false)
             | _ => false
         | none => false)
      -- …and a number whose magnitude no float32 has (strconv: a finite float64, a range error at 32 bits) under a
      -- column declared float32 does not convert: there is no float32 to hold — whatever the format (every format but
      -- binary hands the text or the number to cast.To(float32, ·))
      let badFloat : Bool := implOk && recognised &&
        (match colsOf tiS with
         | some cols =>
           let inMs := LineSpec.normDup (Json.unmarshal line).1
           cols.any fun c =>
             match c with
             | .leaf n f .f32 =>
               f != .binary &&
               (match LineSpec.lookupJV inMs n with
                | some (.str t) | some (.num t) =>
                  (match env.ext.parseFloat t 64, env.ext.parseFloat t 32 with
                   | some (some b64), some none => (b64 / 2 ^ 52) % 2048 != 2047
                   | _, _ => false)
                | _ => false)
             | _ => false
         | none => false)
      if badFloat then ⟨"P", s!"accept ti=[{tiS}] {lineS}: impl [{implS}] violates C16: key=accepted-number-no-float32-holds"⟩ else
      if badDate then ⟨"P", s!"accept ti=[{tiS}] {lineS}: impl [{implS}] violates C16: key=accepted-unconvertible-date"⟩ else
      match mOk with
      | none => ⟨"X", "model abstains"⟩
      | some mo =>
        let d := mo != implOk
        -- C16: accepted iff one valid object whose declared columns convert; a rejected line yields no row
        let p : Option String :=
          if implOk && !recognised then some "accepted-invalid-text"
          else if !implOk && recognised && tiS == "T0" then some "rejected-valid-object"
          else if !implOk && !rownil then some "partially-filled-row-returned"
          else if !agree then some "entry-points-disagree"
          else if !nextOk then some "next-line-not-as-alone"
          else none
        match d, p with
        | false, none => ⟨"S", ""⟩
        | true, none => ⟨"D", s!"accept ti=[{tiS}] {lineS}: impl {implOk} model {mo}"⟩
        | _, some c => ⟨(if d then "D" else "") ++ "P", s!"accept ti=[{tiS}] {lineS}: impl [{implS}] model {mo} violates C16: key={c}"⟩
  | _, _ => ⟨"B", "cannot parse accept case"⟩

end Jl.Driver.Line
