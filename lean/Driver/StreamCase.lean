/-
  Driver.StreamCase — stream (C07, C08) and scan (scanner port validation) cases.
-/
import Driver.Line
import Model.Stream

namespace Jl.Driver.StreamCase
open Jl Jl.Driver Jl.Driver.Line Jl.Value Jl.Template Jl.Scanner Jl.Stream

def parseReader (s : String) : Option (List ReadEv) :=
  if s == "-" then some []
  else (toks s).mapM fun t =>
    if t == "e" then some .err
    else if t == "z" then some .empty
    else if t.startsWith "d:" then (unhexTok (dropS t 2)).map .data
    else if t.startsWith "de:" then (unhexTok (dropS t 3)).map .dataErr
    else none

def parseWriter (s : String) : Option (List WriteEv) :=
  if s == "-" then some []
  else (toks s).mapM fun t =>
    if t == "ok" then some .ok
    else if t == "fail" then some .fail
    else if t == "full" then some (.short 1000000000)   -- all bytes written, an error returned all the same
    else if t.startsWith "short:" then (dropS t 6).toNat?.map .short
    else none

def parseProc (s : String) : Option Proc :=
  if s == "default" then some .default
  else if s == "tolerant" then some .tolerant
  else if s.startsWith "failat:" then (dropS s 7).toNat?.map .failAt
  else none

def clsName : Option ErrClass → String
  | none => "-"
  | some e => e.name

def showObs (o : Obs) : String :=
  let calls := if o.calls.isEmpty then "-" else
    ",".intercalate (o.calls.map fun (b, e) => (if b then "1" else "0") ++ ":" ++ clsName e)
  let writes := if o.writes.isEmpty then "none" else ";".intercalate (o.writes.map hexTok)
  s!"ret={clsName o.ret} calls={calls} writes={writes}"

/-- Parse an implementation observation back into an `Obs` (classes by name). -/
def parseObs (s : String) : Option (Option String × List (Bool × String) × List Bytes) :=
  match toks s with
  | [r, c, w] => do
    let ret := dropS r 4
    let callsS := dropS c 6
    let writesS := dropS w 7
    let calls ← if callsS == "-" then some [] else
      (callsS.splitOn ",").mapM fun t =>
        match t.splitOn ":" with
        | [b, e] => some (b == "1", e)
        | _ => none
    let writes ← if writesS == "none" then some [] else (writesS.splitOn ";").mapM unhexTok
    pure (if ret == "-" then none else some ret, calls, writes)
  | _ => none

/-- All bytes the reader would deliver and whether it fails (non-EOF error). -/
def readerBytes (evs : List ReadEv) : Bytes × Bool :=
  evs.foldl (fun (acc : Bytes × Bool) ev =>
    if acc.2 then acc else
    match ev with
    | .data b => (acc.1 ++ b, false)
    | .dataErr b => (acc.1 ++ b, true)
    | .err => (acc.1, true)
    | .empty => acc) ([], false)

def completeLine (b : Bytes) : Bool :=
  match b.reverse with
  | 0x0A :: rb => let body := rb.reverse; !body.contains 0x0A && Json.accepts body
  | _ => false

/-- Does the byte stream hold a line that cannot be delivered: `n` bytes before its LF (or before
    the end of input) with `n + 1 > maxSize`? -/
def hasOverLongLine (maxSize : Nat) (bs : Bytes) : Bool :=
  let (run, found) := bs.foldl (fun (acc : Nat × Bool) c =>
    if acc.2 then acc
    else if c == 0x0A then (0, acc.1 + 1 > maxSize)
    else (acc.1 + 1, false)) (0, false)
  found || run + 1 > maxSize

/-- C08 on the implementation's observation. -/
def c08Violation (revs : List ReadEv) (wevs : List WriteEv) (proc : Proc) (maxSize : Nat)
    (ret : Option String) (calls : List (Bool × String)) (writes : List Bytes) : Option String :=
  let (_, readerFails) := readerBytes revs
  -- a reader failure is reported as what it is (C08 `failure_reported`: a call carrying the scanner's
  -- error class), unless the stream had already been stopped by the processor or by an earlier
  -- fatal error (then `ret` is set); an unrelated error of an earlier line does not count
  let reported := ret.isSome || calls.any (fun c => c.2 == "io" || c.2 == "too-long" || c.2 == "no-progress")
  if readerFails && !reported then some "reader-failure-swallowed"
  else if !readerFails && hasOverLongLine maxSize (readerBytes revs).1 && !reported then some "oversize-line-swallowed"
  else
    -- writes: every write before the first failing one is a complete line
    let failIdx : Option Nat := wevs.findIdx? fun w => match w with | .ok => false | _ => true
    let nOk := match failIdx with | some i => min i writes.length | none => writes.length
    if !((writes.take nOk).all completeLine) then some "incomplete-line-written"
    else
      match failIdx, proc with
      | some i, .default =>
        -- the write failure is fatal under the default processor: nothing is written after it
        if writes.length > i + 1 then some "write-after-fatal-failure"
        else if writes.length == i + 1 && ret.isNone then some "write-failure-swallowed"
        else none
      | _, _ => none

/-- The command route: `jl` fed with the reader's bytes on its standard input (or with an unreadable one when
    the script is a lone error). Its processor logs every error it is handed and carries on, so from outside one
    sees the bytes on standard output, the number of logged line failures, whether the streamer's own failure
    was logged, and the exit status:  `jl exit=<n> nerr=<k> failed=<k> out=<hex>`. -/
def runStreamJl (prop tiS toS readerS extS implS : String) : Result :=
  let env : Env := ⟨drvTables, parseExt extS⟩
  match tmplOf env tiS, tmplOf env toS, parseReader readerS with
  | some ti, some to, some revs =>
    let fields := (toks implS).filterMap fun t => match t.splitOn "=" with | [k, v] => some (k, v) | _ => none
    let get (k : String) : Option String := (fields.find? fun kv => kv.1 == k).map Prod.snd
    match (get "exit").bind String.toNat?, (get "nerr").bind String.toNat?, (get "failed").bind String.toNat?,
        (get "out").bind unhexTok with
    | some exit, some nerr, some failed, some out =>
      let cfg : Cfg := ⟨env, ti, to, .tolerant, 65536, 10485760⟩
      let (bytes, readerFails) := readerBytes revs
      let reported := exit != 0 || nerr > 0 || failed > 0
      let p : Option String :=
        if prop == "C07" then
          -- one outcome per line, in order, each a function of that line alone: what reaches standard output and
          -- how many lines were refused are those of the per-line outcomes folded through a processor that
          -- carries on (the command's own), whatever the logging context
          if readerFails || hasOverLongLine cfg.maxSize bytes then none
          else
            match Stream.specObs cfg bytes with
            | .ok sobs =>
              let sOut := sobs.writes.foldl (· ++ ·) []
              let sErr := (sobs.calls.filter fun c => c.2.isSome).length
              if exit != 0 || failed > 0 then some "command-failed-on-a-readable-stream"
              else if sOut != out || sErr != nerr then some "outcomes-differ-from-per-line-outcomes"
              else none
            | _ => none
        else if prop != "C08" && prop != "C19" then none
        else if readerFails && !reported then some "reader-failure-swallowed"
        else if !readerFails && hasOverLongLine cfg.maxSize bytes && !reported then some "oversize-line-swallowed"
        else none
      match Stream.stream cfg revs [] with
      | .ok mobs =>
        let mOut := mobs.writes.foldl (· ++ ·) []
        let mErr := (mobs.calls.filter fun c => c.2.isSome).length
        let d := exit != 0 || mOut != out || mErr != nerr
        -- every failure is reported, the one that ends the input included: fewer failures logged than lines (and
        -- ends) that failed means that one of them — the last one, the undeliverable line — went unreported
        let p := p.orElse fun _ =>
          if prop == "C08" && exit == 0 && (readerFails || hasOverLongLine cfg.maxSize bytes) && nerr + failed < mErr
          then some (if readerFails then "reader-failure-swallowed" else "oversize-line-swallowed") else none
        (match d, p with
         | false, none => ⟨"S", ""⟩
         | true, none => ⟨"D", s!"stream via jl r=[{readerS}] impl [{implS}] model [nerr={mErr} out={hexTok mOut}]"⟩
         | _, some c => ⟨(if d then "D" else "") ++ "P",
             s!"stream via jl ti=[{tiS}] to=[{toS}] r=[{readerS}] impl [{implS}] model [nerr={mErr} out={hexTok mOut}] violates {prop}: key={c}"⟩)
      | _ =>
        (match p with
         | some c => ⟨"P", s!"stream via jl ti=[{tiS}] to=[{toS}] r=[{readerS}] impl [{implS}] model [abstains] violates {prop}: key={c}"⟩
         | none => ⟨"X", "model abstains"⟩)
    | _, _, _, _ => ⟨"B", s!"cannot parse jl observation: {implS}"⟩
  | _, _, _ => ⟨"B", "cannot parse stream case"⟩

def runStream (prop tiS toS procS readerS writerS extS implS : String) : Result :=
  if procS == "jl" then runStreamJl prop tiS toS readerS extS implS else
  let env : Env := ⟨drvTables, parseExt extS⟩
  match tmplOf env tiS, tmplOf env toS, parseProc procS, parseReader readerS, parseWriter writerS with
  | some ti, some to, some proc, some revs, some wevs =>
    if implS.startsWith "panic" then ⟨"P", s!"stream: {implS} violates {prop}: key=panic"⟩ else
    let cfg : Cfg := ⟨env, ti, to, proc, 65536, 10485760⟩
    match Stream.stream cfg revs wevs, parseObs implS with
    | _, none => ⟨"B", s!"cannot parse impl obs: {implS}"⟩
    | .err .ext, some (ret, calls, writes) =>
      -- the model cannot compute this stream; C08's oracle needs the implementation's observation only
      (match (if prop == "C08" then c08Violation revs wevs proc cfg.maxSize ret calls writes else none) with
       | some c => ⟨"P", s!"stream ti=[{tiS}] to=[{toS}] proc={procS} r=[{readerS}] w=[{writerS}] impl [{implS}] model [abstains] violates {prop}: key={c}"⟩
       | none => ⟨"X", "model abstains"⟩)
    | .err e, _ => ⟨"D", s!"model error {e.name}"⟩
    | .panic s, _ => ⟨"D", s!"model panic {s}"⟩
    | .ok mobs, some (ret, calls, writes) =>
      let ms := showObs mobs
      let d := ms != implS
      let p : Option String :=
        if prop == "C08" then
          (c08Violation revs wevs proc cfg.maxSize ret calls writes).orElse fun _ =>
            -- without any fault: success is returned only after every line has had its outcome
            let (bytes, fails) := readerBytes revs
            if fails || !wevs.isEmpty || ret.isSome || hasOverLongLine cfg.maxSize bytes then none
            else
              match Stream.specObs cfg bytes with
              | .ok sobs => if sobs.writes == writes then none else some "unprocessed-input-discarded"
              | _ => none
        else if prop == "C07" || prop == "C12" || prop == "C13" || prop == "C16" then
          let (bytes, fails) := readerBytes revs
          if fails || !wevs.isEmpty then none
          else
            match Stream.specObs cfg bytes with
            | .ok sobs => if showObs sobs == implS then none else some "outcomes-differ-from-per-line-outcomes"
            | _ => none
        else none
      match d, p with
      | false, none => ⟨"S", ""⟩
      | true, none => ⟨"D", s!"stream proc={procS} r=[{readerS}] w=[{writerS}] impl [{implS}] model [{ms}]"⟩
      | _, some c => ⟨(if d then "D" else "") ++ "P",
          s!"stream ti=[{tiS}] to=[{toS}] proc={procS} r=[{readerS}] w=[{writerS}] impl [{implS}] model [{ms}] violates {prop}: key={c}"⟩
  | _, _, _, _, _ => ⟨"B", "cannot parse stream case"⟩

def runScan (sizesS readerS implS : String) : Result :=
  match toks sizesS, parseReader readerS with
  | [i, m], some revs =>
    match i.toNat?, m.toNat? with
    | some initSize, some maxSize =>
      let rec go (fuel : Nat) (st : St) (acc : List String) : List String × St :=
        match fuel with
        | 0 => (acc, st)
        | fuel + 1 =>
          match scan initSize maxSize (st.script.length * 103 + st.buf.length + 210) st with
          | (some t, st') => go fuel st' (acc ++ [hexTok t ++ "/" ++ (if (errOf st').isSome then "1" else "0")])
          | (none, st') => (acc, st')
      let (tokens, st) := go 1000 (Scanner.init initSize revs) []
      let fin := match errOf st with
        | none => "-" | some .io => "io" | some .tooLong => "too-long" | some .noProgress => "no-progress"
      let ms := "toks=" ++ (if tokens.isEmpty then "none" else ",".intercalate tokens) ++ " err=" ++ fin
      if ms == implS then ⟨"S", ""⟩ else ⟨"D", s!"scan {sizesS} [{readerS}] bufio [{implS}] port [{ms}]"⟩
    | _, _ => ⟨"B", "bad sizes"⟩
  | _, _ => ⟨"B", "cannot parse scan case"⟩

end Jl.Driver.StreamCase
