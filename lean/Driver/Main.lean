/-
  Driver.Main — line-protocol driver. Reads protocol lines (harness output) on stdin and
  prints one verdict line per case:
    S                    model = implementation and the property's oracle holds
    D \t detail          the model's observation differs from the implementation's
    P \t detail          the specification/oracle is violated by the implementation's observation
    DP \t detail         both
    B \t reason          the line could not be interpreted (a harness/driver defect, never a verdict)
-/
import Driver.C06
import Driver.Cast
import Driver.Std
import Driver.Line
import Driver.StreamCase
import Driver.PathCase
import Driver.AliasCase
import Driver.TimeCase
import Driver.TypedCase
import Driver.JlCase
import Driver.MapToCase

open Jl

def runLine (line : String) : Driver.Result :=
  match line.splitOn "\t" with
  | ["c06", ops, obs] => DriverC06.runCase ops obs
  | ["cast", prop, callee, src, ext, impl] => Driver.CastCase.runCase prop callee src ext impl
  | ["rt", prop, via, src, ext, text, back] => Driver.CastCase.runRT prop via src ext text back
  | ["line", prop, ti, to, line, ext, impl] => Driver.Line.runLine prop ti to line ext impl
  | ["rtrip", _, line, dom, ext, first, second] => Driver.Line.runRoundTrip line dom ext first second
  | ["accept", _, ti, line, ext, impl, go] => Driver.Line.runAccept ti line ext impl go
  | ["stream", prop, ti, to, proc, reader, writer, ext, impl] =>
    Driver.StreamCase.runStream prop ti to proc reader writer ext impl
  | ["path", _, row, op, path, val, ext, impl] => Driver.PathCase.runPath row op path val ext impl
  | ["pathdoc", _, doc, path, impl] => Driver.PathCase.runPathDoc doc path impl
  | ["probe", _, what, impl] => Driver.PathCase.runProbe what impl
  | ["jl", _, defs, stdin, ext, y, i, o, l] => Driver.JlCase.runCase defs stdin ext y i o l
  | ["jlbad", _, what, run] => Driver.JlCase.runBad what run
  | ["jlkeep", _, what, a, b] => Driver.JlCase.runKeep what a b
  | ["getter", prop, row, name, key, ext, impl] => Driver.PathCase.runGetter row name key ext impl prop
  | ["faultaccept", _, line, cut, how, impl] =>
    -- C16: a fragment delivered before a read failure is not a line of the input
    if impl.startsWith "ok" then ⟨"P", s!"faultaccept {line} cut={cut} {how}: impl [{impl}] violates C16: key=accepted-fragment-of-a-failed-read"⟩
    else if impl.startsWith "panic" then ⟨"P", s!"faultaccept {line} cut={cut}: {impl} violates C16: key=panic"⟩
    else ⟨"S", ""⟩
  | ["mapto", _, op, row, target, ext, impl] => Driver.MapToCase.runMapTo op row target ext impl
  | ["numtext", _, text, exported, marshalled] =>
    -- C12: a valid JSON number held as TEXT by an untyped Numeric column is exported as that literal (a json.Number)
    -- and marshalled as it is: no digit is lost on the way (the model: ToNumber of a string validates and keeps it)
    (match Jl.Driver.Line.unhexTok text with
     | none => ⟨"B", "numtext: bad text"⟩
     | some t =>
       let want := (Dyn.num t).show
       if !JsonWrite.isValidNumber t then ⟨"S", ""⟩
       else if exported != want then
         ⟨"P", s!"numtext {text}: exported [{exported}] marshalled [{marshalled}] violates C12: key=numeric-text-not-exported-verbatim"⟩
       else if marshalled != text then
         ⟨"P", s!"numtext {text}: exported [{exported}] marshalled [{marshalled}] violates C12: key=numeric-text-not-written-verbatim"⟩
       else ⟨"S", ""⟩)
  | ["tfamily", _, ops, obs] => Driver.AliasCase.runFamily ops obs
  | ["overlong", _, size, tail, impl] =>
    -- C16: the bytes of a line that could not be delivered (longer than the importer's limit) are not lines of the
    -- input: the complete object they end with must never come out as an accepted row
    if impl.startsWith "panic" then ⟨"P", s!"overlong {size}: {impl} violates C16: key=panic"⟩
    else if (impl.splitOn (":ok:" ++ tail)).length > 1 then
      ⟨"P", s!"overlong line of {size} bytes ending in {tail}: impl [{impl}] violates C16: key=accepted-remainder-of-an-undeliverable-line"⟩
    else ⟨"S", ""⟩
  | ["imp", prop, f, ty, src, ext, impl] => Driver.TypedCase.runImp prop f ty src ext impl
  | ["setcol", prop, f, ty, src, ext, impl] => Driver.TypedCase.runSetCol prop f ty src ext impl
  | ["typed", _, f, ty, src, ext, w, b1, b2] => Driver.TypedCase.runTyped f ty src ext w b1 b2
  | ["typedl", _, f, ty, src, ext, w, b1, b2] => Driver.TypedCase.runTyped f ty src ext w b1 b2 true
  | ["twice", _, zone, ti, to, line, ext, first, second] => Driver.TypedCase.runTwice zone ti to line ext first second ""
  | ["twice", _, zone, ti, to, line, ext, first, second, hint] => Driver.TypedCase.runTwice zone ti to line ext first second hint
  | ["timert", _, zone, src, ext, s1, s2, s3, s4] => Driver.TimeCase.runCase zone src ext s1 s2 s3 s4
  | ["alias", prop, tmpl, ops, ext, obs] => Driver.AliasCase.runCase tmpl ops ext obs prop
  | ["conc", _, tmpl, cfg, impl] =>
    if impl == "same" then ⟨"S", ""⟩
    else ⟨"P", s!"conc {cfg} template [{tmpl}]: {impl} violates C20: key=results-differ-from-sequential"⟩
  | ["scan", sizes, reader, impl] => Driver.StreamCase.runScan sizes reader impl
  | ["shortw", _, to, val, ext, impl] => Driver.Line.runShortWrite to val ext impl
  | ["emit", prop, to, val, ext, impl] => Driver.Line.runEmit prop to val ext impl
  | ["std", fn, args, impl] => Driver.Std.runCase fn args impl
  | kind :: _ => ⟨"B", s!"unknown case kind or arity: {kind}"⟩
  | [] => ⟨"B", "empty line"⟩

partial def loop (h : IO.FS.Stream) (out : IO.FS.Stream) (n : Nat) : IO Unit := do
  let line ← h.getLine
  if line.isEmpty then return ()
  let line := if line.endsWith "\n" then (line.dropEnd 1).toString else line
  let r := runLine line
  if r.tag == "S" then out.putStrLn "S" else out.putStrLn s!"{r.tag}\t{n}\t{r.detail}"
  loop h out (n + 1)

def main : IO Unit := do
  let stdin ← IO.getStdin
  let stdout ← IO.getStdout
  loop stdin stdout 1
