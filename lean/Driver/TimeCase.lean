/-
  Driver.TimeCase — timert cases (C14).
-/
import Driver.Common
import Model.CastMerge

namespace Jl.Driver.TimeCase
open Jl Jl.Driver

/-- C14 on one case, judged on the implementation's results with the ported parser as the
    reading of texts. -/
def c14Violation (src : Dyn) (toTime toStr toTs toTs2 : Option (Outcome Dyn)) : Option String :=
  let text : Option Bytes := match src with | .str s => some s | .bytes s => some s | _ => none
  match text.bind Time.parseRFC3339 with
  | some want =>
    -- a date-time string with an explicit offset
    match toTime with
    | some (.ok (.time t)) =>
      if t.sec != want.sec then some "instant-changed-on-read"
      else if t.off != want.off then some "offset-changed-on-read"
      else
        let y := Time.year t
        match toStr with
        | some (.ok (.str out)) =>
          (match Time.parseRFC3339 out with
           | some back =>
             if back.sec != want.sec then some "instant-changed-on-write"
             else if back.off != want.off then some "offset-changed-on-write"
             else if back.nsec != 0 then some "subsecond-not-dropped"
             else match toTs, toTs2 with
               | some (.ok (.int .i64 a)), some (.ok (.int .i64 b)) =>
                 if a == want.sec && b == want.sec then none else some "timestamp-differs-from-instant"
               | _, _ => some "timestamp-conversion-failed"
           | none => if 0 ≤ y && y ≤ 9999 && want.off % 60 == 0 && want.off.natAbs < 86400 then some "written-text-unreadable" else none)
        | some (.err _) => if 0 ≤ y && y ≤ 9999 then some "write-rejected" else none
        | _ => some "write-failed"
    | some (.panic _) => some "panic"
    | _ => some "explicit-offset-string-rejected"
  | none =>
    match src with
    | .int _ v =>
      -- an integer is read as Unix seconds, and denotes the same instant in every zone
      match toTime with
      | some (.ok (.time t)) =>
        if t.sec != v then some "integer-not-read-as-unix-seconds"
        else match toTs2 with
          | some (.ok (.int .i64 b)) => if b == v then none else some "timestamp-of-datetime-differs"
          | _ => some "timestamp-conversion-failed"
      | some (.panic _) => some "panic"
      | _ => if v.natAbs < 2 ^ 62 then some "integer-rejected" else none
    | _ => match toTime with | some (.panic _) => some "panic" | _ => none

def runCase (zone srcS extS s1 s2 s3 s4 : String) : Result :=
  match Dyn.parse? srcS with
  | none => ⟨"B", s!"cannot parse source {srcS}"⟩
  | some src =>
    let ext := parseExt extS
    let po (s : String) : Option (Outcome Dyn) := if s == "-" then none else parseOutcome s
    let m1 := Cast.castNamed drvTables ext "ToTime" src
    let (m2, m4) : String × String :=
      match m1 with
      | .ok .nil => ("-", "-")
      | .ok t => (showOutcome (Cast.castNamed drvTables ext "ToString" t), showOutcome (Cast.castNamed drvTables ext "ToTimestamp" t))
      | _ => ("-", "-")
    let m3 := Cast.castNamed drvTables ext "ToTimestamp" src
    let ms := showOutcome m1 ++ " / " ++ m2 ++ " / " ++ showOutcome m3 ++ " / " ++ m4
    let norm (s : String) : String := match po s with | some o => showOutcome o | none => "-"
    let is := norm s1 ++ " / " ++ norm s2 ++ " / " ++ norm s3 ++ " / " ++ norm s4
    let abstain := (ms.splitOn "err EXT").length > 1
    let d := ms != is
    let p := c14Violation src (po s1) (po s2) (po s3) (po s4)
    match d, p with
    | false, none => ⟨"S", ""⟩
    | true, none => if abstain then ⟨"X", "model abstains"⟩ else ⟨"D", s!"time {zone} {srcS}: impl [{is}] model [{ms}]"⟩
    | _, some c => ⟨(if d && !abstain then "D" else "") ++ "P", s!"time {zone} {srcS}: impl [{is}] model [{ms}] violates C14: key={c}"⟩

end Jl.Driver.TimeCase
