/-
  Driver.JlCase — jl cases (C19).
-/
import Driver.StreamCase
import Model.Jl

namespace Jl.Driver.JlCase
open Jl Jl.Driver Jl.Driver.Line Jl.Value Jl.Template Jl.JlCmd Jl.Stream

def unhexDash (s : String) : Option Bytes := if s == "-" then some [] else unhex s

/-- D<n> (K:<hex> (L:<in>:<out> | D<m> …))* -/
def parseDefs : Nat → List String → Option (List ColDef × List String)
  | 0, _ => none
  | fuel + 1, tok :: rest =>
    if tok.startsWith "D" then do
      let n ← (dropS tok 1).toNat?
      let rec cols (f : Nat) (n : Nat) (acc : List ColDef) (rest : List String) : Option (List ColDef × List String) :=
        match f, n, rest with
        | _, 0, rest => some (acc, rest)
        | 0, _, _ => none
        | f + 1, n + 1, ktok :: vtok :: rest' =>
          match parseKey ktok with
          | none => none
          | some k =>
            if vtok.startsWith "L:" then
              match vtok.splitOn ":" with
              | [_, i, o] =>
                match unhexDash i, unhexDash o with
                | some i, some o => cols f n (acc ++ [.leaf k i o]) rest'
                | _, _ => none
              | _ => none
            else
              match parseDefs fuel (vtok :: rest') with
              | some (sub, rest'') => cols f n (acc ++ [.sub k sub]) rest''
              | none => none
        | _, _, _ => none
      cols fuel n [] rest
    else none
  | _, [] => none

def defsOf (s : String) : Option (List ColDef) :=
  let ts := toks s
  match parseDefs (ts.length + 2) ts with
  | some (d, []) => some d
  | _ => none

/-- What jl prints: the bytes written, and the number of per-line errors logged (processor
    calls carrying an error). -/
def showRun (o : Outcome Obs) : String :=
  match o with
  | .ok obs =>
    let out := obs.writes.foldl (· ++ ·) []
    let nerr := (obs.calls.filter fun c => c.2.isSome).length
    s!"exit=0 out={hexTok out} nerr={nerr}"
  | .err e => "model-error " ++ e.name
  | .panic s => "model-panic " ++ s

def runCase (defsS stdinS extS yamlS inlineS overS libS : String) : Result :=
  let env : Env := ⟨drvTables, parseExt extS⟩
  match defsOf defsS, unhexTok stdinS with
  | some cols, some stdin =>
    let viaYaml := ofYaml env 16 cols
    let viaInline := createTemplate env [.leaf [0x7A, 0x7A, 0x7A] [] [0x6E], .leaf [0x61] [] [0x68]] (some cols)
    let run (t : Outcome (Tmpl × Tmpl)) : String :=
      match t with
      | .ok (ti, to) =>
        showRun (Stream.stream ⟨env, ti, to, .tolerant, 65536, 10485760⟩ [.data stdin] [])
      | _ => "model-template-error"
    let my := run viaYaml
    let mi := run viaInline
    let abstain := my == "model-error EXT" || mi == "model-error EXT"
    -- C19 on the four runs of the implementation
    let p : Option String :=
      if yamlS != inlineS then some "yaml-and-inline-differ"
      else if overS != inlineS then some "inline-does-not-replace-file"
      else if libS != yamlS then some "cli-differs-from-library"
      else if !(yamlS.startsWith "exit=0 ") then some "data-errors-changed-exit-status"
      else none
    let d := my != yamlS || mi != inlineS
    match d, p with
    | false, none => ⟨"S", ""⟩
    | true, none => if abstain then ⟨"X", "model abstains"⟩ else
        ⟨"D", s!"jl defs=[{defsS}] stdin={stdinS}: impl yaml [{yamlS}] inline [{inlineS}] model yaml [{my}] inline [{mi}]"⟩
    | _, some c => ⟨(if d && !abstain then "D" else "") ++ "P",
        s!"jl defs=[{defsS}] stdin={stdinS}: yaml [{yamlS}] inline [{inlineS}] inline-over-file [{overS}] library [{libS}] model [{my}] violates C19: key={c}"⟩
  | _, _ => ⟨"B", "cannot parse jl case"⟩

/-- A malformed template: exit non-zero and no data. -/
def runBad (what runS : String) : Result :=
  if runS.startsWith "exit=0 " then ⟨"P", s!"jl with malformed template ({what}): [{runS}] violates C19: key=malformed-template-exit-zero"⟩
  else if !((runS.splitOn " out=- ").length > 1) then ⟨"P", s!"jl with malformed template ({what}): [{runS}] violates C19: key=malformed-template-emitted-data"⟩
  else ⟨"S", ""⟩

def runKeep (what aS bS : String) : Result :=
  if aS == bS && aS.startsWith "exit=0 " then ⟨"S", ""⟩
  else ⟨"P", s!"jl -t {what}: [{aS}] differs from the file definition [{bS}] violates C19: key=empty-inline-does-not-keep-file"⟩

end Jl.Driver.JlCase
