/-
  Driver.C06 — replays one C06 history on the code-shaped model (LRow) and on the
  specification (OMap) and renders the observations exactly as harness/c06.go does.
-/
import Model.Codec
import Model.Row
import Model.JsonRead
import Model.Cells
import Model.Value
import Model.CastMerge
import Model.RowPrint
import Driver.Common

namespace Jl.DriverC06
open Jl

abbrev Op := RowOp Val Dyn

def parseInt? (s : String) : Option Int := s.toInt?

/-- Parse one op from its tokens. -/
def parseOp (ts : List String) : Option Op :=
  match ts with
  | "set" :: k :: rest => do
    let k ← parseKey k
    let (v, r) ← parseDyn (2 * rest.length + 2) rest
    if r.isEmpty then pure (.set k v) else none
  | "setat" :: i :: rest => do
    let i ← parseInt? i
    let (v, r) ← parseDyn (2 * rest.length + 2) rest
    if r.isEmpty then pure (.setAt i v) else none
  | "setv" :: k :: rest => do
    let k ← parseKey k
    let (v, r) ← parseVal (2 * rest.length + 2) rest
    if r.isEmpty then pure (.setValue k v) else none
  | "setvat" :: i :: rest => do
    let i ← parseInt? i
    let (v, r) ← parseVal (2 * rest.length + 2) rest
    if r.isEmpty then pure (.setValueAt i v) else none
  | "iak" :: k :: rest => do
    let k ← parseKey k
    let (v, r) ← parseDyn (2 * rest.length + 2) rest
    if r.isEmpty then pure (.importAtKey k v) else none
  | "iai" :: i :: rest => do
    let i ← parseInt? i
    let (v, r) ← parseDyn (2 * rest.length + 2) rest
    if r.isEmpty then pure (.importAtIndex i v) else none
  | "islice" :: n :: rest => do
    let n ← n.toNat?
    let (xs, r) ← parseDynList (2 * rest.length + 2) n rest
    if r.isEmpty then pure (.importSlice xs.toList) else none
  | "imap" :: n :: rest => do
    let n ← n.toNat?
    let (m, r) ← parseDynMap (2 * rest.length + 2) n rest
    if r.isEmpty then pure (.importMap m.toList) else none
  | ["um", h] => do
    let bs ← unhex h
    let (ms, _) := Json.unmarshal bs
    pure (.unmarshal (ms.toList.map fun (k, v) => (k, Cells.ofJV v)))
  | "nop" :: _ => pure (.importSlice [])   -- something happened next to the row (a clone grew): nothing for the row
  | ["um"] => do
    let (ms, _) := Json.unmarshal []
    pure (.unmarshal (ms.toList.map fun (k, v) => (k, Cells.ofJV v)))
  | _ => none

/-- `um` reports a syntax error when the text is not accepted even if no import failed. -/
def syntaxError (ts : List String) : Bool :=
  match ts with
  | ["um", h] => match unhex h with
    | some bs => !(Json.accepts bs)
    | none => true
  | ["um"] => true
  | _ => false

def alphabet : List Bytes :=
  [[], [0x61], [0x61, 0x62], [0x62], [0xC3, 0xA9], [0x61, 0x2E, 0x62], [0x7A, 0x7A],
   [0x61, 0x5C, 0x75, 0x30, 0x30, 0x36, 0x32], [0x43, 0x3A, 0x5C, 0x74, 0x65, 0x6D, 0x70]]

def renderEntries (es : List (Bytes × Option Val)) : String :=
  " ".intercalate (es.map fun (k, v) =>
    "K:" ++ hexOf k ++ " " ++ (match v with | some v => v.show | none => "NILVALUE"))

mutual
  /-- The member names of a JSON value at every depth, in order: `{6b{…},6b2}`, `[…,…]`, nothing for a scalar. -/
  def skelJV : JV → String
    | .arr xs => "[" ++ ",".intercalate (skelList xs) ++ "]"
    | .obj ms => "{" ++ ",".intercalate (skelMembers ms) ++ "}"
    | _ => ""
  def skelList : JVList → List String
    | .nil => []
    | .cons x xs => skelJV x :: skelList xs
  def skelMembers : JVMembers → List String
    | .nil => []
    | .cons k v ms => (hexOf k ++ skelJV v) :: skelMembers ms
end

/-- What `MarshalJSON` of the row shows of the member order at EVERY depth (nested objects and arrays under the
    row's keys included): the skeleton of the text the model of the writer produces for these entries. -/
def deepOrder (entries : List (Bytes × Option Val)) : Option String :=
  let ms := Members.ofList (entries.filterMap fun (k, v) => v.map fun v => (k, v))
  match RowPrint.marshalRow ⟨drvTables, Ext.empty⟩ ms with
  | .ok bs =>
    let (tree, ok) := Json.unmarshal bs
    if ok then some (skelJV (.obj tree)) else some "UNREADABLE"
  | _ => none

/-- Observation of a row state given through its three readers. -/
def observe (err : String) (len : Nat) (entries : List (Bytes × Option Val))
    (get : Bytes → Option Val) (at_ : Int → Option Val) : String :=
  let has := String.join (alphabet.map fun k => if (get k).isSome then "1" else "0")
  let gets := " , ".intercalate (alphabet.map fun k =>
    match get k with | some v => (Cells.raw v).show | none => "-")
  let idxs : List Int := (List.range (len + 2)).map fun (i : Nat) => (Int.ofNat i) - 1
  let ats := " , ".intercalate (idxs.map fun i =>
    match at_ i with | some v => v.show | none => "-")
  let visible := entries.filter fun (_, v) =>
    match v with | some v => Cells.format v != Format.hidden | none => true
  let jk := s!"{visible.length}:" ++ ",".intercalate (visible.map fun (k, _) => hexOf k)
  let js := match deepOrder entries with | some d => s!" | js={d}" | none => ""
  s!"e={err} | len={len} | it={renderEntries entries} | has={has} | get={gets} | at={ats} | jk={jk}{js}"

def errName (syn : Bool) : Option ErrClass → String
  | some e => e.name
  | none => if syn then "syntax" else "-"

def observeL (r : LRow Val) (err : String) : String :=
  observe err r.len r.iter r.getValue r.getValueAt

def observeO (o : OMap Val) (err : String) : String :=
  observe err o.length (o.map fun (k, v) => (k, some v)) (OMap.lookup o)
    (fun i => OMap.lookup o (OMap.keyAt o i))

open Jl.Driver (Result)

/-- Cells with a declared raw type (casts can fail in `Set`, conversions in `Import`): the cell
    operations of `Model.Value` over the regenerated cast tables. The generator keeps floats and
    times out of these histories, so no standard-library answer is needed; should one be needed
    all the same, the cell is marked and the case abstains. -/
def poison : Val := .cell (.other 424242) .auto .none

def env0 : Value.Env := ⟨drvTables, Ext.empty⟩

def vops : CellOps Val Dyn ErrClass :=
  { newCell := Cells.newCell, autoCell := Cells.autoCell,
    setExisting := fun c x =>
      if c.show == poison.show then poison else
      match Value.setExisting env0 c x with
      | .ok c' => c'
      | _ => poison,
    importInto := fun c x =>
      if c.show == poison.show then (poison, none) else
      match Value.importVal env0 c x with
      | .ok r => r
      | _ => (poison, none) }

def splitOn2 (s : String) (sep : String) : List String := s.splitOn sep

/-- One protocol line: fields after the kind. -/
def runCase (opsField obsField : String) : Result := Id.run do
  let opStrs := if opsField.isEmpty then [] else opsField.splitOn " ; "
  let obs := if obsField.isEmpty then [] else obsField.splitOn " ## "
  if opStrs.length != obs.length then
    return ⟨"B", s!"ops/obs count mismatch {opStrs.length} {obs.length}"⟩
  let mut r : LRow Val := LRow.empty
  let mut o : OMap Val := []
  let mut step := 0
  for (os, ob) in opStrs.zip obs do
    if (ob.splitOn "panic").length > 1 || (ob.splitOn "PANIC").length > 1 then
      return ⟨"P", s!"step {step} op [{os}] impl [{ob}] violates C06: key=panic"⟩
    let ts := toks os
    match parseOp ts with
    | none => return ⟨"B", s!"step {step}: cannot parse op: {os}"⟩
    | some op =>
      let syn := syntaxError ts
      let (r', e) := r.step vops op
      let (o', e') := OMap.step vops o op
      r := r'
      o := o'
      if r'.iter.any (fun (_, v) => match v with | some v => v.show == poison.show | none => false) then
        return ⟨"X", s!"step {step} op [{os}]: model abstains (standard-library answer needed)"⟩
      if ob == "skip" then
        step := step + 1
        continue
      let mo := observeL r (errName syn e)
      let so := observeO o (errName syn e')
      -- a cell with a format or raw type that converts may refuse to be written (boolean cell holding
      -- "soon"): serialisation then fails as a whole and shows no order; the other readers are compared
      let converts := r.iter.any fun (_, v) =>
        match v with
        | some (.cell _ f t) => (f != Format.auto && f != Format.hidden) || t != Ty.none
        | _ => false
      let cut (x : String) : String := if converts && ob.endsWith "| jk=ERR" then (x.splitOn " | jk=").headD x else x
      let d := cut mo != cut ob
      let p := cut so != cut ob
      if d || p then
        let tag := (if d then "D" else "") ++ (if p then "P" else "")
        return ⟨tag, s!"step {step} op [{os}] impl [{ob}] model [{mo}] spec [{so}]"⟩
    step := step + 1
  return ⟨"S", ""⟩

end Jl.DriverC06
