/-
  Driver.MapToCase — `mapto` cases (C17): Row.MapTo against Model.MapTo over the regenerated cast
  tables, and LcFirst against the model's port.

    mapto \t C17 \t call    \t <row Val> \t <target> \t <ext> \t <impl>
    mapto \t C17 \t lcfirst \t <hex name> \t -       \t -     \t <impl: ok <hex> | panic …>

    target := notptr | nilptr | ptrnonstruct | struct <n> (F:<hex name>:<kind>:<0|1> <Dyn>)*
    impl   := ok ( | <Dyn>)* (every field after the call, in order) | ok untouched | ok changed | panic …

  Verdicts: P (key=panic) when the implementation panicked — C17's oracle, whatever the model says;
  D when the model's target after the call differs from the implementation's; X when the model
  abstains (a first rune of a field name outside its port of unicode.ToLower); S otherwise.
-/
import Driver.PathCase
import Model.MapTo

namespace Jl.Driver.MapToCase
open Jl Jl.Driver Jl.Driver.Line Jl.MapTo

def parseFields : Nat → List String → Option (List Field)
  | 0, [] => some []
  | 0, _ :: _ => none
  | _ + 1, [] => none
  | n + 1, ftok :: rest =>
    match ftok.splitOn ":" with
    | ["F", nameHex, kind, b] => do
      let name ← unhexTok nameHex
      let k ← FieldKind.ofName? kind
      let (d, rest) ← parseDyn (2 * rest.length + 2) rest
      let fs ← parseFields n rest
      pure (⟨name, k, b == "1", d⟩ :: fs)
    | _ => none

def parseTarget (s : String) : Option Target :=
  match toks s with
  | ["notptr"] => some .notPointer
  | ["nilptr"] => some .nilPointer
  | ["ptrnonstruct"] => some .pointerToNonStruct
  | "struct" :: n :: rest => do
    let n ← n.toNat?
    let fs ← parseFields n rest
    pure (.pointerToStruct fs)
  | _ => none

def showTarget : Target → String
  | .pointerToStruct fs => "ok" ++ String.join (fs.map fun f => " | " ++ f.current.show)
  | _ => "ok untouched"

def runMapTo (op rowS targetS extS implS : String) : Result :=
  if implS.startsWith "panic" then
    ⟨"P", s!"MapTo {op} [{targetS}] on [{rowS}]: {implS} violates C17: key=panic"⟩
  else if op == "lcfirst" then
    match unhexTok rowS with
    | none => ⟨"B", s!"cannot parse lcfirst name {rowS}"⟩
    | some name =>
      match lcFirst name with
      | none => ⟨"X", "model abstains (first rune outside the ported range of unicode.ToLower)"⟩
      | some k =>
        let ms := "ok " ++ hexTok k
        if ms == implS then ⟨"S", ""⟩ else ⟨"D", s!"LcFirst({rowS}): impl [{implS}] model [{ms}]"⟩
  else if op == "call" then
    match PathCase.rowOf rowS, parseTarget targetS with
    | some row, some t =>
      match mapTo drvTables (parseExt extS) row t with
      | .ok t' =>
        let ms := showTarget t'
        if ms == implS then ⟨"S", ""⟩
        else ⟨"D", s!"MapTo [{targetS}] on [{rowS}]: impl [{implS}] model [{ms}]"⟩
      | .err .ext => ⟨"X", "model abstains"⟩
      | .err e => ⟨"D", s!"MapTo [{targetS}] on [{rowS}]: impl [{implS}] model error {e.name}"⟩
      | .panic s => ⟨"D", s!"MapTo [{targetS}] on [{rowS}]: impl [{implS}] model panic {s}"⟩
    | _, _ => ⟨"B", s!"cannot parse mapto case: [{rowS}] [{targetS}]"⟩
  else ⟨"B", s!"unknown mapto op {op}"⟩

end Jl.Driver.MapToCase
