/-
  Driver.Cast — cast cases:  cast \t <prop> \t <callee> \t <src> \t <ext> \t <impl result>
-/
import Driver.Common
import Model.CastMerge
import Model.CastSpec

namespace Jl.Driver.CastCase
open Jl Jl.Driver

def modelResult (ext : Ext) (callee : String) (src : Dyn) : Option (Outcome Dyn) :=
  if callee.startsWith "To:" then
    (Ty.ofName? (dropS callee 3)).map fun t => Cast.castTo drvTables ext t src
  else some (Cast.castNamed drvTables ext callee src)

/-- The Ty a callee promises. -/
def promised (callee : String) : Option Ty :=
  if callee.startsWith "To:" then Ty.ofName? (dropS callee 3) else resultTyOfCaster? callee

def oracle (prop callee : String) (src : Dyn) (impl : Outcome Dyn) : Option String :=
  if prop == "C09" then
    match intOfCaster? callee with
    | some t => CastSpec.intCastViolation t src impl
    | none =>
      -- cast.To(sample of an integer type, v): the same statement through the dispatcher
      match promised callee with
      | some (.int t) => CastSpec.intCastViolation t src impl
      | _ => none
  else if prop == "C10" then
    match promised callee with
    | some .none => none
    | some t => CastSpec.typedViolation t src impl
    | none => none
  else if prop == "C11" then CastSpec.binaryViolation callee (promised callee) src impl
  else none

/-- The exact integer value of a number held by a carrier outside the supported set (`cv=` token of the
    ext field, written by the harness for such sources only). -/
def carriedValue (extS : String) : Option Int :=
  (toks extS).findSome? fun t => if t.startsWith "cv=" then (dropS t 3).toInt? else none

/-- C09 for a carrier outside the supported set: refusing it is fine; accepting it commits to its value —
    the result is the integer of the target type with exactly that value, never a wrapped one. -/
def carrierViolation (t : IntTy) (n : Int) (impl : Outcome Dyn) : Option String :=
  match impl with
  | .err _ => none
  | .panic _ => some "panic"
  | .ok (.int t' v) =>
    if t' != t then some "wrong-result-type"
    else if v != n then some "carried-value-changed"
    else if !(t.inRange v) then some "out-of-range-result"
    else none
  | .ok _ => some "wrong-result-type"

def runCase (prop callee srcS extS implS : String) : Result :=
  match Dyn.parse? srcS, parseOutcome implS with
  | some src, some impl =>
    let ext := parseExt extS
    match modelResult ext callee src with
    | none => ⟨"B", s!"unknown callee {callee}"⟩
    | some m =>
      let ms := showOutcome m
      let is := showOutcome impl
      let isPanic := match impl with | .panic _ => true | _ => false
      let d := if isPanic then !(ms.startsWith "panic") else ms != is
      let p0 := oracle prop callee src impl
      let p := match p0, prop == "C09", src, carriedValue extS with
        | none, true, .other _, some n =>
          (match (intOfCaster? callee).orElse (fun _ => match promised callee with | some (.int t) => some t | _ => none) with
           | some t => carrierViolation t n impl
           | none => none)
        | _, _, _, _ => p0
      let abstain := ms == "err EXT"
      match d, p with
      | false, none => ⟨"S", ""⟩
      | true, none => if abstain then ⟨"X", s!"{callee}({srcS}): model abstains (stdlib answer outside its domain)"⟩
                      else ⟨"D", s!"{callee}({srcS}) impl [{implS}] model [{ms}]"⟩
      | _, _ =>
        let tag := (if d then "D" else "") ++ (if p.isSome then "P" else "")
        ⟨tag, s!"{callee}({srcS}) impl [{implS}] model [{ms}]" ++
          (match p with | some c => s!" violates {prop}: key={c}" | none => "")⟩
  | none, _ => ⟨"B", s!"cannot parse source: {srcS}"⟩
  | _, none => ⟨"B", s!"cannot parse impl result: {implS}"⟩

/-- rt \t C12 \t <via> \t <src> \t <ext> \t <impl text> \t <impl back> -/
def runRT (prop via srcS extS textS backS : String) : Result :=
  match Dyn.parse? srcS, parseOutcome textS with
  | some src, some implText =>
    let implBack : Option (Outcome Dyn) := if backS == "-" then none else parseOutcome backS
    if backS != "-" && implBack.isNone then ⟨"B", s!"cannot parse back result: {backS}"⟩ else
    let ext := parseExt extS
    let mText := Cast.castNamed drvTables ext via src
    let mBack : Option (Outcome Dyn) :=
      match mText with
      | .ok t => some (Cast.castTo drvTables ext (Cast.typeOf src) t)
      | _ => none
    let ms := showOutcome mText ++ " / " ++ (match mBack with | some b => showOutcome b | none => "-")
    let is := showOutcome implText ++ " / " ++ (match implBack with | some b => showOutcome b | none => "-")
    let d := ms != is
    let p := if prop == "C12" then CastSpec.renderViolation via src implText implBack else none
    match d, p with
    | false, none => ⟨"S", ""⟩
    | _, _ =>
      let tag := (if d then "D" else "") ++ (if p.isSome then "P" else "")
      ⟨tag, s!"{via}({srcS}) and back: impl [{is}] model [{ms}]" ++
        (match p with | some c => s!" violates {prop}: key={c}" | none => "")⟩
  | none, _ => ⟨"B", s!"cannot parse source: {srcS}"⟩
  | _, none => ⟨"B", s!"cannot parse impl text: {textS}"⟩

end Jl.Driver.CastCase
