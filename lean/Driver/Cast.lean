/-
  Driver.Cast — cast cases:  cast \t <prop> \t <callee> \t <src> \t <ext> \t <impl result>
-/
import Driver.Common
import Model.CastGen
import Model.CastSpec

namespace Jl.Driver.CastCase
open Jl Jl.Driver

def modelResult (ext : Ext) (callee : String) (src : Dyn) : Option (Outcome Dyn) :=
  if callee.startsWith "To:" then
    (Ty.ofName? (dropS callee 3)).map fun t => Cast.castTo genTables ext t src
  else some (Cast.castNamed genTables ext callee src)

/-- The Ty a callee promises. -/
def promised (callee : String) : Option Ty :=
  if callee.startsWith "To:" then Ty.ofName? (dropS callee 3) else resultTyOfCaster? callee

def oracle (prop callee : String) (src : Dyn) (impl : Outcome Dyn) : Option String :=
  if prop == "C09" then
    match intOfCaster? callee with
    | some t => CastSpec.intCastViolation t src impl
    | none => none
  else if prop == "C10" then
    match promised callee with
    | some .none => none
    | some t => CastSpec.typedViolation t src impl
    | none => none
  else none

def runCase (prop callee srcS extS implS : String) : Result :=
  match Dyn.parse? srcS, parseOutcome implS with
  | some src, some impl =>
    let ext := parseExt extS
    match modelResult ext callee src with
    | none => ⟨"B", s!"unknown callee {callee}"⟩
    | some m =>
      let ms := showOutcome m
      let is := showOutcome impl
      let isPanic := match impl with | .panic _ => true | _ => false
      let d := if isPanic then !(ms.startsWith "panic") else ms != is
      let p := oracle prop callee src impl
      match d, p with
      | false, none => ⟨"S", ""⟩
      | _, _ =>
        let tag := (if d then "D" else "") ++ (if p.isSome then "P" else "")
        ⟨tag, s!"{callee}({srcS}) impl [{implS}] model [{ms}]" ++
          (match p with | some c => s!" violates {prop}: key={c}" | none => "")⟩
  | none, _ => ⟨"B", s!"cannot parse source: {srcS}"⟩
  | _, none => ⟨"B", s!"cannot parse impl result: {implS}"⟩

end Jl.Driver.CastCase
