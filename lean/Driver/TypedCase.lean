/-
  Driver.TypedCase — typed (C13) and twice (C05) cases.
-/
import Driver.Line
import Model.Tables
import Model.CastSpec

namespace Jl.Driver.TypedCase
open Jl Jl.Driver Jl.Driver.Line Jl.Value Jl.Template

def showO (o : Outcome Dyn) : String := showOutcome o

def runTyped (fS tyS srcS extS writtenS back1S back2S : String) (oracleOnly : Bool := false) : Result :=
  match Format.ofName? fS, Ty.ofName? tyS, Dyn.parse? srcS with
  | some f, some ty, some v =>
    let env : Env := ⟨drvTables, parseExt extS⟩
    let key : Bytes := [0x63]
    let t : Tmpl := withCol [] key f ty
    -- model: CreateRow(map) -> MarshalJSON -> CreateRowEmpty -> UnmarshalJSON -> Get
    let mWritten : Outcome Bytes :=
      match createRow env t (.gomap (.cons key v .nil)) with
      | .ok (row, none) => RowPrint.marshalRow env (Members.ofList row)
      | .ok (_, some e) => .err e
      | .err e => .err e
      | .panic s => .panic s
    let mBack : Option (Outcome Dyn) :=
      match mWritten with
      | .ok b =>
        match createRowEmpty env t with
        | .ok r0 =>
          (match unmarshalInto env r0 b with
           | .ok (r, none) => some (.ok (match lookup r key with | some c => Cells.raw c | none => .nil))
           | .ok (_, some e) => some (.err e)
           | .err e => some (.err e)
           | .panic s => some (.panic s))
        | _ => none
      | _ => none
    let mws := match mWritten with | .ok b => "ok " ++ hexOf b | .err e => "err " ++ e.name | .panic s => "panic " ++ s
    let mbs := match mBack with | some o => showO o | none => "-"
    let abstain := mws == "err EXT" || mbs == "err EXT"
    let normBack (s : String) : String := if s == "-" then "-" else match parseOutcome s with | some o => showO o | none => s
    -- `typedl` cases run with the package variable cast.TimeStringFormat set to another lossless layout by the
    -- program: the model knows the pinned layout only, so it is not compared; the lossless oracle does not need it
    let d := !oracleOnly && (mws != writtenS || mbs != normBack back1S)
    -- oracle
    let implBack := if back1S == "-" then none else parseOutcome back1S
    let p : Option String :=
      if writtenS.startsWith "panic" then some "panic"
      else if back2S != "-" && normBack back2S != normBack back1S then some "routes-differ"
      else if Tables.lossless f ty && Tables.inDomain f ty v && (ty == .none || Cast.typeOf v == ty || v matches .nil) then
        if !(writtenS.startsWith "ok") then some "lossless-pairing-not-written"
        else
          match implBack with
          | some (.ok r) => if Tables.sameValue r v then none else some "value-or-type-changed"
          | _ => some "lossless-pairing-not-read-back"
      else none
    match d, p with
    | false, none => ⟨"S", ""⟩
    | true, none => if abstain then ⟨"X", "model abstains"⟩ else
        ⟨"D", s!"typed {fS}({tyS}) {srcS}: impl [{writtenS} / {normBack back1S}] model [{mws} / {mbs}]"⟩
    | _, some c => ⟨(if d && !abstain then "D" else "") ++ "P",
        s!"typed {fS}({tyS}) {srcS}: impl [{writtenS} / {back1S} / {back2S}] model [{mws} / {mbs}] violates C13: key={c}"⟩
  | _, _, _ => ⟨"B", "cannot parse typed case"⟩

/-- Width in bytes of the binary form of a fixed-width type (bool: 1). -/
def binWidth : Ty → Option Nat
  | .int t => some (t.bits / 8)
  | .f64 => some 8
  | .f32 => some 4
  | .bool => some 1
  | _ => none

/-- imp \t <C10|C11> \t <format> \t <ty> \t <Dyn v> \t <ext> \t <impl>: `ImportAtKey` into a declared column
    of a fresh row. Oracle (C10, last sentence): after a successful import the raw value of a
    column declared with raw type T is nil or a T. -/
def runImp (prop fS tyS srcS extS implS00 : String) : Result :=
  -- a refused import that LEFT something in the cell: "err <class> left=<hex of the raw value>" — a refused value
  -- leaves null (the model: `importByFormat` returns the nil cell with the error)
  if (implS00.splitOn " left=").length > 1 then
    ⟨"P", s!"imp {fS}({tyS}) {srcS}: impl [{implS00}] violates {prop}: key=refused-value-left-in-the-cell"⟩ else
  -- imports of a jsonline.Value also report what the cell DECLARES afterwards: "… decl=<format>:<type>"
  let (implS0, declS) : String × Option String :=
    match implS00.splitOn " decl=" with
    | [a, b] => (a, some b)
    | _ => (implS00, none)
  -- C11 cases carry "ok <raw> => <re-emitted value>"
  let (implS, reS) : String × Option String :=
    match implS0.splitOn " => " with
    | [a, b] => (a, some b)
    | _ => (implS0, none)
  match Format.ofName? fS, Ty.ofName? tyS, Dyn.parse? srcS, parseOutcome implS with
  | some f, some ty, some v, some impl =>
    let env : Env := ⟨drvTables, parseExt extS⟩
    let mc := importCell env f ty v
    let m : Outcome Dyn :=
      match mc with
      | .ok (c, none) => .ok (Cells.raw c)
      | .ok (_, some e) => .err e
      | .err e => .err e
      | .panic s => .panic s
    let mre : Option String :=
      match mc with
      | .ok (c, none) => some (match exportVal env c with | .ok e => e.show | _ => "ERR")
      | _ => none
    let ms := showOutcome m
    let is := showOutcome impl
    let isPanic := match impl with | .panic _ => true | _ => false
    let abstain := ms == "err EXT"
    let d := (if isPanic then !(ms.startsWith "panic") else ms != is) ||
      (match reS, mre with | some a, some b => (Dyn.parse? a).map (·.show) != some b | _, _ => false)
    -- a jsonline.Value hands its own declaration over to the cell; a nested Row does not
    let isValue := match v with | .val (.cell ..) => true | _ => false
    let p : Option String :=
      match impl with
      | .panic _ => some "panic"
      | .ok r =>
        -- a Value hands over its own declaration (the model's cell); any other input leaves the column's
        if (match declS, mc with
            | some d, .ok (c, none) => d != s!"{(Cells.format c).name}:{(Cells.rawType c).name}"
            | _, _ => false) then some "cell-declares-something-else-than-the-imported-value"
        else
        if ty != .none && !isValue && !(r matches .nil) && Cast.typeOf r != ty then some "import-wrong-raw-type"
        else if (v matches .nil) && !(r matches .nil) then some "nil-imported-as-value"
        else if prop == "C09" then
          -- a column with an integer raw type fed with a decimal text (as a JSON string or number): the raw value
          -- is the integer the text spells, never another one
          match ty, v, r with
          | .int _, .str s, .int _ x | .int _, .num s, .int _ x =>
            (match IntText.parseInt0 s 64 with
             | some n => if x != n then some "column-holds-another-integer" else none
             | none => none)
          | .int t, .f64 _, _ | .int t, .f32 _, _ =>
            -- a number carried by a Go float (handed through the API): every format but binary converts it with
            -- cast.To(T, v) — the exact integer when it is integral and fits, never an invented one
            if f == .binary then none
            else (CastSpec.intCastViolation t v impl).map fun c => "float-carrier-" ++ c
          | _, _, _ => none
        else if prop == "C11" then
          -- a binary column mapped to a fixed-width type accepts only well-sized payloads and re-emits
          -- exactly the bytes it accepted
          match f, binWidth ty, v with
          | .binary, some w, .str s =>
            match Base64.decode s with
            | some b =>
              if b.length != w then some "ill-sized-payload-accepted"
              else if ty != .bool && ((reS.bind Dyn.parse?).map (·.show)) != some (Dyn.str (Base64.encode b)).show then some "accepted-bytes-not-re-emitted"
              else none
            | none => some "invalid-base64-accepted"
          | _, _, _ => none
        else none
      | .err _ =>
        if prop == "C09" then
          match ty, v with
          | .int t, .f64 _ | .int t, .f32 _ =>
            if f == .binary then none
            else (CastSpec.intCastViolation t v impl).map fun c => "float-carrier-" ++ c
          | _, _ => none
        else if prop == "C11" then
          match f, binWidth ty, v with
          | .binary, some w, .str s =>
            match Base64.decode s with
            | some b => if b.length == w then some "well-sized-payload-rejected" else none
            | none => none
          | _, _, _ => none
        else none
    match d, p with
    | false, none => ⟨"S", ""⟩
    | true, none => if abstain then ⟨"X", "model abstains"⟩ else
        ⟨"D", s!"imp {fS}({tyS}) {srcS}: impl [{implS0}] model [{ms} => {mre}]"⟩
    | _, some c => ⟨(if d && !abstain then "D" else "") ++ "P",
        s!"imp {fS}({tyS}) {srcS}: impl [{implS0}] model [{ms}] violates {prop}: key={c}"⟩
  | _, _, _, _ => ⟨"B", "cannot parse imp case"⟩

/-- `setcol`: `Row.Set` / `SetAtIndex` of a value under a declared column of a row the template created. The model is
    `Value.setExisting` on the column's prototype cell; the observation is the raw value held afterwards and what the
    cell exports. C11's oracle: a binary column of a fixed-width raw type never emits a payload of another width. -/
def runSetCol (prop fS tyS srcS extS implS0 : String) : Result :=
  let (implS, reS) : String × Option String :=
    match implS0.splitOn " => " with
    | [a, b] => (a, some b)
    | _ => (implS0, none)
  match Format.ofName? fS, Ty.ofName? tyS, Dyn.parse? srcS, parseOutcome implS with
  | some f, some ty, some v, some impl =>
    let env : Env := ⟨drvTables, parseExt extS⟩
    let isPanic := match impl with | .panic _ => true | _ => false
    let p : Option String :=
      if isPanic then some "panic"
      else if prop == "C09" then
        -- a column declared with an integer raw type never holds anything but null or an integer of that type
        match ty, impl with
        | .int _, .ok r => if (r matches .nil) || Cast.typeOf r == ty then none else some "integer-column-holds-an-unconverted-value"
        | _, _ => none
      else if prop == "C11" then
        match f, binWidth ty, reS with
        | .binary, some w, some re =>
          (match Dyn.parse? re with
           | some .nil => none
           | some (.str s) =>
             (match Base64.decode s with
              | some b => if b.length != w then some "stored-value-emitted-with-another-width" else none
              | none => some "emitted-payload-is-not-base64")
           | some _ => some "emitted-payload-is-not-a-string"
           | none => if re == "ERR" then none else some "unreadable-observation")
        | _, _, _ => none
      else none
    let m : Option (String × String) :=
      match (match v with | .val _ => (.err .ext : Outcome Val) | _ => Value.setExisting env (.cell .nil f ty) v) with
      | .ok c => some ((Cells.raw c).show, match exportVal env c with | .ok e => e.show | .err .ext => "EXT" | _ => "ERR")
      | _ => none
    let d : Bool :=
      match m, impl with
      | some (raw, ex), .ok r =>
        ex != "EXT" && (raw != r.show ||
          (match reS with | some re => (if re == "ERR" then "ERR" else ((Dyn.parse? re).map (·.show)).getD "?") != ex | none => false))
      | _, _ => false
    match d, p with
    | false, none => if m.isNone && !isPanic then ⟨"X", "model abstains"⟩ else ⟨"S", ""⟩
    | true, none => ⟨"D", s!"setcol {fS}({tyS}) {srcS}: impl [{implS0}] model [{m}]"⟩
    | _, some c => ⟨(if d then "D" else "") ++ "P", s!"setcol {fS}({tyS}) {srcS}: impl [{implS0}] model [{m}] violates {prop}: key={c}"⟩
  | _, _, _, _ => ⟨"B", "cannot parse setcol case"⟩

/-- Did the exporter's `NewValue` swallow a failed cast for some declared column? `none` when the
    model cannot tell (a stdlib answer it was not given, or a caster the translator could not read). -/
def swallowedCast (env : Env) (to : Tmpl) (row : List (Bytes × Val)) : Option Bool :=
  to.foldl (fun (acc : Option Bool) (kc : Bytes × Val) =>
    match acc with
    | some true => some true
    | _ =>
      match kc.2 with
      | .cell _ _ typ =>
        if typ == .none then acc
        else
          match lookup row kc.1 with
          | some rc =>
            (match Cells.raw rc with
             | .nil => acc
             | raw =>
               match Cast.castTo env.T env.ext typ raw with
               | .err .ext => none
               | .err _ => some true
               | _ => acc)
          | none => acc
      | .row _ => acc) (some false)

def containsSub (hay needle : Bytes) : Bool :=
  let n := needle.length
  (List.range (hay.length + 1 - n)).any fun i => (hay.drop i).take n == needle

def runTwice (zone tiS toS lineS extS firstS secondS hint : String) : Result :=
  let env : Env := ⟨drvTables, parseExt extS⟩
  match tmplOf env tiS, tmplOf env toS, unhexTok lineS, parseImpl firstS with
  | some ti, some to, some line, some first =>
    let second := if secondS == "-" then none else parseImpl secondS
    let m1 := jlLine env ti to line
    let ms1 := showLine m1
    let is1 := if first.panic then "panic" else if first.ok then "ok " ++ hexTok first.bytes else "err " ++ first.cls
    let ms2 : String :=
      match m1 with
      | .ok (b, none) =>
        (match b.reverse with
         | 0x0A :: rb => showLine (jlLine env to to rb.reverse)
         | _ => "-")
      | _ => "-"
    let is2 := match second with
      | none => "-"
      | some s2 => if s2.panic then "panic" else if s2.ok then "ok " ++ hexTok s2.bytes else "err " ++ s2.cls
    let abstain := ms1 == "err EXT" || ms2 == "err EXT"
    let d := ms1 != is1 || ms2 != is2
    let p : Option String :=
      if first.panic then some "panic"
      else if !first.ok then
        -- a line reported as refused must not have been written all the same (it would be read back by the next
        -- stage as an emitted line — without the column that could not be rendered)
        (if !first.bytes.isEmpty then some "line-written-together-with-an-error" else none)
      else
        match second with
        | none => some "second-pass-missing"
        | some s2 =>
          if s2.ok && s2.bytes == first.bytes then none
          else
            -- attribution
            -- by the model; when the model cannot compute the line, by the hint computed on the implementation
            let swallowed := match getRow env ti line with
              | .ok (row, none) =>
                (match swallowedCast env to row with
                 | some b => b
                 | none => hint == "sw=1")
              | .err .ext => hint == "sw=1"
              | _ => false
            if swallowed then some "swallowed-cast"
            else if containsSub line [0x2B, 0x32, 0x34, 0x3A, 0x36, 0x30] || containsSub line [0x2D, 0x32, 0x34, 0x3A, 0x36, 0x30] then some "offset-24-60"
            else if containsSub first.bytes [0x5C, 0x75, 0x66, 0x66, 0x66, 0x64] && s2.ok then some "illformed-utf8-escape"
            else if s2.panic then some "panic"
            else if !s2.ok then some "emitted-line-rejected-by-its-own-template"
            else some "not-a-fixed-point"
    -- when the model cannot compute the first pass (a stdlib answer outside its domain, or a caster the
    -- translator could not read) the comparison is not available; the oracle still judges the
    -- implementation, attributing through the hint
    if ms1 == "err EXT" && p.isNone then ⟨"X", "model abstains on the first pass"⟩ else
    match d, p with
    | false, none => ⟨"S", ""⟩
    | true, none => if abstain then ⟨"X", "model abstains"⟩ else
        ⟨"D", s!"twice {zone} ti=[{tiS}] to=[{toS}] in={lineS}: impl [{is1} / {is2}] model [{ms1} / {ms2}]"⟩
    | _, some c => ⟨(if d && !abstain then "D" else "") ++ "P",
        s!"twice {zone} ti=[{tiS}] to=[{toS}] in={lineS}: impl [{is1} / {is2}] model [{ms1} / {ms2}] violates C05: key={c}"⟩
  | _, _, _, _ => ⟨"B", "cannot parse twice case"⟩

end Jl.Driver.TypedCase
