import Model.Basic
