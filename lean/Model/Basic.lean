/-
  Model.Basic — vocabulary shared by every model module (core Lean only).

  Go strings and []byte are `Bytes` (List UInt8): Go strings may hold invalid UTF-8.
  A Go `interface{}` reachable through jsonline's public API is a `Dyn`.
  A `jsonline.Value` is a `Val`: either a cell (raw, format, raw type) or a row.
-/

abbrev Bytes := List UInt8

namespace Jl

/-- The ten Go integer types jsonline knows. `byte` = `u8`, `rune` = `i32`. -/
inductive IntTy
  | int | i64 | i32 | i16 | i8 | uint | u64 | u32 | u16 | u8
  deriving DecidableEq, Repr, Inhabited

def IntTy.all : List IntTy :=
  [.int, .i64, .i32, .i16, .i8, .uint, .u64, .u32, .u16, .u8]

def IntTy.signed : IntTy → Bool
  | .int | .i64 | .i32 | .i16 | .i8 => true
  | _ => false

/-- Width in bits on the platform of the checks (amd64: int/uint are 64 bits). -/
def IntTy.bits : IntTy → Nat
  | .int | .i64 | .uint | .u64 => 64
  | .i32 | .u32 => 32
  | .i16 | .u16 => 16
  | .i8 | .u8 => 8

def IntTy.min (t : IntTy) : Int := if t.signed then -(2 ^ (t.bits - 1) : Int) else 0
def IntTy.max (t : IntTy) : Int :=
  if t.signed then (2 ^ (t.bits - 1) : Int) - 1 else (2 ^ t.bits : Int) - 1

def IntTy.inRange (t : IntTy) (v : Int) : Prop := t.min ≤ v ∧ v ≤ t.max
instance (t : IntTy) (v : Int) : Decidable (t.inRange v) := by unfold IntTy.inRange; infer_instance

/-- Go's integer conversion `T(v)`: reduce modulo 2^bits into the range of `T`. -/
def IntTy.wrap (t : IntTy) (v : Int) : Int :=
  let m : Int := 2 ^ t.bits
  let r := v % m          -- Int.emod: 0 ≤ r < m
  if t.signed && r ≥ 2 ^ (t.bits - 1) then r - m else r

def IntTy.name : IntTy → String
  | .int => "int" | .i64 => "i64" | .i32 => "i32" | .i16 => "i16" | .i8 => "i8"
  | .uint => "uint" | .u64 => "u64" | .u32 => "u32" | .u16 => "u16" | .u8 => "u8"

def IntTy.ofName? : String → Option IntTy
  | "int" => some .int | "i64" => some .i64 | "i32" => some .i32 | "i16" => some .i16
  | "i8" => some .i8 | "uint" => some .uint | "u64" => some .u64 | "u32" => some .u32
  | "u16" => some .u16 | "u8" => some .u8 | _ => none

/-- Dynamic-type tags: the raw types of `typeRegistry` plus `none` (nil RawType) and
    `other` (any Go type jsonline has no case for). -/
inductive Ty
  | none | int (t : IntTy) | f64 | f32 | bool | str | bytes | time | num | other
  deriving DecidableEq, Repr, Inhabited

def Ty.name : Ty → String
  | .none => "none" | .int t => t.name | .f64 => "f64" | .f32 => "f32" | .bool => "bool"
  | .str => "str" | .bytes => "bytes" | .time => "time" | .num => "num" | .other => "other"

def Ty.ofName? (s : String) : Option Ty :=
  match s with
  | "none" => some .none | "f64" => some .f64 | "f32" => some .f32 | "bool" => some .bool
  | "str" => some .str | "bytes" => some .bytes | "time" => some .time | "num" => some .num
  | "other" => some .other
  | _ => (IntTy.ofName? s).map Ty.int

/-- The nine formats of `value.go` plus `bad` for any other `Format(n)`. -/
inductive Format
  | string | numeric | boolean | binary | date | datetime | timestamp | auto | hidden | bad
  deriving DecidableEq, Repr, Inhabited

def Format.name : Format → String
  | .string => "string" | .numeric => "numeric" | .boolean => "boolean" | .binary => "binary"
  | .date => "date" | .datetime => "datetime" | .timestamp => "timestamp" | .auto => "auto"
  | .hidden => "hidden" | .bad => "bad"

def Format.ofName? : String → Option Format
  | "string" => some .string | "numeric" => some .numeric | "boolean" => some .boolean
  | "binary" => some .binary | "date" => some .date | "datetime" => some .datetime
  | "timestamp" => some .timestamp | "auto" => some .auto | "hidden" => some .hidden
  | "bad" => some .bad | _ => none

/-- A `time.Time`: the instant (Unix seconds + nanoseconds) and the UTC offset, in seconds
    east, that its location has at that instant (what rendering uses). -/
structure GoTime where
  sec : Int
  nsec : Nat
  off : Int
  deriving DecidableEq, Repr, Inhabited

mutual
  /-- A Go `interface{}` value. -/
  inductive Dyn
    | nil
    | int (t : IntTy) (v : Int)
    | f64 (bits : Nat)
    | f32 (bits : Nat)
    | bool (b : Bool)
    | str (s : Bytes)
    | bytes (s : Bytes)
    | num (lit : Bytes)              -- json.Number
    | time (t : GoTime)
    | barr (s : Bytes)               -- [N]byte
    | arr (xs : DynList)             -- []interface{}
    | gomap (kvs : DynMap)           -- map[string]interface{} (canonical: keys sorted)
    | val (v : Val)                  -- a jsonline.Value / Row used as data
    | other (tag : Nat)              -- anything else (struct, chan, named type, pointer …)
  inductive DynList
    | nil
    | cons (x : Dyn) (xs : DynList)
  inductive DynMap
    | nil
    | cons (k : Bytes) (x : Dyn) (m : DynMap)
  /-- A `jsonline.Value`. -/
  inductive Val
    | cell (raw : Dyn) (f : Format) (typ : Ty)
    | row (ms : Members)
  /-- The content of a row in key-list order (the abstraction proved adequate by C06). -/
  inductive Members
    | nil
    | cons (k : Bytes) (v : Val) (ms : Members)
end

instance : Inhabited Dyn := ⟨.nil⟩
instance : Inhabited Val := ⟨.cell .nil .auto .none⟩
instance : Inhabited Members := ⟨.nil⟩
instance : Inhabited DynList := ⟨.nil⟩
instance : Inhabited DynMap := ⟨.nil⟩

def DynList.toList : DynList → List Dyn
  | .nil => []
  | .cons x xs => x :: xs.toList

def DynList.ofList : List Dyn → DynList
  | [] => .nil
  | x :: xs => .cons x (DynList.ofList xs)

def DynMap.toList : DynMap → List (Bytes × Dyn)
  | .nil => []
  | .cons k x m => (k, x) :: m.toList

def DynMap.ofList : List (Bytes × Dyn) → DynMap
  | [] => .nil
  | (k, x) :: m => .cons k x (DynMap.ofList m)

def Members.toList : Members → List (Bytes × Val)
  | .nil => []
  | .cons k v ms => (k, v) :: ms.toList

def Members.ofList : List (Bytes × Val) → Members
  | [] => .nil
  | (k, v) :: ms => .cons k v (Members.ofList ms)

@[simp] theorem Members.toList_ofList (l : List (Bytes × Val)) : (Members.ofList l).toList = l := by
  induction l with
  | nil => rfl
  | cons a l ih => cases a; simp [Members.ofList, Members.toList, ih]

@[simp] theorem DynList.toList_ofList (l : List Dyn) : (DynList.ofList l).toList = l := by
  induction l with
  | nil => rfl
  | cons a l ih => simp [DynList.ofList, DynList.toList, ih]

/-- Error classes (never message texts). -/
inductive ErrClass
  | syntax            -- JSON syntax / shape error
  | cast              -- wraps cast.ErrUnableToCast
  | unsupportedImport -- jsonline.ErrUnsupportedImportType
  | unsupportedExport -- jsonline.ErrUnsupportedExportType
  | unsupportedFormat -- jsonline.ErrUnsupportedFormat
  | pathNotFound
  | io
  | tooLong
  | marshal           -- json.Marshal failed
  | other             -- an error of no recognised class
  | ext               -- not an outcome of the code: the model needs a standard-library answer
                      -- (float text, zone offset, unknown construct) that was not supplied
  deriving DecidableEq, Repr, Inhabited

def ErrClass.name : ErrClass → String
  | .syntax => "syntax" | .cast => "cast" | .unsupportedImport => "unsupported-import"
  | .unsupportedExport => "unsupported-export" | .unsupportedFormat => "unsupported-format"
  | .pathNotFound => "path-not-found" | .io => "io" | .tooLong => "too-long" | .marshal => "marshal"
  | .other => "other" | .ext => "EXT"

/-- Result of an operation that Go may finish normally, with an error, or by panicking. -/
inductive Outcome (α : Type)
  | ok (a : α)
  | err (e : ErrClass)
  | panic (site : String)
  deriving Repr

def Outcome.isOk {α} : Outcome α → Bool
  | .ok _ => true
  | _ => false

def Outcome.isPanic {α} : Outcome α → Bool
  | .panic _ => true
  | _ => false

def Outcome.bind {α β} (o : Outcome α) (f : α → Outcome β) : Outcome β :=
  match o with
  | .ok a => f a
  | .err e => .err e
  | .panic s => .panic s

instance : Monad Outcome where
  pure := .ok
  bind := Outcome.bind

end Jl
