/-
  Model.JsonWrite — how encoding/json writes the scalars jsonline hands it: strings
  (`appendString` with HTML escaping on, as json.Marshal does), json.Number validation
  (`isValidNumber`), and the fixed spellings of null / booleans / integers.
  Stdlib port (a), validated against encoding/json directly.
-/
import Model.Utf8
import Model.IntText

namespace Jl.JsonWrite

def hexLower (n : Nat) : UInt8 :=
  if n < 10 then UInt8.ofNat (48 + n) else UInt8.ofNat (87 + n)

/-- `\u00XX` -/
def u00 (b : UInt8) : Bytes :=
  [0x5C, 0x75, 0x30, 0x30, hexLower (b.toNat / 16), hexLower (b.toNat % 16)]

/-- htmlSafeSet: ASCII bytes copied verbatim. -/
def htmlSafe (b : UInt8) : Bool :=
  0x20 ≤ b && b < 0x80 && b != 0x22 && b != 0x5C && b != 0x3C && b != 0x3E && b != 0x26

/-- Escape of one ASCII byte that is not in htmlSafeSet. -/
def escapeAscii (b : UInt8) : Bytes :=
  if b == 0x5C || b == 0x22 then [0x5C, b]
  else if b == 0x08 then [0x5C, 0x62]
  else if b == 0x0C then [0x5C, 0x66]
  else if b == 0x0A then [0x5C, 0x6E]
  else if b == 0x0D then [0x5C, 0x72]
  else if b == 0x09 then [0x5C, 0x74]
  else u00 b

/-- Body of `appendString(dst, s, escapeHTML = true)` between the quotes. -/
def quoteBody (bs : Bytes) : Bytes :=
  match bs with
  | [] => []
  | b :: rest =>
    if b < 0x80 then
      if htmlSafe b then b :: quoteBody rest else escapeAscii b ++ quoteBody rest
    else
      match Utf8.seqLen (b :: rest) with
      | some 2 => b :: rest.take 1 ++ quoteBody (rest.drop 1)
      | some 3 =>
        -- U+2028 / U+2029 = E2 80 A8 / E2 80 A9
        if b == 0xE2 && rest.take 2 == [0x80, 0xA8] then
          [0x5C, 0x75, 0x32, 0x30, 0x32, 0x38] ++ quoteBody (rest.drop 2)
        else if b == 0xE2 && rest.take 2 == [0x80, 0xA9] then
          [0x5C, 0x75, 0x32, 0x30, 0x32, 0x39] ++ quoteBody (rest.drop 2)
        else b :: rest.take 2 ++ quoteBody (rest.drop 2)
      | some 4 => b :: rest.take 3 ++ quoteBody (rest.drop 3)
      | _ => [0x5C, 0x75, 0x66, 0x66, 0x66, 0x64] ++ quoteBody rest     -- �
termination_by bs.length
decreasing_by all_goals simp <;> omega

/-- json.Marshal of a Go string. -/
def quote (s : Bytes) : Bytes := 0x22 :: (quoteBody s ++ [0x22])

def isDigit (c : UInt8) : Bool := 0x30 ≤ c && c ≤ 0x39

def dropDigits : Bytes → Bytes
  | [] => []
  | c :: rest => if isDigit c then dropDigits rest else c :: rest

/-- encoding/json's `isValidNumber`. -/
def isValidNumber (s : Bytes) : Bool :=
  match s with
  | [] => false
  | _ =>
    let s := match s with
      | 0x2D :: r => r
      | _ => s
    match s with
    | [] => false
    | c :: r =>
      let afterInt : Option Bytes :=
        if c == 0x30 then some r
        else if 0x31 ≤ c && c ≤ 0x39 then some (dropDigits r)
        else none
      match afterInt with
      | none => false
      | some s =>
        let afterFrac : Option Bytes :=
          match s with
          | 0x2E :: d :: r => if isDigit d then some (dropDigits r) else none
          | 0x2E :: [] => none
          | _ => some s
        match afterFrac with
        | none => false
        | some s =>
          let afterExp : Option Bytes :=
            match s with
            | e :: r =>
              if e == 0x65 || e == 0x45 then
                let r := match r with
                  | sg :: r' => if sg == 0x2B || sg == 0x2D then r' else r
                  | [] => r
                match r with
                | d :: r' => if isDigit d then some (dropDigits r') else none
                | [] => none
              else some s
            | [] => some s
          match afterExp with
          | some [] => true
          | _ => false

def ofString (s : String) : Bytes := s.toUTF8.toList

end Jl.JsonWrite
