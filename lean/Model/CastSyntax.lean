/-
  Model.CastSyntax — the small language in which extract/ renders pkg/cast (Gen.CastTable).
  One `Branch` per case clause of a caster's type switch; expressions `E` over the switch
  variable `val`; guards `G` with the constants go/types recorded (already converted to the
  type of the other operand, i.e. rounded exactly as the compiler rounds them).
-/
import Model.Basic

namespace Jl

inductive Layout
  | timeStringFormat          -- the package variable cast.TimeStringFormat
  | lit (s : String)          -- a string literal layout
  deriving DecidableEq, Repr

/-- Expressions over the switch variable (`v` = the variable bound by a parse call). -/
inductive E
  | val
  | parsed                               -- `v` of `v, err := strconv.ParseX(val, …)`
  | intLit (t : IntTy) (n : Int)         -- int8(1)
  | f64Lit (n : Int)                     -- float64(1)
  | f32Lit (n : Int)
  | numLit (s : Bytes)                   -- json.Number("1")
  | toInt (t : IntTy) (e : E)            -- T(e)
  | toF64 (e : E)
  | toF32 (e : E)
  | toStr (e : E)                        -- string(e)
  | toBytes (e : E)                      -- []byte(e)
  | toNum (e : E)                        -- json.Number(e)
  | unix (e : E)                         -- e.Unix()
  | year (e : E)                         -- e.Year()
  | ne0 (e : E)                          -- e != 0, e != 0.0
  | fmtInt (e : E) (base : Nat)          -- strconv.FormatInt(e, base)
  | itoa (e : E)                         -- strconv.Itoa(e)
  | fmtUint (e : E) (base : Nat)         -- strconv.FormatUint(e, base)
  | fmtFloat (e : E) (verb : Nat) (prec : Int) (bits : Nat)
  | fmtBool (e : E)
  | timeFormat (e : E) (l : Layout)      -- e.Format(layout)
  | timeUnix (e : E)                     -- time.Unix(e, 0)
  | call (fn : String) (e : E)           -- xToBytes(e): a function of binary_ops.go
  deriving DecidableEq, Repr

inductive Cmp | lt | le | gt | ge | eq | ne
  deriving DecidableEq, Repr

/-- Guards: comparisons of an expression with an exact integer constant. -/
inductive G
  | cmp (op : Cmp) (l : E) (c : Int)
  | or (a b : G)
  | and (a b : G)
  | not (a : G)
  deriving DecidableEq, Repr

inductive ParseFn
  | parseInt (base bits : Nat)
  | parseUint (base bits : Nat)
  | parseFloat (bits : Nat)
  deriving DecidableEq, Repr

inductive Branch
  | ret (e : E)                               -- return e, nil
  | retNil                                    -- return nil, nil
  | fail (sentinel : String)                  -- return nil, fmt.Errorf("%w…", sentinel, …)
  | guarded (g : G) (sentinel : String) (e : E)   -- if g { fail }; return e, nil
  | ifBool (t f : E)                          -- if val { return t, nil }; return f, nil
  | parse (fn : ParseFn) (e : E) (sentinel : String)
      -- v, err := strconv.ParseX(val, …); if err == nil { return e, nil }; fail
  | tail (callee : String) (e : E)            -- return callee(e)
  | special (id : String)                     -- one of the bodies recognised verbatim
  | unknown (text : String)                   -- not recognised: never guessed
  deriving DecidableEq, Repr

/-- One case clause: the case types (`Ty.none` = `case nil`) and its body. -/
structure Clause where
  types : List Ty
  body : Branch
  deriving DecidableEq, Repr

/-- One caster: its clauses in source order and its default clause. -/
structure Caster where
  name : String
  clauses : List Clause
  dflt : Branch
  deriving DecidableEq, Repr

/-- A `xFromBytes` / `xToBytes` function of binary_ops.go. -/
inductive BinFn
  /-- `if bytes == nil || len(bytes) != size { fail }; return T(order.UintW(bytes))` -/
  | get (size : Nat) (order : String) (width : Nat) (res : Ty) (nilCheck : Bool) (sentinel : String)
  /-- `bytes := make([]byte, size); order.PutUintW(bytes, uintW(conv val)); return bytes` -/
  | put (size : Nat) (order : String) (width : Nat)
  /-- one-byte forms: `bytes[0] = byte(val)`, `return T(bytes[0])`, bool forms -/
  | get1 (size : Nat) (res : Ty) (sentinel : String)
  | put1 (size : Nat)
  | getBool (size : Nat) (sentinel : String)
  | putBool (size : Nat)
  | unknown (text : String)
  deriving DecidableEq, Repr

end Jl
