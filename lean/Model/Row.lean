/-
  Model.Row — the row of pkg/jsonline/row.go as the code keeps it: a key list `l`
  (container/list) and a map `m` (Go map), updated separately by every mutator.
  The third structure `row.keys` is write-only in the source (re-checked on every run by
  the extractor, Gen.Shared) and is therefore not part of the behaviour.

  The cell type `C`, the argument type `V` and what a cell does with an argument are
  parameters (`CellOps`): the theorems of C06 hold whatever cells do.
-/
import Model.Basic

namespace Jl

/-- What a cell does with an argument; instantiated by Model.Value for real cells. -/
structure CellOps (C V E : Type) where
  /-- absent key in Set / ImportAtKey: the argument itself when it is a Value, else NewValueAuto -/
  newCell : V → C
  /-- absent key in parseobject: always NewValueAuto -/
  autoCell : V → C
  /-- present key in Set -/
  setExisting : C → V → C
  /-- present key in ImportAtKey / parseobject: cell.Import mutates in place; cell after, error -/
  importInto : C → V → C × Option E

structure LRow (C : Type) where
  l : List Bytes
  m : Bytes → Option C

namespace LRow
variable {C V E : Type}

def empty : LRow C := ⟨[], fun _ => none⟩

def mset (m : Bytes → Option C) (k : Bytes) (c : C) : Bytes → Option C :=
  fun k' => if k' = k then some c else m k'

/-- `if _, ok := r.m[key]; !ok { r.l.PushBack(key) }` -/
def ensure (r : LRow C) (k : Bytes) : List Bytes :=
  if (r.m k).isSome then r.l else r.l ++ [k]

/-- The positional loop of every `…AtIndex` method: walk the list, decrementing; a negative
    or out-of-range index leaves `key` at its zero value, the empty string. -/
def keyAt (r : LRow C) (i : Int) : Bytes :=
  if i < 0 then [] else r.l.getD i.toNat []

def setValue (r : LRow C) (k : Bytes) (c : C) : LRow C :=
  ⟨r.ensure k, mset r.m k c⟩

def set (ops : CellOps C V E) (r : LRow C) (k : Bytes) (x : V) : LRow C :=
  let l' := r.ensure k
  match r.m k with
  | some c => ⟨l', mset r.m k (ops.setExisting c x)⟩
  | none => ⟨l', mset r.m k (ops.newCell x)⟩

def importAtKey (ops : CellOps C V E) (r : LRow C) (k : Bytes) (x : V) : LRow C × Option E :=
  let l' := r.ensure k
  match r.m k with
  | some c =>
    let (c', e) := ops.importInto c x
    (⟨l', mset r.m k c'⟩, e)
  | none => (⟨l', mset r.m k (ops.newCell x)⟩, none)

/-- `Import([]interface{})`: ImportAtIndex(i, xᵢ) in order, stop at the first error. -/
def importSliceFrom (ops : CellOps C V E) (r : LRow C) (i : Nat) : List V → LRow C × Option E
  | [] => (r, none)
  | x :: xs =>
    match importAtKey ops r (r.keyAt i) x with
    | (r', some e) => (r', some e)
    | (r', none) => importSliceFrom ops r' (i + 1) xs

/-- `Import(map)`: ImportAtKey per entry in iteration order, stop at the first error. -/
def importMap (ops : CellOps C V E) (r : LRow C) : List (Bytes × V) → LRow C × Option E
  | [] => (r, none)
  | (k, x) :: kvs =>
    match importAtKey ops r k x with
    | (r', some e) => (r', some e)
    | (r', none) => importMap ops r' kvs

/-- One member of `parseobject`: import into an existing cell, else push the key and store
    an Auto cell. -/
def parseMember (ops : CellOps C V E) (r : LRow C) (k : Bytes) (x : V) : LRow C × Option E :=
  match r.m k with
  | some c =>
    let (c', e) := ops.importInto c x
    (⟨r.l, mset r.m k c'⟩, e)
  | none => (⟨r.l ++ [k], mset r.m k (ops.autoCell x)⟩, none)

/-- The member events of one `UnmarshalJSON` call in text order (those the decoder delivered
    before any syntax error), stop at the first import error. -/
def parseMembers (ops : CellOps C V E) (r : LRow C) : List (Bytes × V) → LRow C × Option E
  | [] => (r, none)
  | (k, x) :: ms =>
    match parseMember ops r k x with
    | (r', some e) => (r', some e)
    | (r', none) => parseMembers ops r' ms

/-! Readers -/
def len (r : LRow C) : Nat := r.l.length
def has (r : LRow C) (k : Bytes) : Bool := (r.m k).isSome
def getValue (r : LRow C) (k : Bytes) : Option C := r.m k
def getValueAt (r : LRow C) (i : Int) : Option C := r.m (r.keyAt i)
/-- IterValues: walk the list, look each key up in the map (a key missing from the map would
    yield a nil Value in Go: `none` here). -/
def iter (r : LRow C) : List (Bytes × Option C) := r.l.map fun k => (k, r.m k)

end LRow

/-- Mutating operations of a history. -/
inductive RowOp (C V : Type)
  | set (k : Bytes) (x : V)
  | setAt (i : Int) (x : V)
  | setValue (k : Bytes) (c : C)
  | setValueAt (i : Int) (c : C)
  | importAtKey (k : Bytes) (x : V)
  | importAtIndex (i : Int) (x : V)
  | importSlice (xs : List V)
  | importMap (kvs : List (Bytes × V))
  | unmarshal (ms : List (Bytes × V))

namespace LRow
variable {C V E : Type}

def step (ops : CellOps C V E) (r : LRow C) : RowOp C V → LRow C × Option E
  | .set k x => (r.set ops k x, none)
  | .setAt i x => (r.set ops (r.keyAt i) x, none)
  | .setValue k c => (r.setValue k c, none)
  | .setValueAt i c => (r.setValue (r.keyAt i) c, none)
  | .importAtKey k x => r.importAtKey ops k x
  | .importAtIndex i x => r.importAtKey ops (r.keyAt i) x
  | .importSlice xs => r.importSliceFrom ops 0 xs
  | .importMap kvs => r.importMap ops kvs
  | .unmarshal ms => r.parseMembers ops ms

def run (ops : CellOps C V E) (r : LRow C) : List (RowOp C V) → LRow C
  | [] => r
  | op :: rest => run ops (r.step ops op).1 rest

end LRow

/-! ## Specification: a map that remembers first-insertion order -/

abbrev OMap (C : Type) := List (Bytes × C)

namespace OMap
variable {C V E : Type}

def lookup (o : OMap C) (k : Bytes) : Option C :=
  match o with
  | [] => none
  | (k', c) :: rest => if k' = k then some c else lookup rest k

/-- Replace in place when present, append otherwise. -/
def upsert (o : OMap C) (k : Bytes) (c : C) : OMap C :=
  match o with
  | [] => [(k, c)]
  | (k', c') :: rest => if k' = k then (k', c) :: rest else (k', c') :: upsert rest k c

def keys (o : OMap C) : List Bytes := o.map Prod.fst

def keyAt (o : OMap C) (i : Int) : Bytes :=
  if i < 0 then [] else (keys o).getD i.toNat []

def set (ops : CellOps C V E) (o : OMap C) (k : Bytes) (x : V) : OMap C :=
  match lookup o k with
  | some c => upsert o k (ops.setExisting c x)
  | none => upsert o k (ops.newCell x)

def importAtKey (ops : CellOps C V E) (o : OMap C) (k : Bytes) (x : V) : OMap C × Option E :=
  match lookup o k with
  | some c => let (c', e) := ops.importInto c x; (upsert o k c', e)
  | none => (upsert o k (ops.newCell x), none)

def importSliceFrom (ops : CellOps C V E) (o : OMap C) (i : Nat) : List V → OMap C × Option E
  | [] => (o, none)
  | x :: xs =>
    match importAtKey ops o (keyAt o i) x with
    | (o', some e) => (o', some e)
    | (o', none) => importSliceFrom ops o' (i + 1) xs

def importMap (ops : CellOps C V E) (o : OMap C) : List (Bytes × V) → OMap C × Option E
  | [] => (o, none)
  | (k, x) :: kvs =>
    match importAtKey ops o k x with
    | (o', some e) => (o', some e)
    | (o', none) => importMap ops o' kvs

def parseMember (ops : CellOps C V E) (o : OMap C) (k : Bytes) (x : V) : OMap C × Option E :=
  match lookup o k with
  | some c => let (c', e) := ops.importInto c x; (upsert o k c', e)
  | none => (upsert o k (ops.autoCell x), none)

def parseMembers (ops : CellOps C V E) (o : OMap C) : List (Bytes × V) → OMap C × Option E
  | [] => (o, none)
  | (k, x) :: ms =>
    match parseMember ops o k x with
    | (o', some e) => (o', some e)
    | (o', none) => parseMembers ops o' ms

def step (ops : CellOps C V E) (o : OMap C) : RowOp C V → OMap C × Option E
  | .set k x => (set ops o k x, none)
  | .setAt i x => (set ops o (keyAt o i) x, none)
  | .setValue k c => (upsert o k c, none)
  | .setValueAt i c => (upsert o (keyAt o i) c, none)
  | .importAtKey k x => importAtKey ops o k x
  | .importAtIndex i x => importAtKey ops o (keyAt o i) x
  | .importSlice xs => importSliceFrom ops o 0 xs
  | .importMap kvs => importMap ops o kvs
  | .unmarshal ms => parseMembers ops o ms

def run (ops : CellOps C V E) (o : OMap C) : List (RowOp C V) → OMap C
  | [] => o
  | op :: rest => run ops (step ops o op).1 rest

end OMap

end Jl
