/-
  Model.RowFactsSyntax — the small syntax in which extract/rowfacts.go renders pkg/jsonline's row.go
  (Gen.RowFacts).

  The translator runs every function of row.go symbolically (the executor of extract/value.go, extended
  with maps, loops, byte buffers and closures; the package's helpers inlined, the functions that have a
  fact of their own kept as calls), and names the SHAPE of the tree it finds, with the few things a
  shape leaves open as parameters: the method delegated to, the caster, the asserted type, the byte, the
  sentinel, whether an error is wrapped, whether the decoder uses numbers.  A tree of no shape below is
  `unknown` with the tree as its text; nothing is guessed.

  Notation in the comments: `r` the receiver, `r.l` its `*list.List` of keys, `r.m` its map key → Value,
  `r.keys` its map key → list element (written, never read), `key` / `val` the arguments.
-/
import Model.Basic

namespace Jl

/-! ### Mutators that address one key -/

/-- When a mutator touches the key list. -/
inductive Push
  /-- On every path where `r.m` has NO entry for the key: exactly one `r.l.PushBack(key)` (its element
      stored in `r.keys[key]`), before anything is stored in `r.m[key]`.  On every path where it has
      one: none.  No other call on `r.l` (no Remove, MoveTo…, PushFront, Insert…, Init). -/
  | backWhenAbsent
  | unknown (text : String)
  deriving DecidableEq, Repr

/-- What is done when `r.m` has an entry `existing` for the key. -/
inductive Present
  /-- `raw, err := cast.To(existing.GetRawType(), val)`;
      `err == nil`: `r.m[key] = NewValue(val, existing.GetFormat(), existing.GetRawType())`;
      `err != nil`: `r.m[key] = NewValue(raw, existing.GetFormat(), existing.GetRawType())` (`raw` is what the
      failed cast returned: nil).  A NEW Value is stored; nothing is written into `existing`. -/
  | castThenNewValue
  /-- `err := existing.Import(val)` — the stored Value imports IN PLACE —; `err != nil`: returned
      (`wrapped`: inside `fmt.Errorf("%w", err)`, else as it is); nothing else is stored in `r.m[key]`
      (storing `existing` back is nothing). -/
  | importInPlace (wrapped : Bool)
  /-- `r.m[key] = val` — the Value argument itself, the same pointer. -/
  | storeArgument
  | unknown (text : String)
  deriving DecidableEq, Repr

/-- What is stored in `r.m[key]` when `r.m` has no entry for the key (after the push). -/
inductive Absent
  /-- `val.(Value)` holds: that Value as it is; otherwise `NewValueAuto(val)` = `&value{raw: val, f: Auto, typ: nil}`. -/
  | valueElseAuto
  /-- `NewValueAuto(val)` whatever `val` is (a Row, a Value included: it becomes the raw value of an Auto cell). -/
  | auto
  /-- the Value argument itself, the same pointer -/
  | storeArgument
  | unknown (text : String)
  deriving DecidableEq, Repr

structure Keyed where
  push : Push
  present : Present
  absent : Absent
  deriving DecidableEq, Repr

/-- A positional variant (`…AtIndex`). -/
inductive Delegate
  /-- `var key string`; walk `r.l` from the front, decrementing `index`; at zero `key, _ = element.Value.(string)`
      and stop — a negative or out-of-range index leaves `key == ""` —; then `return r.<target>(key, the other
      arguments)`. -/
  | walkThen (target : String)
  | unknown (text : String)
  deriving DecidableEq, Repr

/-! ### Readers -/

inductive Reader
  /-- `_, ok := r.m[key]; return ok` -/
  | mapHas
  /-- `r.m` has the key: `(r.m[key].Raw(), true)`; otherwise `(nil, false)` -/
  | mapRaw
  /-- `r.m` has the key: `(r.m[key], true)`; otherwise `(nil, false)` -/
  | mapValue
  /-- `r.l.Len()` -/
  | listLen
  /-- `v, ok := r.<of>(arg)`; `ok`: `v`; otherwise `nil` -/
  | orNil (of : String)
  /-- `v, ok := r.<of>(arg)`; `ok`: `(v.Raw(), true)`; otherwise `(nil, false)` -/
  | rawOf (of : String)
  | unknown (text : String)
  deriving DecidableEq, Repr

inductive Iterator
  /-- The iterator has ONE cursor of its own, `e`, set to `r.l.Front()` when the iterator is made (a captured
      variable of the closure, or the field of a small struct whose bound method is returned — the same thing);
      each call: `e == nil` → `("", nil, false)`; otherwise `key, _ := e.Value.(string)`, `e = e.Next()`,
      `(key, r.m[key], true)`.  So the i-th call returns the i-th key of the list, in list order, with the Value the
      map holds for it, the call after the last one (and every later one) reports the end; nothing is written to
      the row. -/
  | listFrontToBack
  /-- `it := r.<of>()`; each call: `k, v, ok := it()`; `ok` → `(k, v.Raw(), true)`; otherwise `(k, v, ok)` -/
  | rawOf (of : String)
  /-- `listFrontToBack` with `r.m[key].Raw()` in the place of `r.m[key]`: a cursor of its own from `r.l.Front()`;
      `e == nil` → `("", nil, false)`; otherwise the key, `e = e.Next()`, `(key, r.m[key].Raw(), true)`.
      (`rawOf "IterValues"` over a `listFrontToBack` IterValues, written without the detour: `RowFacts.normalised`.) -/
  | listFrontToBackRaw
  | unknown (text : String)
  deriving DecidableEq, Repr

/-! ### Import -/

/-- The loop of one input kind of `Import`. -/
inductive Each
  /-- `for k, x := range input { if err := r.<method>(k, x); err != nil { return err } }` then `return nil`:
      in range order (positions for a slice, keys for a map), STOPS at the first error and returns it as it is. -/
  | stopAtFirstError (method : String)
  | unknown (text : String)
  deriving DecidableEq, Repr

inductive Fail
  /-- `return fmt.Errorf("%w…", <sentinel>, …)` and nothing else -/
  | fail (sentinel : String)
  | unknown (text : String)
  deriving DecidableEq, Repr

structure ImportFact where
  /-- the dynamic types of the argument that have a case, in source order (a type that is not listed — a Row,
      a Value, nil — falls to `other`) -/
  kinds : List (String × Each)
  other : Fail
  deriving DecidableEq, Repr

inductive ImportAtPathFact
  /-- `v, ok := r.<lookup>(path)`; `ok`: `err := v.Import(val)`, non-nil returned (`wrapped` in `%w`), else nil;
      `!ok`: `fmt.Errorf("%w", <notFound>)` -/
  | lookupThenImport (lookup : String) (wrapped : Bool) (notFound : String)
  | unknown (text : String)
  deriving DecidableEq, Repr

/-! ### Paths -/

inductive PathWalk
  /-- `keys := strings.Split(path, sep)`; `row := r`; for each key in order: `v, ok := row.<lookup>(key)`;
      `!ok` → `(nil, false)`; last key → `(v, true)`; `sub, ok := <descend>(v)`; `!ok` → `(nil, false)`;
      `row = sub`.  (After the loop — Split never returns an empty slice — `(row, true)`.) -/
  | splitDescend (sep lookup descend : String)
  | unknown (text : String)
  deriving DecidableEq, Repr

inductive AsRowFact
  /-- `v == nil` → no; `v.(Row)` → that row; otherwise `v.Raw().(Row)` (comma-ok) -/
  | rowOrRawRow
  | unknown (text : String)
  deriving DecidableEq, Repr

inductive FindFact
  /-- `keys := strings.SplitN(path, sep, 2)`; `v, ok := r.<lookup>(keys[0])`; `!ok` → `(nil, false)`;
      one key → `([v], true)`; `<descend>(v)` is a row → that row's own FindValuesAtPath(keys[1]);
      `v == nil` → `(nil, false)`; `v.Raw()` is not a `[]interface{}` → `(nil, false)`; otherwise the results
      of the elements that are a `Row` (their FindValuesAtPath(keys[1]), when found) appended in order,
      and `true`. -/
  | firstKeyThenRowOrArrayOfRows (sep lookup descend : String)
  | unknown (text : String)
  deriving DecidableEq, Repr

/-! ### MarshalJSON -/

inductive Piece
  /-- `json.Marshal(key)` -/
  | key
  /-- `json.Marshal(r.m[key])` -/
  | cell
  | byte (b : Nat)
  | other (text : String)
  deriving DecidableEq, Repr

inductive MarshalFact
  /-- the buffer starts as `opening`; `r.l` is walked front to back, `key, _ := e.Value.(string)`; an element
      whose `r.m[key].GetFormat()` is the constant `skipFormat` adds nothing; every other adds `pieces` in
      order, a failed `json.Marshal` returning its error at once; at the end, a buffer longer than
      `longerThan` has its LAST byte replaced by `closing`, any other gets `closing` appended; `(buffer, nil)`. -/
  | members (opening : List Nat) (skipFormat : Int) (pieces : List Piece) (longerThan closing : Nat)
  /-- the other comma discipline: the buffer starts as `opening`; same walk, same skip; every other element first
      appends `separator` when the buffer is longer than `longerThan` (something was written after the opening), then
      adds `pieces`; at the end `closing` is appended; `(buffer, nil)`. -/
  | separated (opening : List Nat) (skipFormat : Int) (longerThan separator : Nat) (pieces : List Piece) (closing : Nat)
  | unknown (text : String)
  deriving DecidableEq, Repr

/-! ### UnmarshalJSON -/

inductive UStep
  /-- `dec := json.NewDecoder(bytes.NewReader(data))`, followed by `dec.UseNumber()` or not -/
  | newDecoder (useNumber : Bool)
  /-- `t, err := dec.Token()`; `err` returned as it is; `t` not the `json.Delim` `b`: an error wrapping nothing -/
  | openDelim (b : Nat)
  /-- `err = r.<method>(dec)`; returned as it is -/
  | members (method : String)
  /-- `_, err = dec.Token()`; anything but `err == io.EOF` is an error wrapping nothing; then `return nil` -/
  | onlyEOF
  | unknown (text : String)
  deriving DecidableEq, Repr

inductive ParseObjectFact
  /-- `for dec.More()`: `dec.Token()` (error returned) must be a `string` — the key, as it is — else an error
      wrapping nothing; `dec.Token()` again: `io.EOF` leaves the loop, another error is returned;
      `value, err := <valueVia>(token, dec)` (error returned); then `store` with that key and value, where a
      failed import RETURNS (the loop stops at the first error).  After the loop `dec.Token()` (error returned)
      must be the `json.Delim` `closing`, else an error wrapping nothing; `return nil`. -/
  | whileMore (valueVia : String) (store : Keyed) (closing : Nat)
  | unknown (text : String)
  deriving DecidableEq, Repr

inductive ParseArrayFact
  /-- `arr := []interface{}{}`; `for dec.More()`: `dec.Token()`, `<elementVia>(token, dec)` (errors returned),
      `arr = append(arr, value)`; then `dec.Token()` must be the `json.Delim` `closing` -/
  | whileMore (elementVia : String) (closing : Nat)
  | unknown (text : String)
  deriving DecidableEq, Repr

inductive HandleDelimFact
  /-- a token that is no `json.Delim`: the token itself; the delimiter `object`: `r2 := <newRow>().(*row)`,
      `r2.<members>(dec)` (error returned), `r2` — a `*row`, not wrapped —; the delimiter `array`:
      `<elements>(dec)`; any other delimiter: an error wrapping nothing -/
  | scalarObjectArray (object : Nat) (newRow members : String) (array : Nat) (elements : String)
  | unknown (text : String)
  deriving DecidableEq, Repr

/-! ### Typed getters, MapTo -/

inductive Getter
  /-- `result, _ := cast.<caster>(r.<source>(key)); v, _ := result.(<type>); return v` — the zero value when the
      cast failed or gave another type -/
  | castCommaOk (source caster type : String)
  /-- the same with the single-value assertion `result.(<type>)`: a panic instead of the zero value -/
  | castAssert (source caster type : String)
  | unknown (text : String)
  deriving DecidableEq, Repr

/-- One case of MapTo's type switch on the raw value `val` stored under the field's key. -/
inductive MapCase
  /-- `i, _ := cast.<caster>(val)` first, its error dropped; then `if field.<can>() { field.<setter>(i.(<asserted>)) }`
      (single-value assertion) -/
  | viaCast (caster can setter asserted : String)
  /-- `if field.<can>() { i, _ := cast.<caster>(val); field.<setter>(i.(<asserted>)) }`: the guard first, the cast
      under it.  The casters have no effect, so this is `viaCast` (`MapCase.castFirst`). -/
  | guardThenCast (caster can setter asserted : String)
  /-- `if field.Kind() == kind { field.<setter>(val) }` -/
  | whenKind (kind : Nat) (setter : String)
  /-- `if field.Kind() == kind && field.Type().Elem().Kind() == elem { field.<setter>(val) }` -/
  | whenSliceOf (kind elem : Nat) (setter : String)
  | unknown (text : String)
  deriving DecidableEq, Repr

/-- The case with the cast in front of the guard: what a case does, whichever way it is written. -/
def MapCase.castFirst : MapCase → MapCase
  | .guardThenCast c g s a => .viaCast c g s a
  | m => m

inductive MapToFact
  /-- `target := reflect.ValueOf(v)`; nothing unless `target.Kind() == ptr`, `!target.IsNil()` and
      `target.Elem().Kind() == struct`; for every field index in order: `field := target.Elem().Field(i)`;
      `!field.CanSet()` → next; `value, ok := r.<lookup>(<key>(type.Field(i).Name))`; `!ok` → next; the type
      switch `cases` on `value` (a dynamic type without case: nothing), listed by type name — the clauses name
      distinct dynamic types, so their order in the source says nothing -/
  | fields (ptr struct : Nat) (key lookup : String) (cases : List (String × MapCase))
  | unknown (text : String)
  deriving DecidableEq, Repr

/-! ### The row as a Value; copies -/

inductive CopyFact
  /-- CloneRow: `result := <newRow>()`; for every `(k, v)` of `r.<iter>()` in order `result.<setter>(k, <clone>(v))`; `result` -/
  | freshRowOfClones (newRow iter setter clone : String)
  /-- Raw: a new `map[string]interface{}`; for every `(k, v)` of `r.<iter>()`: `map[k] = v`; the map -/
  | mapOf (iter : String)
  /-- Export: a new map; for every `(k, v)` of `r.<iter>()`: `x, err := v.Export()`; `err != nil` → `(nil, %w err)`;
      `map[k] = x`; `(map, nil)` -/
  | mapOfExports (iter : String)
  | unknown (text : String)
  deriving DecidableEq, Repr

inductive NewRowFact
  /-- `&row{m: make(map[string]Value), l: list.New(), keys: make(map[string]*list.Element)}` -/
  | emptyListAndMaps
  | unknown (text : String)
  deriving DecidableEq, Repr

/-- Everything extract/rowfacts.go reads in row.go. -/
structure RowFacts where
  newRow : NewRowFact
  /-- the methods called on a `*list.List` anywhere in pkg/jsonline, sorted, once each -/
  listMethods : List String
  /-- the number of `delete(…)` calls, anywhere in pkg/jsonline, on a map to Values or to list elements -/
  mapDeletes : Nat
  /-- `row.GetFormat()` returns this constant of type Format; `none`: not a constant -/
  selfFormat : Option Int
  /-- `row.GetRawType()` returns nil -/
  selfRawTypeNil : Bool
  set : Keyed
  setValue : Keyed
  importAtKey : Keyed
  /-- the six `…AtIndex` methods -/
  positional : List (String × Delegate)
  importKinds : ImportFact
  importAtPath : ImportAtPathFact
  readers : List (String × Reader)
  iterators : List (String × Iterator)
  getValueAtPath : PathWalk
  asRow : AsRowFact
  findValuesAtPath : FindFact
  marshal : MarshalFact
  unmarshal : List UStep
  parseObject : ParseObjectFact
  parseArray : ParseArrayFact
  handleDelim : HandleDelimFact
  getters : List (String × Getter)
  mapTo : MapToFact
  copies : List (String × CopyFact)
  deriving DecidableEq, Repr

/-! ### Nothing unknown -/

def Push.isKnown : Push → Bool | .unknown _ => false | _ => true
def Present.isKnown : Present → Bool | .unknown _ => false | _ => true
def Absent.isKnown : Absent → Bool | .unknown _ => false | _ => true
def Keyed.isKnown (k : Keyed) : Bool := k.push.isKnown && k.present.isKnown && k.absent.isKnown
def Delegate.isKnown : Delegate → Bool | .unknown _ => false | _ => true
def Reader.isKnown : Reader → Bool | .unknown _ => false | _ => true
def Iterator.isKnown : Iterator → Bool | .unknown _ => false | _ => true
def Each.isKnown : Each → Bool | .unknown _ => false | _ => true
def Fail.isKnown : Fail → Bool | .unknown _ => false | _ => true
def ImportFact.isKnown (f : ImportFact) : Bool := f.kinds.all (fun k => k.2.isKnown) && f.other.isKnown
def ImportAtPathFact.isKnown : ImportAtPathFact → Bool | .unknown _ => false | _ => true
def PathWalk.isKnown : PathWalk → Bool | .unknown _ => false | _ => true
def AsRowFact.isKnown : AsRowFact → Bool | .unknown _ => false | _ => true
def FindFact.isKnown : FindFact → Bool | .unknown _ => false | _ => true
def Piece.isKnown : Piece → Bool | .other _ => false | _ => true
def MarshalFact.isKnown : MarshalFact → Bool
  | .members _ _ ps _ _ => ps.all Piece.isKnown
  | .separated _ _ _ _ ps _ => ps.all Piece.isKnown
  | .unknown _ => false
def UStep.isKnown : UStep → Bool | .unknown _ => false | _ => true
def ParseObjectFact.isKnown : ParseObjectFact → Bool
  | .whileMore _ k _ => k.isKnown
  | .unknown _ => false
def ParseArrayFact.isKnown : ParseArrayFact → Bool | .unknown _ => false | _ => true
def HandleDelimFact.isKnown : HandleDelimFact → Bool | .unknown _ => false | _ => true
def Getter.isKnown : Getter → Bool | .unknown _ => false | _ => true
def MapCase.isKnown : MapCase → Bool | .unknown _ => false | _ => true
def MapToFact.isKnown : MapToFact → Bool
  | .fields _ _ _ _ cs => cs.all (fun c => c.2.isKnown)
  | .unknown _ => false
def CopyFact.isKnown : CopyFact → Bool | .unknown _ => false | _ => true
def NewRowFact.isKnown : NewRowFact → Bool | .unknown _ => false | _ => true

/-- The Format constant whose cells MarshalJSON leaves out. -/
def MarshalFact.skipFormat : MarshalFact → Option Int
  | .members _ s _ _ _ => some s
  | .separated _ s _ _ _ _ => some s
  | .unknown _ => none

/-- The separator written BEFORE every member but the first and the closing appended, told as the separator written
    AFTER every member and the last one replaced by the closing.  (That both disciplines give the same bytes is not
    assumed here: `Proofs.RowTieMarshal.marshal_either` proves each of them equal to `RowPrint.marshalVal`.) -/
def MarshalFact.normalised : MarshalFact → MarshalFact
  | .separated o s n sep ps c => .members o s (ps ++ [.byte sep]) n c
  | m => m

def MapToFact.normalised : MapToFact → MapToFact
  | .fields p s k l cs => .fields p s k l (cs.map fun c => (c.1, c.2.castFirst))
  | m => m

/-- An iterator that walks the list itself and hands out raw values, told as `rawOf` the iterator of the same row
    that walks the list and hands out the Values — when there is one under that name.  (That the two are the
    same sequence of answers is `Proofs.RowTieAll.iter_either`.) -/
def normalisedIterators (its : List (String × Iterator)) : List (String × Iterator) :=
  if its.lookup "IterValues" = some .listFrontToBack then
    its.map fun p => (p.1, match p.2 with | .listFrontToBackRaw => .rawOf "IterValues" | i => i)
  else its

/-- The facts with every accepted alternative spelling replaced by the one `RowFactsSpec.expected` uses. -/
def RowFacts.normalised (f : RowFacts) : RowFacts :=
  { f with marshal := f.marshal.normalised, mapTo := f.mapTo.normalised,
           iterators := normalisedIterators f.iterators }

/-- No `unknown` anywhere. -/
def RowFacts.known (f : RowFacts) : Bool :=
  f.newRow.isKnown && f.selfFormat.isSome
    && f.set.isKnown && f.setValue.isKnown && f.importAtKey.isKnown
    && f.positional.all (fun p => p.2.isKnown)
    && f.importKinds.isKnown && f.importAtPath.isKnown
    && f.readers.all (fun p => p.2.isKnown) && f.iterators.all (fun p => p.2.isKnown)
    && f.getValueAtPath.isKnown && f.asRow.isKnown && f.findValuesAtPath.isKnown
    && f.marshal.isKnown && f.unmarshal.all UStep.isKnown
    && f.parseObject.isKnown && f.parseArray.isKnown && f.handleDelim.isKnown
    && f.getters.all (fun p => p.2.isKnown) && f.mapTo.isKnown
    && f.copies.all (fun p => p.2.isKnown)

end Jl
