/-
  Model.Cells — cell behaviour for rows whose cells carry no raw type and an Auto or Hidden
  format (the universe of the C06 histories), plus rows used as cells.
  Superseded by Model.Value for typed cells; kept separate so that the C06 correspondence
  does not depend on any cast.
-/
import Model.Row
import Model.JsonRead

namespace Jl.Cells
open Jl

def bytesLt : Bytes → Bytes → Bool
  | [], [] => false
  | [], _ :: _ => true
  | _ :: _, [] => false
  | a :: as, b :: bs => if a < b then true else if b < a then false else bytesLt as bs

def insertKV {α : Type} (kv : Bytes × α) : List (Bytes × α) → List (Bytes × α)
  | [] => [kv]
  | x :: xs => if bytesLt kv.1 x.1 then kv :: x :: xs else x :: insertKV kv xs

def sortKV {α : Type} (l : List (Bytes × α)) : List (Bytes × α) :=
  l.foldr insertKV []

mutual
  /-- `Value.Raw()`: a cell's raw value; a row's `Raw()` is an (unordered) Go map. -/
  def raw : Val → Dyn
    | .cell r _ _ => r
    | .row ms => .gomap (DynMap.ofList (sortKV (rawList ms)))
  def rawList : Members → List (Bytes × Dyn)
    | .nil => []
    | .cons k v ms => (k, raw v) :: rawList ms
end

def format : Val → Format
  | .cell _ f _ => f
  | .row _ => .auto

def rawType : Val → Ty
  | .cell _ _ t => t
  | .row _ => .none

def newCell (x : Dyn) : Val :=
  match x with
  | .val v => v
  | _ => .cell x .auto .none

def autoCell (x : Dyn) : Val := .cell x .auto .none

/-- `Set` on a present key, raw type none: `cast.To(nil, x) = x`, so `NewValue(x, f, nil)`. -/
def setExisting (c : Val) (x : Dyn) : Val := .cell x (format c) (rawType c)

/-- `Import` on a cell without raw type in format Auto/Hidden, or on a row (whose own
    `Import` recurses into its cells: `fuel` bounds that nesting).
    Other formats are outside this module (`unsupportedFormat` marks them). -/
def importIntoF : Nat → Val → Dyn → Val × Option ErrClass
  | 0, c, _ => (c, some .unsupportedFormat)
  | fuel + 1, c, x =>
    let ops : CellOps Val Dyn ErrClass :=
      { newCell := newCell, autoCell := autoCell, setExisting := setExisting,
        importInto := importIntoF fuel }
    match c with
    | .row ms =>
      match x with
      | .arr xs =>
        let (o, e) := OMap.importSliceFrom ops ms.toList 0 xs.toList
        (.row (Members.ofList o), e)
      | .gomap kvs =>
        let (o, e) := OMap.importMap ops ms.toList kvs.toList
        (.row (Members.ofList o), e)
      | _ => (c, some .unsupportedImport)
    | .cell _ f t =>
      match x with
      | .nil => (.cell .nil f t, none)
      | .val (.row ms) =>
        -- an incoming Row is kept as it is by Auto / Hidden columns; the column keeps its format
        if f == .auto || f == .hidden then (.cell (.val (.row ms)) f t, none)
        else (.cell .nil f t, some .unsupportedFormat)
      | .val v => (.cell (raw v) (format v) (rawType v), none)
      | _ =>
        if (f == .auto || f == .hidden) && t == .none then (.cell x f t, none)
        else (.cell .nil f t, some .unsupportedFormat)

def ops : CellOps Val Dyn ErrClass :=
  { newCell := newCell, autoCell := autoCell, setExisting := setExisting,
    importInto := importIntoF 4096 }

mutual
  /-- What `handledelim` returns for a parsed value: scalars as they are, arrays as
      `[]interface{}`, objects as fresh rows filled member by member. -/
  def ofJV : JV → Dyn
    | .null => .nil
    | .bool b => .bool b
    | .num l => .num l
    | .str s => .str s
    | .arr xs => .arr (DynList.ofList (ofJVList xs))
    | .obj ms =>
      let (o, _) := OMap.parseMembers ops [] (ofJVMembers ms)
      .val (.row (Members.ofList o))
  def ofJVList : JVList → List Dyn
    | .nil => []
    | .cons x xs => ofJV x :: ofJVList xs
  def ofJVMembers : JVMembers → List (Bytes × Dyn)
    | .nil => []
    | .cons k v ms => (k, ofJV v) :: ofJVMembers ms
end

end Jl.Cells
