/-
  Model.ValueSyntax — the small syntax in which extract/value.go renders pkg/jsonline's value.go,
  conversions_import.go and conversions_export.go (Gen.ValueTable).

  The translator runs `value.Import`, `value.Export`, `NewValue` and `CloneValue` symbolically, once
  per `Format` constant (the functions of the package inlined), and names the shape of what it finds:
  one `ImportFn` / `ExportFn` per format, the sentinels the errors wrap, and a tag for each of the
  four irregular bodies.  What has none of the shapes below is `unknown` with the decision tree that
  was found as its text; nothing is guessed.  (`val` = the argument of Import, `v` = the cell.)
-/
import Model.Basic

namespace Jl

/-- What `Import` does, for one format, with a `val` that is neither nil, a Row nor a Value.
    In every shape a failed step ends `v.raw = nil; return fmt.Errorf("%w…", importSentinel, …)`
    and a successful end is `v.raw = <result>; return nil`. -/
inductive ImportFn
  /-- `v.typ == nil`: `cast.<dflt>(val)`; otherwise `cast.To(v.typ, val)`. -/
  | byType (dflt : String)
  /-- `cast.<toStr>(val)`, then `base64.StdEncoding.DecodeString(that.(string))`, then
      `v.typ == nil`: the bytes; otherwise `cast.To(v.typ, bytes)`. -/
  | binary (toStr : String)
  /-- `v.raw, err = cast.To(v.typ, val); return err` — the error is not wrapped. -/
  | castTo
  | unknown (text : String)
  deriving DecidableEq, Repr

/-- What `Export` does, for one format, with a `v.raw` that is not nil.  A failed step ends
    `return nil, fmt.Errorf("%w…", exportSentinel, …)`. -/
inductive ExportFn
  /-- `cast.A(v.raw)`, then `cast.B(result)` …; the last result is returned. -/
  | chain (casters : List String)
  /-- `cast.<toBin>(v.raw)`, then `base64.StdEncoding.EncodeToString(that.([]byte))`. -/
  | binary (toBin : String)
  /-- `return v.raw, nil` -/
  | raw
  | unknown (text : String)
  deriving DecidableEq, Repr

/-- What happens with a `Format` that is none of the declared constants.
    `fail s` in Export: `return nil, fmt.Errorf("%w…", s, …)`.
    `fail s` in Import: `return fmt.Errorf("%w…", s, …)` and NOTHING is written to `v.raw`. -/
inductive Fallback
  | fail (sentinel : String)
  | unknown (text : String)
  deriving DecidableEq, Repr

/-- One of the four irregular bodies: either it is, path by path, what Model.Value says
    (see the fields of `ValueTable`), or here is the tree that was found. -/
inductive BodyTag
  | asModelled
  | unknown (text : String)
  deriving DecidableEq, Repr

structure ValueTable where
  /-- the constants of type `Format`, in declaration order, with their values -/
  formats : List (String × Int)
  /-- errors.go: the sentinels and the sentinel each wraps with `%w` -/
  sentinels : List (String × Option String)
  /-- `.asModelled`: for every format, Import starts with
        `val == nil`            → `v.raw = nil; return nil`
        `val.(Row)`             → Auto, Hidden with `v.typ == nil`: `v.raw = the row; return nil`; otherwise: the format's row below
        `val.(Value)` (no Row)  → `v.f, v.raw, v.typ = val.GetFormat(), val.Raw(), val.GetRawType(); return nil`
      and what remains is the format's row below. -/
  importPreamble : BodyTag
  importRows : List (Format × ImportFn)
  importSentinel : String
  importDefault : Fallback
  /-- `.asModelled`: for every format, Export starts with `v.raw == nil → return nil, nil`; what
      remains is the format's row below; nothing is written to the cell. -/
  exportPreamble : BodyTag
  exportRows : List (Format × ExportFn)
  exportSentinel : String
  exportDefault : Fallback
  /-- `.asModelled`: `NewValue(v, f, t)` = `r, err := cast.To(t, v)`; the cell `{r, f, t}` when
      `err == nil`, the cell `{v, f, t}` otherwise. -/
  newValue : BodyTag
  /-- `.asModelled`: `CloneValue(v)` = `NewValue(v.Raw(), v.GetFormat(), v.GetRawType())`. -/
  cloneValue : BodyTag
  deriving DecidableEq, Repr

def ImportFn.isKnown : ImportFn → Bool
  | .unknown _ => false
  | _ => true

def ExportFn.isKnown : ExportFn → Bool
  | .unknown _ => false
  | _ => true

def Fallback.isKnown : Fallback → Bool
  | .unknown _ => false
  | _ => true

def BodyTag.isModelled : BodyTag → Bool
  | .asModelled => true
  | .unknown _ => false

/-- No `unknown` anywhere, and the four irregular bodies are as modelled. -/
def ValueTable.known (tb : ValueTable) : Bool :=
  tb.importRows.all (fun r => r.2.isKnown) && tb.exportRows.all (fun r => r.2.isKnown)
    && tb.importDefault.isKnown && tb.exportDefault.isKnown
    && tb.importPreamble.isModelled && tb.exportPreamble.isModelled
    && tb.newValue.isModelled && tb.cloneValue.isModelled

/-- The declared formats in the order of Model.Basic's `Format` (`bad` is no constant). -/
def Format.declared : List Format :=
  [.string, .numeric, .boolean, .binary, .date, .datetime, .timestamp, .auto, .hidden]

/-- Name of the Go constant. -/
def Format.goName : Format → String
  | .string => "String" | .numeric => "Numeric" | .boolean => "Boolean" | .binary => "Binary"
  | .date => "Date" | .datetime => "DateTime" | .timestamp => "Timestamp" | .auto => "Auto"
  | .hidden => "Hidden" | .bad => "?"

end Jl
