/-
  Model.LE — encoding/binary.LittleEndian PutUintN / UintN (and BigEndian, so that a change
  of byte order in the source has a model to be compared with), two's complement.
-/
import Model.Basic

namespace Jl.LE

/-- Little-endian image of `x` on `n` bytes (`binary.LittleEndian.PutUint<8n>`). -/
def put : Nat → Nat → Bytes
  | 0, _ => []
  | n + 1, x => UInt8.ofNat (x % 256) :: put n (x / 256)

/-- `binary.LittleEndian.Uint<8n>` of the first bytes. -/
def get : Bytes → Nat
  | [] => 0
  | b :: rest => b.toNat + 256 * get rest

def putBE (n : Nat) (x : Nat) : Bytes := (put n x).reverse
def getBE (bs : Bytes) : Nat := get bs.reverse

/-- Two's complement: the unsigned image of a signed value on `bits` bits (`uintN(v)`). -/
def toU (bits : Nat) (v : Int) : Nat := (v % (2 ^ bits : Int)).toNat

/-- The signed reading of an unsigned image (`intN(u)`). -/
def ofU (bits : Nat) (u : Nat) : Int :=
  if u ≥ 2 ^ (bits - 1) then (u : Int) - (2 ^ bits : Int) else (u : Int)

end Jl.LE
