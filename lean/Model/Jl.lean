/-
  Model.Jl — cmd/jl: the two configuration languages (YAML columns, inline JSON template),
  both building an (input template, output template) pair, and `createTemplate`'s choice
  between them.  The model starts from the parsed column list / the parsed inline row; YAML
  and flag parsing themselves (yaml.v3, cobra, viper) are executed only.
-/
import Model.Template
import Gen.Registry

namespace Jl.JlCmd
open Jl Jl.Value Jl.Template

/-- `parseDescriptor`: the regexp `^([^\(]+)(?:\(([^\)]+)\))?$` as a function, then the two
    registries (unknown format → Auto, unknown or absent type → nil). -/
def splitDescriptor (d : Bytes) : Option (Bytes × Bytes) :=
  let g1 := d.takeWhile (· != 0x28)
  let rest := d.dropWhile (· != 0x28)
  if g1.isEmpty then none
  else if rest.isEmpty then some (g1, [])
  else
    -- rest = '(' body ')' with a non-empty body free of ')' and nothing after
    match rest.drop 1 |>.reverse with
    | 0x29 :: revBody =>
      let body := revBody.reverse
      if body.isEmpty || body.contains 0x29 then none else some (g1, body)
    | _ => none

def lookupB {α : Type} (tbl : List (Bytes × α)) (k : Bytes) : Option α :=
  (tbl.find? fun e => e.1 == k).map Prod.snd

def parseDescriptor (d : Bytes) : Format × Ty :=
  match splitDescriptor d with
  | none => (.auto, .none)
  | some (g1, g2) => ((lookupB Gen.formatRegistry g1).getD .auto, (lookupB Gen.typeRegistry g2).getD .none)

/-- A column definition as both languages can express it. -/
inductive ColDef
  | leaf (name input output : Bytes)
  | sub (name : Bytes) (cols : List ColDef)

def pairRows (a b : Outcome Tmpl) : Outcome (Tmpl × Tmpl) :=
  match a, b with
  | .ok a, .ok b => .ok (a, b)
  | .err e, _ => .err e
  | _, .err e => .err e
  | .panic s, _ => .panic s
  | _, .panic s => .panic s

/-- One column of `parse` (YAML route): `With(name, in)` / `With(name, out)`, then `WithRow`
    when the column has sub-columns (`sub` = the recursive call). -/
def yamlCol (env : Env) (sub : List ColDef → Outcome (Tmpl × Tmpl)) (acc : Outcome (Tmpl × Tmpl))
    (c : ColDef) : Outcome (Tmpl × Tmpl) :=
  match acc with
  | .ok (ti, to) =>
    (match c with
     | .leaf name i o =>
       .ok (withCol ti name (parseDescriptor i).1 (parseDescriptor i).2,
            withCol to name (parseDescriptor o).1 (parseDescriptor o).2)
     | .sub name cols =>
       -- YAML: With(name, "", "") first (auto), then WithRow when len(cols) > 0
       let ti1 := withCol ti name .auto .none
       let to1 := withCol to name .auto .none
       if cols.isEmpty then .ok (ti1, to1)
       else
         match sub cols with
         | .ok (si, so) => pairRows (withRow env ti1 name si) (withRow env to1 name so)
         | o => o)
  | o => o

/-- `parse` (YAML route). Returns (ti, to). -/
def ofYaml (env : Env) : Nat → List ColDef → Outcome (Tmpl × Tmpl)
  | 0, _ => .err .ext
  | fuel + 1, cols => cols.foldl (yamlCol env (ofYaml env fuel)) (.ok ([], []))

/-- `createTemplateFromRow` (inline route) over the same abstract columns: a leaf is the
    string `in:out` split at the first colon (output = input when there is no colon). -/
def inlineText (i o : Bytes) : Bytes := i ++ 0x3A :: o

def splitColon (s : Bytes) : Bytes × Option Bytes :=
  let a := s.takeWhile (· != 0x3A)
  let rest := s.dropWhile (· != 0x3A)
  match rest with
  | [] => (a, none)
  | _ :: b => (a, some b)

def inlineCol (env : Env) (sub : List ColDef → Outcome (Tmpl × Tmpl)) (acc : Outcome (Tmpl × Tmpl))
    (c : ColDef) : Outcome (Tmpl × Tmpl) :=
  match acc with
  | .ok (ti, to) =>
    (match c with
     | .leaf name i o =>
       let ab := splitColon (inlineText i o)
       let din := parseDescriptor ab.1
       let dout := match ab.2 with
         | some b => parseDescriptor b
         | none => din
       .ok (withCol ti name din.1 din.2, withCol to name dout.1 dout.2)
     | .sub name cols =>
       match sub cols with
       | .ok (si, so) => pairRows (withRow env ti name si) (withRow env to name so)
       | o => o)
  | o => o

def ofInline (env : Env) : Nat → List ColDef → Outcome (Tmpl × Tmpl)
  | 0, _ => .err .ext
  | fuel + 1, cols => cols.foldl (inlineCol env (ofInline env fuel)) (.ok ([], []))

/-- `createTemplate`: the file definition first; a non-empty inline template other than `{}`
    replaces it entirely. -/
def createTemplate (env : Env) (file : List ColDef) (inline : Option (List ColDef)) : Outcome (Tmpl × Tmpl) :=
  match ofYaml env 16 file with
  | .ok fileT =>
    (match inline with
     | none => .ok fileT
     | some cols => ofInline env 16 cols)
  | o => o

end Jl.JlCmd
