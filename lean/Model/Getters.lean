/-
  Model.Getters — the sixteen typed getters of row.go (`GetString`, `GetInt` … `GetTime`):

      result, _ := cast.ToX(r.GetOrNil(key));  v, _ := result.(T);  return v

  i.e. the cast of the raw value stored under the key (nil when the key is absent) when that cast
  succeeds with a T, and T's zero value otherwise — absent keys, JSON nulls and unconvertible
  values are reported as the zero value, never by a panic (defect F-C17a was the single-value form
  of the two assertions).
-/
import Model.Value

namespace Jl.Getters
open Jl Jl.Value

/-- getter name → (caster, result type) -/
def table : List (String × String × Ty) := [
  ("GetString", "ToString", .str), ("GetInt", "ToInt", .int .int), ("GetInt64", "ToInt64", .int .i64),
  ("GetInt32", "ToInt32", .int .i32), ("GetInt16", "ToInt16", .int .i16), ("GetInt8", "ToInt8", .int .i8),
  ("GetUint", "ToUint", .int .uint), ("GetUint64", "ToUint64", .int .u64), ("GetUint32", "ToUint32", .int .u32),
  ("GetUint16", "ToUint16", .int .u16), ("GetUint8", "ToUint8", .int .u8), ("GetFloat64", "ToFloat64", .f64),
  ("GetFloat32", "ToFloat32", .f32), ("GetBool", "ToBool", .bool), ("GetBytes", "ToBinary", .bytes),
  ("GetTime", "ToTime", .time)]

/-- The zero value of a getter's result type (`time.Time{}` is year 1, UTC). -/
def zeroOf : Ty → Dyn
  | .int t => .int t 0
  | .f64 => .f64 0
  | .f32 => .f32 0
  | .bool => .bool false
  | .str => .str []
  | .bytes => .bytes []
  | .time => .time ⟨-62135596800, 0, 0⟩
  | _ => .nil

/-- `r.GetOrNil(key)`: the raw value, nil when absent. -/
def getOrNil (row : List (Bytes × Val)) (k : Bytes) : Dyn :=
  match lookup row k with
  | some v => Cells.raw v
  | none => .nil

/-- One typed getter; `none` for a name that is not a getter. A missing stdlib answer is passed on
    (`err .ext`): the model abstains. -/
def typedGet (env : Env) (name : String) (row : List (Bytes × Val)) (k : Bytes) : Option (Outcome Dyn) :=
  match table.lookup name with
  | none => none
  | some (caster, ty) =>
    some <|
      match Cast.castNamed env.T env.ext caster (getOrNil row k) with
      | .ok r => if Cast.typeOf r == ty then .ok r else .ok (zeroOf ty)
      | .err .ext => .err .ext
      | .err _ => .ok (zeroOf ty)
      | .panic s => .panic s

end Jl.Getters
