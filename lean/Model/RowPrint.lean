/-
  Model.RowPrint — how a row becomes a line: `row.MarshalJSON`, `value.MarshalJSON`
  (Export, then json.Marshal) and json.Marshal over the `Dyn` universe.
  jsonline logic (the row walk, the hidden test, the trailing-comma replacement, Export)
  + a port of encoding/json's encoder for the value kinds that can occur.
-/
import Model.Value
import Model.JsonWrite

namespace Jl.RowPrint
open Jl Jl.Value

def lit (s : String) : Bytes := s.toUTF8.toList

def null : Bytes := [0x6E, 0x75, 0x6C, 0x6C]
def tru : Bytes := [0x74, 0x72, 0x75, 0x65]
def fls : Bytes := [0x66, 0x61, 0x6C, 0x73, 0x65]

/-- `[x,y,…]` -/
def joinComma : List Bytes → Bytes
  | [] => []
  | [x] => x
  | x :: xs => x ++ 0x2C :: joinComma xs

/-- Fractional part of RFC3339Nano: `.` + nanoseconds with trailing zeros removed. -/
def fracNano (ns : Nat) : Bytes :=
  if ns == 0 then []
  else
    let ds := Time.pad ns 9
    let trimmed := (ds.reverse.dropWhile (· == 0x30)).reverse
    0x2E :: trimmed

/-- `time.Time.MarshalJSON`: RFC 3339 with nanoseconds, quoted; an error outside years
    0..9999 and for zone offsets of 24 h or more. -/
def marshalTime (t : GoTime) : Option Bytes :=
  let c := Time.civilOf t
  if c.year < 0 || c.year > 9999 then none
  else if t.off.natAbs / 3600 ≥ 24 then none
  else
    some (0x22 :: (Time.formatDate t ++ [0x54] ++ Time.pad c.hour 2 ++ [0x3A] ++ Time.pad c.min 2 ++ [0x3A]
      ++ Time.pad c.sec 2 ++ fracNano t.nsec ++ Time.formatZone t.off ++ [0x22]))

mutual
  /-- json.Marshal(x) -/
  def marshalDyn (env : Env) : Dyn → Outcome Bytes
    | .nil => .ok null
    | .bool b => .ok (if b then tru else fls)
    | .int _ v => .ok (IntText.formatInt v)
    | .f64 b =>
      match env.ext.jsonFloat b 64 with
      | some (some s) => .ok s
      | some none => .err .marshal
      | none => .err .ext
    | .f32 b =>
      match env.ext.jsonFloat b 32 with
      | some (some s) => .ok s
      | some none => .err .marshal
      | none => .err .ext
    | .str s => .ok (JsonWrite.quote s)
    | .bytes s => .ok (JsonWrite.quote (Base64.encode s))
    | .num l =>
      if l.isEmpty then .ok [0x30]
      else if JsonWrite.isValidNumber l then .ok l else .err .marshal
    | .time t =>
      match marshalTime t with
      | some s => .ok s
      | none => .err .marshal
    | .barr s => .ok (0x5B :: (joinComma (s.map fun b => IntText.formatInt b.toNat) ++ [0x5D]))
    | .arr xs =>
      match marshalList env xs with
      | .ok parts => .ok (0x5B :: (joinComma parts ++ [0x5D]))
      | .err e => .err e
      | .panic s => .panic s
    | .gomap kvs =>
      match marshalMap env kvs with
      | .ok parts => .ok (0x7B :: (joinComma parts ++ [0x7D]))
      | .err e => .err e
      | .panic s => .panic s
    | .val v => marshalVal env v
    | .other _ => .err .ext
  def marshalList (env : Env) : DynList → Outcome (List Bytes)
    | .nil => .ok []
    | .cons x xs =>
      match marshalDyn env x with
      | .ok b =>
        match marshalList env xs with
        | .ok rest => .ok (b :: rest)
        | .err e => .err e
        | .panic s => .panic s
      | .err e => .err e
      | .panic s => .panic s
  /-- map entries `"k":v` (the map is kept with sorted keys) -/
  def marshalMap (env : Env) : DynMap → Outcome (List Bytes)
    | .nil => .ok []
    | .cons k x m =>
      match marshalDyn env x with
      | .ok b =>
        match marshalMap env m with
        | .ok rest => .ok ((JsonWrite.quote k ++ 0x3A :: b) :: rest)
        | .err e => .err e
        | .panic s => .panic s
      | .err e => .err e
      | .panic s => .panic s
  /-- `Value.MarshalJSON`: a cell exports then marshals; a row walks its key list. -/
  def marshalVal (env : Env) : Val → Outcome Bytes
    | .cell raw f typ =>
      match exportVal env (.cell raw f typ) with
      | .ok e =>
        -- e is an exported value: its own marshalling cannot recurse into this cell
        marshalExported env e raw
      | .err e => .err e
      | .panic s => .panic s
    | .row ms =>
      match marshalMembers env ms with
      | .ok parts => .ok (0x7B :: (joinComma parts ++ [0x7D]))
      | .err e => .err e
      | .panic s => .panic s
  /-- json.Marshal of what `Export` returned for a cell with raw value `raw`: either `raw`
      itself (Auto/Hidden — structurally smaller than the cell) or a scalar. -/
  def marshalExported (env : Env) (e : Dyn) (raw : Dyn) : Outcome Bytes :=
    match e with
    | .nil => .ok null
    | .bool b => .ok (if b then tru else fls)
    | .int _ v => .ok (IntText.formatInt v)
    | .str s => .ok (JsonWrite.quote s)
    | .num l =>
      if l.isEmpty then .ok [0x30]
      else if JsonWrite.isValidNumber l then .ok l else .err .marshal
    | _ => marshalDyn env raw
  /-- the members of `row.MarshalJSON`: `"key":value` for every key whose cell is not hidden -/
  def marshalMembers (env : Env) : Members → Outcome (List Bytes)
    | .nil => .ok []
    | .cons k v ms =>
      if Cells.format v == .hidden then marshalMembers env ms
      else
        match marshalVal env v with
        | .ok b =>
          match marshalMembers env ms with
          | .ok rest => .ok ((JsonWrite.quote k ++ 0x3A :: b) :: rest)
          | .err e => .err e
          | .panic s => .panic s
        | .err e => .err e
        | .panic s => .panic s
end

/-- `row.MarshalJSON` -/
def marshalRow (env : Env) (ms : Members) : Outcome Bytes := marshalVal env (.row ms)

/-- The key order of the emitted object (what C03/C06 observe). -/
def visibleKeys (ms : List (Bytes × Val)) : List Bytes :=
  (ms.filter fun kv => Cells.format kv.2 != .hidden).map Prod.fst

end Jl.RowPrint
