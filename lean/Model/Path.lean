/-
  Model.Path — dotted-path access of row.go: `GetValueAtPath`, `GetAtPath`,
  `FindValuesAtPath`, `ImportAtPath`.  A nested row may be a bare row cell (built through the
  API) or an Auto cell wrapping a row (parsed from JSON), as the code produces them.
  Specification: `navigate` = descending key by key with `GetValue`.
-/
import Model.Value

namespace Jl.Path
open Jl Jl.Value

/-- strings.Split(path, ".") -/
def splitDots : Bytes → List Bytes
  | [] => [[]]
  | c :: rest =>
    if c == 0x2E then [] :: splitDots rest
    else
      match splitDots rest with
      | [] => [[c]]
      | k :: ks => (c :: k) :: ks

/-- strings.Join(keys, ".") -/
def joinDots : List Bytes → Bytes
  | [] => []
  | [k] => k
  | k :: rest => k ++ 0x2E :: joinDots rest

/-- `asRow`: the row a value is or wraps. -/
def asRow : Val → Option (List (Bytes × Val))
  | .row ms => some ms.toList
  | .cell (.val (.row ms)) _ _ => some ms.toList
  | .cell _ _ _ => none

/-- `GetValueAtPath` over the split keys. -/
def getValueAtKeys (row : List (Bytes × Val)) : List Bytes → Option Val
  | [] => some (.row (Members.ofList row))
  | [k] => lookup row k
  | k :: rest =>
    match lookup row k with
    | none => none
    | some v =>
      match asRow v with
      | none => none
      | some sub => getValueAtKeys sub rest

def getValueAtPath (row : List (Bytes × Val)) (path : Bytes) : Option Val :=
  getValueAtKeys row (splitDots path)

/-- `GetAtPath`: the raw value. -/
def getAtPath (row : List (Bytes × Val)) (path : Bytes) : Option Dyn :=
  (getValueAtPath row path).map Cells.raw

/-- Specification: key-by-key navigation with `GetValue`, through either representation of
    a nested row. -/
def navigate (row : List (Bytes × Val)) : List Bytes → Option Val
  | [] => some (.row (Members.ofList row))
  | [k] => lookup row k
  | k :: rest => (lookup row k).bind fun v => (asRow v).bind fun sub => navigate sub rest

/-- `FindValuesAtPath` over the split keys (`SplitN(path, ".", 2)` at each level): through rows
    (either representation); through an array, the results of its row elements are concatenated in
    order, other elements are skipped. `fuel` bounds the number of keys consumed, never the length
    of an array. -/
def findValues : Nat → List (Bytes × Val) → List Bytes → Option (List Val)
  | 0, _, _ => none
  | _, _, [] => none
  | _, row, [k] => (lookup row k).map fun v => [v]
  | fuel + 1, row, k :: rest =>
    match lookup row k with
    | none => none
    | some v =>
      match asRow v with
      | some sub => findValues fuel sub rest
      | none =>
        match Cells.raw v with
        | .arr xs => some (xs.toList.foldl (fun acc x =>
            match x with
            | .val (.row ms) => acc ++ (findValues fuel ms.toList rest).getD []
            | _ => acc) [])
        | _ => none

def findValuesAtPath (row : List (Bytes × Val)) (path : Bytes) : Option (List Val) :=
  findValues (path.length + 2) row (splitDots path)

/-- Rebuild a value that is or wraps a row with a new content. -/
def withRow (v : Val) (sub : List (Bytes × Val)) : Val :=
  match v with
  | .row _ => .row (Members.ofList sub)
  | .cell _ f t => .cell (.val (.row (Members.ofList sub))) f t

/-- `ImportAtPath` over the split keys: the row afterwards and the error. -/
def importAtKeys (env : Env) (row : List (Bytes × Val)) : List Bytes → Dyn →
    Outcome (List (Bytes × Val) × Option ErrClass)
  | [], _ => .ok (row, some .unsupportedImport)      -- the row itself: `row.Import(x)` — not addressed by a non-empty split
  | [k], x =>
    match lookup row k with
    | none => .ok (row, some .pathNotFound)
    | some v =>
      match importVal env v x with
      | .ok (v', e) => .ok (upsert row k v', e)
      | .err e => .err e
      | .panic s => .panic s
  | k :: rest, x =>
    match lookup row k with
    | none => .ok (row, some .pathNotFound)
    | some v =>
      match asRow v with
      | none => .ok (row, some .pathNotFound)
      | some sub =>
        match importAtKeys env sub rest x with
        | .ok (sub', e) => .ok (upsert row k (withRow v sub'), e)
        | .err e => .err e
        | .panic s => .panic s

def importAtPath (env : Env) (row : List (Bytes × Val)) (path : Bytes) (x : Dyn) :
    Outcome (List (Bytes × Val) × Option ErrClass) :=
  importAtKeys env row (splitDots path) x

/-- Specification of `FindValuesAtPath`: the addressed value of every element that has it,
    in document order, through rows (either representation) and arrays of objects. -/
def collect : Nat → List (Bytes × Val) → List Bytes → Option (List Val)
  | 0, _, _ => none
  | _, _, [] => none
  | _, row, [k] => (lookup row k).map fun v => [v]
  | fuel + 1, row, k :: rest =>
    (lookup row k).bind fun v =>
      match asRow v with
      | some sub => collect fuel sub rest
      | none =>
        match Cells.raw v with
        | .arr xs => some (xs.toList.foldl (fun acc x =>
            match x with
            | .val (.row ms) => acc ++ (collect fuel ms.toList rest).getD []
            | _ => acc) [])
        | _ => none

end Jl.Path
