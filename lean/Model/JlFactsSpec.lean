/-
  Model.JlFactsSpec — what Model.Jl (and the C19 driver) ASSUME about cmd/jl, by hand, in the syntax of
  Model.JlFactsSyntax.  Proofs.JlTie proves that the facts regenerated from the source are these.
-/
import Model.JlFactsSyntax

namespace Jl.JlFactsSpec
open Jl Jl.JlFacts

def expected : JlFacts :=
  { -- `JlCmd.splitDescriptor` IS this expression as a function (Proofs.JlDescriptor: `Matches`, group 1 = the
    -- format name, group 2 = the raw-type name); `JlCmd.parseDescriptor`: `(lookupB Gen.formatRegistry g1).getD .auto`,
    -- `(lookupB Gen.typeRegistry g2).getD .none`, `(.auto, .none)` when there is no match
    descriptor := .regexp "^([^\\(]+)(?:\\(([^\\)]+)\\))?$" 1 2 "formatRegistry" "Auto" "typeRegistry",
    -- `JlCmd.yamlCol`: `.leaf name i o` = `withCol ti name (parseDescriptor i)`, `withCol to name (parseDescriptor o)`;
    -- `.sub name cols` = the two `withCol … .auto .none` FIRST, then `withRow` on both sides when `cols` is not empty;
    -- `JlCmd.ofYaml`: a fold over the columns from `([], [])`
    fileRoute := .withThenSubRows,
    -- `JlCmd.createTemplate`: `ofYaml env 16 file` starts from two empty templates
    parseRowDefinition := .readThenParse,
    -- the model starts from the parsed column list (`file : List ColDef`): a missing file is `[]` (C19's driver runs
    -- the inline cases without a row.yml), an unreadable or malformed one is a template error (exit ≠ 0)
    readFile := .statReadYaml,
    -- `JlCmd.createTemplate`'s `inline : Option (List ColDef)` is the parsed row of the `-t` text
    fromString := .unmarshalIntoNewRow,
    -- `JlCmd.inlineCol`: `splitColon (inlineText i o)` — everything after the FIRST colon is the output descriptor —,
    -- `dout := match ab.2 with | some b => parseDescriptor b | none => din`; `.sub` = `withRow` on both sides
    inlineRoute := .splitN ":" 2 .sameAsInput,
    -- C19's driver passes the file as `-f` and the inline template as `-t`
    templateFlags := .flags "filename" "template",
    -- `JlCmd.createTemplate`: `match ofYaml env 16 file with | .ok fileT => (match inline with | none => .ok fileT
    -- | some cols => ofInline env 16 cols) | o => o`: the file first (its error wins), the inline template REPLACES it;
    -- `inline = none` stands for an empty `-t` or `{}`
    createTemplate := .fileThenInlineReplaces 0 "{}",
    -- `Driver.JlCase.runCase`: `Stream.stream ⟨env, ti, to, .tolerant, 65536, 10485760⟩ [.data stdin] []`: `ti` reads
    -- stdin, `to` writes stdout, through the library's constructors (Proofs.FlowTie*); "model-template-error" ↔ exit 1
    run := .stream 1 0 "Stdin" 1 "Stdout",
    -- `Stream.Proc.tolerant` (`result _ _ = none`); `showRun`'s `nerr` counts the calls that carried an error = the
    -- lines logged; the exit status stays 0
    processor := .logsAndReturnsNil,
    -- C19: "a malformed template makes the command exit non-zero"
    mainFn := .exits "Stderr" 1 1,
    -- `showRun`: `out` is what the exporter wrote and nothing else: stdout is handed to GetExporter only (and asked for
    -- its file descriptor by computeColor); every logger writes to stderr
    stdStreams := [
      ("computeColor", "os.Stdout", ".Fd"),
      ("initConfig", "os.Stderr", "zerolog.ConsoleWriter.Out"),
      ("initConfig", "os.Stderr", "zerolog.New"),
      ("main", "os.Stderr", "zerolog.ConsoleWriter.Out"),
      ("run", "os.Stdin", ".GetImporter"),
      ("run", "os.Stdout", ".GetExporter")],
    printCalls := [] }

end Jl.JlFactsSpec
