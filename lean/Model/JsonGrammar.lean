/-
  Model.JsonGrammar — RFC 8259 at byte level, as inductive predicates (specification).

  Interpretation (DESIGN.md §10): inside a string literal any byte ≥ 0x20 other than `"` and
  `\` is a character byte (so ill-formed UTF-8 inside a string is accepted, as encoding/json
  does and as JSONTestSuite classifies it: implementation-defined); escapes are exactly
  `\" \\ \/ \b \f \n \r \t \uXXXX`.  Whitespace is space, TAB, LF, CR.
-/
import Model.Basic

namespace Jl.Grammar

def isWs (c : UInt8) : Bool := c == 0x20 || c == 0x09 || c == 0x0A || c == 0x0D
def isDigit (c : UInt8) : Bool := 0x30 ≤ c && c ≤ 0x39
def isHex (c : UInt8) : Bool :=
  (0x30 ≤ c && c ≤ 0x39) || (0x61 ≤ c && c ≤ 0x66) || (0x41 ≤ c && c ≤ 0x46)

/-- ws = *( %x20 / %x09 / %x0A / %x0D ) -/
def WS (s : Bytes) : Prop := ∀ c ∈ s, isWs c = true

/-- The characters of a string body (between the quotes). -/
inductive Chars : Bytes → Prop
  | nil : Chars []
  | plain (c : UInt8) (rest : Bytes) : 0x20 ≤ c → c ≠ 0x22 → c ≠ 0x5C → Chars rest → Chars (c :: rest)
  | esc (e : UInt8) (rest : Bytes) :
      (e = 0x22 ∨ e = 0x5C ∨ e = 0x2F ∨ e = 0x62 ∨ e = 0x66 ∨ e = 0x6E ∨ e = 0x72 ∨ e = 0x74) →
      Chars rest → Chars (0x5C :: e :: rest)
  | uni (a b c d : UInt8) (rest : Bytes) :
      isHex a = true → isHex b = true → isHex c = true → isHex d = true →
      Chars rest → Chars (0x5C :: 0x75 :: a :: b :: c :: d :: rest)

/-- string = quotation-mark *char quotation-mark -/
def JString (s : Bytes) : Prop := ∃ body, s = 0x22 :: (body ++ [0x22]) ∧ Chars body

def Digits (s : Bytes) : Prop := s ≠ [] ∧ ∀ c ∈ s, isDigit c = true

/-- int = zero / ( digit1-9 *DIGIT ) -/
def JInt (s : Bytes) : Prop :=
  s = [0x30] ∨ ∃ c rest, s = c :: rest ∧ 0x31 ≤ c ∧ c ≤ 0x39 ∧ ∀ d ∈ rest, isDigit d = true

/-- frac = decimal-point 1*DIGIT (or empty) -/
def JFrac (s : Bytes) : Prop := s = [] ∨ ∃ ds, s = 0x2E :: ds ∧ Digits ds

/-- exp = e [ minus / plus ] 1*DIGIT (or empty) -/
def JExp (s : Bytes) : Prop :=
  s = [] ∨ ∃ e sign ds, s = e :: (sign ++ ds) ∧ (e = 0x65 ∨ e = 0x45) ∧
    (sign = [] ∨ sign = [0x2B] ∨ sign = [0x2D]) ∧ Digits ds

/-- number = [ minus ] int [ frac ] [ exp ] -/
def JNumber (s : Bytes) : Prop :=
  ∃ neg i f e, s = neg ++ i ++ f ++ e ∧ (neg = [] ∨ neg = [0x2D]) ∧ JInt i ∧ JFrac f ∧ JExp e

mutual
  /-- value = false / null / true / object / array / number / string -/
  inductive JValue : Bytes → Prop
    | null : JValue [0x6E, 0x75, 0x6C, 0x6C]
    | tru : JValue [0x74, 0x72, 0x75, 0x65]
    | fls : JValue [0x66, 0x61, 0x6C, 0x73, 0x65]
    | num (s : Bytes) : JNumber s → JValue s
    | str (s : Bytes) : JString s → JValue s
    | arr (s : Bytes) : JArray s → JValue s
    | obj (s : Bytes) : JObject s → JValue s
  /-- array = begin-array [ value *( value-separator value ) ] end-array, with the optional
      whitespace of the structural characters made explicit. -/
  inductive JArray : Bytes → Prop
    | empty (w : Bytes) : WS w → JArray (0x5B :: (w ++ [0x5D]))
    | elems (body : Bytes) : JElems body → JArray (0x5B :: (body ++ [0x5D]))
  /-- ws value ws *( "," ws value ws ) -/
  inductive JElems : Bytes → Prop
    | one (w1 v w2 : Bytes) : WS w1 → JValue v → WS w2 → JElems (w1 ++ v ++ w2)
    | more (w1 v w2 rest : Bytes) : WS w1 → JValue v → WS w2 → JElems rest →
        JElems (w1 ++ v ++ w2 ++ 0x2C :: rest)
  /-- object = begin-object [ member *( value-separator member ) ] end-object -/
  inductive JObject : Bytes → Prop
    | empty (w : Bytes) : WS w → JObject (0x7B :: (w ++ [0x7D]))
    | members (body : Bytes) : JMembers body → JObject (0x7B :: (body ++ [0x7D]))
  /-- member = ws string ws ":" ws value ws -/
  inductive JMembers : Bytes → Prop
    | one (w1 k w2 w3 v w4 : Bytes) : WS w1 → JString k → WS w2 → WS w3 → JValue v → WS w4 →
        JMembers (w1 ++ k ++ w2 ++ 0x3A :: (w3 ++ v ++ w4))
    | more (w1 k w2 w3 v w4 rest : Bytes) : WS w1 → JString k → WS w2 → WS w3 → JValue v → WS w4 →
        JMembers rest → JMembers (w1 ++ k ++ w2 ++ 0x3A :: (w3 ++ v ++ w4) ++ 0x2C :: rest)
end

/-- A line that is exactly one JSON object, optionally surrounded by whitespace. -/
def IsObjectText (s : Bytes) : Prop :=
  ∃ w1 o w2, s = w1 ++ o ++ w2 ∧ WS w1 ∧ JObject o ∧ WS w2

end Jl.Grammar
