/-
  Model.FlowSyntax — the small syntax in which extract/flow.go renders pkg/jsonline's template.go,
  exporter.go, importer.go and streamer.go (Gen.FlowTable).

  The translator runs every function of the four files symbolically (the executor of extract/value.go,
  extended with loops; the functions of the four files inlined into each other, everything else an
  opaque call) and names the shape of the tree it finds.  What has none of the shapes below is
  `unknown` with the tree that was found as its text; nothing is guessed.

  Reading the shapes.  `t`, `e`, `i`, `s` are the receivers (template, exporter, importer, streamer);
  every shape includes "and nothing else": no other call on the path, no field of the receiver
  written unless the shape says so.  An order of calls that a shape spells out is the order found.
  The fields of the four structs are told apart by their TYPE, not by their name (`e.t` is the exporter's
  field of type Template whatever it is called); helpers of the four files are inlined wherever they are
  called, so a body moved into a helper is the same tree.
-/
import Model.Basic

namespace Jl.Flow

/-! ### template.go -/

/-- `NewTemplate()` -/
inductive ProtoInit
  /-- `return &template{empty: NewRow()}` -/
  | freshRow
  | unknown (text : String)
  deriving DecidableEq, Repr

/-- The format a builder declares. -/
inductive FormatArg
  /-- a `Format` constant of value.go -/
  | const (f : Format)
  /-- the builder's parameter of type `Format` -/
  | param
  | unknown (text : String)
  deriving DecidableEq, Repr

/-- The raw type a builder declares. -/
inductive RawTypeArg
  | nil
  /-- the builder's parameter of type `RawType` -/
  | param
  | unknown (text : String)
  deriving DecidableEq, Repr

/-- How a builder makes the cell it declares (its raw value is nil either way). -/
inductive NilCell
  /-- the literal `&value{raw: nil, f: fmt, typ: typ}` (`NewValueString(nil)` … `NewValueNil(f, typ)`) -/
  | literal
  /-- `NewValue(nil, fmt, typ)`: what `Gen.valueTable.newValue` says, i.e. `cast.To(typ, nil)` first -/
  | newValue
  deriving DecidableEq, Repr

/-- A `With…` method of `*template`, `name` its first parameter. -/
inductive Builder
  /-- `t.empty.SetValue(name, <cell>)` on the receiver's own prototype; `return t` -/
  | column (cell : NilCell) (fmt : FormatArg) (typ : RawTypeArg)
  /-- `t.empty.SetValue(name, rowt.CreateRowEmpty())`, `rowt` the Template parameter: what is stored is
      what `CreateRowEmpty` hands out at the call (see `createRowEmpty`), never a row `rowt` keeps; `return t` -/
  | subRow
  | unknown (text : String)
  deriving DecidableEq, Repr

/-- A row a template method hands out or works on. -/
inductive RowSrc
  /-- the result of `CloneRow(t.empty)`, called in this very execution -/
  | cloneOfProto
  /-- `t.empty` itself -/
  | proto
  | unknown (text : String)
  deriving DecidableEq, Repr

/-- The `Row` returned together with an error. -/
inductive RowRet
  | nil
  /-- the row being filled -/
  | row
  deriving DecidableEq, Repr

/-- How an error reaches the caller. -/
inductive ErrRet
  /-- `fmt.Errorf("…%w…", err)` (the text does not matter) -/
  | wrapped
  /-- `err` itself -/
  | plain
  deriving DecidableEq, Repr

/-- The dynamic types `CreateRow`'s type switch has a case for. -/
inductive InputKind
  | slice      -- []interface{}
  | map        -- map[string]interface{}
  | row        -- Row
  | bytes      -- []byte
  | string     -- string
  | nil        -- case nil
  | other (ty : String)
  deriving DecidableEq, Repr

inductive Iter
  /-- `for k, x := range input` -/
  | range
  /-- `iter := input.IterValues()`, then `k, x, ok := iter()` until `ok` is false -/
  | iterValues
  deriving DecidableEq, Repr

/-- What `CreateRow` does with an input of one kind. `row` = the row `on` says. -/
inductive Branch
  /-- For every `(k, x)` of the input, in the order `iter` gives:
        `target, ok := row.<getter>(k)`;
        `ok && target != nil` → the cell `NewValue(x', target.GetFormat(), target.GetRawType())`,
        otherwise            → the literal Auto cell `&value{raw: x', f: Auto, typ: nil}`;
        `row.<setter>(k, cell)`;
      `x'` is `x` (`rawOf = false`) or `x.Raw()` (`rawOf = true`).  Then `return row, nil`. -/
  | fill (on : RowSrc) (iter : Iter) (getter setter : String) (rawOf : Bool)
  /-- `row.UnmarshalJSON(<the input, as []byte>)`; an error → `return <onError>, <err>`;
      otherwise `return row, nil`. -/
  | text (on : RowSrc) (onError : RowRet) (err : ErrRet)
  /-- `return <ret>, fmt.Errorf("%w…", <sentinel>)` at once -/
  | fail (ret : RowRet) (sentinel : String)
  | unknown (text : String)
  deriving DecidableEq, Repr

/-- `CreateRow(v)`: a type switch on `v`; `cases` in the order of `InputKind` whatever the order of
    the source (the case types exclude each other), `dflt` for every other dynamic type. -/
structure CreateRow where
  cases : List (InputKind × Branch)
  dflt : Branch
  deriving DecidableEq, Repr

/-- `GetExporter(w)` / `GetImporter(r)` -/
inductive Handover
  /-- `return NewExporter(w).WithTemplate(t)` (`NewImporter(r)` …): the receiver ITSELF is handed over -/
  | self
  | unknown (text : String)
  deriving DecidableEq, Repr

/-! ### exporter.go, importer.go -/

/-- `WithTemplate(t)` of the exporter and of the importer -/
inductive Setter
  /-- `x.t = t; return x`: the argument itself is kept -/
  | storesArg
  | unknown (text : String)
  deriving DecidableEq, Repr

/-- `NewExporter(w)` -/
inductive ExporterInit
  /-- `return &exporter{w: w, t: NewTemplate()}` -/
  | writerAndNewTemplate
  | unknown (text : String)
  deriving DecidableEq, Repr

/-- `exporter.Export(input)` -/
inductive Export
  /-- `row, err := e.t.CreateRow(input)`   — an error: `return <err>` at once;
      `b, err := row.MarshalJSON()`        — an error: `return <err>` at once;
      `_, err := e.w.Write(append(b, sep))` — an error: `return <err>`;
      `return nil`.
      So: exactly ONE `Write`, of the row's bytes followed by the byte `sep`, and no `Write` at all
      when `CreateRow` or `MarshalJSON` failed.  The written bytes are `append(b, sep)` or the value of a
      function of the file that copies `b` into a fresh buffer of `len(b)+1` bytes and puts `sep` last
      (the same bytes; the translator recognises that body and nothing else). -/
  | oneWrite (sep : Nat) (err : ErrRet)
  | unknown (text : String)
  deriving DecidableEq, Repr

/-- `NewImporter(r)` -/
inductive ImporterInit
  /-- `s := bufio.NewScanner(r)`; `s.Buffer(make([]byte, len, cap), max)`; no other call on `s`
      (no `Split`: the scanner keeps `bufio.ScanLines`);
      `return &importer{r: r, s: s, t: NewTemplate()}` -/
  | scanner (len cap max : Nat)
  | unknown (text : String)
  deriving DecidableEq, Repr

/-- `importer.Import()` -/
inductive ImportCall
  /-- `return i.s.Scan()` -/
  | scan
  | unknown (text : String)
  deriving DecidableEq, Repr

/-- `importer.Err()` -/
inductive ErrCall
  /-- `return i.s.Err()` -/
  | scannerErr
  | unknown (text : String)
  deriving DecidableEq, Repr

/-- `importer.GetRow()` -/
inductive GetRow
  /-- `i.s.Err() != nil` → `return nil, fmt.Errorf("%w", i.s.Err())` FIRST;
      then `i.s.Bytes()`, `row := i.t.CreateRowEmpty()` (the importer's template), `row.UnmarshalJSON(bytes)`:
      an error → `return <onError>, <err>`; otherwise `return row, nil`. -/
  | scannerErrThenParse (onError : RowRet) (err : ErrRet)
  | unknown (text : String)
  deriving DecidableEq, Repr

/-- `importer.ReadOne()` -/
inductive ReadOne
  /-- `if i.Import() { return i.GetRow() }` — both as `importerImport` and `getRow` say — else `return nil, nil` -/
  | importThenGetRow
  | unknown (text : String)
  deriving DecidableEq, Repr

/-! ### streamer.go -/

/-- A stock processor `func(r Row, e error) error` -/
inductive Processor
  /-- `return e` -/
  | returnsErr
  /-- `return nil` -/
  | returnsNil
  | unknown (text : String)
  deriving DecidableEq, Repr

/-- `NewStreamer(importer, exporter)` -/
inductive StreamerInit
  /-- `return &streamer{importer: importer, exporter: exporter, processor: <the function named>}` -/
  | storesBoth (processor : String)
  | unknown (text : String)
  deriving DecidableEq, Repr

/-- `streamer.WithProcessor(p)` -/
inductive WithProcessor
  /-- `s.processor = p`, or the function named when `p == nil`; `return s` -/
  | argOrDefault (dflt : String)
  | unknown (text : String)
  deriving DecidableEq, Repr

/-- The error handed to the processor. -/
inductive ErrArg
  | none
  /-- `fmt.Errorf("%w", err)` of the error at hand -/
  | wrapped
  /-- the error at hand itself -/
  | plain
  deriving DecidableEq, Repr

/-- One call `s.processor(row, err)`: `row` = GetRow's row (`.row`) or nil. -/
structure ProcCall where
  row : RowRet
  err : ErrArg
  deriving DecidableEq, Repr

/-- What follows `Stream`'s loop. -/
inductive AfterLoop
  /-- when the importer has a method `Err() error` and it returns a non-nil error:
      `return s.processor(<c>)`; in every other case `return nil` -/
  | errHandover (c : ProcCall)
  /-- `return nil` -/
  | nothing
  deriving DecidableEq, Repr

/-- `streamer.Stream()` -/
inductive Stream
  /-- A loop that runs while `s.importer.Import()` (evaluated first, once per round) is true:
        `row, err := s.importer.GetRow()`
        `err != nil`: `s.processor(<onRowErr>)`; its result, when not nil, is RETURNED by Stream;
                      when nil, the NEXT ROUND starts — `Export` is not called for this line;
        `err == nil`: `s.processor(<onRow>)`; its result, when not nil, is returned;
                      `s.exporter.Export(row)`; on an error `s.processor(<onExportErr>)`, whose result,
                      when not nil, is returned; then the next round.
      When `Import()` is false the loop ends and `after` follows.  A processor's non-nil result is
      the only way out of the loop other than `Import()` being false. -/
  | loop (onRowErr onRow onExportErr : ProcCall) (after : AfterLoop)
  | unknown (text : String)
  deriving DecidableEq, Repr

/-! ### the table -/

structure FlowTable where
  newTemplate : ProtoInit
  /-- the methods of `*template` whose name starts with `With`, sorted by name -/
  builders : List (String × Builder)
  /-- what `CreateRowEmpty()` returns -/
  createRowEmpty : RowSrc
  createRow : CreateRow
  getExporter : Handover
  getImporter : Handover
  newExporter : ExporterInit
  exporterWithTemplate : Setter
  exporterExport : Export
  newImporter : ImporterInit
  importerWithTemplate : Setter
  importerImport : ImportCall
  importerErr : ErrCall
  getRow : GetRow
  readOne : ReadOne
  defaultProcessor : Processor
  noFailureProcessor : Processor
  newStreamer : StreamerInit
  withProcessor : WithProcessor
  stream : Stream
  deriving DecidableEq, Repr

/-! ### "no unknown" -/

def ProtoInit.isKnown : ProtoInit → Bool | .unknown _ => false | _ => true
def FormatArg.isKnown : FormatArg → Bool | .unknown _ => false | _ => true
def RawTypeArg.isKnown : RawTypeArg → Bool | .unknown _ => false | _ => true
def Builder.isKnown : Builder → Bool
  | .column _ f t => f.isKnown && t.isKnown
  | .subRow => true
  | .unknown _ => false
def RowSrc.isKnown : RowSrc → Bool | .unknown _ => false | _ => true
def InputKind.isKnown : InputKind → Bool | .other _ => false | _ => true
def Branch.isKnown : Branch → Bool
  | .fill on _ _ _ _ => on.isKnown
  | .text on _ _ => on.isKnown
  | .fail _ _ => true
  | .unknown _ => false
def CreateRow.isKnown (c : CreateRow) : Bool :=
  c.cases.all (fun kb => kb.1.isKnown && kb.2.isKnown) && c.dflt.isKnown
def Handover.isKnown : Handover → Bool | .unknown _ => false | _ => true
def Setter.isKnown : Setter → Bool | .unknown _ => false | _ => true
def ExporterInit.isKnown : ExporterInit → Bool | .unknown _ => false | _ => true
def Export.isKnown : Export → Bool | .unknown _ => false | _ => true
def ImporterInit.isKnown : ImporterInit → Bool | .unknown _ => false | _ => true
def ImportCall.isKnown : ImportCall → Bool | .unknown _ => false | _ => true
def ErrCall.isKnown : ErrCall → Bool | .unknown _ => false | _ => true
def GetRow.isKnown : GetRow → Bool | .unknown _ => false | _ => true
def ReadOne.isKnown : ReadOne → Bool | .unknown _ => false | _ => true
def Processor.isKnown : Processor → Bool | .unknown _ => false | _ => true
def StreamerInit.isKnown : StreamerInit → Bool | .unknown _ => false | _ => true
def WithProcessor.isKnown : WithProcessor → Bool | .unknown _ => false | _ => true
def Stream.isKnown : Stream → Bool | .unknown _ => false | _ => true

/-- No `unknown` anywhere in the table. -/
def FlowTable.known (tb : FlowTable) : Bool :=
  tb.newTemplate.isKnown && tb.builders.all (fun nb => nb.2.isKnown) && tb.createRowEmpty.isKnown
    && tb.createRow.isKnown && tb.getExporter.isKnown && tb.getImporter.isKnown
    && tb.newExporter.isKnown && tb.exporterWithTemplate.isKnown && tb.exporterExport.isKnown
    && tb.newImporter.isKnown && tb.importerWithTemplate.isKnown && tb.importerImport.isKnown
    && tb.importerErr.isKnown && tb.getRow.isKnown && tb.readOne.isKnown
    && tb.defaultProcessor.isKnown && tb.noFailureProcessor.isKnown && tb.newStreamer.isKnown
    && tb.withProcessor.isKnown && tb.stream.isKnown

end Jl.Flow
