/-
  Model.JsonRead — how jsonline reads one line of JSON text.

  Two layers, as in the code:
  * a port of the part of encoding/json that `row.UnmarshalJSON` drives: `json.Decoder`
    in token mode (`Token`, `More`, the nine token states and their stack) and the scalar
    scanner + `unquote` that `Token` falls into for strings, numbers and literals
    (stdlib port, validated against encoding/json directly by the harness);
  * `parseObject` / `parseArray` / `handleDelim` / `unmarshal`, mirroring row.go's
    `parseobject` / `parsearray` / `handledelim` / `UnmarshalJSON` (jsonline logic).

  The result is a syntax tree `JV` (members in text order, duplicates kept, number literals
  verbatim).  What the row does with the members (import into declared columns, stop at the
  first failing import) is Model.Row / Model.Value.
-/
import Model.Utf8

namespace Jl

mutual
  inductive JV
    | null
    | bool (b : Bool)
    | num (lit : Bytes)
    | str (s : Bytes)
    | arr (xs : JVList)
    | obj (ms : JVMembers)
  inductive JVList
    | nil
    | cons (x : JV) (xs : JVList)
  inductive JVMembers
    | nil
    | cons (k : Bytes) (v : JV) (ms : JVMembers)
end

instance : Inhabited JV := ⟨.null⟩

def JVList.toList : JVList → List JV
  | .nil => []
  | .cons x xs => x :: xs.toList

def JVMembers.toList : JVMembers → List (Bytes × JV)
  | .nil => []
  | .cons k v ms => (k, v) :: ms.toList

def JVMembers.ofList : List (Bytes × JV) → JVMembers
  | [] => .nil
  | (k, v) :: ms => .cons k v (JVMembers.ofList ms)

def JVList.ofList : List JV → JVList
  | [] => .nil
  | x :: xs => .cons x (JVList.ofList xs)

namespace Json

/-! ### Scalars: the scanner's number/literal/string automata and `unquote` -/

def isSpace (c : UInt8) : Bool := c == 0x20 || c == 0x09 || c == 0x0D || c == 0x0A

def skipSpace : Bytes → Bytes
  | [] => []
  | c :: rest => if isSpace c then skipSpace rest else c :: rest

def isDigit (c : UInt8) : Bool := 0x30 ≤ c && c ≤ 0x39

/-- Longest prefix of ASCII digits, and the rest. -/
def digits : Bytes → Bytes × Bytes
  | [] => ([], [])
  | c :: rest =>
    if isDigit c then
      let (ds, r) := digits rest
      (c :: ds, r)
    else ([], c :: rest)

def hexVal (c : UInt8) : Option Nat :=
  if 0x30 ≤ c && c ≤ 0x39 then some (c.toNat - 0x30)
  else if 0x61 ≤ c && c ≤ 0x66 then some (c.toNat - 0x61 + 10)
  else if 0x41 ≤ c && c ≤ 0x46 then some (c.toNat - 0x41 + 10)
  else none

/-- Four hex digits at the head. -/
def hex4 : Bytes → Option Nat
  | a :: b :: c :: d :: _ =>
    match hexVal a, hexVal b, hexVal c, hexVal d with
    | some a, some b, some c, some d => some (a * 4096 + b * 256 + c * 16 + d)
    | _, _, _, _ => none
  | _ => none

/-- `getu4`: a `\uXXXX` escape at the head. -/
def getu4 : Bytes → Option Nat
  | 0x5C :: 0x75 :: rest => hex4 rest
  | _ => none

def isSurrogate (r : Nat) : Bool := 0xD800 ≤ r && r < 0xE000
def isHighSurrogate (r : Nat) : Bool := 0xD800 ≤ r && r < 0xDC00
def isLowSurrogate (r : Nat) : Bool := 0xDC00 ≤ r && r < 0xE000

/-- The one-character escapes the scanner admits after a backslash (`u` is separate). -/
def simpleEscape (c : UInt8) : Option UInt8 :=
  if c == 0x22 then some 0x22          -- \"
  else if c == 0x5C then some 0x5C     -- \\
  else if c == 0x2F then some 0x2F     -- \/
  else if c == 0x62 then some 0x08     -- \b
  else if c == 0x66 then some 0x0C     -- \f
  else if c == 0x6E then some 0x0A     -- \n
  else if c == 0x72 then some 0x0D     -- \r
  else if c == 0x74 then some 0x09     -- \t
  else none

def pre (p : Bytes) (o : Option (Bytes × Bytes)) : Option (Bytes × Bytes) :=
  o.map fun (s, r) => (p ++ s, r)

/-- Body of a string literal after the opening quote: decoded content and what follows the
    closing quote.  `none` = the scanner rejects (control byte, bad escape, unterminated). -/
def strBody (bs : Bytes) : Option (Bytes × Bytes) :=
  match bs with
  | [] => none
  | c :: rest =>
    if c == 0x22 then some ([], rest)
    else if c == 0x5C then
      match rest with
      | [] => none
      | e :: rest2 =>
        if e == 0x75 then
          match hex4 rest2 with
          | none => none
          | some r =>
            if isSurrogate r then
              match getu4 (rest2.drop 4) with
              | some r2 =>
                if isHighSurrogate r && isLowSurrogate r2 then
                  pre (Utf8.encode ((r - 0xD800) * 1024 + (r2 - 0xDC00) + 0x10000))
                    (strBody (rest2.drop 10))
                else pre Utf8.replacement (strBody (rest2.drop 4))
              | none => pre Utf8.replacement (strBody (rest2.drop 4))
            else pre (Utf8.encode r) (strBody (rest2.drop 4))
        else
          match simpleEscape e with
          | some ch => pre [ch] (strBody rest2)
          | none => none
    else if c < 0x20 then none
    else if c < 0x80 then pre [c] (strBody rest)
    else
      match Utf8.seqLen (c :: rest) with
      | some 2 => pre (c :: rest.take 1) (strBody (rest.drop 1))
      | some 3 => pre (c :: rest.take 2) (strBody (rest.drop 2))
      | some 4 => pre (c :: rest.take 3) (strBody (rest.drop 3))
      | _ => pre Utf8.replacement (strBody rest)
termination_by bs.length
decreasing_by all_goals simp <;> omega

/-- Exponent part after `e`/`E`: optional sign, at least one digit. -/
def scanExp (bs : Bytes) : Option (Bytes × Bytes) :=
  let (sign, r) : Bytes × Bytes :=
    match bs with
    | c :: r => if c == 0x2B || c == 0x2D then ([c], r) else ([], bs)
    | [] => ([], [])
  let (ds, r') := digits r
  if ds.isEmpty then none else some (sign ++ ds, r')

/-- After the integer part: optional fraction, optional exponent. -/
def scanFracExp (bs : Bytes) : Option (Bytes × Bytes) :=
  match bs with
  | c :: r =>
    if c == 0x2E then
      let (ds, r') := digits r
      if ds.isEmpty then none
      else
        match r' with
        | e :: r'' =>
          if e == 0x65 || e == 0x45 then (scanExp r'').map fun (x, rest) => (c :: ds ++ e :: x, rest)
          else some (c :: ds, r')
        | [] => some (c :: ds, [])
    else if c == 0x65 || c == 0x45 then (scanExp r).map fun (x, rest) => (c :: x, rest)
    else some ([], bs)
  | [] => some ([], [])

/-- Integer part (after an optional minus): `0` or a non-zero digit followed by digits. -/
def scanInt (bs : Bytes) : Option (Bytes × Bytes) :=
  match bs with
  | c :: r =>
    if c == 0x30 then some ([c], r)
    else if 0x31 ≤ c && c ≤ 0x39 then
      let (ds, r') := digits r
      some (c :: ds, r')
    else none
  | [] => none

/-- A number literal at the head (the scanner's state1/state0/stateDot/stateE… automaton):
    the literal verbatim and the rest. -/
def scanNumber (bs : Bytes) : Option (Bytes × Bytes) :=
  let (neg, r) : Bytes × Bytes :=
    match bs with
    | c :: r => if c == 0x2D then ([c], r) else ([], bs)
    | [] => ([], [])
  match scanInt r with
  | none => none
  | some (ip, r1) =>
    match scanFracExp r1 with
    | none => none
    | some (fe, r2) => some (neg ++ ip ++ fe, r2)

def stripPrefix (p : Bytes) (bs : Bytes) : Option Bytes :=
  if p.isPrefixOf bs then some (bs.drop p.length) else none

inductive Tok
  | lbrace | rbrace | lbrack | rbrack
  | str (s : Bytes) | num (lit : Bytes) | tru | fls | null
  deriving DecidableEq, Repr

/-- One scalar value at the head of `bs` (first byte is not a space). -/
def scanScalar (bs : Bytes) : Option (Tok × Bytes) :=
  match bs with
  | [] => none
  | c :: rest =>
    if c == 0x22 then (strBody rest).map fun (s, r) => (.str s, r)
    else if c == 0x2D || isDigit c then (scanNumber bs).map fun (l, r) => (.num l, r)
    else if c == 0x74 then (stripPrefix [0x74, 0x72, 0x75, 0x65] bs).map fun r => (.tru, r)
    else if c == 0x66 then (stripPrefix [0x66, 0x61, 0x6C, 0x73, 0x65] bs).map fun r => (.fls, r)
    else if c == 0x6E then (stripPrefix [0x6E, 0x75, 0x6C, 0x6C] bs).map fun r => (.null, r)
    else none

/-! ### json.Decoder in token mode -/

inductive TokState
  | topValue | arrayStart | arrayValue | arrayComma
  | objectStart | objectKey | objectColon | objectValue | objectComma
  deriving DecidableEq, Repr

structure Dec where
  buf : Bytes
  st : TokState
  stack : List TokState

def valueAllowed : TokState → Bool
  | .topValue | .arrayStart | .arrayValue | .objectValue => true
  | _ => false

/-- `tokenValueEnd` -/
def valueEnd : TokState → TokState
  | .arrayStart | .arrayValue => .arrayComma
  | .objectValue => .objectComma
  | s => s

inductive TokRes
  | tok (t : Tok) (d : Dec)
  | eof
  | err

/-- The non-separator part of `Decoder.Token`'s switch; `buf` has no leading space. -/
def tokenCore (st : TokState) (stack : List TokState) (buf : Bytes) : TokRes :=
  match buf with
  | [] => .eof
  | c :: rest =>
    if c == 0x5B then
      if valueAllowed st then .tok .lbrack ⟨rest, .arrayStart, st :: stack⟩ else .err
    else if c == 0x5D then
      if st == .arrayStart || st == .arrayComma then
        match stack with
        | s :: stk => .tok .rbrack ⟨rest, valueEnd s, stk⟩
        | [] => .err
      else .err
    else if c == 0x7B then
      if valueAllowed st then .tok .lbrace ⟨rest, .objectStart, st :: stack⟩ else .err
    else if c == 0x7D then
      if st == .objectStart || st == .objectComma then
        match stack with
        | s :: stk => .tok .rbrace ⟨rest, valueEnd s, stk⟩
        | [] => .err
      else .err
    else if c == 0x3A || c == 0x2C then .err
    else if c == 0x22 && (st == .objectStart || st == .objectKey) then
      match strBody rest with
      | some (s, r) => .tok (.str s) ⟨r, .objectColon, stack⟩
      | none => .err
    else if valueAllowed st then
      match scanScalar buf with
      | some (t, r) => .tok t ⟨r, valueEnd st, stack⟩
      | none => .err
    else .err

/-- `Decoder.Token`: at most one `:` or `,` is consumed (a second separator is an error in
    every state), then the switch above. -/
def token (d : Dec) : TokRes :=
  match skipSpace d.buf with
  | [] => .eof
  | c :: rest =>
    if c == 0x3A then
      if d.st == .objectColon then tokenCore .objectValue d.stack (skipSpace rest) else .err
    else if c == 0x2C then
      if d.st == .arrayComma then tokenCore .arrayValue d.stack (skipSpace rest)
      else if d.st == .objectComma then tokenCore .objectKey d.stack (skipSpace rest)
      else .err
    else tokenCore d.st d.stack (c :: rest)

/-- `Decoder.More` -/
def more (d : Dec) : Bool :=
  match skipSpace d.buf with
  | [] => false
  | c :: _ => c != 0x5D && c != 0x7D

/-! ### row.go's parser -/

def asTok : TokRes → Option (Tok × Dec)
  | .tok t d => some (t, d)
  | .eof => none
  | .err => none

def asKey : TokRes → Option (Bytes × Dec)
  | .tok (.str s) d => some (s, d)
  | .tok .lbrace _ | .tok .rbrace _ | .tok .lbrack _ | .tok .rbrack _ => none
  | .tok (.num _) _ | .tok .tru _ | .tok .fls _ | .tok .null _ => none
  | .eof => none
  | .err => none

def asClose (close : Tok) : TokRes → Option Dec
  | .tok t d => if t = close then some d else none
  | .eof => none
  | .err => none

def scalarOf : Tok → Option JV
  | .str s => some (.str s)
  | .num l => some (.num l)
  | .tru => some (.bool true)
  | .fls => some (.bool false)
  | .null => some .null
  | .lbrace | .rbrace | .lbrack | .rbrack => none

mutual
  /-- `parseobject`: members parsed so far (text order) and the decoder after the closing
      brace, or `none` on any error (the members parsed before the error are still reported:
      at top level they have already been imported into the row). -/
  def parseObject : Nat → Dec → JVMembers × Option Dec
    | 0, _ => (.nil, none)
    | fuel + 1, d =>
      if more d then
        match asKey (token d) with
        | none => (.nil, none)
        | some (key, d1) =>
          match asTok (token d1) with
          | none => (.nil, none)
          | some (t, d2) =>
            match handleDelim fuel t d2 with
            | none => (.nil, none)
            | some (v, d3) =>
              let res := parseObject fuel d3
              (.cons key v res.1, res.2)
      else
        (.nil, asClose .rbrace (token d))
  /-- `parsearray` -/
  def parseArray : Nat → Dec → Option (JVList × Dec)
    | 0, _ => none
    | fuel + 1, d =>
      if more d then
        match asTok (token d) with
        | none => none
        | some (t, d1) =>
          match handleDelim fuel t d1 with
          | none => none
          | some (v, d2) =>
            match parseArray fuel d2 with
            | none => none
            | some (xs, d3) => some (.cons v xs, d3)
      else
        (asClose .rbrack (token d)).map fun d' => (.nil, d')
  /-- `handledelim` -/
  def handleDelim : Nat → Tok → Dec → Option (JV × Dec)
    | 0, _, _ => none
    | fuel + 1, t, d =>
      match t with
      | .lbrace =>
        match parseObject fuel d with
        | (ms, some d') => some (.obj ms, d')
        | (_, none) => none
      | .lbrack =>
        match parseArray fuel d with
        | some (xs, d') => some (.arr xs, d')
        | none => none
      | .rbrace => none
      | .rbrack => none
      | .str s => some (.str s, d)
      | .num l => some (.num l, d)
      | .tru => some (.bool true, d)
      | .fls => some (.bool false, d)
      | .null => some (.null, d)
end

def isEof : TokRes → Bool
  | .eof => true
  | _ => false

/-- `row.UnmarshalJSON` at the level of syntax: the top-level members the decoder delivered
    (in order) and whether the whole text was accepted. -/
def unmarshal (bs : Bytes) : JVMembers × Bool :=
  match asClose .lbrace (token ⟨bs, .topValue, []⟩) with
  | none => (.nil, false)
  | some d =>
    match parseObject (2 * bs.length + 2) d with
    | (ms, none) => (ms, false)
    | (ms, some d') => (ms, isEof (token d'))

def accepts (bs : Bytes) : Bool := (unmarshal bs).2

end Json
end Jl
