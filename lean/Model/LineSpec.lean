/-
  Model.LineSpec — what C03 (key order and presence) and C04 (lexical class per format)
  demand of one emitted line, stated on the input text, the output text and the rendering
  template only (specification side; used as oracle on the implementation's output and as
  the statement of the theorems).
-/
import Model.Template
import Model.JsonGrammar

namespace Jl.LineSpec
open Jl

/-- Column declarations of a template: name, and either (format) or a declared sub-row. -/
inductive Col
  | leaf (name : Bytes) (f : Format) (typ : Ty)
  | sub (name : Bytes) (cols : List Col)

def Col.name : Col → Bytes
  | .leaf n _ _ => n
  | .sub n _ => n

def Col.hidden : Col → Bool
  | .leaf _ f _ => f == .hidden
  | .sub _ _ => false

def dedup (ks : List Bytes) : List Bytes :=
  ks.foldl (fun acc k => if acc.contains k then acc else acc ++ [k]) []

/-- C03's rule for one object level: visible columns in declaration order, then the input's
    undeclared keys in order of first appearance. -/
def expectedKeys (cols : List Col) (inputKeys : List Bytes) : List Bytes :=
  let declared := cols.map Col.name
  ((cols.filter fun c => !c.hidden).map Col.name) ++ (dedup inputKeys).filter fun k => !declared.contains k

def keysOf (ms : JVMembers) : List Bytes := ms.toList.map Prod.fst

def lookupJV (ms : JVMembers) (k : Bytes) : Option JV :=
  (ms.toList.find? fun kv => kv.1 == k).map Prod.snd

mutual
  /-- Do two trees have the same shape: same member names in the same order at every depth,
      same array lengths (scalars are not compared: conversions may change them). -/
  def sameShape : JV → JV → Bool
    | .obj a, .obj b => sameShapeM a b
    | .arr a, .arr b => sameShapeL a b
    | .obj _, _ => false
    | _, .obj _ => false
    | .arr _, _ => false
    | _, .arr _ => false
    | _, _ => true
  def sameShapeM : JVMembers → JVMembers → Bool
    | .nil, .nil => true
    | .cons k v ms, .cons k' v' ms' => k == k' && sameShape v v' && sameShapeM ms ms'
    | _, _ => false
  def sameShapeL : JVList → JVList → Bool
    | .nil, .nil => true
    | .cons v xs, .cons v' xs' => sameShape v v' && sameShapeL xs xs'
    | _, _ => false
end

/-- A repeated member name: the name keeps the position of its FIRST appearance and the value of its
    LAST one (C03 "in order of first appearance", C06 "lookups return the most recently stored
    value"). -/
def upsertKV (acc : List (Bytes × JV)) (k : Bytes) (v : JV) : List (Bytes × JV) :=
  if acc.any (fun kv => kv.1 == k) then acc.map (fun kv => if kv.1 == k then (k, v) else kv)
  else acc ++ [(k, v)]

mutual
  /-- The input tree with repeated names resolved at every depth (`upsertKV`): what the oracle
      compares the output with. The identity on trees without repeated names. -/
  def normDupV : JV → JV
    | .obj ms => .obj (JVMembers.ofList (normDupM ms []))
    | .arr xs => .arr (normDupL xs)
    | v => v
  def normDupM : JVMembers → List (Bytes × JV) → List (Bytes × JV)
    | .nil, acc => acc
    | .cons k v ms, acc => normDupM ms (upsertKV acc k (normDupV v))
  def normDupL : JVList → JVList
    | .nil => .nil
    | .cons v xs => .cons (normDupV v) (normDupL xs)
end

def normDup (ms : JVMembers) : JVMembers := JVMembers.ofList (normDupM ms [])

def hasDupKeys (ms : JVMembers) : Bool := (dedup (keysOf ms)).length != (keysOf ms).length

def isContainer : JV → Bool
  | .obj _ | .arr _ => true
  | _ => false

/-- C03 on one object level (recursing into declared sub-rows). `none` = holds;
    `some (clause, insideSubRow)`. -/
def orderViolation : Nat → List Col → JVMembers → JVMembers → Bool → Option (String × Bool)
  | 0, _, _, _, _ => none
  | fuel + 1, cols, input, output, inSub =>
    if hasDupKeys input then none          -- outside the property's domain
    else
      let want := expectedKeys cols (keysOf input)
      if keysOf output != want then some ("key-order-or-presence", inSub)
      else
        -- members: declared sub-rows recurse; anything else keeps the input's shape
        cols.foldl (fun acc c =>
          match acc with
          | some v => some v
          | none =>
            match c, lookupJV output c.name with
            | .sub n sub, some (.obj o) =>
              match lookupJV input n with
              | some (.obj i) => orderViolation fuel sub i o true
              | _ => orderViolation fuel sub .nil o true
            | .sub _ _, some .null => none
            | .sub _ _, some _ => some ("sub-row-not-an-object", true)
            | .leaf n _ _, some ov =>
              match lookupJV input n with
              | some iv =>
                if isContainer ov && !(sameShape iv ov) then some ("nested-object-resorted", inSub) else none
              | none => none
            | _, none => none) none
        |>.orElse fun _ =>
          -- undeclared keys: containers keep the input's shape
          (keysOf output).foldl (fun acc k =>
            match acc with
            | some v => some v
            | none =>
              if (cols.map Col.name).contains k then none
              else
                match lookupJV input k, lookupJV output k with
                | some iv, some ov => if sameShape iv ov then none else some ("undeclared-value-reshaped", inSub)
                | _, _ => none) none

/-- C03 "null when the input lacks them": a visible declared column that the input does not have comes out
    as null, whatever its format and raw type. -/
def missingColumnViolation (cols : List Col) (input output : JVMembers) : Option String :=
  cols.findSome? fun c =>
    match c with
    | .leaf n f _ =>
      if f == .hidden then none
      else
        match lookupJV input n, lookupJV output n with
        | none, some .null => none
        | none, some _ => some "missing-column-not-null"
        | _, _ => none
    | .sub _ _ => none

/-! ### C04: lexical classes -/

def isDigit (c : UInt8) : Bool := 0x30 ≤ c && c ≤ 0x39

/-- `-?(0|[1-9][0-9]*)` -/
def isIntegerLiteral (s : Bytes) : Bool :=
  let body := match s with
    | 0x2D :: r => r
    | _ => s
  match body with
  | [] => false
  | [0x30] => true
  | c :: rest => 0x31 ≤ c && c ≤ 0x39 && rest.all isDigit

/-- `YYYY-MM-DD` -/
def isDateText (s : Bytes) : Bool :=
  match s with
  | [a, b, c, d, h1, m1, m2, h2, d1, d2] =>
    [a, b, c, d, m1, m2, d1, d2].all isDigit && h1 == 0x2D && h2 == 0x2D
  | _ => false

/-- RFC 3339 `date-time`: `YYYY-MM-DDTHH:MM:SS[.d+](Z|±HH:MM)` (lexical production). -/
def isDateTimeText (s : Bytes) : Bool :=
  isDateText (s.take 10) &&
  match s.drop 10 with
  | t :: h1 :: h2 :: c1 :: m1 :: m2 :: c2 :: s1 :: s2 :: rest =>
    t == 0x54 && [h1, h2, m1, m2, s1, s2].all isDigit && c1 == 0x3A && c2 == 0x3A &&
    (let rest :=
      match rest with
      | 0x2E :: d :: r => if isDigit d then r.dropWhile isDigit else 0x2E :: d :: r
      | _ => rest
     match rest with
     | [0x5A] => true
     | [sg, a, b, c, d, e] => (sg == 0x2B || sg == 0x2D) && [a, b, d, e].all isDigit && c == 0x3A
     | _ => false)
  | _ => false

def isCanonicalBase64 (s : Bytes) : Bool :=
  match Base64.decode s with
  | some b => Base64.encode b == s
  | none => false

/-- Is the emitted value in the lexical class of format `f`? (null is always allowed) -/
def inClass (f : Format) (v : JV) : Bool :=
  match v with
  | .null => true
  | _ =>
    match f, v with
    | .string, .str _ => true
    | .numeric, .num _ => true
    | .boolean, .bool _ => true
    | .binary, .str s => isCanonicalBase64 s
    | .date, .str s => isDateText s
    | .datetime, .str s => isDateTimeText s
    | .timestamp, .num l => isIntegerLiteral l
    | .auto, _ => true
    | .hidden, _ => true
    | _, _ => false

/-- C04 on one object level (recursing into declared sub-rows). -/
def classViolation : Nat → List Col → JVMembers → Option (String × Bool)
  | 0, _, _ => none
  | fuel + 1, cols, output =>
    cols.foldl (fun acc c =>
      match acc with
      | some v => some v
      | none =>
        match c, lookupJV output c.name with
        | .leaf _ f _, some v => if inClass f v then none else some ("wrong-class-" ++ f.name, false)
        | .sub _ sub, some (.obj o) =>
          (classViolation fuel sub o).map fun (c, _) => (c, true)
        | .sub _ _, some .null => none
        | .sub _ _, some _ => some ("sub-row-not-an-object", true)
        | _, none => none) none

end Jl.LineSpec
