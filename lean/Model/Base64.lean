/-
  Model.Base64 — encoding/base64.StdEncoding: EncodeToString and DecodeString
  (standard alphabet, `=` padding mandatory, CR/LF skipped, non-zero trailing bits accepted).
  Stdlib port (a), validated against encoding/base64 directly.
-/
import Model.Basic

namespace Jl.Base64

def encChar (n : Nat) : UInt8 :=
  if n < 26 then UInt8.ofNat (65 + n)
  else if n < 52 then UInt8.ofNat (97 + n - 26)
  else if n < 62 then UInt8.ofNat (48 + n - 52)
  else if n == 62 then 0x2B else 0x2F

def decChar (c : UInt8) : Option Nat :=
  if 0x41 ≤ c && c ≤ 0x5A then some (c.toNat - 0x41)
  else if 0x61 ≤ c && c ≤ 0x7A then some (c.toNat - 0x61 + 26)
  else if 0x30 ≤ c && c ≤ 0x39 then some (c.toNat - 0x30 + 52)
  else if c == 0x2B then some 62
  else if c == 0x2F then some 63
  else none

def encode : Bytes → Bytes
  | a :: b :: c :: rest =>
    let n := a.toNat * 65536 + b.toNat * 256 + c.toNat
    encChar (n / 262144) :: encChar (n / 4096 % 64) :: encChar (n / 64 % 64) :: encChar (n % 64)
      :: encode rest
  | [a, b] =>
    let n := a.toNat * 65536 + b.toNat * 256
    [encChar (n / 262144), encChar (n / 4096 % 64), encChar (n / 64 % 64), 0x3D]
  | [a] =>
    let n := a.toNat * 65536
    [encChar (n / 262144), encChar (n / 4096 % 64), 0x3D, 0x3D]
  | [] => []

/-- Decode the quanta of a string from which CR and LF have been removed. -/
def decodeQuanta : Bytes → Option Bytes
  | [] => some []
  | [a, b, 0x3D, 0x3D] => do
    let x ← decChar a
    let y ← decChar b
    pure [UInt8.ofNat ((x * 64 + y) / 16)]
  | [a, b, c, 0x3D] => do
    let x ← decChar a
    let y ← decChar b
    let z ← decChar c
    let n := (x * 64 + y) * 64 + z
    pure [UInt8.ofNat (n / 1024), UInt8.ofNat (n / 4 % 256)]
  | a :: b :: c :: d :: rest => do
    let x ← decChar a
    let y ← decChar b
    let z ← decChar c
    let w ← decChar d
    let n := ((x * 64 + y) * 64 + z) * 64 + w
    let r ← decodeQuanta rest
    pure (UInt8.ofNat (n / 65536) :: UInt8.ofNat (n / 256 % 256) :: UInt8.ofNat (n % 256) :: r)
  | _ => none

def decode (s : Bytes) : Option Bytes :=
  decodeQuanta (s.filter fun c => c != 0x0D && c != 0x0A)

end Jl.Base64
