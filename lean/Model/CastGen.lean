/-
  Model.CastGen — the cast tables of the current source (regenerated Gen.CastTable) packed
  for the interpreter.
-/
import Model.Cast
import Gen.CastTable

namespace Jl

def genTables : CastTables :=
  { casters := Gen.casters, dispatchTo := Gen.dispatchTo, dispatchToDefault := Gen.dispatchToDefault,
    sentinels := Gen.sentinels, binFns := Gen.binFns, timeStringFormat := Gen.timeStringFormat }

/-! The unfolding lemmas of the generated tables are created here, once, so that two proof modules
    unfolding them independently can be imported together. -/
example : Gen.casters = Gen.casters := by unfold Gen.casters; rfl
example : Gen.dispatchTo = Gen.dispatchTo := by unfold Gen.dispatchTo; rfl
example : Gen.dispatchToDefault = Gen.dispatchToDefault := by unfold Gen.dispatchToDefault; rfl
example : Gen.sentinels = Gen.sentinels := by unfold Gen.sentinels; rfl
example : Gen.binFns = Gen.binFns := by unfold Gen.binFns; rfl
example : genTables = genTables := by unfold genTables; rfl

def casterOfInt : IntTy → String
  | .int => "ToInt" | .i64 => "ToInt64" | .i32 => "ToInt32" | .i16 => "ToInt16" | .i8 => "ToInt8"
  | .uint => "ToUint" | .u64 => "ToUint64" | .u32 => "ToUint32" | .u16 => "ToUint16" | .u8 => "ToUint8"

def intOfCaster? : String → Option IntTy
  | "ToInt" => some .int | "ToInt64" => some .i64 | "ToInt32" => some .i32 | "ToInt16" => some .i16
  | "ToInt8" => some .i8 | "ToUint" => some .uint | "ToUint64" => some .u64 | "ToUint32" => some .u32
  | "ToUint16" => some .u16 | "ToUint8" => some .u8 | _ => none

/-- Result type each caster promises (`none`: ToDate returns strings, ToTimestamp int64). -/
def resultTyOfCaster? : String → Option Ty
  | "ToFloat64" => some .f64 | "ToFloat32" => some .f32 | "ToBool" => some .bool
  | "ToString" => some .str | "ToNumber" => some .num | "ToBinary" => some .bytes
  | "ToTime" => some .time | "ToDate" => some .str | "ToTimestamp" => some (.int .i64)
  | s => (intOfCaster? s).map Ty.int

end Jl
