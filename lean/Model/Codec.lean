/-
  Model.Codec — line-protocol codec for the model's values (driver side).
  The Go side is harness/proto.go; both are validated against each other by the
  `echo` cases of every correspondence run.

  Dyn   :=  N | I<ty>:<dec> | F64:<hex> | F32:<hex> | Bt | Bf | S:<hex> | Y:<hex> | J:<hex>
          | TM:<sec>:<nsec>:<off> | BA:<hex> | A<n> Dyn* | M<n> (K:<hex> Dyn)* | V Val | O:<tag>
  Val   :=  C:<format>:<ty> Dyn | R<n> (K:<hex> Val)*
-/
import Model.Basic

namespace Jl

def dropS (s : String) (n : Nat) : String := String.ofList (s.toList.drop n)

def hexDigit (n : Nat) : Char :=
  if n < 10 then Char.ofNat (48 + n) else Char.ofNat (87 + n)

def hexOf (bs : Bytes) : String :=
  String.ofList (bs.foldr (fun b acc => hexDigit (b.toNat / 16) :: hexDigit (b.toNat % 16) :: acc) [])

def unhexDigit (c : Char) : Option Nat :=
  if '0' ≤ c ∧ c ≤ '9' then some (c.toNat - 48)
  else if 'a' ≤ c ∧ c ≤ 'f' then some (c.toNat - 87)
  else if 'A' ≤ c ∧ c ≤ 'F' then some (c.toNat - 55)
  else none

def unhexChars : List Char → Option Bytes
  | [] => some []
  | [_] => none
  | a :: b :: rest => do
    let x ← unhexDigit a
    let y ← unhexDigit b
    let r ← unhexChars rest
    pure (UInt8.ofNat (x * 16 + y) :: r)

def unhex (s : String) : Option Bytes := unhexChars s.toList

def hexNat (s : String) : Option Nat :=
  s.toList.foldl (fun acc c => do let a ← acc; let d ← unhexDigit c; pure (a * 16 + d)) (some 0)

def natHex (n : Nat) (width : Nat) : String :=
  let rec go (fuel : Nat) (n : Nat) (acc : List Char) : List Char :=
    match fuel with
    | 0 => acc
    | fuel + 1 => go fuel (n / 16) (hexDigit (n % 16) :: acc)
  String.ofList (go width n [])

mutual
  def Dyn.enc : Dyn → List String
    | .nil => ["N"]
    | .int t v => [s!"I{t.name}:{v}"]
    | .f64 b => ["F64:" ++ natHex b 16]
    | .f32 b => ["F32:" ++ natHex b 8]
    | .bool true => ["Bt"]
    | .bool false => ["Bf"]
    | .str s => ["S:" ++ hexOf s]
    | .bytes s => ["Y:" ++ hexOf s]
    | .num s => ["J:" ++ hexOf s]
    | .time t => [s!"TM:{t.sec}:{t.nsec}:{t.off}"]
    | .barr s => ["BA:" ++ hexOf s]
    | .arr xs => s!"A{xs.len}" :: xs.enc
    | .gomap m => s!"M{m.len}" :: m.enc
    | .val v => "V" :: v.enc
    | .other tag => [s!"O:{tag}"]
  def DynList.len : DynList → Nat
    | .nil => 0
    | .cons _ xs => xs.len + 1
  def DynList.enc : DynList → List String
    | .nil => []
    | .cons x xs => x.enc ++ xs.enc
  def DynMap.len : DynMap → Nat
    | .nil => 0
    | .cons _ _ m => m.len + 1
  def DynMap.enc : DynMap → List String
    | .nil => []
    | .cons k x m => ("K:" ++ hexOf k) :: (x.enc ++ m.enc)
  def Val.enc : Val → List String
    | .cell raw f typ => s!"C:{f.name}:{typ.name}" :: raw.enc
    | .row ms => s!"R{ms.len}" :: ms.enc
  def Members.len : Members → Nat
    | .nil => 0
    | .cons _ _ ms => ms.len + 1
  def Members.enc : Members → List String
    | .nil => []
    | .cons k v ms => ("K:" ++ hexOf k) :: (v.enc ++ ms.enc)
end

def Dyn.show (d : Dyn) : String := " ".intercalate d.enc
def Val.show (v : Val) : String := " ".intercalate v.enc

/-- `pfx:rest` split. -/
def splitTag (s : String) : String × String :=
  match s.splitOn ":" with
  | [] => ("", "")
  | a :: rest => (a, ":".intercalate rest)

def parseKey (tok : String) : Option Bytes :=
  if tok.startsWith "K:" then unhex (dropS tok 2) else none

mutual
  def parseDyn : Nat → List String → Option (Dyn × List String)
    | 0, _ => none
    | _, [] => none
    | fuel + 1, tok :: rest =>
      if tok == "N" then some (.nil, rest)
      else if tok == "Bt" then some (.bool true, rest)
      else if tok == "Bf" then some (.bool false, rest)
      else if tok == "V" then do
        let (v, rest) ← parseVal fuel rest
        pure (.val v, rest)
      else
        let (tag, body) := splitTag tok
        if tag == "S" then (unhex body).map fun b => (.str b, rest)
        else if tag == "Y" then (unhex body).map fun b => (.bytes b, rest)
        else if tag == "J" then (unhex body).map fun b => (.num b, rest)
        else if tag == "BA" then (unhex body).map fun b => (.barr b, rest)
        else if tag == "F64" then (hexNat body).map fun b => (.f64 b, rest)
        else if tag == "F32" then (hexNat body).map fun b => (.f32 b, rest)
        else if tag == "O" then body.toNat?.map fun n => (.other n, rest)
        else if tag == "TM" then
          match body.splitOn ":" with
          | [a, b, c] => do
            let s ← a.toInt?
            let n ← b.toNat?
            let o ← c.toInt?
            pure (.time ⟨s, n, o⟩, rest)
          | _ => none
        else if tag.startsWith "I" then do
          let t ← IntTy.ofName? (dropS tag 1)
          let v ← body.toInt?
          pure (.int t v, rest)
        else if tok.startsWith "A" then do
          let n ← (dropS tok 1).toNat?
          let (xs, rest) ← parseDynList fuel n rest
          pure (.arr xs, rest)
        else if tok.startsWith "M" then do
          let n ← (dropS tok 1).toNat?
          let (m, rest) ← parseDynMap fuel n rest
          pure (.gomap m, rest)
        else none
  def parseDynList : Nat → Nat → List String → Option (DynList × List String)
    | 0, _, _ => none
    | _, 0, rest => some (.nil, rest)
    | fuel + 1, n + 1, rest => do
      let (x, rest) ← parseDyn fuel rest
      let (xs, rest) ← parseDynList fuel n rest
      pure (.cons x xs, rest)
  def parseDynMap : Nat → Nat → List String → Option (DynMap × List String)
    | 0, _, _ => none
    | _, 0, rest => some (.nil, rest)
    | _, _ + 1, [] => none
    | fuel + 1, n + 1, ktok :: rest => do
      let k ← parseKey ktok
      let (x, rest) ← parseDyn fuel rest
      let (m, rest) ← parseDynMap fuel n rest
      pure (.cons k x m, rest)
  def parseVal : Nat → List String → Option (Val × List String)
    | 0, _ => none
    | _, [] => none
    | fuel + 1, tok :: rest =>
      if tok.startsWith "C:" then
        match tok.splitOn ":" with
        | [_, f, t] => do
          let f ← Format.ofName? f
          let t ← Ty.ofName? t
          let (raw, rest) ← parseDyn fuel rest
          pure (.cell raw f t, rest)
        | _ => none
      else if tok.startsWith "R" then do
        let n ← (dropS tok 1).toNat?
        let (ms, rest) ← parseMembers fuel n rest
        pure (.row ms, rest)
      else none
  def parseMembers : Nat → Nat → List String → Option (Members × List String)
    | 0, _, _ => none
    | _, 0, rest => some (.nil, rest)
    | _, _ + 1, [] => none
    | fuel + 1, n + 1, ktok :: rest => do
      let k ← parseKey ktok
      let (v, rest) ← parseVal fuel rest
      let (ms, rest) ← parseMembers fuel n rest
      pure (.cons k v ms, rest)
end

def toks (s : String) : List String := (s.splitOn " ").filter (· ≠ "")

def Dyn.parse? (s : String) : Option Dyn :=
  let ts := toks s
  match parseDyn (2 * ts.length + 2) ts with
  | some (d, []) => some d
  | _ => none

def Val.parse? (s : String) : Option Val :=
  let ts := toks s
  match parseVal (2 * ts.length + 2) ts with
  | some (v, []) => some v
  | _ => none

end Jl
