/-
  Model.MapTo — `Row.MapTo(v interface{})` of row.go, the only public operation of the library that
  uses package reflect, and `LcFirst`.

      target := reflect.ValueOf(v)
      if target.Kind() != reflect.Ptr || target.IsNil() || target.Elem().Kind() != reflect.Struct { return }
      for every field i of the struct, in order:
        if !field.CanSet() { continue }
        value, exist := r.Get(LcFirst(name)); if !exist { continue }
        switch val := value.(type) {
        case int, int64, int32, int16, int8:      if i, _ := cast.ToInt64(val);   field.CanInt()   { field.SetInt(i.(int64)) }
        case uint, uint64, uint32, uint16, uint8: if i, _ := cast.ToUint64(val);  field.CanUint()  { field.SetUint(i.(uint64)) }
        case float32, float64:                    if i, _ := cast.ToFloat64(val); field.CanFloat() { field.SetFloat(i.(float64)) }
        case string: if field.Kind() == reflect.String { field.SetString(val) }
        case bool:   if field.Kind() == reflect.Bool   { field.SetBool(val) }
        case []byte: if field.Kind() == reflect.Slice && field.Type().Elem().Kind() == reflect.Uint8 { field.SetBytes(val) }
        }

  What is jsonline's: the guard on the target, the order of the tests, the key that is asked for, the
  switch on the stored value's dynamic type, which caster is called, the error that is dropped
  (`i, _ :=`), the single-value assertions `i.(int64)` / `i.(uint64)` / `i.(float64)` — PANIC branches
  here whenever the caster hands back anything but that type (nil included: the dropped error) — and
  the kind tests in front of the setters.  What is reflect's is a contract, by KIND of the field
  (named types behave as their kind): CanInt / CanUint / CanFloat; SetInt / SetUint store the
  argument converted to the field's own width, i.e. `IntTy.wrap` (int8 field ← 300 gives 44: the
  wrap-around is silent); SetFloat on a float32 field rounds (`Float.f64to32`, the port of Go's
  float32(x)); SetString / SetBool / SetBytes store the value (SetBytes: the slice header — the
  field then SHARES its bytes with the row; the model has values only).

  The struct is a list of fields; a field the model has nothing to say about (struct, pointer,
  interface, map, array, chan, func, slices of anything but uint8-kind elements, complex …) has
  kind `other` and an opaque current value that can only be kept.

  `LcFirst` as it IS: the first rune lower-cased, followed by `str[i+1:]` with i = 0 — ONE byte is
  dropped whatever the width of the first rune, so for a name starting with a multi-byte rune the
  continuation bytes of that rune stay in the key (`École` asks for `é` ++ 0x89 ++ `cole`).
  `unicode.ToLower` is ported for U+0000–U+017F, U+0391–U+03A9, U+03B1–U+03C9, U+0400–U+045F and
  U+FFFD (validated rune by rune against the real `LcFirst` by the `lcfirst` cases of the harness);
  on any other first rune the model ABSTAINS (`err .ext`).
-/
import Model.Getters
import Model.Utf8

namespace Jl.MapTo
open Jl Jl.Value

/-- What MapTo can tell of a struct field's type: its reflect.Kind, as far as a setter depends on it. -/
inductive FieldKind
  | int (t : IntTy)   -- Int, Int8 … Int64, Uint, Uint8 … Uint64 (named types included)
  | uintptr           -- CanUint() holds for Uintptr as well
  | f32 | f64
  | str | bool
  | bytes             -- a slice whose element KIND is Uint8 ([]byte, named slices, slices of named bytes)
  | other             -- everything MapTo leaves alone
  deriving DecidableEq, Repr, Inhabited

def FieldKind.name : FieldKind → String
  | .int t => t.name | .uintptr => "uintptr" | .f32 => "f32" | .f64 => "f64" | .str => "str"
  | .bool => "bool" | .bytes => "bytes" | .other => "other"

def FieldKind.ofName? (s : String) : Option FieldKind :=
  match s with
  | "uintptr" => some .uintptr | "f32" => some .f32 | "f64" => some .f64 | "str" => some .str
  | "bool" => some .bool | "bytes" => some .bytes | "other" => some .other
  | _ => (IntTy.ofName? s).map .int

/-- One field of the target struct: name, kind, `CanSet()` (exported; the struct is reached through
    a pointer, so addressable), and its current value (`int t v`, `f64 b`, `f32 b`, `str`, `bool`,
    `bytes` according to the kind — `int u64 v` for uintptr —, anything for `other`). -/
structure Field where
  name : Bytes
  kind : FieldKind
  settable : Bool
  current : Dyn

/-- The argument of MapTo as `reflect.ValueOf` sees it. A nil interface has Kind Invalid: `notPointer`. -/
inductive Target
  | notPointer
  | nilPointer
  | pointerToNonStruct
  | pointerToStruct (fields : List Field)

/-! ### LcFirst -/

/-- Latin Extended-A (U+0100–U+017F): pairs upper/lower, with the two irregular letters. -/
def lowerLatinExtA (r : Nat) : Nat :=
  if r == 0x130 then 0x69                                   -- İ → i
  else if r == 0x178 then 0xFF                              -- Ÿ → ÿ
  else if r ≤ 0x137 then (if r % 2 == 0 then r + 1 else r)
  else if r == 0x138 then r
  else if r ≤ 0x148 then (if r % 2 == 1 then r + 1 else r)
  else if r == 0x149 then r
  else if r ≤ 0x177 then (if r % 2 == 0 then r + 1 else r)
  else if r ≤ 0x17E then (if r % 2 == 1 then r + 1 else r)
  else r

/-- `unicode.ToLower` on the runes the model covers; `none`: not covered (the model abstains). -/
def toLower? (r : Nat) : Option Nat :=
  if r < 0x41 then some r
  else if r ≤ 0x5A then some (r + 32)
  else if r < 0xC0 then some r
  else if r ≤ 0xDE then (if r == 0xD7 then some r else some (r + 32))
  else if r < 0x100 then some r
  else if r < 0x180 then some (lowerLatinExtA r)
  else if 0x391 ≤ r ∧ r ≤ 0x3A9 then (if r == 0x3A2 then some r else some (r + 32))
  else if 0x3B1 ≤ r ∧ r ≤ 0x3C9 then some r
  else if 0x400 ≤ r ∧ r ≤ 0x40F then some (r + 80)
  else if 0x410 ≤ r ∧ r ≤ 0x42F then some (r + 32)
  else if 0x430 ≤ r ∧ r ≤ 0x45F then some r
  else if r == 0xFFFD then some r
  else none

/-- `LcFirst(str)`: `for i, v := range str { return string(unicode.ToLower(v)) + str[i+1:] }; return ""`.
    The first iteration has i = 0, so the tail is `str[1:]` — one BYTE after the start, not one rune.
    An ill-formed first byte decodes to (U+FFFD, width 1). -/
def lcFirst (name : Bytes) : Option Bytes :=
  match name with
  | [] => some []
  | b :: rest =>
    if b < 0x80 then (toLower? b.toNat).map fun l => Utf8.encode l ++ rest
    else
      match Utf8.seqLen (b :: rest) with
      | none => some (Utf8.replacement ++ rest)
      | some n => (toLower? (Utf8.decode ((b :: rest).take n))).map fun l => Utf8.encode l ++ rest

/-! ### reflect's contract, by kind -/

def canInt : FieldKind → Bool
  | .int t => t.signed
  | _ => false

def canUint : FieldKind → Bool
  | .int t => !t.signed
  | .uintptr => true
  | _ => false

def canFloat : FieldKind → Bool
  | .f32 | .f64 => true
  | _ => false

/-- `SetInt(x)` / `SetUint(x)`: the argument converted to the field's own type. -/
def setInt (k : FieldKind) (x : Int) (cur : Dyn) : Dyn :=
  match k with
  | .int t => .int t (t.wrap x)
  | .uintptr => .int .u64 (IntTy.wrap .u64 x)
  | _ => cur

/-- `SetFloat(x)`: `float32(x)` for a float32 field. -/
def setFloat (k : FieldKind) (bits : Nat) (cur : Dyn) : Dyn :=
  match k with
  | .f64 => .f64 bits
  | .f32 => .f32 (Float.f64to32 bits)
  | _ => cur

def asInt (t : IntTy) : Dyn → Option Int
  | .int t' x => if t' = t then some x else none
  | _ => none

def asF64 : Dyn → Option Nat
  | .f64 b => some b
  | _ => none

/-! ### One field -/

/-- `i, _ := cast.ToX(val)` and then, under `if field.CanX()`, `field.SetX(i.(T))`.
    The caster runs first, whatever the field is; its error is dropped, so after a failed cast `i` is
    nil and the single-value assertion panics — as it does on a result of any other type. -/
def viaCast (o : Outcome Dyn) (can : Bool) (extract : Dyn → Option α) (site : String)
    (f : Field) (set : α → Dyn) : Outcome Field :=
  match o with
  | .panic s => .panic s
  | .err e =>
    if e = .ext then .err .ext
    else if can then .panic site else .ok f
  | .ok r =>
    if can then
      match extract r with
      | some x => .ok { f with current := set x }
      | none => .panic site
    else .ok f

/-- The type switch on the stored raw value. -/
def store (T : CastTables) (ext : Ext) (f : Field) (raw : Dyn) : Outcome Field :=
  match raw with
  | .int t _ =>
    if t.signed then
      viaCast (Cast.castNamed T ext "ToInt64" raw) (canInt f.kind) (asInt .i64)
        "row.MapTo: i.(int64)" f (fun x => setInt f.kind x f.current)
    else
      viaCast (Cast.castNamed T ext "ToUint64" raw) (canUint f.kind) (asInt .u64)
        "row.MapTo: i.(uint64)" f (fun x => setInt f.kind x f.current)
  | .f64 _ | .f32 _ =>
    viaCast (Cast.castNamed T ext "ToFloat64" raw) (canFloat f.kind) asF64
      "row.MapTo: i.(float64)" f (fun b => setFloat f.kind b f.current)
  | .str s => if f.kind = .str then .ok { f with current := .str s } else .ok f
  | .bool b => if f.kind = .bool then .ok { f with current := .bool b } else .ok f
  | .bytes s => if f.kind = .bytes then .ok { f with current := .bytes s } else .ok f
  | _ => .ok f

/-- One iteration of the loop. -/
def mapField (T : CastTables) (ext : Ext) (row : List (Bytes × Val)) (f : Field) : Outcome Field :=
  if f.settable then
    match lcFirst f.name with
    | none => .err .ext
    | some key =>
      match lookup row key with
      | none => .ok f
      | some v => store T ext f (Cells.raw v)
  else .ok f

/-- The loop: in field order; a panic (or an abstention) ends it. -/
def mapFields (T : CastTables) (ext : Ext) (row : List (Bytes × Val)) : List Field → Outcome (List Field)
  | [] => .ok []
  | f :: fs =>
    match mapField T ext row f with
    | .ok f' =>
      match mapFields T ext row fs with
      | .ok fs' => .ok (f' :: fs')
      | .err e => .err e
      | .panic s => .panic s
    | .err e => .err e
    | .panic s => .panic s

/-- `row.MapTo(v)`: the target afterwards. -/
def mapTo (T : CastTables) (ext : Ext) (row : List (Bytes × Val)) : Target → Outcome Target
  | .pointerToStruct fs =>
    match mapFields T ext row fs with
    | .ok fs' => .ok (.pointerToStruct fs')
    | .err e => .err e
    | .panic s => .panic s
  | t => .ok t

end Jl.MapTo
