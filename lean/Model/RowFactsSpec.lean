/-
  Model.RowFactsSpec — what the hand-written model of rows ASSUMES about row.go, fact by fact, in the syntax
  of Model.RowFactsSyntax.  Written by hand from Model.Row, Model.Cells, Model.Value, Model.Path,
  Model.RowPrint, Model.Getters and Model.MapTo: every field names the model definition that relies on it.
  Proofs.RowTie proves that the facts extract/rowfacts.go reads from the source (Gen.RowFacts) ARE these.
-/
import Model.RowFactsSyntax

namespace Jl.RowFactsSpec
open Jl

/-- The order discipline every keyed mutator of the model has: `LRow.ensure` appends the key when
    `(r.m k).isSome` is false and leaves the list alone otherwise; nothing in Model.Row removes or moves a key
    (`OMap.upsert` replaces in place or appends). -/
def push : Push := .backWhenAbsent

def expected : RowFacts :=
  { -- `LRow.empty`: no key, no entry.
    newRow := .emptyListAndMaps,
    -- Model.Row has no operation that removes or moves a key: `LRow.l` is only read (`keyAt`, `iter`, `len`) or
    -- extended at the back (`ensure`), `LRow.m` only extended or overwritten (`mset`).
    listMethods := ["Front", "Len", "PushBack"],
    mapDeletes := 0,
    -- `Cells.format (.row _) = .auto` (Auto is constant 7: Proofs.ValueTie.formats_as_modelled).
    selfFormat := some 7,
    -- `Cells.rawType (.row _) = .none`.
    selfRawTypeNil := true,
    -- `LRow.set` / `OMap.set`: `ensure`, then `ops.setExisting c x` on a present key — `Value.setExisting`:
    -- castTo succeeds → `newValue env x f typ`, fails → `newValue env .nil f typ`, a new cell put with `mset` /
    -- `upsert`, the old cell untouched — and `ops.newCell x` on an absent one — `Cells.newCell`: a `.val v`
    -- argument is `v` itself, anything else `.cell x .auto .none`.
    set := { push := push, present := .castThenNewValue, absent := .valueElseAuto },
    -- `LRow.setValue` / `OMap.upsert o k c`: the cell that is given, present or not.
    setValue := { push := push, present := .storeArgument, absent := .storeArgument },
    -- `LRow.importAtKey` / `OMap.importAtKey` / `Value.importAtKeyWith`: present → `ops.importInto c x`, the
    -- cell after it stored and its error returned (error CLASSES only: a `%w` wrapper keeps the class);
    -- absent → `ops.newCell x` (`Cells.newCell`), no error.
    importAtKey := { push := push, present := .importInPlace true, absent := .valueElseAuto },
    -- `LRow.keyAt` (negative / out of range → `[]`) followed by the keyed operation:
    -- `LRow.step`: `.setAt`, `.setValueAt`, `.importAtIndex`; `LRow.getValueAt`; the Get… variants read
    -- `Cells.raw` of the same cell (`Getters.getOrNil`).
    positional := [
      ("SetAtIndex", .walkThen "Set"),
      ("SetValueAtIndex", .walkThen "SetValue"),
      ("ImportAtIndex", .walkThen "ImportAtKey"),
      ("GetAtIndex", .walkThen "Get"),
      ("GetAtIndexOrNil", .walkThen "GetOrNil"),
      ("GetValueAtIndex", .walkThen "GetValue")],
    -- `Value.importInto` on a `.row`: `.arr xs` → `importSliceWith … 0 xs` (`LRow.importSliceFrom`: positions
    -- 0, 1, … through `keyAt`, stop at the first error), `.gomap kvs` → `importMapWith` (`LRow.importMap`: per
    -- entry, stop at the first error), anything else — a Row, a Value, nil included — `some .unsupportedImport`.
    importKinds :=
      { kinds := [("[]interface{}", .stopAtFirstError "ImportAtIndex"),
                  ("map[string]interface{}", .stopAtFirstError "ImportAtKey")],
        other := .fail "ErrUnsupportedImportType" },
    -- `Path.importAtKeys`: the value `getValueAtKeys` addresses imports (`importVal`), its error kept;
    -- a missing segment is `.pathNotFound`.
    importAtPath := .lookupThenImport "GetValueAtPath" true "ErrPathNotFound",
    -- `LRow.has`, `LRow.getValue`, `LRow.len`; `Getters.getOrNil` (raw of the cell, nil when absent);
    -- `Path.getAtPath` = `(getValueAtPath …).map Cells.raw`.
    readers := [
      ("Has", .mapHas),
      ("Get", .mapRaw),
      ("GetOrNil", .orNil "Get"),
      ("GetValue", .mapValue),
      ("Len", .listLen),
      ("GetAtPath", .rawOf "GetValueAtPath"),
      ("GetAtPathOrNil", .orNil "GetAtPath")],
    -- `LRow.iter`: the list front to back, each key looked up in the map.
    iterators := [
      ("IterValues", .listFrontToBack),
      ("Iter", .rawOf "IterValues")],
    -- `Path.splitDots` (0x2E), `Path.getValueAtKeys`: `lookup row k`; the last key returns the value; otherwise
    -- `Path.asRow` must give the sub-row.
    getValueAtPath := .splitDescend "." "GetValue" "asRow",
    -- `Path.asRow`: `.row ms` itself, or `.cell (.val (.row ms)) _ _` — a cell whose raw value is a row.
    asRow := .rowOrRawRow,
    -- `Path.findValues`: one key → `[v]`; `asRow v` → the sub-row's own search; else `Cells.raw v` must be
    -- `.arr xs`, whose `.val (.row _)` elements contribute their results in order.
    findValuesAtPath := .firstKeyThenRowOrArrayOfRows "." "GetValue" "asRow",
    -- `RowPrint.marshalVal (.row ms)` / `marshalMembers`: `{`, per member whose `Cells.format` is not `.hidden`
    -- (constant 8): `JsonWrite.quote k` (json.Marshal of a string) `:` `marshalVal v`, joined by `,`, `}`;
    -- the first failing member's error is the result.
    marshal := .members [0x7B] 8 [.key, .byte 0x3A, .cell, .byte 0x2C] 1 0x7D,
    -- `Value.unmarshalInto` over `Json.unmarshal`: numbers stay literals (`.num`: UseNumber), the text must be
    -- one object and nothing after it (`accepted`), the members go through `parseMembers`.
    unmarshal := [.newDecoder true, .openDelim 0x7B, .members "parseobject", .onlyEOF],
    -- `LRow.parseMember` / `Value.parseMember(s)`: keys are compared as they are; present → `importVal` in
    -- place, a failure stops (`parseMembers` returns at the first `some e`); absent → appended with
    -- `Cells.autoCell x` = `.cell x .auto .none` whatever `x` is; values come from `Value.ofJV` (handledelim).
    parseObject := .whileMore "handledelim" { push := push, present := .importInPlace false, absent := .auto } 0x7D,
    -- `Value.ofJV (.arr xs)`: the elements through `ofJV`, in order.
    parseArray := .whileMore "handledelim" 0x5D,
    -- `Value.ofJV`: scalars as they are; `.obj ms` → a fresh row (`parseMembers env []`) as `.val (.row …)`;
    -- `.arr xs` → `.arr`.
    handleDelim := .scalarObjectArray 0x7B "NewRow" "parseobject" 0x5B "parsearray",
    -- `Getters.table` and `Getters.typedGet`: `castNamed caster (getOrNil row k)`; a result of another type
    -- or a failed cast is `zeroOf ty`, never a panic.
    getters := [
      ("GetBool", .castCommaOk "GetOrNil" "ToBool" "bool"),
      ("GetBytes", .castCommaOk "GetOrNil" "ToBinary" "[]byte"),
      ("GetFloat32", .castCommaOk "GetOrNil" "ToFloat32" "float32"),
      ("GetFloat64", .castCommaOk "GetOrNil" "ToFloat64" "float64"),
      ("GetInt", .castCommaOk "GetOrNil" "ToInt" "int"),
      ("GetInt16", .castCommaOk "GetOrNil" "ToInt16" "int16"),
      ("GetInt32", .castCommaOk "GetOrNil" "ToInt32" "int32"),
      ("GetInt64", .castCommaOk "GetOrNil" "ToInt64" "int64"),
      ("GetInt8", .castCommaOk "GetOrNil" "ToInt8" "int8"),
      ("GetString", .castCommaOk "GetOrNil" "ToString" "string"),
      ("GetTime", .castCommaOk "GetOrNil" "ToTime" "time.Time"),
      ("GetUint", .castCommaOk "GetOrNil" "ToUint" "uint"),
      ("GetUint16", .castCommaOk "GetOrNil" "ToUint16" "uint16"),
      ("GetUint32", .castCommaOk "GetOrNil" "ToUint32" "uint32"),
      ("GetUint64", .castCommaOk "GetOrNil" "ToUint64" "uint64"),
      ("GetUint8", .castCommaOk "GetOrNil" "ToUint8" "byte")],
    -- `MapTo.mapTo` (only `.pointerToStruct`: Ptr = 22, Struct = 25), `mapField` (`settable`, `lcFirst`,
    -- `lookup`), `store`: signed → `viaCast … "ToInt64" (canInt …) (asInt .i64)`, unsigned → `"ToUint64"` /
    -- `canUint` / `asInt .u64`, floats → `"ToFloat64"` / `canFloat` / `asF64` (the single-value assertions are
    -- the panic sites `row.MapTo: i.(int64)` …); `.str` / `.bool` / `.bytes` by the field's kind
    -- (String = 24, Bool = 1, Slice = 23 of Uint8 = 8).  Listed by type name (the clauses are exclusive); a clause
    -- that tests the guard before the cast is the same clause (`MapCase.castFirst`: the casters have no effect).
    mapTo := .fields 22 25 "LcFirst" "Get" [
      ("[]byte", .whenSliceOf 23 8 "SetBytes"),
      ("bool", .whenKind 1 "SetBool"),
      ("byte", .viaCast "ToUint64" "CanUint" "SetUint" "uint64"),
      ("float32", .viaCast "ToFloat64" "CanFloat" "SetFloat" "float64"),
      ("float64", .viaCast "ToFloat64" "CanFloat" "SetFloat" "float64"),
      ("int", .viaCast "ToInt64" "CanInt" "SetInt" "int64"),
      ("int16", .viaCast "ToInt64" "CanInt" "SetInt" "int64"),
      ("int32", .viaCast "ToInt64" "CanInt" "SetInt" "int64"),
      ("int64", .viaCast "ToInt64" "CanInt" "SetInt" "int64"),
      ("int8", .viaCast "ToInt64" "CanInt" "SetInt" "int64"),
      ("string", .whenKind 24 "SetString"),
      ("uint", .viaCast "ToUint64" "CanUint" "SetUint" "uint64"),
      ("uint16", .viaCast "ToUint64" "CanUint" "SetUint" "uint64"),
      ("uint32", .viaCast "ToUint64" "CanUint" "SetUint" "uint64"),
      ("uint64", .viaCast "ToUint64" "CanUint" "SetUint" "uint64")],
    -- `Value.cloneValue` per cell of `LRow.iter` into a fresh row (Gen.Sites.cloneUses); `Cells.raw (.row ms)` =
    -- the map of `rawList ms`; `Value.exportVal (.row ms)` = the map of `exportMembers`, the first error kept.
    copies := [
      ("CloneRow", .freshRowOfClones "NewRow" "IterValues" "SetValue" "CloneValue"),
      ("Raw", .mapOf "Iter"),
      ("Export", .mapOfExports "IterValues")] }

end Jl.RowFactsSpec
