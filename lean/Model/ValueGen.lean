/-
  Model.ValueGen — the INTERPRETER of Gen.ValueTable (Model.ValueSyntax): what each constructor the
  translator emits means, written from the meaning of the constructor alone — the casts of
  Model.Cast, Model.Base64, and the error classes of the sentinels the table names.  It does not
  call Model.Value's `importByFormat`, `importFrom`, `importFromBinary`, `importCell` or `exportVal`;
  Proofs.ValueTie proves that on the regenerated table it computes what they compute.

  Abstention: wherever the table holds `unknown` (or names a sentinel that has no error class) the
  result is `.err .other`.
-/
import Model.Value
import Model.ValueSyntax

namespace Jl.ValueGen
open Jl

/-- The error class (`errors.Is`) of a sentinel of errors.go. -/
def sentinelClass : String → Option ErrClass
  | "ErrUnsupportedImportType" => some .unsupportedImport
  | "ErrUnsupportedExportType" => some .unsupportedExport
  | "ErrUnsupportedFormat" => some .unsupportedFormat
  | _ => none

/-- `x, err := step; if err != nil { return nil, fmt.Errorf("%w…", <sentinel of class c>, …) }`:
    a failure of the step becomes the sentinel's class (`.err .ext`, the model's "answer not
    supplied", is not a failure of the code and passes through, as everywhere in Model.Value). -/
def wrapWith (c : ErrClass) (o : Outcome Dyn) : Outcome Dyn :=
  match o with
  | .err .ext => .err .ext
  | .err _ => .err c
  | o => o

/-- An `ImportFn` on `(val, typ)`; `c` = the class of the import sentinel. `none` = abstain. -/
def importFnG (env : Value.Env) (c : ErrClass) (fn : ImportFn) (typ : Ty) (val : Dyn) : Option (Outcome Dyn) :=
  match fn with
  | .byType dflt =>
    match typ with
    | .none => some (wrapWith c (Cast.castNamed env.T env.ext dflt val))
    | _ => some (wrapWith c (Cast.castTo env.T env.ext typ val))
  | .binary toStr =>
    some (
      match wrapWith c (Cast.castNamed env.T env.ext toStr val) with
      | .ok (.str s) =>
        match Base64.decode s with
        | none => .err c
        | some b =>
          match typ with
          | .none => .ok (.bytes b)
          | _ => wrapWith c (Cast.castTo env.T env.ext typ (.bytes b))
      | .ok .nil => .panic "interface conversion: interface {} is nil, not string"
      | .ok _ => .panic "interface conversion: not string"
      | o => o)
  | .castTo => some (Cast.castTo env.T env.ext typ val)
  | .unknown _ => none

/-- `v.raw, err = <row>; return err`: the row's value is written to `v.raw` — nil when it failed. -/
def assignRaw (f : Format) (typ : Ty) (o : Outcome Dyn) : Outcome (Val × Option ErrClass) :=
  match o with
  | .ok r => .ok (.cell r f typ, none)
  | .err .ext => .err .ext
  | .err e => .ok (.cell .nil f typ, some e)
  | .panic s => .panic s

/-- The switch of `value.Import` on a cell `(old, f, typ)`: the cell afterwards and the error.
    A format with a row: the row's result is written to `v.raw` (nil when it failed).  A format
    without row (`importDefault = .fail s`): the error of class `s`, and `v.raw` keeps `old`. -/
def importSwitchG (tb : ValueTable) (env : Value.Env) (old : Dyn) (f : Format) (typ : Ty) (val : Dyn) :
    Outcome (Val × Option ErrClass) :=
  match tb.importRows.lookup f with
  | some fn =>
    match sentinelClass tb.importSentinel with
    | none => .err .other
    | some c =>
      match importFnG env c fn typ val with
      | none => .err .other
      | some o => assignRaw f typ o
  | none =>
    match tb.importDefault with
    | .unknown _ => .err .other
    | .fail s =>
      match sentinelClass s with
      | none => .err .other
      | some c => .ok (.cell old f typ, some c)

/-- The interpretation of the table that corresponds to Model.Value's `importByFormat`, which has
    no previous raw value: the switch of `value.Import` on a cell whose raw value is nil. -/
def importByFormatG (tb : ValueTable) (env : Value.Env) (f : Format) (typ : Ty) (val : Dyn) :
    Outcome (Val × Option ErrClass) :=
  importSwitchG tb env .nil f typ val

/-- `value.Import(val)` on a cell `(old, f, typ)`, preamble included (`importPreamble`). -/
def importCellG (tb : ValueTable) (env : Value.Env) (old : Dyn) (f : Format) (typ : Ty) (val : Dyn) :
    Outcome (Val × Option ErrClass) :=
  match tb.importPreamble with
  | .unknown _ => .err .other
  | .asModelled =>
    match val with
    | .nil => .ok (.cell .nil f typ, none)
    | .val (.row ms) =>
      if (f == .auto || f == .hidden) && typ == .none then .ok (.cell (.val (.row ms)) f typ, none)
      else importSwitchG tb env old f typ val
    | .val v => .ok (.cell (Cells.raw v) (Cells.format v) (Cells.rawType v), none)
    | _ => importSwitchG tb env old f typ val

/-- `cast.A(v)`, then `cast.B(result)` …, each failure wrapped with the sentinel of class `c`. -/
def chainG (env : Value.Env) (c : ErrClass) : List String → Dyn → Outcome Dyn
  | [], v => .ok v
  | n :: ns, v =>
    match wrapWith c (Cast.castNamed env.T env.ext n v) with
    | .ok t => chainG env c ns t
    | o => o

/-- An `ExportFn` on a raw value that is not nil. `none` = abstain. -/
def exportFnG (env : Value.Env) (c : ErrClass) (fn : ExportFn) (raw : Dyn) : Option (Outcome Dyn) :=
  match fn with
  | .chain ns => some (chainG env c ns raw)
  | .binary toBin =>
    some (
      match wrapWith c (Cast.castNamed env.T env.ext toBin raw) with
      | .ok (.bytes b) => .ok (.str (Base64.encode b))
      | .ok _ => .panic "interface conversion: not []uint8"
      | o => o)
  | .raw => some (.ok raw)
  | .unknown _ => none

/-- `value.Export()` on a cell `(raw, f, _)`. -/
def exportCellG (tb : ValueTable) (env : Value.Env) (raw : Dyn) (f : Format) : Outcome Dyn :=
  match tb.exportPreamble with
  | .unknown _ => .err .other
  | .asModelled =>
    match raw with
    | .nil => .ok .nil
    | _ =>
      match tb.exportRows.lookup f with
      | some fn =>
        match sentinelClass tb.exportSentinel with
        | none => .err .other
        | some c =>
          match exportFnG env c fn raw with
          | none => .err .other
          | some o => o
      | none =>
        match tb.exportDefault with
        | .unknown _ => .err .other
        | .fail s =>
          match sentinelClass s with
          | none => .err .other
          | some c => .err c

end Jl.ValueGen
