/-
  Model.FlowSpec — what Model.Template and Model.Stream ASSUME about template.go, exporter.go,
  importer.go and streamer.go, written by hand in the syntax of Model.FlowSyntax.

  Every fact names the definition of the model that relies on it.  Proofs.FlowTie proves that the
  table regenerated from the source (Gen.flowTable) IS this one; a change of the source that makes
  one of these facts false makes that proof fail, and the comment says which part of the model to
  look at.
-/
import Model.FlowSyntax

namespace Jl.FlowSpec
open Jl Jl.Flow

/-- `With<Format>(name)`: `Template.withCol t name f .none` — the cell `(nil, f, no raw type)` stored
    under `name` in the receiver's prototype (`upsert`), the receiver's prototype and no other.
    The cell is the literal one (`NewValue<Format>(nil)` is `&value{nil, f, nil}`). -/
def plain (f : Format) : Builder := .column .literal (.const f) .nil

/-- `WithMapped<Format>(name, rawtype)`: `Template.withCol t name f typ`.  The cell comes from
    `NewValue(nil, f, rawtype)`; `withCol` says its raw value is nil whatever the raw type
    ("`cast.To(T, nil)` is nil for every supported T, an error for others (kept: nil)"), which is
    `LineAccept.gen_newValue_nil` for the regenerated cast tables. -/
def mapped (f : Format) : Builder := .column .newValue (.const f) .param

def expectedBuilders : List (String × Builder) :=
  [ -- `With(name, format, rawtype)`: `Template.withCol` itself (Model.Jl's `withCol ti name din.1 din.2`,
    -- AliasFamily's `Op.with_`: a NEW cell in template i's own prototype)
    ("With", .column .newValue .param .param),
    ("WithAuto", plain .auto),
    ("WithBinary", plain .binary),
    ("WithBoolean", plain .boolean),
    ("WithDate", plain .date),
    ("WithDateTime", plain .datetime),
    ("WithHidden", plain .hidden),
    ("WithMappedAuto", mapped .auto),
    ("WithMappedBinary", mapped .binary),
    ("WithMappedBoolean", mapped .boolean),
    ("WithMappedDate", mapped .date),
    ("WithMappedDateTime", mapped .datetime),
    ("WithMappedNumeric", mapped .numeric),
    ("WithMappedString", mapped .string),
    ("WithMappedTimestamp", mapped .timestamp),
    ("WithNumeric", plain .numeric),
    -- `Template.withRow env t name sub` = `upsert t name (.row (cloneRow env sub))`: a CLONE of the
    -- sub-template's prototype, taken at the call (AliasFamily's `Op.withRow`: "the clone is made NOW";
    -- storing `rowt.empty` itself is the regression `AliasFamily.withRowShared`, C15)
    ("WithRow", .subRow),
    ("WithString", plain .string),
    ("WithTimestamp", plain .timestamp) ]

/-- `Template.createRow`: every branch starts from `cloneRow env t` (never from `t`: C14 / Model.Alias
    `Op.createEmpty`, AliasFamily `Op.createFrom`) and the result is `(row, none)`. -/
def expectedCreateRow : CreateRow :=
  { cases := [
      -- `.arr xs => fillSlice env row 0 xs.toList`: positional, `fill … (OMap.keyAt row i) x` =
      -- GetValueAtIndex / SetValueAtIndex on the clone; `fill`: the declared (format, raw type) through
      -- `newValue` when the key exists, `Cells.autoCell x` otherwise
      (.slice, .fill .cloneOfProto .range "GetValueAtIndex" "SetValueAtIndex" false),
      -- `.gomap kvs => fillPairs env row kvs.toList`: `fill` per entry, by key
      (.map, .fill .cloneOfProto .range "GetValue" "SetValue" false),
      -- `.val (.row ms) => fillPairs env row (ms.toList.map fun (k, c) => (k, Cells.raw c))`: the entries in
      -- the row's key order, each value's `Raw()`
      (.row, .fill .cloneOfProto .iterValues "GetValue" "SetValue" true),
      -- `.bytes s | .str s => unmarshalInto env row s`.  The model pairs the partly filled row with the
      -- error class; every user (`exportLine`, `jlLine`, `Stream.loop`, the drivers) drops that row, which
      -- is right only because the source returns NO row (`nil`) with the error.
      (.bytes, .text .cloneOfProto .nil .wrapped),
      (.string, .text .cloneOfProto .nil .wrapped) ],
    -- `| _ => .ok (row, some .unsupportedImport)`: nil included (no `case nil`); again the row is dropped
    dflt := .fail .nil "ErrUnsupportedImportType" }

def expectedFlow : FlowTable :=
  { -- `Tmpl` starts as `[]`: Model.Jl and the drivers build templates from `withCol [] …`;
    -- `AliasFamily.initWorld`: "n times NewTemplate()" = n empty prototypes
    newTemplate := .freshRow,
    builders := expectedBuilders,
    -- `Template.createRowEmpty env t = cloneRow env t` (`getRow`, `withRow`, Model.Alias `Op.createEmpty`)
    createRowEmpty := .cloneOfProto,
    createRow := expectedCreateRow,
    -- `Stream.Cfg.ti` / `.to` and `Template.jlLine env ti to`: the importer and the exporter read the
    -- template ITSELF — what `withCol` declares after `GetExporter` is seen by `Export` (C15, C18)
    getExporter := .self,
    getImporter := .self,
    -- an exporter / importer without `WithTemplate` has the empty template: `Stream.Cfg` with `to := []`
    newExporter := .writerAndNewTemplate,
    -- `exportLine env t v` uses the template it is given: `Stream.exportWith cfg` uses `cfg.to`
    exporterWithTemplate := .storesArg,
    -- `Template.exportLine`: `createRow` → `RowPrint.marshalRow` → `b ++ [0x0A]`, `.ok ([], some e)` when either
    -- failed (nothing written); `Stream.exportWith`: ONE `WriteEv` consumed per exported row, none on error;
    -- `Stream.Obs.writes`: one entry per Write call
    exporterExport := .oneWrite 10 .wrapped,
    -- `Scanner.init cfg.initSize`, `Scanner.scan cfg.initSize cfg.maxSize`, `Scanner.scanLines` (the default
    -- split function); the drivers and Props.C07 use 65536 and 10485760
    newImporter := .scanner 0 65536 10485760,
    -- `Template.getRow env t line` uses the template it is given: `Stream.loop` uses `cfg.ti`
    importerWithTemplate := .storesArg,
    -- `Stream.loop`: one `Scanner.scan` per round, `(none, _)` ends the loop
    importerImport := .scan,
    -- `Stream.loop`: `Scanner.errOf st'` after the loop
    importerErr := .scannerErr,
    -- `Stream.loop`'s `getRowRes`: `errOf st'` first (`(none, some (scanErrClass e))`), then
    -- `Template.getRow` = `createRowEmpty` + `unmarshalInto`; `.ok (_, some e) => .ok (none, some e)`: NO row
    -- with an error — the processor call recorded for a refused line is `(false, some e)`
    getRow := .scannerErrThenParse .nil .wrapped,
    -- no counterpart of its own in the model: whoever reads a line composes `Scanner.scan` and `Template.getRow`
    -- by hand, which is ReadOne only if ReadOne is Import then GetRow (and `nil, nil` at the end of the input)
    readOne := .importThenGetRow,
    -- `Stream.Proc.default`: `result _ e = e`
    defaultProcessor := .returnsErr,
    -- `Stream.Proc.tolerant`: `result _ _ = none`
    noFailureProcessor := .returnsNil,
    -- `Stream.Cfg.proc` is the processor the streamer runs; cmd/jl passes its own
    newStreamer := .storesBoth "DefaultProcessor",
    withProcessor := .argOrDefault "DefaultProcessor",
    -- `Stream.loop`, in its order:
    --   `.ok (_, some e)`  : call `(false, some e)` (the row is GetRow's, i.e. nil), `some re` → `ret := some re`
    --                        and stop, `none` → `loop …` with the SAME writer script: nothing exported
    --   `.ok (some row, none)` : call `(true, none)`, `some re` → stop; then `exportWith`;
    --                        an export error: call `(true, some e)`, `some re` → stop, `none` → next round
    --   `(none, st')` (Import false): `errOf st'` = `some e` → call `(false, some ec)` and `ret := its result`
    -- (`Stream.foldOutcomes` says the same per line: importError / written / exportError)
    stream := .loop
      { row := .row, err := .wrapped }
      { row := .row, err := .none }
      { row := .row, err := .wrapped }
      (.errHandover { row := .nil, err := .wrapped }) }

end Jl.FlowSpec
