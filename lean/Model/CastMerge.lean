/-
  Model.CastMerge — the cast tables the DRIVERS run: the regenerated tables of the current source, with every caster
  (or the dispatch of cast.To, or a function of binary_ops.go) that the translator could not read replaced by its
  BASELINE version (Model.BaselineCast: the tables of the pinned tree).

  Why: the interpreter abstains on an `.unknown` body, and a property that merely EXECUTES casts (C01, C03, C07 …)
  would then judge nothing on the cases that reach it — a changed `ToString` would silence exactly the cases it
  changes.  With the fallback, such a case is compared with what the code did before the change: a rewrite that keeps
  the behaviour stays silent, a change of behaviour shows as a model difference on a concrete input.
  No theorem mentions these tables: the theorems are about `genTables`.  On a tree the translator reads completely
  `drvTables` computes to `genTables`.
-/
import Model.CastGen
import Model.BaselineCast

namespace Jl

def Branch.isUnknown : Branch → Bool
  | .unknown _ => true
  | _ => false

def Caster.hasUnknown (c : Caster) : Bool :=
  c.dflt.isUnknown || c.clauses.any fun cl => cl.body.isUnknown

def baselineTables : CastTables :=
  { casters := Baseline.casters, dispatchTo := Baseline.dispatchTo, dispatchToDefault := Baseline.dispatchToDefault,
    sentinels := Baseline.sentinels, binFns := Baseline.binFns, timeStringFormat := Baseline.timeStringFormat }

def mergeTables (g b : CastTables) : CastTables :=
  let toUnknown := g.dispatchToDefault.isUnknown || g.dispatchTo.any fun r => r.2.isUnknown
  { casters := g.casters.map fun c =>
      if c.hasUnknown then (b.casters.find? fun c' => c'.name == c.name).getD c else c,
    dispatchTo := if toUnknown then b.dispatchTo else g.dispatchTo,
    dispatchToDefault := if toUnknown then b.dispatchToDefault else g.dispatchToDefault,
    sentinels := g.sentinels,
    binFns := g.binFns.map fun nf =>
      match nf.2 with
      | .unknown _ => (nf.1, ((b.binFns.find? fun nf' => nf'.1 == nf.1).map Prod.snd).getD nf.2)
      | _ => nf,
    timeStringFormat := g.timeStringFormat }

/-- What the drivers interpret. -/
def drvTables : CastTables := mergeTables genTables baselineTables

/-- The names of the casters the drivers took from the baseline (reported in the evidence). -/
def fallbackCasters : List String :=
  (genTables.casters.filter Caster.hasUnknown).map (·.name)

end Jl
