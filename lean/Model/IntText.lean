/-
  Model.IntText — ports of strconv: FormatInt/FormatUint/Itoa (base 10), ParseInt/ParseUint
  (base 0 with prefixes and underscores, as pkg/cast calls them), ParseBool, FormatBool.
  Stdlib port (a): validated against strconv directly by the harness.
-/
import Model.Basic

namespace Jl.IntText

def digitChar (d : Nat) : UInt8 := UInt8.ofNat (48 + d)

/-- Decimal digits of a natural number, most significant first ("0" for zero). -/
def natDigits (n : Nat) : Bytes :=
  if _h : n < 10 then [digitChar n] else natDigits (n / 10) ++ [digitChar (n % 10)]
termination_by n
decreasing_by omega

/-- strconv.FormatInt(v, 10) / FormatUint / Itoa. -/
def formatInt (v : Int) : Bytes :=
  if v < 0 then 0x2D :: natDigits (-v).toNat else natDigits v.toNat

def lower (c : UInt8) : UInt8 := c ||| 0x20

/-- Value of a digit character in any base up to 36 (`none`: not a digit character). -/
def digitVal (c : UInt8) : Option Nat :=
  if 0x30 ≤ c && c ≤ 0x39 then some (c.toNat - 0x30)
  else if 0x61 ≤ lower c && lower c ≤ 0x7A then some ((lower c).toNat - 0x61 + 10)
  else none

/-- The digit loop of ParseUint: value of the digit string in `base`, skipping `_` when
    `base0`; `none` on a syntax error (the range check is applied by the caller). -/
def digitsVal (base : Nat) (base0 : Bool) : Bytes → Nat → Option Nat
  | [], acc => some acc
  | c :: rest, acc =>
    if c == 0x5F && base0 then digitsVal base base0 rest acc
    else
      match digitVal c with
      | none => none
      | some d => if d ≥ base then none else digitsVal base base0 rest (acc * base + d)

/-- strconv's underscoreOK, after the optional sign. `prev`: 0 = start ('^'), 1 = digit,
    2 = underscore, 3 = other. -/
def underscoreLoop (hex : Bool) : Bytes → Nat → Bool
  | [], prev => prev != 2
  | c :: rest, prev =>
    if (0x30 ≤ c && c ≤ 0x39) || (hex && 0x61 ≤ lower c && lower c ≤ 0x66) then
      underscoreLoop hex rest 1
    else if c == 0x5F then
      if prev != 1 then false else underscoreLoop hex rest 2
    else if prev == 2 then false
    else underscoreLoop hex rest 3

def underscoreOK (s : Bytes) : Bool :=
  let s := match s with
    | c :: r => if c == 0x2D || c == 0x2B then r else s
    | [] => s
  match s with
  | 0x30 :: p :: rest =>
    if lower p == 0x62 || lower p == 0x6F || lower p == 0x78 then
      underscoreLoop (lower p == 0x78) rest 1
    else underscoreLoop false s 0
  | _ => underscoreLoop false s 0

/-- strconv.ParseUint(s, 0, bits): the value, or `none` for any error (syntax or range). -/
def parseUint0 (s : Bytes) (bits : Nat) : Option Nat :=
  let bits := if bits == 0 then 64 else bits
  if s.isEmpty then none
  else
    let (base, body) : Nat × Bytes :=
      match s with
      | 0x30 :: p :: rest =>
        if rest.length ≥ 1 && lower p == 0x62 then (2, rest)
        else if rest.length ≥ 1 && lower p == 0x6F then (8, rest)
        else if rest.length ≥ 1 && lower p == 0x78 then (16, rest)
        else (8, p :: rest)
      | 0x30 :: rest => (8, rest)
      | _ => (10, s)
    match digitsVal base true body 0 with
    | none => none
    | some n =>
      if n ≥ 2 ^ bits then none
      else if body.contains 0x5F && !underscoreOK s then none
      else some n

/-- strconv.ParseInt(s, 0, bits). -/
def parseInt0 (s : Bytes) (bits : Nat) : Option Int :=
  let bits := if bits == 0 then 64 else bits
  match s with
  | [] => none
  | c :: rest =>
    let (neg, body) : Bool × Bytes :=
      if c == 0x2B then (false, rest) else if c == 0x2D then (true, rest) else (false, s)
    -- ParseUint is called with the target bit size; its range error is not fatal here, the
    -- signed cutoff below decides — so parse with 64 bits worth of head-room and compare.
    match parseUintAny body with
    | none => none
    | some un =>
      let cutoff : Nat := 2 ^ (bits - 1)
      if !neg && un ≥ cutoff then none
      else if neg && un > cutoff then none
      else some (if neg then -(un : Int) else (un : Int))
where
  /-- ParseUint without the range check (syntax only). -/
  parseUintAny (s : Bytes) : Option Nat :=
    if s.isEmpty then none
    else
      let (base, body) : Nat × Bytes :=
        match s with
        | 0x30 :: p :: rest =>
          if rest.length ≥ 1 && lower p == 0x62 then (2, rest)
          else if rest.length ≥ 1 && lower p == 0x6F then (8, rest)
          else if rest.length ≥ 1 && lower p == 0x78 then (16, rest)
          else (8, p :: rest)
        | 0x30 :: rest => (8, rest)
        | _ => (10, s)
      match digitsVal base true body 0 with
      | none => none
      | some n => if body.contains 0x5F && !underscoreOK s then none else some n

def ofString (s : String) : Bytes := s.toUTF8.toList

/-- strconv.ParseBool accepts exactly: 1 t T TRUE true True / 0 f F FALSE false False. -/
def parseBool (s : Bytes) : Option Bool :=
  if s = [0x31] || s = [0x74] || s = [0x54] || s = [0x54, 0x52, 0x55, 0x45]
      || s = [0x74, 0x72, 0x75, 0x65] || s = [0x54, 0x72, 0x75, 0x65] then some true
  else if s = [0x30] || s = [0x66] || s = [0x46] || s = [0x46, 0x41, 0x4C, 0x53, 0x45]
      || s = [0x66, 0x61, 0x6C, 0x73, 0x65] || s = [0x46, 0x61, 0x6C, 0x73, 0x65] then some false
  else none

def formatBool (b : Bool) : Bytes :=
  if b then [0x74, 0x72, 0x75, 0x65] else [0x66, 0x61, 0x6C, 0x73, 0x65]

end Jl.IntText
