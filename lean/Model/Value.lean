/-
  Model.Value — value.go, conversions_import.go, conversions_export.go: what a cell does.
  `NewValue`, `CloneValue`, `Raw`, `Export`, `Import` (and `row.Import`, because a row is a
  Value too).  Casts come from Model.Cast over the regenerated tables.

  Every function returns `Outcome`: `.err .ext` (the model needs a stdlib answer it was not
  given) and `.panic` are propagated, never swallowed — only genuine cast failures are
  swallowed where the code swallows them.
-/
import Model.Cast
import Model.Cells
import Model.Base64

namespace Jl.Value
open Jl

structure Env where
  T : CastTables
  ext : Ext

/-- `NewValue(v, f, typ)`: cast to the raw type; on a cast failure keep `v` uncast. -/
def newValue (env : Env) (v : Dyn) (f : Format) (typ : Ty) : Outcome Val :=
  match Cast.castTo env.T env.ext typ v with
  | .ok r => .ok (.cell r f typ)
  | .err .ext => .err .ext
  | .err _ => .ok (.cell v f typ)
  | .panic s => .panic s

/-- `CloneValue(v) = NewValue(v.Raw(), v.GetFormat(), v.GetRawType())`: a row cell comes out
    as an Auto cell holding the row's `Raw()` map. -/
def cloneValue (env : Env) (v : Val) : Outcome Val :=
  newValue env (Cells.raw v) (Cells.format v) (Cells.rawType v)

def exportFail (o : Outcome Dyn) : Outcome Dyn :=
  match o with
  | .err .ext => .err .ext
  | .err _ => .err .unsupportedExport
  | o => o

mutual
  /-- `Value.Export()` -/
  def exportVal (env : Env) : Val → Outcome Dyn
    | .cell raw f _ =>
      match raw with
      | .nil => .ok .nil
      | _ =>
        match f with
        | .string => exportFail (Cast.castNamed env.T env.ext "ToString" raw)
        | .numeric => exportFail (Cast.castNamed env.T env.ext "ToNumber" raw)
        | .boolean => exportFail (Cast.castNamed env.T env.ext "ToBool" raw)
        | .binary =>
          match exportFail (Cast.castNamed env.T env.ext "ToBinary" raw) with
          | .ok (.bytes b) => .ok (.str (Base64.encode b))
          | .ok _ => .panic "interface conversion: not []uint8"
          | o => o
        | .date =>
          match exportFail (Cast.castNamed env.T env.ext "ToDate" raw) with
          | .ok t => exportFail (Cast.castNamed env.T env.ext "ToString" t)
          | o => o
        | .datetime =>
          match exportFail (Cast.castNamed env.T env.ext "ToTime" raw) with
          | .ok t => exportFail (Cast.castNamed env.T env.ext "ToString" t)
          | o => o
        | .timestamp => exportFail (Cast.castNamed env.T env.ext "ToTimestamp" raw)
        | .auto => .ok raw
        | .hidden => .ok raw
        | .bad => .err .unsupportedFormat
    | .row ms =>
      match exportMembers env ms with
      | .ok kvs => .ok (.gomap (DynMap.ofList (Cells.sortKV kvs)))
      | .err e => .err e
      | .panic s => .panic s
  def exportMembers (env : Env) : Members → Outcome (List (Bytes × Dyn))
    | .nil => .ok []
    | .cons k v ms =>
      match exportVal env v with
      | .ok d =>
        match exportMembers env ms with
        | .ok rest => .ok ((k, d) :: rest)
        | .err e => .err e
        | .panic s => .panic s
      | .err e => .err e
      | .panic s => .panic s
end

def importFail (o : Outcome Dyn) : Outcome Dyn :=
  match o with
  | .err .ext => .err .ext
  | .err _ => .err .unsupportedImport
  | o => o

/-- `importFromX(val, typ)`: the declared raw type when there is one, else the format's
    default caster. -/
def importFrom (env : Env) (dflt : String) (val : Dyn) (typ : Ty) : Outcome Dyn :=
  match typ with
  | .none => importFail (Cast.castNamed env.T env.ext dflt val)
  | _ => importFail (Cast.castTo env.T env.ext typ val)

def importFromBinary (env : Env) (val : Dyn) (typ : Ty) : Outcome Dyn :=
  match importFail (Cast.castNamed env.T env.ext "ToString" val) with
  | .ok (.str s) =>
    match Base64.decode s with
    | none => .err .unsupportedImport
    | some b =>
      match typ with
      | .none => .ok (.bytes b)
      | _ => importFail (Cast.castTo env.T env.ext typ (.bytes b))
  | .ok .nil => .panic "interface conversion: interface {} is nil, not string"
  | .ok _ => .panic "interface conversion: not string"
  | o => o

/-- `value.Import(val)` on a cell `(raw, f, typ)`: the cell afterwards and the error.
    On error the raw value has already been overwritten with nil. -/
def importByFormat (env : Env) (f : Format) (typ : Ty) (val : Dyn) : Outcome (Val × Option ErrClass) :=
  let res : Outcome Dyn :=
    match f with
    | .string => importFrom env "ToString" val typ
    | .numeric => importFrom env "ToNumber" val typ
    | .boolean => importFrom env "ToBool" val typ
    | .binary => importFromBinary env val typ
    | .date => importFrom env "ToDate" val typ
    | .datetime => importFrom env "ToTime" val typ
    | .timestamp => importFrom env "ToInt64" val typ
    | .auto | .hidden => Cast.castTo env.T env.ext typ val
    | .bad => .err .unsupportedFormat
  match res with
  | .ok r => .ok (.cell r f typ, none)
  | .err .ext => .err .ext
  | .err e => .ok (.cell .nil f typ, some e)
  | .panic s => .panic s

def importCell (env : Env) (f : Format) (typ : Ty) (val : Dyn) : Outcome (Val × Option ErrClass) :=
  match val with
  | .nil => .ok (.cell .nil f typ, none)
  | .val (.row ms) =>
    -- a nested object never changes the column's format: Auto and Hidden columns without a raw type
    -- keep it as it is; the other formats, and columns declared with a raw type, convert (hence
    -- reject) it like any other value
    if (f == .auto || f == .hidden) && typ == .none then .ok (.cell (.val (.row ms)) f typ, none)
    else importByFormat env f typ val
  | .val v => .ok (.cell (Cells.raw v) (Cells.format v) (Cells.rawType v), none)
  | _ => importByFormat env f typ val

/-- Outcome-aware cell operations, by fuel for rows importing into their own cells. -/
structure Ops where
  newCell : Dyn → Val
  autoCell : Dyn → Val
  setExisting : Val → Dyn → Outcome Val
  importInto : Val → Dyn → Outcome (Val × Option ErrClass)

def lookup (o : List (Bytes × Val)) (k : Bytes) : Option Val := OMap.lookup o k
def upsert (o : List (Bytes × Val)) (k : Bytes) (c : Val) : List (Bytes × Val) := OMap.upsert o k c

/-- `Set` on a present key: `cast.To(typ, x)` succeeds → `NewValue(x, f, typ)`, else
    `NewValue(nil, f, typ)`. -/
def setExisting (env : Env) (c : Val) (x : Dyn) : Outcome Val :=
  let f := Cells.format c
  let typ := Cells.rawType c
  match Cast.castTo env.T env.ext typ x with
  | .ok _ => newValue env x f typ
  | .err .ext => .err .ext
  | .err _ => newValue env .nil f typ
  | .panic s => .panic s

/-- ImportAtKey on the abstract row. -/
def importAtKeyWith (imp : Val → Dyn → Outcome (Val × Option ErrClass))
    (o : List (Bytes × Val)) (k : Bytes) (x : Dyn) : Outcome (List (Bytes × Val) × Option ErrClass) :=
  match lookup o k with
  | some c =>
    match imp c x with
    | .ok (c', e) => .ok (upsert o k c', e)
    | .err e => .err e
    | .panic s => .panic s
  | none => .ok (upsert o k (Cells.newCell x), none)

def importSliceWith (imp : Val → Dyn → Outcome (Val × Option ErrClass))
    (o : List (Bytes × Val)) (i : Nat) : List Dyn → Outcome (List (Bytes × Val) × Option ErrClass)
  | [] => .ok (o, none)
  | x :: xs =>
    match importAtKeyWith imp o (OMap.keyAt o i) x with
    | .ok (o', none) => importSliceWith imp o' (i + 1) xs
    | r => r

def importMapWith (imp : Val → Dyn → Outcome (Val × Option ErrClass))
    (o : List (Bytes × Val)) : List (Bytes × Dyn) → Outcome (List (Bytes × Val) × Option ErrClass)
  | [] => .ok (o, none)
  | (k, x) :: kvs =>
    match importAtKeyWith imp o k x with
    | .ok (o', none) => importMapWith imp o' kvs
    | r => r

/-- `Value.Import` on any Value: a cell, or a row (whose `Import` accepts slices and maps and
    recurses into its own cells — `fuel` bounds that nesting). -/
def importInto (env : Env) : Nat → Val → Dyn → Outcome (Val × Option ErrClass)
  | 0, _, _ => .err .ext
  | fuel + 1, c, x =>
    match c with
    | .cell _ f typ => importCell env f typ x
    | .row ms =>
      match x with
      | .arr xs =>
        match importSliceWith (importInto env fuel) ms.toList 0 xs.toList with
        | .ok (o, e) => .ok (.row (Members.ofList o), e)
        | .err e => .err e
        | .panic s => .panic s
      | .gomap kvs =>
        match importMapWith (importInto env fuel) ms.toList kvs.toList with
        | .ok (o, e) => .ok (.row (Members.ofList o), e)
        | .err e => .err e
        | .panic s => .panic s
      | _ => .ok (c, some .unsupportedImport)

def importVal (env : Env) (c : Val) (x : Dyn) : Outcome (Val × Option ErrClass) :=
  importInto env 64 c x

/-- One member of `parseobject` on the abstract row. -/
def parseMember (env : Env) (o : List (Bytes × Val)) (k : Bytes) (x : Dyn) :
    Outcome (List (Bytes × Val) × Option ErrClass) :=
  match lookup o k with
  | some c =>
    match importVal env c x with
    | .ok (c', e) => .ok (upsert o k c', e)
    | .err e => .err e
    | .panic s => .panic s
  | none => .ok (upsert o k (Cells.autoCell x), none)

def parseMembers (env : Env) (o : List (Bytes × Val)) :
    List (Bytes × Dyn) → Outcome (List (Bytes × Val) × Option ErrClass)
  | [] => .ok (o, none)
  | (k, x) :: ms =>
    match parseMember env o k x with
    | .ok (o', none) => parseMembers env o' ms
    | r => r

mutual
  /-- `handledelim`'s result for a parsed value, with real cells (a nested object is a fresh
      row filled member by member: duplicates import into the first occurrence's cell). -/
  def ofJV (env : Env) : JV → Outcome Dyn
    | .null => .ok .nil
    | .bool b => .ok (.bool b)
    | .num l => .ok (.num l)
    | .str s => .ok (.str s)
    | .arr xs =>
      match ofJVList env xs with
      | .ok l => .ok (.arr (DynList.ofList l))
      | .err e => .err e
      | .panic s => .panic s
    | .obj ms =>
      match ofJVMembers env ms with
      | .ok l =>
        match parseMembers env [] l with
        | .ok (o, _) => .ok (.val (.row (Members.ofList o)))
        | .err e => .err e
        | .panic s => .panic s
      | .err e => .err e
      | .panic s => .panic s
  def ofJVList (env : Env) : JVList → Outcome (List Dyn)
    | .nil => .ok []
    | .cons x xs =>
      match ofJV env x with
      | .ok d =>
        match ofJVList env xs with
        | .ok l => .ok (d :: l)
        | .err e => .err e
        | .panic s => .panic s
      | .err e => .err e
      | .panic s => .panic s
  def ofJVMembers (env : Env) : JVMembers → Outcome (List (Bytes × Dyn))
    | .nil => .ok []
    | .cons k v ms =>
      match ofJV env v with
      | .ok d =>
        match ofJVMembers env ms with
        | .ok l => .ok ((k, d) :: l)
        | .err e => .err e
        | .panic s => .panic s
      | .err e => .err e
      | .panic s => .panic s
end

/-- `row.UnmarshalJSON(text)` on the abstract row: the row afterwards (members delivered
    before an error stay imported) and the error class, if any. -/
def unmarshalInto (env : Env) (o : List (Bytes × Val)) (text : Bytes) :
    Outcome (List (Bytes × Val) × Option ErrClass) :=
  let (ms, accepted) := Json.unmarshal text
  match ofJVMembers env ms with
  | .ok l =>
    match parseMembers env o l with
    | .ok (o', some e) => .ok (o', some e)
    | .ok (o', none) => .ok (o', if accepted then none else some .syntax)
    | .err e => .err e
    | .panic s => .panic s
  | .err e => .err e
  | .panic s => .panic s

end Jl.Value
