/-
  Model.Tables — the lossless / self-readable pairings of DESIGN.md §8 as decidable
  predicates (referenced by C05 and C13), and the domain of values per raw type.
-/
import Model.Cast
import Model.Utf8
import Model.JsonWrite

namespace Jl.Tables
open Jl

def isInt : Ty → Bool
  | .int _ => true
  | _ => false

def isFlt : Ty → Bool
  | .f64 | .f32 => true
  | _ => false

/-- C13: value and Go type survive write → read under the same column. -/
def lossless (f : Format) (t : Ty) : Bool :=
  match f with
  | .string => t == .none || isInt t || isFlt t || t == .bool || t == .str || t == .time || t == .num
  | .numeric => t == .none || isInt t || isFlt t || t == .bool || t == .time || t == .num
  | .boolean => t == .none || t == .bool
  | .binary => t == .none || isInt t || isFlt t || t == .bool || t == .str || t == .bytes || t == .time || t == .num
  | .datetime => t == .none || t == .time
  | .timestamp => t == .none || isInt t || t == .bool || t == .time
  | .auto => t == .none || isInt t || isFlt t || t == .bool || t == .str || t == .time || t == .num
  | .date | .hidden | .bad => false

/-- C05: the emitted member, read and re-written under the same descriptor, is byte-identical. -/
def selfReadable (f : Format) (t : Ty) : Bool :=
  lossless f t ||
  match f with
  -- string([]byte) is NOT self-readable: ill-formed bytes are written as the escape \ufffd and
  -- re-written as the raw character (reproduced: datetime -> string([]byte))
  | .numeric => t == .str || t == .bytes
  | .boolean => true
  | .date => t == .none || t == .str || t == .bytes || t == .num
  | .datetime => t == .str || t == .bytes
  | .timestamp => isFlt t || t == .num
  | .hidden => true
  | _ => false

/-- The Go type a column with no raw type holds after import (the format's default type). -/
def defaultTy : Format → Ty
  | .string => .str
  | .numeric => .num
  | .boolean => .bool
  | .binary => .bytes
  | .date => .str
  | .datetime => .time
  | .timestamp => .int .i64
  | _ => .none

/-- Values of a raw type for which the round trip is claimed (the property's domain). -/
def inDomain (f : Format) (t : Ty) (v : Dyn) : Bool :=
  match v with
  | .nil => true
  | .int ty x =>
    ty.inRange x && (f != .timestamp || x ≤ 9223372036854775807)
  | .f64 b => Float.isFinite Float.f64 b
  | .f32 b => Float.isFinite Float.f32 b
  | .bool _ => true
  | .str s => Utf8.valid s || f == .binary
  | .bytes _ => true
  -- under string the literal travels as a JSON string: it must be well-formed UTF-8 (found by the
  -- proof of `RowRoundTrip.string_num_not_lossless`); under binary any bytes; else a valid literal
  | .num l => (f == .string && Utf8.valid l) || f == .binary || JsonWrite.isValidNumber l
  | .time tm =>
    let y := Time.year tm
    0 ≤ y && y ≤ 9999 && tm.off % 60 == 0 && tm.off.natAbs < 86400 &&
      (f != .binary && f != .numeric && f != .timestamp || true)
  | _ => false

/-- Equality "as the property compares": same Go type and value; times as instants at one
    second resolution. -/
def sameValue (a b : Dyn) : Bool :=
  match a, b with
  | .nil, .nil => true
  | .int t x, .int t' y => t == t' && x == y
  | .f64 x, .f64 y => x == y
  | .f32 x, .f32 y => x == y
  | .bool x, .bool y => x == y
  | .str x, .str y => x == y
  | .bytes x, .bytes y => x == y
  | .num x, .num y => x == y
  | .time x, .time y => x.sec == y.sec
  | _, _ => false

end Jl.Tables
