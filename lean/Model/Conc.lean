/-
  Model.Conc — goroutines sharing a finished template.  Shared memory `M` (the prototype row
  and the package-level variables); an operation may in principle read and write it
  (`run : M → M × R`).  Goroutines are indexed by `Nat`; a schedule is any list of goroutine
  indices; at each step the chosen goroutine executes its next operation atomically on the
  current memory.  (Atomicity of single operations is the modelling assumption; absence of
  data races at finer grain is the race detector's part.)
-/
import Model.Basic

namespace Jl.Conc

structure Op (M R : Type) where
  run : M → M × R

/-- An operation that never modifies the shared memory. -/
def Op.ReadOnly {M R : Type} (op : Op M R) : Prop := ∀ m, (op.run m).1 = m

structure St (M R : Type) where
  mem : M
  progs : Nat → List (Op M R)      -- remaining operations per goroutine
  results : Nat → List R           -- results so far per goroutine (in program order)

def upd {α : Type} (f : Nat → α) (i : Nat) (a : α) : Nat → α := fun j => if j = i then a else f j

/-- Goroutine `i` executes its next operation (no-op when it has none). -/
def step {M R : Type} (s : St M R) (i : Nat) : St M R :=
  match s.progs i with
  | op :: rest =>
    ⟨(op.run s.mem).1, upd s.progs i rest, upd s.results i (s.results i ++ [(op.run s.mem).2])⟩
  | [] => s

def runSchedule {M R : Type} (s : St M R) : List Nat → St M R
  | [] => s
  | i :: sched => runSchedule (step s i) sched

def init {M R : Type} (m : M) (progs : Nat → List (Op M R)) : St M R :=
  { mem := m, progs := progs, results := fun _ => [] }

/-- What a goroutine obtains when running these operations alone on memory `m`. -/
def alone {M R : Type} (m : M) (prog : List (Op M R)) : List R := prog.map fun op => (op.run m).2

end Jl.Conc
