/-
  Model.Scanner — bufio.Scanner as importer.go configures it: `ScanLines`, an initial buffer
  of `initSize` bytes and a token limit of `maxSize` bytes (64 KiB / 10 MiB in the source;
  parameters here so that the port can be validated against bufio.Scanner at small sizes).
  Port of `Scanner.Scan` with its buffer bookkeeping (start/end/len, compaction, doubling).

  The reader is a script: each `Read` call consumes at most the free space of the buffer from
  the current chunk.
-/
import Model.Basic

namespace Jl.Scanner

/-- What the reader does at successive `Read` calls. -/
inductive ReadEv
  | data (bs : Bytes)              -- returns len(bs) bytes, nil (possibly over several calls when space is short)
  | dataErr (bs : Bytes)           -- returns the bytes together with a non-EOF error
  | err                            -- returns 0, non-EOF error
  | empty                          -- returns 0, nil
  deriving Repr

/-- Errors a scanner can end with. -/
inductive ScanErr
  | io | tooLong | noProgress
  deriving DecidableEq, Repr

structure St where
  buf : Bytes            -- s.buf[s.start:s.end]
  start : Nat            -- s.start
  cap : Nat              -- len(s.buf)
  err : Option ScanErr   -- s.err when it is not io.EOF
  eof : Bool             -- s.err == io.EOF
  script : List ReadEv
  done : Bool

def dropCR (l : Bytes) : Bytes :=
  match l.reverse with
  | 0x0D :: r => r.reverse
  | _ => l

/-- Split at the first LF: the line (without LF) and the rest. -/
def splitLF : Bytes → Option (Bytes × Bytes)
  | [] => none
  | c :: rest =>
    if c == 0x0A then some ([], rest)
    else
      match splitLF rest with
      | some (l, r) => some (c :: l, r)
      | none => none

/-- `ScanLines(data, atEOF)`: bytes to advance and the token, if any. -/
def scanLines (data : Bytes) (atEOF : Bool) : Nat × Option Bytes :=
  if atEOF && data.isEmpty then (0, none)
  else
    match splitLF data with
    | some (l, _) => (l.length + 1, some (dropCR l))
    | none => if atEOF then (data.length, some (dropCR data)) else (0, none)

/-- One `Read` call into the free space `space` (> 0): bytes obtained, whether an error came
    with them, and the remaining script. At the end of the script the reader returns io.EOF. -/
inductive ReadRes
  | got (bs : Bytes) (err : Bool)
  | eof

def readOnce (space : Nat) : List ReadEv → ReadRes × List ReadEv
  | [] => (.eof, [])
  | .data bs :: rest =>
    if bs.length ≤ space then (.got bs false, rest)
    else (.got (bs.take space) false, .data (bs.drop space) :: rest)
  | .dataErr bs :: rest =>
    if bs.length ≤ space then (.got bs true, rest)
    else (.got (bs.take space) false, .dataErr (bs.drop space) :: rest)
  | .err :: rest => (.got [] true, rest)
  | .empty :: rest => (.got [] false, rest)

/-- The inner read loop (`for loop := 0; ; {…}`): up to 100 empty reads. -/
def readLoop (s : St) : Nat → St
  | 0 => { s with err := some .noProgress }
  | n + 1 =>
    let space := s.cap - (s.start + s.buf.length)
    match readOnce space s.script with
    | (.eof, rest) => { s with eof := true, script := rest }
    | (.got bs e, rest) =>
      let s := { s with buf := s.buf ++ bs, script := rest }
      if e then { s with err := some .io }
      else if bs.length > 0 then s
      else readLoop s n

/-- `Scanner.Scan`: the token delivered (if any) and the state after. `fuel` bounds the outer
    loop (each iteration either returns or reads). -/
def scan (initSize maxSize : Nat) : Nat → St → Option Bytes × St
  | 0, s => (none, s)
  | fuel + 1, s =>
    if s.done then (none, s)
    else
      let hasErr := s.err.isSome || s.eof
      let tryToken : Option (Option Bytes × St) :=
        if s.buf.length > 0 || hasErr then
          let (adv, tok) := scanLines s.buf hasErr
          let s' := { s with buf := s.buf.drop adv, start := s.start + adv }
          match tok with
          | some t => some (some t, s')
          | none => none
        else none
      match tryToken with
      | some r => r
      | none =>
        if hasErr then (none, { s with buf := [], start := 0 })
        else
          -- shift data to the beginning when needed
          let endp := s.start + s.buf.length
          let s := if s.start > 0 && (endp == s.cap || s.start > s.cap / 2) then { s with start := 0 } else s
          let endp := s.start + s.buf.length
          if endp == s.cap then
            if s.cap ≥ maxSize then (none, { s with err := some .tooLong })
            else
              let newSize := min (if s.cap == 0 then 4096 else s.cap * 2) maxSize
              scan initSize maxSize fuel (readLoop { s with cap := newSize, start := 0 } 101)
          else scan initSize maxSize fuel (readLoop s 101)

def init (initSize : Nat) (script : List ReadEv) : St :=
  { buf := [], start := 0, cap := initSize, err := none, eof := false, script := script, done := false }

/-- `Scanner.Err()` -/
def errOf (s : St) : Option ScanErr := s.err

end Jl.Scanner
