/-
  Model.CastSpec — what the cast properties demand, stated independently of the tables
  (specification side of C09, C10; used as oracle on the implementation's results and as
  the statement of the theorems).
-/
import Model.Cast
import Model.JsonWrite

namespace Jl.CastSpec
open Jl

/-- Canonical decimal integer text `0 | -?[1-9][0-9]*` — exactly the image of
    strconv.FormatInt(_, 10) (no plus sign, no negative zero, no leading zeros). -/
def canonicalDecimal (s : Bytes) : Option Int :=
  let (neg, body) : Bool × Bytes :=
    match s with
    | 0x2D :: r => (true, r)
    | _ => (false, s)
  match body with
  | [] => none
  | [0x30] => if neg then none else some 0
  | c :: rest =>
    if 0x31 ≤ c && c ≤ 0x39 && rest.all (fun d => 0x30 ≤ d && d ≤ 0x39) then
      let n : Nat := (c :: rest).foldl (fun (acc : Nat) (d : UInt8) => acc * 10 + (d.toNat - 0x30)) 0
      some (if neg then -(n : Int) else (n : Int))
    else none

/-- The numeric value a source carries, when it carries one. -/
inductive NumV
  | int (v : Int)
  | flt (x : FVal)
  | text (v : Option Int)     -- text read with Go's base-0 integer syntax: a value or not a number
  deriving Repr

def numVal : Dyn → Option NumV
  | .int _ v => some (.int v)
  | .f64 b => some (.flt (Float.toFVal Float.f64 b))
  | .f32 b => some (.flt (Float.toFVal Float.f32 b))
  | .bool b => some (.int (if b then 1 else 0))
  | .str s | .num s =>
    match canonicalDecimal s with
    | some v => some (.int v)
    | none => some (.text (IntText.parseInt0.parseUintAny
        (match s with | 0x2D :: r => r | 0x2B :: r => r | _ => s) |>.map fun u =>
          match s with | 0x2D :: _ => -(u : Int) | _ => (u : Int)))
  | _ => none

/-- C09 on one (target, source, result): exact value or error, never a wrapped one;
    integral values that fit succeed. `none` = holds; `some clause` = violated. -/
def intCastViolation (tgt : IntTy) (src : Dyn) (res : Outcome Dyn) : Option String :=
  let exactly (v : Int) : Option String :=
    if tgt.inRange v then
      match res with
      | .ok (.int t r) => if t == tgt && r == v then none else some "wrong-value"
      | .ok _ => some "wrong-type"
      | .err _ => some "fits-but-rejected"
      | .panic _ => some "panic"
    else
      match res with
      | .err _ => none
      | .ok _ => some "out-of-range-accepted"
      | .panic _ => some "panic"
  match numVal src with
  | some (.int v) => exactly v
  | some (.text (some v)) =>
    -- non-canonical spelling (`+1`, `-0`, `0x10`, `1_000`): read with Go's literal syntax;
    -- exact value or error, but acceptance is the parser's business
    match res with
    | .err _ => none
    | .ok (.int t r) => if t == tgt && r == v && tgt.inRange v then none else some "wrong-value"
    | .ok _ => some "wrong-type"
    | .panic _ => some "panic"
  | some (.text none) =>
    match res with
    | .err _ => none
    | .ok _ => some "non-numeric-accepted"
    | .panic _ => some "panic"
  | some (.flt .nan) | some (.flt (.inf _)) =>
    match res with
    | .err _ => none
    | .ok _ => some "non-finite-accepted"
    | .panic _ => some "panic"
  | some (.flt (.fin t false _)) => exactly t
  | some (.flt (.fin t true _)) =>
    match res with
    | .err _ => none
    | .ok (.int ty r) => if ty == tgt && r == t && tgt.inRange t then none else some "wrong-truncation"
    | .ok _ => some "wrong-type"
    | .panic _ => some "panic"
  | none => none

/-- C10 on one (promised type, source, result). -/
def typedViolation (want : Ty) (src : Dyn) (res : Outcome Dyn) : Option String :=
  match res with
  | .panic _ => some "panic"
  | .err .cast => none
  | .err _ => some "error-does-not-wrap-sentinel"
  | .ok r =>
    match src, r with
    | .nil, .nil => none
    | .nil, _ => some "nil-in-non-nil-out"
    | _, .nil => some "non-nil-in-nil-out"
    | _, _ => if Cast.typeOf r == want then none else some "wrong-result-type"

/-! ### C11: the binary form of fixed-width values -/

/-- Size in bytes of the fixed-width types (amd64: int/uint are 8 bytes). -/
def fixedSize : Ty → Option Nat
  | .int t => some (t.bits / 8)
  | .f64 => some 8
  | .f32 => some 4
  | .bool => some 1
  | _ => none

/-- The little-endian image of a fixed-width value, stated directly (two's complement for
    signed integers, IEEE bit pattern for floats, one normalised byte for bool). -/
def leImage : Dyn → Option Bytes
  | .int t v => some (LE.put (t.bits / 8) (LE.toU t.bits v))
  | .f64 b => some (LE.put 8 b)
  | .f32 b => some (LE.put 4 b)
  | .bool b => some [if b then 1 else 0]
  | _ => none

/-- C11 on one case: `encode` (callee ToBinary, fixed-width source) or `decode` (callee
    cast.To(T, bytes) with T fixed-width). -/
def binaryViolation (callee : String) (target : Option Ty) (src : Dyn) (res : Outcome Dyn) : Option String :=
  if callee == "ToBinary" then
    match leImage src with
    | none => none
    | some img =>
      match res with
      | .ok (.bytes b) => if b == img then none else some "not-little-endian-image"
      | .ok _ => some "wrong-type"
      | .err _ => some "encode-rejected"
      | .panic _ => some "panic"
  else
    match target.bind fixedSize, target, src with
    | some size, some T, .bytes s =>
      if s.length == size then
        match res with
        | .ok v =>
          if Cast.typeOf v != T then some "wrong-type"
          else if T == .bool then
            (match v, s with
             | .bool b, [x] => if b == (x != 0) then none else some "bool-decode"
             | _, _ => some "bool-decode")
          else if leImage v == some s then none else some "decode-not-inverse"
        | .err _ => some "well-sized-rejected"
        | .panic _ => some "panic"
      else
        match res with
        | .err _ => none
        | .ok _ => some "wrong-size-accepted"
        | .panic _ => some "panic"
    | _, _, _ => none

/-! ### C12: numbers rendered as text or JSON numbers read back exactly -/

/-- Plain decimal literal: a valid JSON number without exponent. -/
def plainDecimal (s : Bytes) : Bool :=
  JsonWrite.isValidNumber s && !s.contains 0x65 && !s.contains 0x45

def sameDyn (a b : Dyn) : Bool :=
  match a, b with
  | .int t v, .int t' v' => t == t' && v == v'
  | .f64 x, .f64 y => x == y
  | .f32 x, .f32 y => x == y
  | .bool x, .bool y => x == y
  | _, _ => false

/-- `text` = ToString(src) or ToNumber(src); `back` = cast.To(type of src, text). -/
def renderViolation (via : String) (src : Dyn) (text : Outcome Dyn) (back : Option (Outcome Dyn)) :
    Option String :=
  let finite : Bool :=
    match src with
    | .f64 b => Float.isFinite Float.f64 b
    | .f32 b => Float.isFinite Float.f32 b
    | _ => true
  let numeric : Bool := match src with | .int .. | .f64 _ | .f32 _ => true | _ => false
  match text with
  | .panic _ => some "panic"
  | .err _ => if finite then some "render-rejected" else none   -- a non-finite value refused: nothing that marshals
  | .ok t =>
    let lit : Option Bytes :=
      match via, t with
      | "ToString", .str s => some s
      | "ToNumber", .num s => some s
      | _, _ => none
    match lit with
    | none => some "wrong-render-type"
    | some s =>
      if !finite then
        -- non-finite floats never produce a number that marshals
        if JsonWrite.isValidNumber s then some "non-finite-renders-as-number" else none
      else if numeric && !plainDecimal s then some "not-a-plain-decimal-literal"
      else if via == "ToNumber" && !JsonWrite.isValidNumber s then some "number-does-not-marshal"
      else
        match src, via with
        | .bool b, "ToString" =>
          if s != IntText.formatBool b then some "bool-text" else
          (match back with | some (.ok r) => if sameDyn r src then none else some "read-back-differs" | _ => some "read-back-rejected")
        | .bool b, "ToNumber" =>
          if s != (if b then [0x31] else [0x30]) then some "bool-number" else
          (match back with | some (.ok r) => if sameDyn r src then none else some "read-back-differs" | _ => some "read-back-rejected")
        | _, _ =>
          match back with
          | some (.ok r) => if sameDyn r src then none else some "read-back-differs"
          | _ => some "read-back-rejected"

end Jl.CastSpec
