/-
  Model.CastSpec — what the cast properties demand, stated independently of the tables
  (specification side of C09, C10; used as oracle on the implementation's results and as
  the statement of the theorems).
-/
import Model.Cast

namespace Jl.CastSpec
open Jl

/-- Canonical decimal integer text `0 | -?[1-9][0-9]*` — exactly the image of
    strconv.FormatInt(_, 10) (no plus sign, no negative zero, no leading zeros). -/
def canonicalDecimal (s : Bytes) : Option Int :=
  let (neg, body) : Bool × Bytes :=
    match s with
    | 0x2D :: r => (true, r)
    | _ => (false, s)
  match body with
  | [] => none
  | [0x30] => if neg then none else some 0
  | c :: rest =>
    if 0x31 ≤ c && c ≤ 0x39 && rest.all (fun d => 0x30 ≤ d && d ≤ 0x39) then
      let n : Nat := (c :: rest).foldl (fun (acc : Nat) (d : UInt8) => acc * 10 + (d.toNat - 0x30)) 0
      some (if neg then -(n : Int) else (n : Int))
    else none

/-- The numeric value a source carries, when it carries one. -/
inductive NumV
  | int (v : Int)
  | flt (x : FVal)
  | text (v : Option Int)     -- text read with Go's base-0 integer syntax: a value or not a number
  deriving Repr

def numVal : Dyn → Option NumV
  | .int _ v => some (.int v)
  | .f64 b => some (.flt (Float.toFVal Float.f64 b))
  | .f32 b => some (.flt (Float.toFVal Float.f32 b))
  | .bool b => some (.int (if b then 1 else 0))
  | .str s | .num s =>
    match canonicalDecimal s with
    | some v => some (.int v)
    | none => some (.text (IntText.parseInt0.parseUintAny
        (match s with | 0x2D :: r => r | 0x2B :: r => r | _ => s) |>.map fun u =>
          match s with | 0x2D :: _ => -(u : Int) | _ => (u : Int)))
  | _ => none

/-- C09 on one (target, source, result): exact value or error, never a wrapped one;
    integral values that fit succeed. `none` = holds; `some clause` = violated. -/
def intCastViolation (tgt : IntTy) (src : Dyn) (res : Outcome Dyn) : Option String :=
  let exactly (v : Int) : Option String :=
    if tgt.inRange v then
      match res with
      | .ok (.int t r) => if t == tgt && r == v then none else some "wrong-value"
      | .ok _ => some "wrong-type"
      | .err _ => some "fits-but-rejected"
      | .panic _ => some "panic"
    else
      match res with
      | .err _ => none
      | .ok _ => some "out-of-range-accepted"
      | .panic _ => some "panic"
  match numVal src with
  | some (.int v) => exactly v
  | some (.text (some v)) =>
    -- non-canonical spelling (`+1`, `-0`, `0x10`, `1_000`): read with Go's literal syntax;
    -- exact value or error, but acceptance is the parser's business
    match res with
    | .err _ => none
    | .ok (.int t r) => if t == tgt && r == v && tgt.inRange v then none else some "wrong-value"
    | .ok _ => some "wrong-type"
    | .panic _ => some "panic"
  | some (.text none) =>
    match res with
    | .err _ => none
    | .ok _ => some "non-numeric-accepted"
    | .panic _ => some "panic"
  | some (.flt .nan) | some (.flt (.inf _)) =>
    match res with
    | .err _ => none
    | .ok _ => some "non-finite-accepted"
    | .panic _ => some "panic"
  | some (.flt (.fin t false _)) => exactly t
  | some (.flt (.fin t true _)) =>
    match res with
    | .err _ => none
    | .ok (.int ty r) => if ty == tgt && r == t && tgt.inRange t then none else some "wrong-truncation"
    | .ok _ => some "wrong-type"
    | .panic _ => some "panic"
  | none => none

/-- C10 on one (promised type, source, result). -/
def typedViolation (want : Ty) (src : Dyn) (res : Outcome Dyn) : Option String :=
  match res with
  | .panic _ => some "panic"
  | .err .cast => none
  | .err _ => some "error-does-not-wrap-sentinel"
  | .ok r =>
    match src, r with
    | .nil, .nil => none
    | .nil, _ => some "nil-in-non-nil-out"
    | _, .nil => some "non-nil-in-nil-out"
    | _, _ => if Cast.typeOf r == want then none else some "wrong-result-type"

end Jl.CastSpec
