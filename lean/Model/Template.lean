/-
  Model.Template — template.go, exporter.go, importer.go (one line): the prototype row,
  `CloneRow`, `CreateRowEmpty`, `CreateRow` for its five input kinds, `Export` (what reaches
  the writer) and `GetRow`.  A template is its prototype row (`empty`).
-/
import Model.RowPrint

namespace Jl.Template
open Jl Jl.Value

abbrev Tmpl := List (Bytes × Val)

/-- `With(name, format, rawtype)` = `empty.SetValue(name, NewValue(nil, format, rawtype))`;
    `cast.To(T, nil)` is nil for every supported T, an error for others (kept: nil). -/
def withCol (t : Tmpl) (name : Bytes) (f : Format) (typ : Ty) : Tmpl :=
  upsert t name (.cell .nil f typ)

/-- `CloneRow(r)`: a new row; `SetValue(k, CloneValue(v))` for each entry in order. -/
def cloneInto (env : Env) (acc : List (Bytes × Val)) : List (Bytes × Val) → Outcome (List (Bytes × Val))
  | [] => .ok acc
  | (k, v) :: rest =>
    match cloneValue env v with
    | .ok c => cloneInto env (upsert acc k c) rest
    | .err e => .err e
    | .panic s => .panic s

def cloneRow (env : Env) (r : List (Bytes × Val)) : Outcome (List (Bytes × Val)) := cloneInto env [] r

/-- `WithRow(name, rowt)` = `empty.SetValue(name, rowt.CreateRowEmpty())` -/
def withRow (env : Env) (t : Tmpl) (name : Bytes) (sub : Tmpl) : Outcome Tmpl :=
  match cloneRow env sub with
  | .ok r => .ok (upsert t name (.row (Members.ofList r)))
  | .err e => .err e
  | .panic s => .panic s

def createRowEmpty (env : Env) (t : Tmpl) : Outcome (List (Bytes × Val)) := cloneRow env t

/-- target cell for an incoming value: the declared (format, raw type) when the key exists. -/
def fill (env : Env) (row : List (Bytes × Val)) (k : Bytes) (x : Dyn) : Outcome (List (Bytes × Val)) :=
  match lookup row k with
  | some c =>
    match newValue env x (Cells.format c) (Cells.rawType c) with
    | .ok c' => .ok (upsert row k c')
    | .err e => .err e
    | .panic s => .panic s
  | none => .ok (upsert row k (Cells.autoCell x))

def fillSlice (env : Env) (row : List (Bytes × Val)) (i : Nat) : List Dyn → Outcome (List (Bytes × Val))
  | [] => .ok row
  | x :: xs =>
    match fill env row (OMap.keyAt row i) x with
    | .ok r => fillSlice env r (i + 1) xs
    | o => o

def fillPairs (env : Env) (row : List (Bytes × Val)) : List (Bytes × Dyn) → Outcome (List (Bytes × Val))
  | [] => .ok row
  | (k, x) :: kvs =>
    match fill env row k x with
    | .ok r => fillPairs env r kvs
    | o => o

/-- `CreateRow(v)`: the row, or the error class. -/
def createRow (env : Env) (t : Tmpl) (v : Dyn) : Outcome (List (Bytes × Val) × Option ErrClass) :=
  match cloneRow env t with
  | .err e => .err e
  | .panic s => .panic s
  | .ok row =>
    let wrap (o : Outcome (List (Bytes × Val))) : Outcome (List (Bytes × Val) × Option ErrClass) :=
      match o with
      | .ok r => .ok (r, none)
      | .err e => .err e
      | .panic s => .panic s
    match v with
    | .arr xs => wrap (fillSlice env row 0 xs.toList)
    | .gomap kvs => wrap (fillPairs env row kvs.toList)
    | .val (.row ms) => wrap (fillPairs env row (ms.toList.map fun (k, c) => (k, Cells.raw c)))
    | .bytes s | .str s => unmarshalInto env row s
    | _ => .ok (row, some .unsupportedImport)

/-- `exporter.Export(v)`: the bytes of the single write, or the error (nothing written). -/
def exportLine (env : Env) (t : Tmpl) (v : Dyn) : Outcome (Bytes × Option ErrClass) :=
  match createRow env t v with
  | .err e => .err e
  | .panic s => .panic s
  | .ok (_, some e) => .ok ([], some e)
  | .ok (row, none) =>
    match RowPrint.marshalRow env (Members.ofList row) with
    | .ok b => .ok (b ++ [0x0A], none)
    | .err .ext => .err .ext
    | .err e => .ok ([], some e)
    | .panic s => .panic s

/-- `importer.GetRow()` for one scanned line. -/
def getRow (env : Env) (t : Tmpl) (line : Bytes) : Outcome (List (Bytes × Val) × Option ErrClass) :=
  match createRowEmpty env t with
  | .err e => .err e
  | .panic s => .panic s
  | .ok row => unmarshalInto env row line

/-- One line through importer (template `ti`) and exporter (template `to`), as jl does:
    the written bytes, or the error reported for the line. -/
def jlLine (env : Env) (ti to : Tmpl) (line : Bytes) : Outcome (Bytes × Option ErrClass) :=
  match getRow env ti line with
  | .err e => .err e
  | .panic s => .panic s
  | .ok (_, some e) => .ok ([], some e)
  | .ok (row, none) => exportLine env to (.val (.row (Members.ofList row)))

end Jl.Template
