/-
  Model.JlFactsSyntax — the small syntax in which extract/jlfacts.go renders cmd/jl (root.go,
  definition.go, main.go): Gen.JlFacts.

  Every function the facts are about is run symbolically (the executor of extract/value.go and
  flow.go: loops, closures as values, the other functions of the command as opaque calls, helpers
  inlined) and the tree found is matched against the one shape written here.  Anything else is
  `unknown` with the tree as its text; nothing is guessed.  `ti` / `to` are the input and the
  output template; every shape includes "and nothing else on the path".
-/
import Model.Basic

namespace Jl.JlFacts

/-- `parseDescriptor(def)` -/
inductive Descriptor
  /-- `m := regexp.MustCompile(<text>).FindStringSubmatch(def)`;
      format: `len(m) > fg` and `<formatRegistry>[m[fg]]` is present → that entry, otherwise `jsonline.<dflt>`;
      raw type: `len(m) > tg` → `<typeRegistry>[m[tg]]` (nil for a name that is not registered), otherwise nil. -/
  | regexp (text : String) (formatGroup typeGroup : Nat) (formatRegistry dflt typeRegistry : String)
  | unknown (text : String)
  deriving DecidableEq, Repr

/-- `parse(ti, to, columns)`: the definition FILE's columns -/
inductive FileRoute
  /-- for each column, in order: `ti.With(Name, parseDescriptor(Input))`, `to.With(Name, parseDescriptor(Output))`
      (an empty `Output` is NOT the input: it is what `parseDescriptor("")` gives); then, when it has
      sub-columns: `parse(NewTemplate(), NewTemplate(), Columns)` — an error is returned at once —,
      `ti = ti.WithRow(Name, sub.ti)`, `to = to.WithRow(Name, sub.to)`.  Returns `ti, to, nil`. -/
  | withThenSubRows
  | unknown (text : String)
  deriving DecidableEq, Repr

/-- `ParseRowDefinition(filename)` -/
inductive ParseRowDefinition
  /-- `ReadRowDefinition(filename)` (an error is returned), then `parse` from two NEW templates over its columns -/
  | readThenParse
  | unknown (text : String)
  deriving DecidableEq, Repr

/-- `ReadRowDefinition(filename)` -/
inductive ReadFile
  /-- `os.Stat(filename)` fails (missing file): a WARNING is logged and the definition is EMPTY (no error);
      otherwise `ioutil.ReadFile` — an error is returned (fatal) — and `yaml.Unmarshal` into an empty
      definition — an error is returned (fatal); an empty file leaves the definition empty. -/
  | statReadYaml
  | unknown (text : String)
  deriving DecidableEq, Repr

/-- `createTemplateFromString(input)` -/
inductive FromString
  /-- `json.Unmarshal([]byte(input), jsonline.NewRow())` — an error is returned —, then `createTemplateFromRow(row)` -/
  | unmarshalIntoNewRow
  | unknown (text : String)
  deriving DecidableEq, Repr

/-- The output descriptor of an inline column whose text has no separator. -/
inductive MissingOutput
  /-- `to.With(name, <what the input part gave>)` -/
  | sameAsInput
  deriving DecidableEq, Repr

/-- `createTemplateFromRow(row)`: the INLINE template -/
inductive InlineRoute
  /-- from two NEW templates, for each entry `(name, v)` of the row in its order, `x, err := v.Export()` (an error
      is returned):
        `x` a string: `parts := strings.SplitN(x, sep, n)`; `ti.With(name, parseDescriptor(parts[0]))`;
                      `len(parts) > 1` → `to.With(name, parseDescriptor(parts[1]))`, otherwise `missing`;
        `x` a Row:    `createTemplateFromRow(x)` (an error is returned), `ti = ti.WithRow(name, sub.ti)`,
                      `to = to.WithRow(name, sub.to)`;
        anything else: the entry is skipped.
      Also this shape when both descriptors are parsed before the two `With` (a helper returning
      `(parts[0], parts[0])` when `len(parts) < n` and `(parts[0], parts[1])` otherwise, `n = 2`): `parseDescriptor` is a
      function of its text, so parsing `parts[0]` a second time is `sameAsInput`. -/
  | splitN (sep : String) (n : Nat) (missing : MissingOutput)
  | unknown (text : String)
  deriving DecidableEq, Repr

/-- `getTemplateFlags(cmd)` -/
inductive TemplateFlags
  /-- `filename` is the flag named first, `template` the flag named second (an error is returned) -/
  | flags (filename template : String)
  | unknown (text : String)
  deriving DecidableEq, Repr

/-- `createTemplate(cmd)` -/
inductive CreateTemplate
  /-- `ParseRowDefinition(filename)` FIRST (an error is returned: fatal even when `-t` is given); then, when
      `len(template) > minLen && template != except` (for `minLen = 0` also written `template != ""`), `createTemplateFromString(template)` REPLACES the pair
      (an error is returned); otherwise the file's pair is returned. -/
  | fileThenInlineReplaces (minLen : Nat) (except : String)
  | unknown (text : String)
  deriving DecidableEq, Repr

/-- `run(cmd, args)` -/
inductive Run
  /-- `ti, to, err := createTemplate(cmd)` (components 0, 1, 2); an error: logged (zerolog, level Error) and
      `os.Exit(exit)`.  Otherwise `importer := <component inSide>.GetImporter(os.<stdin>)`,
      `exporter := <component outSide>.GetExporter(os.<stdout>)`, `jsonline.NewStreamer(importer, exporter)`,
      `.WithProcessor(<the closure>).Stream()`; an error of Stream is logged, and the function returns (no exit). -/
  | stream (exit : Nat) (inSide : Nat) (stdin : String) (outSide : Nat) (stdout : String)
  | unknown (text : String)
  deriving DecidableEq, Repr

/-- The closure handed to `WithProcessor`. -/
inductive Processor
  /-- every path returns nil, and every path with a non-nil error logs it (zerolog, level Error) -/
  | logsAndReturnsNil
  | unknown (text : String)
  deriving DecidableEq, Repr

/-- `main()` -/
inductive MainFn
  /-- the logger writes to `os.<logTo>`; `NewRootCommand()` fails → logged, `os.Exit(initExit)`;
      `cmd.Execute()` fails → logged, `os.Exit(runExit)` -/
  | exits (logTo : String) (initExit runExit : Nat)
  | unknown (text : String)
  deriving DecidableEq, Repr

structure JlFacts where
  descriptor : Descriptor
  fileRoute : FileRoute
  parseRowDefinition : ParseRowDefinition
  readFile : ReadFile
  fromString : FromString
  inlineRoute : InlineRoute
  templateFlags : TemplateFlags
  createTemplate : CreateTemplate
  run : Run
  processor : Processor
  mainFn : MainFn
  /-- every mention of os.Stdin / os.Stdout / os.Stderr in the package: (function, stream, what receives it) -/
  stdStreams : List (String × String × String)
  /-- every call of fmt.Print… / print / println: (function, callee) -/
  printCalls : List (String × String)
  deriving DecidableEq, Repr

def Descriptor.isKnown : Descriptor → Bool | .unknown _ => false | _ => true
def FileRoute.isKnown : FileRoute → Bool | .unknown _ => false | _ => true
def ParseRowDefinition.isKnown : ParseRowDefinition → Bool | .unknown _ => false | _ => true
def ReadFile.isKnown : ReadFile → Bool | .unknown _ => false | _ => true
def FromString.isKnown : FromString → Bool | .unknown _ => false | _ => true
def InlineRoute.isKnown : InlineRoute → Bool | .unknown _ => false | _ => true
def TemplateFlags.isKnown : TemplateFlags → Bool | .unknown _ => false | _ => true
def CreateTemplate.isKnown : CreateTemplate → Bool | .unknown _ => false | _ => true
def Run.isKnown : Run → Bool | .unknown _ => false | _ => true
def Processor.isKnown : Processor → Bool | .unknown _ => false | _ => true
def MainFn.isKnown : MainFn → Bool | .unknown _ => false | _ => true

def JlFacts.known (f : JlFacts) : Bool :=
  f.descriptor.isKnown && f.fileRoute.isKnown && f.parseRowDefinition.isKnown && f.readFile.isKnown
    && f.fromString.isKnown && f.inlineRoute.isKnown && f.templateFlags.isKnown && f.createTemplate.isKnown
    && f.run.isKnown && f.processor.isKnown && f.mainFn.isKnown

end Jl.JlFacts
