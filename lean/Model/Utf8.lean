/-
  Model.Utf8 — port of the parts of unicode/utf8 and unicode/utf16 that encoding/json uses.
  `seqLen bs` = length (2, 3 or 4) of the well-formed multi-byte sequence at the head of `bs`
  (first byte ≥ 0x80), or `none` when utf8.DecodeRune would return (RuneError, 1).
-/
import Model.Basic

namespace Jl.Utf8

def isCont (c : UInt8) : Bool := 0x80 ≤ c && c ≤ 0xBF

/-- Go's `first`/`acceptRanges` tables, written out. -/
def seqLen : Bytes → Option Nat
  | b0 :: b1 :: rest =>
    if 0xC2 ≤ b0 && b0 ≤ 0xDF then
      if isCont b1 then some 2 else none
    else if 0xE0 ≤ b0 && b0 ≤ 0xEF then
      let lo : UInt8 := if b0 == 0xE0 then 0xA0 else 0x80
      let hi : UInt8 := if b0 == 0xED then 0x9F else 0xBF
      match rest with
      | b2 :: _ => if lo ≤ b1 && b1 ≤ hi && isCont b2 then some 3 else none
      | [] => none
    else if 0xF0 ≤ b0 && b0 ≤ 0xF4 then
      let lo : UInt8 := if b0 == 0xF0 then 0x90 else 0x80
      let hi : UInt8 := if b0 == 0xF4 then 0x8F else 0xBF
      match rest with
      | b2 :: b3 :: _ => if lo ≤ b1 && b1 ≤ hi && isCont b2 && isCont b3 then some 4 else none
      | _ => none
    else none
  | _ => none

/-- utf8.EncodeRune for a scalar value (callers never pass surrogates or values > 0x10FFFF). -/
def encode (r : Nat) : Bytes :=
  if r < 0x80 then [UInt8.ofNat r]
  else if r < 0x800 then [UInt8.ofNat (0xC0 + r / 64), UInt8.ofNat (0x80 + r % 64)]
  else if r < 0x10000 then
    [UInt8.ofNat (0xE0 + r / 4096), UInt8.ofNat (0x80 + r / 64 % 64), UInt8.ofNat (0x80 + r % 64)]
  else
    [UInt8.ofNat (0xF0 + r / 262144), UInt8.ofNat (0x80 + r / 4096 % 64),
     UInt8.ofNat (0x80 + r / 64 % 64), UInt8.ofNat (0x80 + r % 64)]

/-- U+FFFD as UTF-8. -/
def replacement : Bytes := [0xEF, 0xBF, 0xBD]

/-- Code point of the well-formed sequence at the head (only meaningful when `seqLen` is `some`). -/
def decode : Bytes → Nat
  | [b0, b1] => (b0.toNat - 0xC0) * 64 + (b1.toNat - 0x80)
  | [b0, b1, b2] => (b0.toNat - 0xE0) * 4096 + (b1.toNat - 0x80) * 64 + (b2.toNat - 0x80)
  | [b0, b1, b2, b3] =>
    (b0.toNat - 0xF0) * 262144 + (b1.toNat - 0x80) * 4096 + (b2.toNat - 0x80) * 64 + (b3.toNat - 0x80)
  | _ => 0xFFFD

/-- Whole byte string is well-formed UTF-8. -/
def valid : Bytes → Bool
  | [] => true
  | c :: rest =>
    if c < 0x80 then valid rest
    else
      match _h : seqLen (c :: rest) with
      | some 2 => valid (rest.drop 1)
      | some 3 => valid (rest.drop 2)
      | some 4 => valid (rest.drop 3)
      | _ => false
termination_by bs => bs.length
decreasing_by all_goals simp <;> omega

end Jl.Utf8
