/-
  Model.AliasFamily — template FAMILIES in the heap model of Model.Alias: several templates in
  one heap, the builder calls of template.go and the rows they create.

    With(name, f, typ)  = t.empty.SetValue(name, NewValue(nil, f, typ))     -- a NEW cell
    WithRow(name, rowt) = t.empty.SetValue(name, rowt.CreateRowEmpty())     -- a FRESH CLONE, now
    CreateRowEmpty()    = CloneRow(t.empty)
    CloneRow(r)         = NewRow() + SetValue(k, CloneValue(v)) for each entry
    CloneValue(v)       = NewValue(v.Raw(), v.GetFormat(), v.GetRawType())  -- always a `*value`

  What a prototype holds.  `CloneValue` returns a plain cell for every entry, a nested row
  included (its `Raw()` is a fresh map of the raw contents): a clone is FLAT, a row of plain
  cells.  So the row object stored by `WithRow` has plain cells only, and a prototype has
  exactly two kinds of entries: a plain cell, or an attached row object of plain cells that
  no one else holds (`NewRow()` inside `CloneRow`, handed to `SetValue` and to nobody else) —
  held here by value, as Model.Alias holds its row objects.  The prototype row objects
  themselves are the mutable objects with an identity: template `i`'s is `tmpls[i]`, changed in
  place by the builder calls on `i`.  The third kind of entry, `ref j` — "the row object of
  template j ITSELF" — is never made by the real operations; it is what the regression
  `withRowShared` ("WithRow keeps sub.empty") stores.

  Cell contents are abstract (`C`), as in Model.Alias; `clone : C → C` is what `CloneValue`
  computes for a plain cell and `pack` what it computes for a nested row (a cell holding the
  map of its raw contents).  Live rows and their mutators are those of Model.Alias.
-/
import Model.Alias

namespace Jl.AliasFamily
open Jl Jl.Alias

/-- What a prototype holds under a key. -/
inductive Slot
  | cell (a : Addr)          -- a plain cell
  | sub (r : RowObj)         -- an attached row object of plain cells, owned by this entry
  | ref (j : Nat)            -- template j's prototype row object itself (the regression only)
  deriving DecidableEq

/-- A prototype row object (`template.empty`). -/
abbrev Proto := List (Bytes × Slot)

/-- The world: the heap, the templates' prototypes, the live rows. -/
structure World (C : Type) where
  heap : Heap C
  tmpls : List Proto
  rows : List RowObj

/-- The cells an entry owns. -/
def Slot.addrs : Slot → List Addr
  | .cell a => [a]
  | .sub r => Alias.addrs r
  | .ref _ => []

/-- The cells reachable from a prototype. -/
def taddrs (p : Proto) : List Addr := p.flatMap fun e => e.2.addrs

/-! ## What can be observed of a prototype -/

inductive SlotView (C : Type)
  | cellv (o : Option C)                       -- the content of the plain cell
  | subv (l : List (Bytes × Option C))         -- the keys and contents of the attached row
  deriving DecidableEq

abbrev View (C : Type) := List (Bytes × SlotView C)

/-- The plain cells of a prototype (what is seen of it through a `ref`). -/
def shallow {C : Type} (h : Heap C) (p : Proto) : List (Bytes × Option C) :=
  p.map fun e => (e.1, match e.2 with | .cell a => h.cells a | _ => none)

def slotView {C : Type} (h : Heap C) (ts : List Proto) : Slot → SlotView C
  | .cell a => .cellv (h.cells a)
  | .sub r => .subv (content h r)
  | .ref j => .subv (shallow h (ts[j]?.getD []))     -- looks THROUGH to template j, as it is now

def view {C : Type} (h : Heap C) (ts : List Proto) (p : Proto) : View C :=
  p.map fun e => (e.1, slotView h ts e.2)

/-- `product i`: what `CreateRowEmpty` of template `i` reads — the keys of its prototype with the
    contents of the cells reachable from it (`cloneProto` below is a function of it). -/
def product {C : Type} (w : World C) (i : Nat) : Option (View C) :=
  (w.tmpls[i]?).map (view w.heap w.tmpls)

/-! ## Cloning a prototype, `SetValue` -/

/-- `CloneValue` on what it reads: `none` = nothing to clone (no cell at the address). -/
def snapView {C : Type} (clone : C → C) (pack : List (Bytes × Option C) → C) : SlotView C → Option C
  | .cellv o => o.map clone
  | .subv l => some (pack l)

/-- The contents of the clone's cells, in order. -/
def snaps {C : Type} (clone : C → C) (pack : List (Bytes × Option C) → C) (v : View C) :
    List (Bytes × C) :=
  v.filterMap fun e => (snapView clone pack e.2).map fun c => (e.1, c)

/-- `CloneRow(proto)`: a new row object with a fresh cell per entry (Alias's allocator
    `initWorld.build`: one `alloc` per cell, consecutively).  On a prototype of plain cells this
    IS `Alias.cloneRow` (Proofs.AliasFamily.cloneProto_eq_cloneRow). -/
def cloneProto {C : Type} (clone : C → C) (pack : List (Bytes × Option C) → C) (h : Heap C)
    (ts : List Proto) (p : Proto) : Heap C × RowObj :=
  initWorld.build h (snaps clone pack (view h ts p))

/-- `row.SetValue(k, s)`: replace in place when the key exists, else append. -/
def setSlot (p : Proto) (k : Bytes) (s : Slot) : Proto :=
  if p.any (fun e => e.1 == k) then p.map (fun e => if e.1 == k then (k, s) else e)
  else p ++ [(k, s)]

/-- `SetValue` on what is observed. -/
def setView {C : Type} (v : View C) (k : Bytes) (x : SlotView C) : View C :=
  if v.any (fun e => e.1 == k) then v.map (fun e => if e.1 == k then (k, x) else e)
  else v ++ [(k, x)]

/-! ## Operations -/

inductive Op (C : Type)
  /-- `tmpls[i].With(name, f, typ)`; `c` = the content of `NewValue(nil, f, typ)` -/
  | with_ (i : Nat) (name : Bytes) (c : C)
  /-- `tmpls[i].WithRow(name, tmpls[j])` -/
  | withRow (i : Nat) (name : Bytes) (j : Nat) (clone : C → C) (pack : List (Bytes × Option C) → C)
  /-- `tmpls[i].CreateRowEmpty()` (and the start of `CreateRow`): a new live row -/
  | createFrom (i : Nat) (clone : C → C) (pack : List (Bytes × Option C) → C)
  /-- an operation of Model.Alias on the live rows (`createEmpty` there = `NewRow()`) -/
  | row (op : Alias.Op C)

def step {C : Type} (w : World C) : Op C → World C
  | .with_ i name c =>
    match w.tmpls[i]? with
    | some p =>
      let (h, a) := w.heap.alloc c
      { w with heap := h, tmpls := w.tmpls.set i (setSlot p name (.cell a)) }
    | none => w
  | .withRow i name j clone pack =>
    match w.tmpls[i]?, w.tmpls[j]? with
    | some p, some q =>
      let (h, r) := cloneProto clone pack w.heap w.tmpls q        -- the clone is made NOW
      { w with heap := h, tmpls := w.tmpls.set i (setSlot p name (.sub r)) }
    | _, _ => w
  | .createFrom i clone pack =>
    match w.tmpls[i]? with
    | some p =>
      let (h, r) := cloneProto clone pack w.heap w.tmpls p
      { w with heap := h, rows := w.rows ++ [r] }
    | none => w
  | .row op =>
    let aw := Alias.step ⟨w.heap, [], w.rows⟩ op
    { w with heap := aw.heap, rows := aw.rows }

def run {C : Type} (w : World C) : List (Op C) → World C
  | [] => w
  | op :: ops => run (step w op) ops

/-- The template whose prototype an operation may change. -/
def Op.tmplTarget {C : Type} : Op C → Option Nat
  | .with_ i _ _ => some i
  | .withRow i _ _ _ _ => some i
  | _ => none

/-- `n` times `NewTemplate()`. -/
def initWorld (C : Type) (n : Nat) : World C := ⟨⟨fun _ => none, 0⟩, List.replicate n [], []⟩

/-- The REGRESSION "WithRow keeps sub.empty itself": template j's own row object is stored. -/
def withRowShared {C : Type} (w : World C) (i : Nat) (name : Bytes) (j : Nat) : World C :=
  match w.tmpls[i]?, w.tmpls[j]? with
  | some p, some _ => { w with tmpls := w.tmpls.set i (setSlot p name (.ref j)) }
  | _, _ => w

/-- A weaker regression: a NEW row object, but holding template j's own cells. -/
def withRowSharedCells {C : Type} (w : World C) (i : Nat) (name : Bytes) (j : Nat) : World C :=
  match w.tmpls[i]?, w.tmpls[j]? with
  | some p, some q =>
    let r : RowObj := q.filterMap fun e => match e.2 with | .cell a => some (e.1, a) | _ => none
    { w with tmpls := w.tmpls.set i (setSlot p name (.sub r)) }
  | _, _ => w

/-! ## The invariant -/

/-- Separation: every cell in use is allocated; the cell sets reachable from two different
    prototypes are disjoint, and disjoint from the cells of every live row; two different live
    rows share no cell; no prototype holds another prototype's row object. -/
structure Inv {C : Type} (w : World C) : Prop where
  rows_lt : ∀ r ∈ w.rows, ∀ a ∈ Alias.addrs r, a < w.heap.next
  rows_rows : ∀ (i j : Nat) ri rj, w.rows[i]? = some ri → w.rows[j]? = some rj → i ≠ j →
    ∀ a ∈ Alias.addrs ri, a ∉ Alias.addrs rj
  tmpl_lt : ∀ p ∈ w.tmpls, ∀ a ∈ taddrs p, a < w.heap.next
  tmpl_rows : ∀ p ∈ w.tmpls, ∀ r ∈ w.rows, ∀ a ∈ taddrs p, a ∉ Alias.addrs r
  tmpl_tmpl : ∀ (i j : Nat) pi pj, w.tmpls[i]? = some pi → w.tmpls[j]? = some pj → i ≠ j →
    ∀ a ∈ taddrs pi, a ∉ taddrs pj
  noRef : ∀ p ∈ w.tmpls, ∀ e ∈ p, ∀ j, e.2 ≠ .ref j

end Jl.AliasFamily
