/-
  Model.Float — IEEE-754 binary64/binary32 as bit patterns (Nat), decoded exactly.

  `FVal` is what integer guards and conversions see of a float: NaN, ±Inf, or a finite value
  given by its truncation toward zero `t`, whether a fractional part was cut off (`frac`) and
  the sign (`neg`, needed when t = 0).  Comparison with an integer constant and truncation
  are exact on this representation.
-/
import Model.Basic

namespace Jl

inductive FVal
  | nan
  | inf (neg : Bool)
  | fin (t : Int) (frac : Bool) (neg : Bool)
  deriving DecidableEq, Repr

namespace FVal

/-- Well-formedness of a decoded finite value: sign agrees with `t`; the fractional part
    has the sign of the value. -/
def WF : FVal → Prop
  | .fin t _ neg => (neg = true → t ≤ 0) ∧ (neg = false → 0 ≤ t)
  | _ => True

/-- `x < c` for an integer constant `c` (false for NaN). -/
def lt (x : FVal) (c : Int) : Bool :=
  match x with
  | .nan => false
  | .inf neg => neg
  | .fin t frac neg =>
    if frac then (if neg then decide (t ≤ c) else decide (t < c)) else decide (t < c)

/-- `x > c` -/
def gt (x : FVal) (c : Int) : Bool :=
  match x with
  | .nan => false
  | .inf neg => !neg
  | .fin t frac neg =>
    if frac then (if neg then decide (t > c) else decide (t ≥ c)) else decide (t > c)

/-- `x ≤ c` -/
def le (x : FVal) (c : Int) : Bool :=
  match x with
  | .nan => false
  | .inf neg => neg
  | .fin t frac neg =>
    if frac then (if neg then decide (t ≤ c) else decide (t < c)) else decide (t ≤ c)

/-- `x ≥ c` -/
def ge (x : FVal) (c : Int) : Bool :=
  match x with
  | .nan => false
  | .inf neg => !neg
  | .fin t frac neg =>
    if frac then (if neg then decide (t > c) else decide (t ≥ c)) else decide (t ≥ c)

/-- `x == c` -/
def eq (x : FVal) (c : Int) : Bool :=
  match x with
  | .fin t false _ => decide (t = c)
  | _ => false

/-- `x != c` (true for NaN) -/
def ne (x : FVal) (c : Int) : Bool := !(x.eq c)

end FVal

namespace Float

structure Fmt where
  expBits : Nat
  manBits : Nat     -- stored fraction bits (52 / 23)

def f64 : Fmt := ⟨11, 52⟩
def f32 : Fmt := ⟨8, 23⟩

def Fmt.bias (f : Fmt) : Nat := 2 ^ (f.expBits - 1) - 1
def Fmt.width (f : Fmt) : Nat := 1 + f.expBits + f.manBits

/-- Decoded fields: sign, and either special or (mantissa, exponent) with value m·2^e. -/
inductive Dec
  | nan
  | inf (neg : Bool)
  | fin (neg : Bool) (m : Nat) (e : Int)
  deriving Repr, DecidableEq

def decode (f : Fmt) (bits : Nat) : Dec :=
  let neg := bits / 2 ^ (f.expBits + f.manBits) % 2 == 1
  let ex := bits / 2 ^ f.manBits % 2 ^ f.expBits
  let fr := bits % 2 ^ f.manBits
  if ex == 2 ^ f.expBits - 1 then (if fr == 0 then .inf neg else .nan)
  else if ex == 0 then .fin neg fr (1 - (f.bias : Int) - f.manBits)
  else .fin neg (fr + 2 ^ f.manBits) ((ex : Int) - f.bias - f.manBits)

def toFVal (f : Fmt) (bits : Nat) : FVal :=
  match decode f bits with
  | .nan => .nan
  | .inf neg => .inf neg
  | .fin neg m e =>
    if e ≥ 0 then
      let t : Int := (m * 2 ^ e.toNat : Nat)
      .fin (if neg then -t else t) false neg
    else
      let s := (-e).toNat
      let t : Int := (m / 2 ^ s : Nat)
      .fin (if neg then -t else t) (m % 2 ^ s != 0) neg

/-- Round the exact value (−1)^neg · m · 2^e to the nearest representable value, ties to even
    (what Go's integer→float and float64→float32 conversions do). -/
def encode (f : Fmt) (neg : Bool) (m : Nat) (e : Int) : Nat :=
  let signBit := if neg then 2 ^ (f.expBits + f.manBits) else 0
  if m == 0 then signBit
  else
    let p := f.manBits + 1
    let emin : Int := 1 - (f.bias : Int)              -- exponent of the smallest normal
    let len := Nat.log2 m + 1
    let top : Int := e + len - 1                     -- exponent of the leading bit
    let q : Int := max (top - (p - 1 : Nat)) (emin - (p - 1 : Nat))   -- quantum exponent
    let (mant, q) : Nat × Int :=
      if e ≥ q then (m * 2 ^ (e - q).toNat, q)
      else
        let s := (q - e).toNat
        let lo := m % 2 ^ s
        let hi := m / 2 ^ s
        let half := 2 ^ (s - 1)
        let up := lo > half || (lo == half && hi % 2 == 1)
        let hi := if up then hi + 1 else hi
        if hi == 2 ^ p then (2 ^ (p - 1), q + 1) else (hi, q)
    if mant < 2 ^ (p - 1) then signBit + mant                      -- subnormal (or zero)
    else
      let ex : Int := q + (p - 1 : Nat) + f.bias
      if ex ≥ (2 ^ f.expBits - 1 : Nat) then signBit + (2 ^ f.expBits - 1) * 2 ^ f.manBits   -- ±Inf
      else signBit + ex.toNat * 2 ^ f.manBits + (mant - 2 ^ (p - 1))

/-- Go's `float64(v)` / `float32(v)` for an integer `v`. -/
def ofInt (f : Fmt) (v : Int) : Nat := encode f (v < 0) v.natAbs 0

/-- `float32(x)` for a float64 `x` (NaN keeps being a NaN: quiet bit set, payload truncated). -/
def f64to32 (bits : Nat) : Nat :=
  match decode f64 bits with
  | .nan =>
    let sign := bits / 2 ^ 63
    sign * 2 ^ 31 + 0x7FC00000 + (bits % 2 ^ 52 / 2 ^ 29) % 2 ^ 22
  | .inf neg => (if neg then 2 ^ 31 else 0) + 0x7F800000
  | .fin neg m e => encode f32 neg m e

/-- `float64(x)` for a float32 `x` (exact). -/
def f32to64 (bits : Nat) : Nat :=
  match decode f32 bits with
  | .nan =>
    let sign := bits / 2 ^ 31
    sign * 2 ^ 63 + 0x7FF8000000000000 + (bits % 2 ^ 22) * 2 ^ 29
  | .inf neg => (if neg then 2 ^ 63 else 0) + 0x7FF0000000000000
  | .fin neg m e => encode f64 neg m e

def isNaN (f : Fmt) (bits : Nat) : Bool := decode f bits == .nan
def isFinite (f : Fmt) (bits : Nat) : Bool :=
  match decode f bits with
  | .fin .. => true
  | _ => false
def isZero (f : Fmt) (bits : Nat) : Bool := bits % 2 ^ (f.expBits + f.manBits) == 0

end Float
end Jl
