/-
  Model.Cast — interpreter of the cast tables that extract/ regenerates from /repo/pkg/cast
  (Gen.CastTable): `castNamed "ToInt32" v`, `castTo T v` (= cast.To).

  What is jsonline's (dispatch, guards, conversions, delegation, error sentinels) is taken
  from the generated tables; what is the standard library's is either a port
  (Model.IntText, Model.Time, Model.LE, Model.Float) or a parameter (`Ext`).
-/
import Model.CastSyntax
import Model.IntText
import Model.Float
import Model.Time
import Model.LE

namespace Jl

/-- Standard-library behaviour that is not ported: supplied per case by the harness when the
    model is executed, arbitrary (with stated laws) in the theorems. -/
structure Ext where
  /-- strconv.FormatFloat(x, 'f', -1, bitSize) for `x` given by its float64 bits -/
  fmtFloat : Nat → Nat → Option Bytes
  /-- strconv.ParseFloat(s, bitSize): `none` = not supplied; `some none` = error;
      `some (some b)` = float64 bits of the result -/
  parseFloat : Bytes → Nat → Option (Option Nat)
  /-- UTC offset (seconds east) of time.Local at a Unix second -/
  zoneOffset : Int → Option Int
  /-- json.Marshal of a float64 / float32 given by its bits and size (64 | 32):
      `none` = not supplied; `some none` = marshal error (NaN, ±Inf) -/
  jsonFloat : Nat → Nat → Option (Option Bytes) := fun _ _ => none

def Ext.empty : Ext := { fmtFloat := fun _ _ => none, parseFloat := fun _ _ => none, zoneOffset := fun _ => none }

/-- The tables a run works with (Gen.CastTable of the current source). -/
structure CastTables where
  casters : List Caster
  dispatchTo : List (Ty × Branch)
  dispatchToDefault : Branch
  sentinels : List (String × Option String)
  binFns : List (String × BinFn)
  timeStringFormat : String

namespace Cast

def typeOf : Dyn → Ty
  | .nil => .none
  | .int t _ => .int t
  | .f64 _ => .f64
  | .f32 _ => .f32
  | .bool _ => .bool
  | .str _ => .str
  | .bytes _ => .bytes
  | .num _ => .num
  | .time _ => .time
  | .barr _ | .arr _ | .gomap _ | .val _ | .other _ => .other

/-- Does the `%w` chain of a sentinel reach `ErrUnableToCast`? -/
def wrapsRoot (tbl : List (String × Option String)) : Nat → String → Bool
  | 0, _ => false
  | fuel + 1, s =>
    if s == "ErrUnableToCast" then tbl.any (fun p => p.1 == s)
    else
      match tbl.find? (fun p => p.1 == s) with
      | some (_, some parent) => wrapsRoot tbl fuel parent
      | _ => false

def failWith (T : CastTables) (sentinel : String) : Outcome Dyn :=
  if wrapsRoot T.sentinels 4 sentinel then .err .cast else .err .other

/-- amd64 float→integer conversion: truncation when it fits 64 bits, else the "integer
    indefinite" value; then Go's narrowing. Out of range is arch-specific in Go: after a
    correct guard it is unreachable (C09 proves it). -/
def floatToInt (t : IntTy) (x : FVal) : Int :=
  match x with
  | .fin tr _ _ =>
    if t == .u64 || t == .uint then
      if 0 ≤ tr ∧ tr < 2 ^ 64 then tr
      else if -(2 ^ 63 : Int) ≤ tr ∧ tr < 0 then t.wrap tr
      else 2 ^ 63
    else if -(2 ^ 63 : Int) ≤ tr ∧ tr < 2 ^ 63 then t.wrap tr
    else t.wrap (-(2 ^ 63 : Int))
  | _ => if t == .u64 || t == .uint then 2 ^ 63 else t.wrap (-(2 ^ 63 : Int))

def fvalOf : Dyn → Option FVal
  | .f64 b => some (Float.toFVal Float.f64 b)
  | .f32 b => some (Float.toFVal Float.f32 b)
  | _ => none

def layoutString (T : CastTables) : Layout → String
  | .timeStringFormat => T.timeStringFormat
  | .lit s => s

def binPut (fn : BinFn) (v : Dyn) : Outcome Dyn :=
  let image : Option (Nat) :=
    match v with
    | .int _ x => some (LE.toU 64 x)
    | .f64 b => some b
    | .f32 b => some b
    | .bool b => some (if b then 1 else 0)
    | _ => none
  match image, fn with
  | some u, .put size order width =>
    let nb := width / 8
    if size < nb then .panic "index out of range in PutUint"
    else
      let u := u % 2 ^ width
      let bs := if order == "LittleEndian" then LE.put nb u
                else if order == "BigEndian" then LE.putBE nb u else []
      if bs.isEmpty && nb != 0 then .err .ext
      else .ok (.bytes (bs ++ List.replicate (size - nb) 0))
  | some u, .put1 size =>
    if size < 1 then .panic "index out of range" else
    .ok (.bytes (UInt8.ofNat (u % 256) :: List.replicate (size - 1) 0))
  | some u, .putBool size =>
    if size < 1 then (if u == 0 then .ok (.bytes []) else .panic "index out of range") else
    .ok (.bytes (UInt8.ofNat (if u == 0 then 0 else 1) :: List.replicate (size - 1) 0))
  | _, _ => .err .ext

def ofUnsigned (res : Ty) (width : Nat) (u : Nat) : Option Dyn :=
  match res with
  | .int t => some (.int t (if t.signed then t.wrap (LE.ofU width u) else t.wrap u))
  | .f64 => some (.f64 u)
  | .f32 => some (.f32 u)
  | _ => none

def binGet (T : CastTables) (fn : BinFn) (v : Dyn) : Outcome Dyn :=
  match v, fn with
  | .bytes s, .get size order width res _ sentinel =>
    if s.length != size then failWith T sentinel
    else
      let nb := width / 8
      if s.length < nb then .panic "index out of range in Uint"
      else
        let u := if order == "LittleEndian" then some (LE.get (s.take nb))
                 else if order == "BigEndian" then some (LE.getBE (s.take nb)) else none
        match u.bind (ofUnsigned res width) with
        | some d => .ok d
        | none => .err .ext
  | .bytes s, .get1 size res sentinel =>
    if s.length != size then failWith T sentinel
    else match s with
      | b :: _ => (match ofUnsigned res 8 b.toNat with | some d => .ok d | none => .err .ext)
      | [] => .panic "index out of range"
  | .bytes s, .getBool size sentinel =>
    if s.length != size then failWith T sentinel
    else match s with
      | b :: _ => .ok (.bool (b != 0))
      | [] => .panic "index out of range"
  | _, _ => .err .ext

/-- Expressions. `parsed` is the `v` bound by a strconv.ParseX call. -/
def evalE (T : CastTables) (ext : Ext) (val : Dyn) (parsed : Dyn) : E → Outcome Dyn
  | .val => .ok val
  | .parsed => .ok parsed
  | .intLit t n => .ok (.int t n)
  | .f64Lit n => .ok (.f64 (Float.ofInt Float.f64 n))
  | .f32Lit n => .ok (.f32 (Float.ofInt Float.f32 n))
  | .numLit s => .ok (.num s)
  | .toInt t e =>
    match evalE T ext val parsed e with
    | .ok (.int _ v) => .ok (.int t (t.wrap v))
    | .ok (.f64 b) => .ok (.int t (floatToInt t (Float.toFVal Float.f64 b)))
    | .ok (.f32 b) => .ok (.int t (floatToInt t (Float.toFVal Float.f32 b)))
    | .ok _ => .err .ext
    | o => o
  | .toF64 e =>
    match evalE T ext val parsed e with
    | .ok (.int _ v) => .ok (.f64 (Float.ofInt Float.f64 v))
    | .ok (.f64 b) => .ok (.f64 b)
    | .ok (.f32 b) => .ok (.f64 (Float.f32to64 b))
    | .ok _ => .err .ext
    | o => o
  | .toF32 e =>
    match evalE T ext val parsed e with
    | .ok (.int _ v) => .ok (.f32 (Float.ofInt Float.f32 v))
    | .ok (.f64 b) => .ok (.f32 (Float.f64to32 b))
    | .ok (.f32 b) => .ok (.f32 b)
    | .ok _ => .err .ext
    | o => o
  | .toStr e =>
    match evalE T ext val parsed e with
    | .ok (.bytes s) => .ok (.str s)
    | .ok (.num s) => .ok (.str s)
    | .ok (.str s) => .ok (.str s)
    | .ok _ => .err .ext
    | o => o
  | .toBytes e =>
    match evalE T ext val parsed e with
    | .ok (.str s) => .ok (.bytes s)
    | .ok (.num s) => .ok (.bytes s)
    | .ok (.bytes s) => .ok (.bytes s)
    | .ok _ => .err .ext
    | o => o
  | .toNum e =>
    match evalE T ext val parsed e with
    | .ok (.str s) => .ok (.num s)
    | .ok (.num s) => .ok (.num s)
    | .ok _ => .err .ext
    | o => o
  | .unix e =>
    match evalE T ext val parsed e with
    | .ok (.time t) => .ok (.int .i64 t.sec)
    | .ok _ => .err .ext
    | o => o
  | .year e =>
    match evalE T ext val parsed e with
    | .ok (.time t) => .ok (.int .int (Time.year t))
    | .ok _ => .err .ext
    | o => o
  | .ne0 e =>
    match evalE T ext val parsed e with
    | .ok (.int _ v) => .ok (.bool (v != 0))
    | .ok (.f64 b) => .ok (.bool (!Float.isZero Float.f64 b))
    | .ok (.f32 b) => .ok (.bool (!Float.isZero Float.f32 b))
    | .ok _ => .err .ext
    | o => o
  | .fmtInt e base | .fmtUint e base =>
    match evalE T ext val parsed e with
    | .ok (.int _ v) => if base == 10 then .ok (.str (IntText.formatInt v)) else .err .ext
    | .ok _ => .err .ext
    | o => o
  | .itoa e =>
    match evalE T ext val parsed e with
    | .ok (.int _ v) => .ok (.str (IntText.formatInt v))
    | .ok _ => .err .ext
    | o => o
  | .fmtFloat e verb prec bits =>
    match evalE T ext val parsed e with
    | .ok (.f64 b) =>
      if verb == 102 && prec == -1 then
        match ext.fmtFloat b bits with
        | some s => .ok (.str s)
        | none => .err .ext
      else .err .ext
    | .ok _ => .err .ext
    | o => o
  | .fmtBool e =>
    match evalE T ext val parsed e with
    | .ok (.bool b) => .ok (.str (IntText.formatBool b))
    | .ok _ => .err .ext
    | o => o
  | .timeFormat e l =>
    match evalE T ext val parsed e with
    | .ok (.time t) =>
      let lay := layoutString T l
      if lay == "2006-01-02T15:04:05Z07:00" then .ok (.str (Time.formatRFC3339 t))
      else if lay == "2006-01-02" then .ok (.str (Time.formatDate t))
      else .err .ext
    | .ok _ => .err .ext
    | o => o
  | .timeUnix e =>
    match evalE T ext val parsed e with
    | .ok (.int _ v) =>
      -- package time computes in 64-bit seconds from year -292277022399: outside ±2^62 the
      -- arithmetic wraps; the model abstains there
      if v ≤ -(2 ^ 62 : Int) || v ≥ (2 ^ 62 : Int) then .err .ext else
      match ext.zoneOffset v with
      | some off => .ok (.time ⟨v, 0, off⟩)
      | none => .err .ext
    | .ok _ => .err .ext
    | o => o
  | .call fn e =>
    match evalE T ext val parsed e with
    | .ok v =>
      match T.binFns.find? (fun p => p.1 == fn) with
      | some (_, f) => binPut f v
      | none => .err .ext
    | o => o

def cmpInt (op : Cmp) (v c : Int) : Bool :=
  match op with
  | .lt => v < c | .le => v ≤ c | .gt => v > c | .ge => v ≥ c | .eq => v == c | .ne => v != c

def cmpF (op : Cmp) (x : FVal) (c : Int) : Bool :=
  match op with
  | .lt => x.lt c | .le => x.le c | .gt => x.gt c | .ge => x.ge c | .eq => x.eq c | .ne => x.ne c

/-- Guards; `none` when an operand is not numeric (never for extracted guards on their own
    source type). -/
def evalG (T : CastTables) (ext : Ext) (val : Dyn) : G → Option Bool
  | .cmp op l c =>
    match evalE T ext val .nil l with
    | .ok (.int _ v) => some (cmpInt op v c)
    | .ok (.f64 b) => some (cmpF op (Float.toFVal Float.f64 b) c)
    | .ok (.f32 b) => some (cmpF op (Float.toFVal Float.f32 b) c)
    | _ => none
  | .or a b =>
    match evalG T ext val a with
    | some true => some true
    | some false => evalG T ext val b
    | none => none
  | .and a b =>
    match evalG T ext val a with
    | some false => some false
    | some true => evalG T ext val b
    | none => none
  | .not a => (evalG T ext val a).map (!·)

def findClause (c : Caster) (t : Ty) : Branch :=
  match c.clauses.find? (fun cl => cl.types.contains t) with
  | some cl => cl.body
  | none => c.dflt

/-- What strconv.ParseX delivers as `v`. -/
def runParse (ext : Ext) (fn : ParseFn) (s : Bytes) : Option (Option Dyn) :=
  match fn with
  | .parseInt base bits =>
    if base == 0 then some ((IntText.parseInt0 s bits).map fun v => .int .i64 v) else none
  | .parseUint base bits =>
    if base == 0 then some ((IntText.parseUint0 s bits).map fun v => .int .u64 v) else none
  | .parseFloat bits => (ext.parseFloat s bits).map fun r => r.map fun b => .f64 b

mutual
  /-- A caster (`ToX`) or a `xFromBytes` function, by name. -/
  def callNamed (T : CastTables) (ext : Ext) : Nat → String → Dyn → Outcome Dyn
    | 0, _, _ => .err .ext
    | fuel + 1, name, v =>
      match T.casters.find? (fun c => c.name == name) with
      | some c => evalBranch T ext fuel c.name (findClause c (typeOf v)) v
      | none =>
        match T.binFns.find? (fun p => p.1 == name) with
        | some (_, f) => binGet T f v
        | none => .err .ext
  def evalBranch (T : CastTables) (ext : Ext) : Nat → String → Branch → Dyn → Outcome Dyn
    | 0, _, _, _ => .err .ext
    | fuel + 1, _self, br, val =>
      match br with
      | .ret e => evalE T ext val .nil e
      | .retNil => .ok .nil
      | .fail s => failWith T s
      | .guarded g s e =>
        match evalG T ext val g with
        | some true => failWith T s
        | some false => evalE T ext val .nil e
        | none => .err .ext
      | .ifBool t f =>
        match val with
        | .bool true => evalE T ext val .nil t
        | .bool false => evalE T ext val .nil f
        | _ => .err .ext
      | .parse fn e s =>
        match val with
        | .str str =>
          match runParse ext fn str with
          | none => .err .ext
          | some none => failWith T s
          | some (some v) => evalE T ext val v e
        | _ => .err .ext
      | .tail callee e =>
        match evalE T ext val .nil e with
        | .ok v => callNamed T ext fuel callee v
        | o => o
      | .special id => special T ext fuel id val
      | .unknown _ => .err .ext
  /-- The bodies recognised verbatim by the extractor (extract/specials.go). -/
  def special (T : CastTables) (ext : Ext) : Nat → String → Dyn → Outcome Dyn
    | 0, _, _ => .err .ext
    | fuel + 1, id, val =>
      let nonzero (o : Outcome Dyn) (sent : String) : Outcome Dyn :=
        match o with
        | .ok (.f64 b) => .ok (.bool (!Float.isZero Float.f64 b))
        | .ok _ => .err .ext
        | .err .ext => .err .ext
        | .err _ => failWith T sent
        | .panic s => .panic s
      /- `i64, err := ToInt64(val); if err != nil { fail }; return callee(i64)` -/
      let viaInt64 (callee : String) (sent : String) : Outcome Dyn :=
        match callNamed T ext fuel "ToInt64" val with
        | .ok i => callNamed T ext fuel callee i
        | .err .ext => .err .ext
        | .err _ => failWith T sent
        | .panic s => .panic s
      if id == "binary.default" then
        match val with
        | .barr s => .ok (.bytes s)
        | _ => failWith T "ErrUnableToCastToBinary"
      else if id == "bool.string" then
        match val with
        | .str s =>
          match IntText.parseBool s with
          | some b => .ok (.bool b)
          | none => nonzero (callNamed T ext fuel "ToFloat64" val) "ErrUnableToCastToBool"
        | _ => .err .ext
      else if id == "bool.number" then
        nonzero (callNamed T ext fuel "ToFloat64" val) "ErrUnableToCastToBool"
      else if id == "date.string" then
        match val with
        | .str s =>
          if Time.parseDateOk s then .ok val else viaInt64 "ToDate" "ErrUnableToCastToDate"
        | _ => .err .ext
      else if id == "date.bytes" then
        match val with
        | .bytes s =>
          match callNamed T ext fuel "ToDate" (.str s) with
          | .ok t => .ok t
          | .err .ext => .err .ext
          | .err _ => viaInt64 "ToDate" "ErrUnableToCastToDate"
          | .panic p => .panic p
        | _ => .err .ext
      else if id == "date.default" then
        match callNamed T ext fuel "ToString" val with
        | .ok s => callNamed T ext fuel "ToDate" s
        | .err .ext => .err .ext
        | .err _ => failWith T "ErrUnableToCastToTime"
        | .panic p => .panic p
      else if id == "time.string" then
        match val with
        | .str s =>
          if T.timeStringFormat != "2006-01-02T15:04:05Z07:00" then .err .ext else
          match Time.parseRFC3339 s with
          | some t => .ok (.time t)
          | none => viaInt64 "ToTime" "ErrUnableToCastToTime"
        | _ => .err .ext
      else if id == "time.bytes" then
        match val with
        | .bytes s =>
          match callNamed T ext fuel "ToTime" (.str s) with
          | .ok t => .ok t
          | .err .ext => .err .ext
          | .err _ => viaInt64 "ToTime" "ErrUnableToCastToTime"
          | .panic p => .panic p
        | _ => .err .ext
      else if id == "time.default" then viaInt64 "ToTime" "ErrUnableToCastToTime"
      else if id == "timestamp.string" then
        match val with
        | .str s =>
          if T.timeStringFormat != "2006-01-02T15:04:05Z07:00" then .err .ext else
          match Time.parseRFC3339 s with
          | some t => .ok (.int .i64 t.sec)
          | none => failWith T "ErrUnableToCastToTime"
        | _ => .err .ext
      else .err .ext
end

def castNamed (T : CastTables) (ext : Ext) (name : String) (v : Dyn) : Outcome Dyn :=
  callNamed T ext 24 name v

/-- `cast.To(sample of type t, v)` -/
def castTo (T : CastTables) (ext : Ext) (t : Ty) (v : Dyn) : Outcome Dyn :=
  match T.dispatchTo.find? (fun p => p.1 == t) with
  | some (_, br) => evalBranch T ext 24 "To" br v
  | none => evalBranch T ext 24 "To" T.dispatchToDefault v

end Cast
end Jl
