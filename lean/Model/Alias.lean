/-
  Model.Alias — who shares what: a heap of cell objects, row objects holding addresses, and
  the allocation / in-place-mutation behaviour of template.go, row.go and value.go:

  * `CloneRow` allocates a new row and a NEW cell per column (`NewValue` returns `&value{…}`);
  * `CreateRow` / `CreateRowEmpty` start from `CloneRow(t.empty)`;
  * `Set`, `CreateRow` from map / slice / row store NEW cells (`NewValue…`);
  * `ImportAtKey` and `UnmarshalJSON` on an existing key call `cell.Import`, which MUTATES the
    cell object in place (value.go assigns v.raw / v.f / v.typ);
  * an absent key gets a NEW cell.

  Cell contents are abstract (`C`); what an operation computes for the new content is a
  parameter — the theorems hold whatever it is.  Sharing below the top level (a nested row
  reached through two parents) exists in the code and is outside the property ("at its top
  level"); it is not represented here.
-/
import Model.Basic

namespace Jl.Alias

abbrev Addr := Nat

structure Heap (C : Type) where
  cells : Addr → Option C
  next : Addr                       -- every address ≥ next is free

/-- A row object: key list with the address of each cell. -/
abbrev RowObj := List (Bytes × Addr)

/-- The world: the heap, the template's prototype row, and the live rows. -/
structure World (C : Type) where
  heap : Heap C
  proto : RowObj
  rows : List RowObj

def Heap.alloc {C : Type} (h : Heap C) (c : C) : Heap C × Addr :=
  (⟨fun a => if a = h.next then some c else h.cells a, h.next + 1⟩, h.next)

def Heap.write {C : Type} (h : Heap C) (a : Addr) (c : C) : Heap C :=
  ⟨fun a' => if a' = a then some c else h.cells a', h.next⟩

def addrOf (r : RowObj) (k : Bytes) : Option Addr :=
  (r.find? fun e => e.1 == k).map Prod.snd

/-- `CloneRow(src)`: a fresh cell per entry, holding `clone content`. -/
def cloneRow {C : Type} (clone : C → C) (h : Heap C) : RowObj → Heap C × RowObj
  | [] => (h, [])
  | (k, a) :: rest =>
    match h.cells a with
    | none => cloneRow clone h rest
    | some c =>
      let (h1, a') := h.alloc (clone c)
      let (h2, r) := cloneRow clone h1 rest
      (h2, (k, a') :: r)

/-- Operations on the world. `i` selects a live row. -/
inductive Op (C : Type)
  | createEmpty (clone : C → C)                          -- t.CreateRowEmpty() / CreateRow start
  | cloneLive (i : Nat) (clone : C → C)                  -- CloneRow(rows[i])
  | importKey (i : Nat) (k : Bytes) (f : Option C → C)   -- ImportAtKey / parseobject member: in place when present
  | setKey (i : Nat) (k : Bytes) (f : Option C → C)      -- Set / CreateRow fill: always a NEW cell
  | drop (i : Nat)                                       -- a row goes out of use (Export's temporary row)

def replaceAddr (r : RowObj) (k : Bytes) (a : Addr) : RowObj :=
  if (addrOf r k).isSome then r.map (fun e => if e.1 == k then (k, a) else e) else r ++ [(k, a)]

def step {C : Type} (w : World C) : Op C → World C
  | .createEmpty clone =>
    let (h, r) := cloneRow clone w.heap w.proto
    { w with heap := h, rows := w.rows ++ [r] }
  | .cloneLive i clone =>
    match w.rows[i]? with
    | some src =>
      let (h, r) := cloneRow clone w.heap src
      { w with heap := h, rows := w.rows ++ [r] }
    | none => w
  | .importKey i k f =>
    match w.rows[i]? with
    | some r =>
      match addrOf r k with
      | some a => { w with heap := w.heap.write a (f (w.heap.cells a)) }        -- in place
      | none =>
        let (h, a) := w.heap.alloc (f none)
        { w with heap := h, rows := w.rows.set i (r ++ [(k, a)]) }
    | none => w
  | .setKey i k f =>
    match w.rows[i]? with
    | some r =>
      let old := (addrOf r k).bind w.heap.cells
      let (h, a) := w.heap.alloc (f old)
      { w with heap := h, rows := w.rows.set i (replaceAddr r k a) }
    | none => w
  | .drop i => { w with rows := w.rows.eraseIdx i }

def run {C : Type} (w : World C) : List (Op C) → World C
  | [] => w
  | op :: ops => run (step w op) ops

/-- What can be observed of a row: its keys with the content of their cells. -/
def content {C : Type} (h : Heap C) (r : RowObj) : List (Bytes × Option C) :=
  r.map fun e => (e.1, h.cells e.2)

def addrs (r : RowObj) : List Addr := r.map Prod.snd

/-- Separation: all addresses in use are allocated, and the address lists of the prototype and
    of the live rows are pairwise disjoint and duplicate-free. -/
def Sep {C : Type} (w : World C) : Prop :=
  (∀ a ∈ addrs w.proto ++ (w.rows.map addrs).flatten, a < w.heap.next) ∧
  (addrs w.proto ++ (w.rows.map addrs).flatten).Nodup

/-- A world made by the template builder: the prototype's cells allocated one by one. -/
def initWorld {C : Type} (cols : List (Bytes × C)) : World C :=
  let rec build (h : Heap C) : List (Bytes × C) → Heap C × RowObj
    | [] => (h, [])
    | (k, c) :: rest =>
      let (h1, a) := h.alloc c
      let (h2, r) := build h1 rest
      (h2, (k, a) :: r)
  let (h, p) := build ⟨fun _ => none, 0⟩ cols
  { heap := h, proto := p, rows := [] }

end Jl.Alias
