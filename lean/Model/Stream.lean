/-
  Model.Stream — importer.go (Import / GetRow), exporter.go (Export with a scripted writer)
  and streamer.go (`Stream`'s loop with its processor), over the scanner of Model.Scanner.
-/
import Model.Scanner
import Model.Template

namespace Jl.Stream
open Jl Jl.Value Jl.Template Jl.Scanner

/-- What the writer does at successive `Write` calls. -/
inductive WriteEv
  | ok
  | fail                 -- writes nothing, returns an error
  | short (n : Nat)      -- writes n bytes (n < len), returns an error (io.Writer's contract)
  deriving Repr

/-- Processors: what they return for their n-th call (0-based) given the error they get. -/
inductive Proc
  | default              -- returns the error it is given
  | tolerant             -- always nil
  | failAt (n : Nat)     -- returns an error at call n whatever it is given, nil otherwise
  deriving Repr

def Proc.result (p : Proc) (call : Nat) (e : Option ErrClass) : Option ErrClass :=
  match p with
  | .default => e
  | .tolerant => none
  | .failAt n => if call == n then some .other else none

structure Obs where
  ret : Option ErrClass                         -- what Stream() returns
  calls : List (Bool × Option ErrClass)         -- processor calls: (row ≠ nil, error passed)
  writes : List Bytes                           -- bytes the writer received, per Write call
  deriving Repr

structure Cfg where
  env : Env
  ti : Tmpl
  to : Tmpl
  proc : Proc
  initSize : Nat
  maxSize : Nat

def scanErrClass : ScanErr → ErrClass
  | .io => .io
  | .tooLong => .tooLong
  | .noProgress => .io

/-- `exporter.Export(row)` against the writer script: the bytes actually written in this call
    (if a Write happened), the error, and the remaining script. -/
def exportWith (cfg : Cfg) (row : List (Bytes × Val)) (ws : List WriteEv) :
    Outcome (Option Bytes × Option ErrClass × List WriteEv) :=
  match exportLine cfg.env cfg.to (.val (.row (Members.ofList row))) with
  | .err e => .err e
  | .panic s => .panic s
  | .ok (_, some e) => .ok (none, some e, ws)
  | .ok (b, none) =>
    match ws with
    | [] => .ok (some b, none, [])
    | .ok :: rest => .ok (some b, none, rest)
    | .fail :: rest => .ok (some [], some .io, rest)
    | .short n :: rest => .ok (some (b.take n), some .io, rest)

/-- `Stream()`'s loop. `fuel` bounds the number of scanned lines. -/
def loop (cfg : Cfg) : Nat → St → List WriteEv → Obs → Outcome (Obs × St)
  | 0, _, _, _ => .err .ext
  | fuel + 1, st, ws, obs =>
    match scan cfg.initSize cfg.maxSize (st.script.length * 103 + st.buf.length + 210) st with
    | (none, st') =>
      -- Import() is false: after the loop the scanner's error, if any, is reported
      -- (repair F-C08: streamer.go asks the importer for its error)
      match errOf st' with
      | some e =>
        let ec := scanErrClass e
        let r := cfg.proc.result obs.calls.length (some ec)
        .ok ({ obs with ret := r, calls := obs.calls ++ [(false, some ec)] }, st')
      | none => .ok (obs, st')
    | (some line, st') =>
      -- GetRow: the scanner's error first
      let getRowRes : Outcome (Option (List (Bytes × Val)) × Option ErrClass) :=
        match errOf st' with
        | some e => .ok (none, some (scanErrClass e))
        | none =>
          match getRow cfg.env cfg.ti line with
          | .ok (row, none) => .ok (some row, none)
          | .ok (_, some e) => .ok (none, some e)
          | .err e => .err e
          | .panic s => .panic s
      match getRowRes with
      | .err e => .err e
      | .panic s => .panic s
      | .ok (_, some e) =>
        let r := cfg.proc.result obs.calls.length (some e)
        let obs := { obs with calls := obs.calls ++ [(false, some e)] }
        match r with
        | some re => .ok ({ obs with ret := some re }, st')
        | none => loop cfg fuel st' ws obs
      | .ok (none, none) => .err .ext
      | .ok (some row, none) =>
        let r := cfg.proc.result obs.calls.length none
        let obs := { obs with calls := obs.calls ++ [(true, none)] }
        match r with
        | some re => .ok ({ obs with ret := some re }, st')
        | none =>
          match exportWith cfg row ws with
          | .err e => .err e
          | .panic s => .panic s
          | .ok (w, none, ws') =>
            let obs := match w with | some b => { obs with writes := obs.writes ++ [b] } | none => obs
            loop cfg fuel st' ws' obs
          | .ok (w, some e, ws') =>
            let obs := match w with | some b => { obs with writes := obs.writes ++ [b] } | none => obs
            let r := cfg.proc.result obs.calls.length (some e)
            let obs := { obs with calls := obs.calls ++ [(true, some e)] }
            match r with
            | some re => .ok ({ obs with ret := some re }, st')
            | none => loop cfg fuel st' ws' obs

def scriptSize (reader : List ReadEv) : Nat :=
  reader.foldl (fun n ev => n + (match ev with | .data b | .dataErr b => b.length + 1 | _ => 1)) 2

/-- `Stream()`: the observation and the scanner's final state. -/
def streamSt (cfg : Cfg) (reader : List ReadEv) (writer : List WriteEv) : Outcome (Obs × St) :=
  loop cfg (scriptSize reader + 2) (Scanner.init cfg.initSize reader) writer ⟨none, [], []⟩

def stream (cfg : Cfg) (reader : List ReadEv) (writer : List WriteEv) : Outcome Obs :=
  match streamSt cfg reader writer with
  | .ok (obs, _) => .ok obs
  | .err e => .err e
  | .panic s => .panic s

/-! ### Specification side (C07) -/

/-- Lines of a byte stream as the property defines them: split on LF, drop one trailing CR,
    a final unterminated non-empty run counts. -/
def specLinesAux : Nat → Bytes → List Bytes
  | 0, _ => []
  | fuel + 1, bs =>
    if bs.isEmpty then []
    else
      match Scanner.splitLF bs with
      | some (l, rest) => Scanner.dropCR l :: specLinesAux fuel rest
      | none => [Scanner.dropCR bs]

def specLines (bs : Bytes) : List Bytes := specLinesAux (bs.length + 1) bs

/-- What one line contributes, as a function of the line and the templates only:
    the processor calls it causes and the bytes written. -/
inductive LineOutcome
  | importError (e : ErrClass)                 -- one call (nil row, e)
  | written (b : Bytes)                        -- one call (row, nil), one write
  | exportError (e : ErrClass)                 -- calls (row, nil) then (row, e), nothing written

def lineOutcome (cfg : Cfg) (l : Bytes) : Outcome LineOutcome :=
  match getRow cfg.env cfg.ti l with
  | .err e => .err e
  | .panic s => .panic s
  | .ok (_, some e) => .ok (.importError e)
  | .ok (row, none) =>
    match exportLine cfg.env cfg.to (.val (.row (Members.ofList row))) with
    | .err e => .err e
    | .panic s => .panic s
    | .ok (b, none) => .ok (.written b)
    | .ok (_, some e) => .ok (.exportError e)

/-- Folding the per-line outcomes through the processor (stop at the first error it returns). -/
def foldOutcomes (proc : Proc) : List LineOutcome → Obs → Obs
  | [], obs => obs
  | .importError e :: rest, obs =>
    let r := proc.result obs.calls.length (some e)
    let obs := { obs with calls := obs.calls ++ [(false, some e)] }
    match r with
    | some re => { obs with ret := some re }
    | none => foldOutcomes proc rest obs
  | .written b :: rest, obs =>
    let r := proc.result obs.calls.length none
    let obs := { obs with calls := obs.calls ++ [(true, none)] }
    match r with
    | some re => { obs with ret := some re }
    | none => foldOutcomes proc rest { obs with writes := obs.writes ++ [b] }
  | .exportError e :: rest, obs =>
    let r := proc.result obs.calls.length none
    let obs := { obs with calls := obs.calls ++ [(true, none)] }
    match r with
    | some re => { obs with ret := some re }
    | none =>
      let r2 := proc.result obs.calls.length (some e)
      let obs := { obs with calls := obs.calls ++ [(true, some e)] }
      match r2 with
      | some re => { obs with ret := some re }
      | none => foldOutcomes proc rest obs

def mapOutcomes (cfg : Cfg) : List Bytes → Outcome (List LineOutcome)
  | [] => .ok []
  | l :: rest =>
    match lineOutcome cfg l with
    | .ok o =>
      match mapOutcomes cfg rest with
      | .ok os => .ok (o :: os)
      | .err e => .err e
      | .panic s => .panic s
    | .err e => .err e
    | .panic s => .panic s

/-- C07's right-hand side: the stream's observation computed from the lines alone. -/
def specObs (cfg : Cfg) (bs : Bytes) : Outcome Obs :=
  match mapOutcomes cfg (specLines bs) with
  | .ok os => .ok (foldOutcomes cfg.proc os ⟨none, [], []⟩)
  | .err e => .err e
  | .panic s => .panic s

end Jl.Stream
