/-
  Model.Time — the parts of package time that pkg/cast uses, for the two layouts in play:
  RFC 3339 ("2006-01-02T15:04:05Z07:00", cast.TimeStringFormat) and "2006-01-02".
  Proleptic Gregorian civil calendar ↔ Unix seconds; `Format`; `Parse` (the general parser's
  language, leniencies included: 1-digit hour, `.`/`,` fraction of any length, offset
  hour ≤ 24 and minute ≤ 60).  Stdlib port (a), validated against package time directly.
-/
import Model.Basic
import Model.IntText

namespace Jl.Time

/-- Days since 1970-01-01 of a civil date (Hinnant's days_from_civil). -/
def daysFromCivil (y : Int) (m d : Nat) : Int :=
  let y := if m ≤ 2 then y - 1 else y
  let era := y / 400                  -- Int./ is floor division for a positive divisor
  let yoe := y - era * 400
  let mp : Int := ((m + 9) % 12 : Nat)
  let doy := (153 * mp + 2) / 5 + (d : Int) - 1
  let doe := yoe * 365 + yoe / 4 - yoe / 100 + doy
  era * 146097 + doe - 719468

/-- Civil date of a day number (Hinnant's civil_from_days): (year, month, day). -/
def civilFromDays (z : Int) : Int × Nat × Nat :=
  let z := z + 719468
  let era := z / 146097                -- floor division (Int./ with positive divisor)
  let doe := z - era * 146097          -- [0, 146096]
  let yoe := (doe - doe / 1460 + doe / 36524 - doe / 146096) / 365
  let y := yoe + era * 400
  let doy := doe - (365 * yoe + yoe / 4 - yoe / 100)
  let mp := (5 * doy + 2) / 153
  let d := doy - (153 * mp + 2) / 5 + 1
  let m := if mp < 10 then mp + 3 else mp - 9
  (if m ≤ 2 then y + 1 else y, m.toNat, d.toNat)

def isLeap (y : Int) : Bool := y % 4 == 0 && (y % 100 != 0 || y % 400 == 0)

def daysIn (m : Nat) (y : Int) : Nat :=
  match m with
  | 2 => if isLeap y then 29 else 28
  | 4 | 6 | 9 | 11 => 30
  | _ => 31

/-- Broken-down local time of an instant rendered at offset `off`. -/
structure Civil where
  year : Int
  month : Nat
  day : Nat
  hour : Nat
  min : Nat
  sec : Nat
  deriving DecidableEq, Repr

def civilOf (t : GoTime) : Civil :=
  let loc := t.sec + t.off
  let days := loc / 86400           -- floor
  let rem := (loc - days * 86400).toNat
  let (y, m, d) := civilFromDays days
  ⟨y, m, d, rem / 3600, rem % 3600 / 60, rem % 60⟩

/-- time.Time.Year() -/
def year (t : GoTime) : Int := (civilOf t).year

def pad (n : Nat) (width : Nat) : Bytes :=
  let ds := IntText.natDigits n
  List.replicate (width - ds.length) 0x30 ++ ds

/-- appendInt(b, x, width): zero padded, a minus sign for negative values. -/
def appendInt (x : Int) (width : Nat) : Bytes :=
  if x < 0 then 0x2D :: pad (-x).toNat width else pad x.toNat width

def formatDate (t : GoTime) : Bytes :=
  let c := civilOf t
  appendInt c.year 4 ++ [0x2D] ++ pad c.month 2 ++ [0x2D] ++ pad c.day 2

/-- The `Z07:00` verb. -/
def formatZone (off : Int) : Bytes :=
  if off == 0 then [0x5A]
  else
    let zone := off.tdiv 60
    let (sign, zone) : UInt8 × Nat := if zone < 0 then (0x2D, (-zone).toNat) else (0x2B, zone.toNat)
    sign :: (pad (zone / 60) 2 ++ [0x3A] ++ pad (zone % 60) 2)

/-- t.Format(time.RFC3339) -/
def formatRFC3339 (t : GoTime) : Bytes :=
  let c := civilOf t
  formatDate t ++ [0x54] ++ pad c.hour 2 ++ [0x3A] ++ pad c.min 2 ++ [0x3A] ++ pad c.sec 2
    ++ formatZone t.off

/-! ### Parsing -/

def isDigit (c : UInt8) : Bool := 0x30 ≤ c && c ≤ 0x39
def dval (c : UInt8) : Nat := c.toNat - 0x30

/-- getnum(s, fixed = true): exactly two digits. -/
def num2 : Bytes → Option (Nat × Bytes)
  | a :: b :: rest => if isDigit a && isDigit b then some (dval a * 10 + dval b, rest) else none
  | _ => none

/-- getnum(s, fixed = false): one or two digits. -/
def num12 : Bytes → Option (Nat × Bytes)
  | a :: b :: rest =>
    if isDigit a then
      if isDigit b then some (dval a * 10 + dval b, rest) else some (dval a, b :: rest)
    else none
  | [a] => if isDigit a then some (dval a, []) else none
  | [] => none

/-- stdLongYear: exactly four digits. -/
def num4 : Bytes → Option (Nat × Bytes)
  | a :: b :: c :: d :: rest =>
    if isDigit a && isDigit b && isDigit c && isDigit d then
      some (dval a * 1000 + dval b * 100 + dval c * 10 + dval d, rest)
    else none
  | _ => none

def expect (c : UInt8) : Bytes → Option Bytes
  | x :: rest => if x == c then some rest else none
  | [] => none

/-- "2006-01-02" prefix: year, month, day (range-checked) and the rest. -/
def parseDatePart (s : Bytes) : Option (Int × Nat × Nat × Bytes) := do
  let (y, s) ← num4 s
  let s ← expect 0x2D s
  let (m, s) ← num2 s
  let s ← expect 0x2D s
  let (d, s) ← num2 s
  if m < 1 || m > 12 then none
  else if d < 1 || d > daysIn m y then none
  else some ((y : Int), m, d, s)

/-- time.Parse("2006-01-02", s) succeeds. -/
def parseDateOk (s : Bytes) : Bool :=
  match parseDatePart s with
  | some (_, _, _, []) => true
  | _ => false

/-- Optional fractional second not present in the layout: `.`/`,` followed by ≥ 1 digits;
    the first nine digits count. Returns nanoseconds and the rest. -/
def parseFrac (s : Bytes) : Nat × Bytes :=
  match s with
  | p :: d :: rest =>
    if (p == 0x2E || p == 0x2C) && isDigit d then
      let ds := (d :: rest).takeWhile isDigit
      let rest' := (d :: rest).dropWhile isDigit
      let first9 := ds.take 9
      let v := first9.foldl (fun acc c => acc * 10 + dval c) 0
      (v * 10 ^ (9 - first9.length), rest')
    else (0, s)
  | _ => (0, s)

/-- The `Z07:00` element: offset in seconds and the rest. -/
def parseZone (s : Bytes) : Option (Int × Bytes) :=
  match s with
  | 0x5A :: rest => some (0, rest)
  | sign :: h1 :: h2 :: colon :: m1 :: m2 :: rest =>
    if colon != 0x3A then none
    else if !(isDigit h1 && isDigit h2 && isDigit m1 && isDigit m2) then none
    else
      let hr := dval h1 * 10 + dval h2
      let mm := dval m1 * 10 + dval m2
      if hr > 24 || mm > 60 then none
      else
        let off : Int := ((hr * 60 + mm) * 60 : Nat)
        if sign == 0x2B then some (off, rest)
        else if sign == 0x2D then some (-off, rest)
        else none
  | _ => none

/-- time.Parse(time.RFC3339, s): the instant and the offset it will be rendered with. -/
def parseRFC3339 (s : Bytes) : Option GoTime := do
  let (y, m, d, s) ← parseDatePart s
  let s ← expect 0x54 s
  let (hh, s) ← num12 s
  let s ← expect 0x3A s
  let (mi, s) ← num2 s
  let s ← expect 0x3A s
  let (ss, s) ← num2 s
  let (ns, s) := parseFrac s
  let (off, s) ← parseZone s
  if !s.isEmpty then none
  else if hh ≥ 24 || mi ≥ 60 || ss ≥ 60 then none
  else
    let secs : Int := daysFromCivil y m d * 86400 + ((hh * 3600 + mi * 60 + ss : Nat) : Int) - off
    some ⟨secs, ns, off⟩

end Jl.Time
