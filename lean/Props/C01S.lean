/-
  Props.C01S — SUPPLEMENTARY theorems of property C01: the statements of Props/C01.lean carried down to lines,
  columns and bytes over the REGENERATED cast tables (Proofs/ExportText).
  They are built and audited on every run like the others; they are kept apart because they rest on the cast
  tables, which the core statement of C01 does not: when the translator cannot READ a caster (a rewrite it does not
  recognise, reported as `unknown`), these are reported as not re-proved in the evidence while the core theorems and
  the correspondence still decide the property; when the tables are read and a theorem here no longer checks, that
  is reported as a broken obligation like any other (DESIGN §4.1).
-/
import Props.C01
import Proofs.ExportText

namespace Jl.C01
open Jl Jl.Value Jl.Template Jl.JsonPrint

/-! ### JSON TEXT handed straight to `Export` / `CreateRow` (a string or []byte argument: `Proofs/ExportText`)

  `ExportText.exportLine_str`: for a text argument `exportLine to` is `GetRow` UNDER THE OUTPUT TEMPLATE, the printing
  of that very row, and a line feed — there is no second `CreateRow(Row)` pass. -/

/-- One valid line or nothing, for the text route; and an emitted line implies that the text handed in was itself one
    JSON object. -/
theorem text_line_valid_or_nothing (env : Env) (hx : FloatTextOK env.ext) (to : Tmpl) (line w : Bytes) :
    (exportLine env to (.str line) = .ok (w, none) →
      ∃ body, w = body ++ [0x0A] ∧ Grammar.IsObjectText body ∧ Json.accepts body = true ∧
        (0x0A : UInt8) ∉ body ∧ w.count 0x0A = 1 ∧ w.getLast? = some 0x0A ∧
        Grammar.IsObjectText line) ∧
    (∀ e, exportLine env to (.str line) = .ok (w, some e) → w = []) :=
  ExportText.text_line_valid_or_nothing env hx to line w

/-- A string and a byte slice holding the same text are exported alike. -/
theorem text_bytes_or_string (env : Env) (to : Tmpl) (line : Bytes) :
    exportLine env to (.bytes line) = exportLine env to (.str line) :=
  ExportText.exportLine_bytes_eq_str env to line

end Jl.C01
