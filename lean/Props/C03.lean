/-
  C03 — templates fix key order and presence; no level is ever re-sorted.

  Statement (properties.jsonl): with a template, each emitted object lists the template's
  visible columns first, in declaration order and exactly once each (null when the input
  lacks them), followed by the input's undeclared keys in order of first appearance; hidden
  columns never appear.  The same rule holds inside declared sub-rows [FALSE of the code:
  known finding `subrow-flatten`, see `subrow_counterexample`], objects found under any other
  column keep their input member order, and the result never depends on the input order of
  declared keys, on map iteration or on alphabetical sorting.
-/
import Model.LineSpec
import Proofs.Row

namespace Jl.C03
open Jl Jl.Value Jl.Template

/-- Storing into a row never moves an existing key and appends a new one at the end:
    the key order after an upsert. -/
theorem keys_after_upsert (o : List (Bytes × Val)) (k : Bytes) (c : Val) :
    OMap.keys (upsert o k c) = if k ∈ OMap.keys o then OMap.keys o else OMap.keys o ++ [k] :=
  OMap.keys_upsert o k c

/-- Filling a created row with a value for key `k` (any input kind) keeps every declared
    column where it is; an undeclared key goes to the end. -/
theorem fill_keeps_declared_order (env : Env) (row row' : List (Bytes × Val)) (k : Bytes) (x : Dyn)
    (h : fill env row k x = .ok row') :
    OMap.keys row' = if k ∈ OMap.keys row then OMap.keys row else OMap.keys row ++ [k] := by
  unfold fill at h
  split at h
  · split at h
    · cases h; exact OMap.keys_upsert _ _ _
    · cases h
    · cases h
  · cases h; exact OMap.keys_upsert _ _ _

/-- Hidden columns never appear among the emitted keys; everything else appears in row order. -/
theorem visible_is_row_order_without_hidden (ms : List (Bytes × Val)) :
    RowPrint.visibleKeys ms = (ms.filter fun kv => Cells.format kv.2 != .hidden).map Prod.fst := rfl

/-- any tables whose cast.To sends a nil target type to the value itself (as the source does) -/
def stubTables : CastTables :=
  { casters := [], dispatchTo := [(.none, .ret .val)], dispatchToDefault := .fail "", sentinels := [],
    binFns := [], timeStringFormat := "" }

/-- The full statement ("the same rule inside declared sub-rows") is false of the code: a
    declared sub-row is flattened to a Go map when the prototype is cloned, so its members
    come out in alphabetical order. Witness: template p:{zz, aa}. -/
theorem subrow_counterexample (ext : Ext) :
    cloneValue ⟨stubTables, ext⟩
        (.row (.cons [0x7A, 0x7A] (.cell .nil .auto .none) (.cons [0x61, 0x61] (.cell .nil .auto .none) .nil))) =
      .ok (.cell (.gomap (.cons [0x61, 0x61] .nil (.cons [0x7A, 0x7A] .nil .nil))) .auto .none) := by
  simp [cloneValue, newValue, Cast.castTo, stubTables, Cast.evalBranch, Cast.evalE, Cells.raw, Cells.rawList,
    Cells.format, Cells.rawType, Cells.sortKV, Cells.insertKV, Cells.bytesLt, DynMap.ofList]

end Jl.C03
