/-
  C03 — templates fix key order and presence; no level is ever re-sorted.

  Statement (properties.jsonl): with a template, each emitted object lists the template's
  visible columns first, in declaration order and exactly once each (null when the input
  lacks them), followed by the input's undeclared keys in order of first appearance; hidden
  columns never appear.  The same rule holds inside declared sub-rows [FALSE of the code:
  known finding `subrow-flatten`, see `subrow_counterexample`], objects found under any other
  column keep their input member order, and the result never depends on the input order of
  declared keys, on map iteration or on alphabetical sorting.
-/
import Model.LineSpec
import Proofs.Row
import Proofs.Order
import Proofs.LineKeys
import Proofs.RowTie
import Proofs.FlowTie
import Proofs.RowTieMarshal

namespace Jl.C03
open Jl Jl.Value Jl.Template

/-- Storing into a row never moves an existing key and appends a new one at the end:
    the key order after an upsert. -/
theorem keys_after_upsert (o : List (Bytes × Val)) (k : Bytes) (c : Val) :
    OMap.keys (upsert o k c) = if k ∈ OMap.keys o then OMap.keys o else OMap.keys o ++ [k] :=
  OMap.keys_upsert o k c

/-- Filling a created row with a value for key `k` (any input kind) keeps every declared
    column where it is; an undeclared key goes to the end. -/
theorem fill_keeps_declared_order (env : Env) (row row' : List (Bytes × Val)) (k : Bytes) (x : Dyn)
    (h : fill env row k x = .ok row') :
    OMap.keys row' = if k ∈ OMap.keys row then OMap.keys row else OMap.keys row ++ [k] := by
  unfold fill at h
  split at h
  · split at h
    · cases h; exact OMap.keys_upsert _ _ _
    · cases h
    · cases h
  · cases h; exact OMap.keys_upsert _ _ _

/-- Hidden columns never appear among the emitted keys; everything else appears in row order. -/
theorem visible_is_row_order_without_hidden (ms : List (Bytes × Val)) :
    RowPrint.visibleKeys ms = (ms.filter fun kv => Cells.format kv.2 != .hidden).map Prod.fst := rfl

/-! ### One line through importer and exporter (`Proofs/Order.lean`)

`jlLine` = `getRow` under the input template, `createRow(Row)` under the output template,
`marshalRow` (which prints `visibleKeys`, C01/C02 relate the bytes to them). For EVERY input
text, every pair of templates (any formats and raw types, declared sub-rows included), every
cast table: -/

/-- A line that is emitted went through exactly these steps. -/
theorem emitted_line_steps (env : Env) (ti to : Tmpl) (line b : Bytes)
    (h : jlLine env ti to line = .ok (b, none)) :
    ∃ r row' body, getRow env ti line = .ok (r, none) ∧
      createRow env to (.val (.row (Members.ofList r))) = .ok (row', none) ∧
      RowPrint.marshalRow env (Members.ofList row') = .ok body ∧ b = body ++ [0x0A] :=
  Order.jlLine_ok env ti to line b h

/-- The emitted keys: the output template's visible columns in declaration order, then every
    other key in the order input-template columns / first appearance in the text. -/
theorem emitted_keys (env : Env) (ti to : Tmpl) (line : Bytes) (r row' : List (Bytes × Val))
    (hti : (OMap.keys ti).Nodup) (hto : (OMap.keys to).Nodup)
    (hget : getRow env ti line = .ok (r, none))
    (hcr : createRow env to (.val (.row (Members.ofList r))) = .ok (row', none)) :
    RowPrint.visibleKeys row' =
      ((OMap.keys to).filter fun k => Order.formatAt to k != some .hidden) ++
      (Order.appendNew (OMap.keys ti) (Order.inputKeys line)).filter (fun k => decide (k ∉ OMap.keys to)) :=
  Order.emitted_keys env ti to line r row' hti hto hget hcr

/-- With templates declaring the same names (as every jl definition does): visible columns
    first, in declaration order, then the input's undeclared keys in order of first
    appearance — whatever the order of the declared keys in the input. -/
theorem emitted_keys_same_names (env : Env) (ti to : Tmpl) (line : Bytes) (r row' : List (Bytes × Val))
    (hto : (OMap.keys to).Nodup) (hperm : (OMap.keys ti).Perm (OMap.keys to))
    (hget : getRow env ti line = .ok (r, none))
    (hcr : createRow env to (.val (.row (Members.ofList r))) = .ok (row', none)) :
    RowPrint.visibleKeys row' =
      ((OMap.keys to).filter fun k => Order.formatAt to k != some .hidden) ++
      ((Order.inputKeys line).filter (fun k => decide (k ∉ OMap.keys to))).eraseDups :=
  Order.emitted_keys_perm env ti to line r row' hto hperm hget hcr

/-- The result never depends on the input order of declared keys: two accepted lines with the
    same undeclared keys in the same order emit the same key list. -/
theorem independent_of_declared_key_order (env : Env) (ti to : Tmpl) (line₁ line₂ : Bytes)
    (r₁ r₂ row₁ row₂ : List (Bytes × Val))
    (hto : (OMap.keys to).Nodup) (hperm : (OMap.keys ti).Perm (OMap.keys to))
    (hget₁ : getRow env ti line₁ = .ok (r₁, none))
    (hcr₁ : createRow env to (.val (.row (Members.ofList r₁))) = .ok (row₁, none))
    (hget₂ : getRow env ti line₂ = .ok (r₂, none))
    (hcr₂ : createRow env to (.val (.row (Members.ofList r₂))) = .ok (row₂, none))
    (hsame : (Order.inputKeys line₁).filter (fun k => decide (k ∉ OMap.keys to)) =
      (Order.inputKeys line₂).filter (fun k => decide (k ∉ OMap.keys to))) :
    RowPrint.visibleKeys row₁ = RowPrint.visibleKeys row₂ :=
  Order.emitted_keys_input_order env ti to line₁ line₂ r₁ r₂ row₁ row₂ hto hperm hget₁ hcr₁ hget₂ hcr₂ hsame

/-- Exactly once each. -/
theorem emitted_keys_exactly_once (env : Env) (to : Tmpl) (r row' : List (Bytes × Val))
    (hcr : createRow env to (.val (.row (Members.ofList r))) = .ok (row', none)) :
    (RowPrint.visibleKeys row').Nodup := Order.emitted_keys_nodup env to r row' hcr

/-- A column declared hidden never appears, whatever the input holds under its name. -/
theorem hidden_never_emitted (env : Env) (to : Tmpl) (r row' : List (Bytes × Val))
    (hto : (OMap.keys to).Nodup)
    (hcr : createRow env to (.val (.row (Members.ofList r))) = .ok (row', none))
    (k : Bytes) (hk : Order.formatAt to k = some .hidden) : k ∉ RowPrint.visibleKeys row' :=
  Order.hidden_never_emitted env to r row' hto hcr k hk

/-- any tables whose cast.To sends a nil target type to the value itself (as the source does) -/
def stubTables : CastTables :=
  { casters := [], dispatchTo := [(.none, .ret .val)], dispatchToDefault := .fail "", sentinels := [],
    binFns := [], timeStringFormat := "" }

/-- The full statement ("the same rule inside declared sub-rows") is false of the code: a
    declared sub-row is flattened to a Go map when the prototype is cloned, so its members
    come out in alphabetical order. Witness: template p:{zz, aa}. -/
theorem subrow_counterexample (ext : Ext) :
    cloneValue ⟨stubTables, ext⟩
        (.row (.cons [0x7A, 0x7A] (.cell .nil .auto .none) (.cons [0x61, 0x61] (.cell .nil .auto .none) .nil))) =
      .ok (.cell (.gomap (.cons [0x61, 0x61] .nil (.cons [0x7A, 0x7A] .nil .nil))) .auto .none) := by
  simp [cloneValue, newValue, Cast.castTo, stubTables, Cast.evalBranch, Cast.evalE, Cells.raw, Cells.rawList,
    Cells.format, Cells.rawType, Cells.sortKV, Cells.insertKV, Cells.bytesLt, DynMap.ofList]

/-! ### On the emitted bytes (`Proofs/LineLevel`) -/

open Jl.JsonQuote (sanitize) in
/-- C03 on the BYTES of an emitted line, for every input text, every pair of templates with
    distinct column names and every cast table: the line is an object text and a newline, and the
    object a JSON reader delivers for it has, in order, the output template's visible columns in
    declaration order, then every other key in the order input-template columns / first appearance
    in the input text — each name as the escaper writes it (`sanitize`, the identity on well-formed
    UTF-8).  `FloatTextOK`: the standard-library parameter renders floats as number literals. -/
theorem emitted_bytes_keys (env : Env) (ti to : Tmpl) (line b : Bytes)
    (h : jlLine env ti to line = .ok (b, none)) (hx : JsonPrint.FloatTextOK env.ext)
    (hti : (OMap.keys ti).Nodup) (hto : (OMap.keys to).Nodup) :
    ∃ body t, b = body ++ [0x0A] ∧ Json.unmarshal body = (t, true) ∧
      LineSpec.keysOf t =
        (((OMap.keys to).filter fun k => Order.formatAt to k != some .hidden) ++
          (Order.appendNew (OMap.keys ti) (Order.inputKeys line)).filter
            (fun k => decide (k ∉ OMap.keys to))).map sanitize :=
  LineLevel.emitted_text_keys env ti to line b h hx hti hto

open Jl.JsonQuote (sanitize) in
/-- The same in the words of the oracle the correspondence check applies to the implementation's
    output (`LineSpec.expectedKeys`, first clause of `orderViolation`), for templates declaring the
    same names, as every `jl` definition does. -/
theorem emitted_bytes_keys_expected (env : Env) (ti to : Tmpl) (line b : Bytes)
    (h : jlLine env ti to line = .ok (b, none)) (hx : JsonPrint.FloatTextOK env.ext)
    (hto : (OMap.keys to).Nodup) (hperm : (OMap.keys ti).Perm (OMap.keys to)) :
    ∃ body t, b = body ++ [0x0A] ∧ Json.unmarshal body = (t, true) ∧
      LineSpec.keysOf t =
        (LineSpec.expectedKeys (LineLevel.leafCols to)
          (LineSpec.keysOf (Json.unmarshal line).1)).map sanitize :=
  LineLevel.emitted_text_keys_expected env ti to line b h hx hto hperm

/-! ### The row and template code is the source's (Proofs/RowTie, Proofs/FlowTie) -/

/-- What decides key order in the model — the store of one member by `parseobject` (existing key:
    import in place; new key: appended), `ImportAtKey`, and `Template.CreateRow` starting from a
    clone of the prototype — is what `row.go` and `template.go` say today: the regenerated facts,
    interpreted from the meaning of their constructors alone, compute the model's functions. -/
theorem order_model_is_the_source :
    (∀ {C V E : Type} (ops : CellOps C V E) (r : LRow C) (k : Bytes) (x : V),
      (RowTie.parseStore Gen.rowFacts.parseObject).bind
          (fun s => RowTie.keyedRun s (RowTie.ofCellOps ops) r k x) = some (r.parseMember ops k x)) ∧
    (∀ {C V E : Type} (ops : CellOps C V E) (r : LRow C) (k : Bytes) (x : V),
      RowTie.keyedRun Gen.rowFacts.importAtKey (RowTie.ofCellOps ops) r k x =
        some (r.importAtKey ops k x)) ∧
    (∀ (env : Value.Env) (t : Template.Tmpl) (v : Dyn),
      FlowTie.createRowG Gen.flowTable.createRow env t v = some (Template.createRow env t v)) :=
  ⟨fun ops r k x => RowTie.parseMember_as_modelled ops r k x,
   fun ops r k x => RowTie.importAtKey_as_modelled ops r k x, FlowTie.createRow_is_createRow⟩

/-- …and what turns that order into bytes: `row.MarshalJSON`, as written today (one quoted key
    through the JSON encoder, `:`, the value's own `MarshalJSON`, members in list order, the
    Hidden format skipped), is the model's `marshalVal`. -/
theorem serialisation_is_the_source (env : Value.Env) (ms : Members) :
    RowTie.marshalRowG Gen.rowFacts.marshal (RowPrint.marshalVal env) ms.toList =
      some (RowPrint.marshalVal env (.row ms)) :=
  RowTie.marshal_as_modelled env ms

end Jl.C03
