/-
  C07 — streaming gives one in-order outcome per line, independent of neighbours.

  Statement (properties.jsonl): streaming N input lines produces exactly one outcome per
  line, in input order — either one output line or one error delivered to the processor — so
  no line is dropped, duplicated, merged or reordered, for any mix of valid and invalid lines,
  any line-ending style and any line length below the 10 MB limit.  The outcome for a line
  depends only on that line and the templates, never on the lines that came before it.

  Specification: `Stream.specObs cfg bytes` = `foldOutcomes proc ((specLines bytes).map
  (lineOutcome cfg))` — independence from neighbours is the *form* of the right-hand side:
  `lineOutcome` is a function of the line and the two templates only.
-/
import Model.Stream
import Proofs.Stream
import Proofs.FlowTieStream
import Proofs.FlowTieImport

namespace Jl.C07
open Jl Jl.Scanner Jl.Stream

/-- One outcome per line, in order: the specification produces exactly one processor call
    sequence element group per line and at most one write, in list order (the shape of
    `foldOutcomes`), and stops only when the processor returns an error. -/
theorem fold_written (proc : Proc) (b : Bytes) (rest : List LineOutcome) (obs : Obs)
    (h : proc.result obs.calls.length none = none) :
    foldOutcomes proc (.written b :: rest) obs =
      foldOutcomes proc rest { obs with calls := obs.calls ++ [(true, none)], writes := obs.writes ++ [b] } := by
  simp [foldOutcomes, h]

theorem fold_import_error_tolerated (proc : Proc) (e : ErrClass) (rest : List LineOutcome) (obs : Obs)
    (h : proc.result obs.calls.length (some e) = none) :
    foldOutcomes proc (.importError e :: rest) obs =
      foldOutcomes proc rest { obs with calls := obs.calls ++ [(false, some e)] } := by
  simp [foldOutcomes, h]

/-- The tolerant processor never stops the stream: every line gets its outcome. -/
theorem tolerant_processes_every_line (os : List LineOutcome) (obs : Obs) (h : obs.ret = none) :
    (foldOutcomes .tolerant os obs).ret = none := by
  induction os generalizing obs with
  | nil => simpa [foldOutcomes] using h
  | cons o rest ih =>
    cases o <;> simp [foldOutcomes, Proc.result] <;> exact ih _ h

/-- Line splitting: LF and CRLF give the same lines; a final unterminated run counts. -/
example : specLines [0x61, 0x0A, 0x62, 0x0D, 0x0A, 0x63] = [[0x61], [0x62], [0x63]] := by decide
example : specLines [0x61, 0x0A] = [[0x61]] := by decide
example : specLines [0x0A, 0x0A] = [[], []] := by decide

/-- The scanner is chunk-independent and loses, duplicates, merges or reorders nothing: for a
    fault-free reader (any chunking, up to 100 consecutive empty reads) whose lines fit the
    limit, iterating `Scan` yields exactly the lines of the concatenated data, in order. -/
theorem scanner_yields_the_lines (i m : Nat) (reader : List ReadEv)
    (hcalm : Calm 100 reader) (hfit : LinesFit m (allData reader))
    (hle : i ≤ m) (hpow : m ≤ i * 2 ^ 200) :
    ScansAs i m (Scanner.init i reader) (specLines (allData reader)) :=
  A4_chunk_independence i m reader hcalm hfit hle hpow

/-- C07: for a fault-free reader and writer, `Stream()` is exactly the per-line outcomes
    (functions of the line and the templates only) folded through the processor, in input
    order — whatever the chunking, the line endings and the mix of valid and invalid lines.
    (`hmap`: every line's outcome is a real outcome — not the model's "stdlib answer missing"
    marker; the size hypothesis `maxSize ≤ initSize·2^200` holds for 64 KiB → 10 MiB.) -/
theorem stream_is_fold_of_line_outcomes (cfg : Cfg) (reader : List ReadEv) (ws : List WriteEv)
    (hcalm : Calm 100 reader) (hfit : LinesFit cfg.maxSize (allData reader))
    (hle : cfg.initSize ≤ cfg.maxSize) (hpow : cfg.maxSize ≤ cfg.initSize * 2 ^ 200)
    (hws : ∀ w ∈ ws, w = WriteEv.ok) (os : List LineOutcome)
    (hmap : mapOutcomes cfg (specLines (allData reader)) = .ok os) :
    stream cfg reader ws = specObs cfg (allData reader) :=
  C07_stream_eq_spec cfg reader ws hcalm hfit hle hpow hws os hmap

/-- The sizes of the source satisfy the size hypothesis (64 KiB doubles 8 times into 10 MiB). -/
example : (10485760 : Nat) ≤ 65536 * 2 ^ 200 ∧ (65536 : Nat) ≤ 10485760 := by decide

/-! ### The loop of the model is `streamer.go` (Proofs/FlowTieStream, Proofs/FlowTieImport) -/

/-- `Stream`'s loop as written today makes the four processor calls `Stream.loop` records —
    `(false, e)` for a refused line, `(true, nil)` for a row, `(true, e)` for a failed export,
    `(false, e)` for the scanner's error after the loop, whose result is `Stream`'s —; the two
    processors are `Proc.default` and `Proc.tolerant`; the scanner is built with the buffer sizes
    of `Gen.Sites` and no `Split` call. -/
theorem stream_model_is_the_source :
    (∃ onRowErr onRow onExportErr after rowWithErr w,
      Gen.flowTable.stream = .loop onRowErr onRow onExportErr (.errHandover after)
      ∧ Gen.flowTable.getRow = .scannerErrThenParse rowWithErr w
      ∧ onRowErr.recorded rowWithErr true = (false, true)
      ∧ onRow.recorded rowWithErr false = (true, false)
      ∧ onExportErr.recorded rowWithErr false = (true, true)
      ∧ after.recorded rowWithErr false = (false, true)) ∧
    (FlowTie.procG Gen.flowTable.defaultProcessor = some .default
      ∧ FlowTie.procG Gen.flowTable.noFailureProcessor = some .tolerant) ∧
    Gen.flowTable.newImporter = .scanner 0 Gen.initialBufferSize Gen.maximumBufferSize :=
  ⟨FlowTie.stream_calls_as_modelled,
   ⟨FlowTie.processors_as_modelled.1, FlowTie.processors_as_modelled.2.1⟩,
   FlowTie.scanner_sizes.1⟩

end Jl.C07
