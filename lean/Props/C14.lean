/-
  C14 — date-time handling preserves the instant and an explicit offset.

  Statement (properties.jsonl): a date-time string with an explicit offset is read as exactly
  that instant and written back with the same instant and the same offset whatever the
  process time zone; an integer is read as Unix seconds; and converting between date-time and
  timestamp columns preserves the instant exactly.  Sub-second digits are dropped, never
  rounded up, and the result of reading a timestamp as a date-time denotes the same instant in
  every time zone.

  Model: Model.Time (port of package time for the two layouts in play: civil calendar,
  Format, the general parser's language), interpreted through the regenerated cast tables
  (ToTime, ToTimestamp, ToString).  The process time zone enters only through
  `Ext.zoneOffset` (the offset of time.Local at an instant): the theorems quantify over
  every such function.
-/
import Proofs.Time
import Proofs.CastInt

namespace Jl.C14
open Jl Cast

set_option linter.unusedSimpArgs false

/-- The calendar port is a bijection: every valid civil date (all years) maps to a day number
    and back, and every day number is a valid date. -/
theorem civil_calendar_bijection :
    (∀ (y : Int) (m d : Nat), Time.ValidDate y m d → Time.civilFromDays (Time.daysFromCivil y m d) = (y, m, d)) ∧
    (∀ z : Int, Time.daysFromCivil (Time.civilFromDays z).1 (Time.civilFromDays z).2.1 (Time.civilFromDays z).2.2 = z) :=
  ⟨fun _ _ _ h => Time.civilFromDays_daysFromCivil h, fun z => (Time.daysFromCivil_civilFromDays z).2⟩

/-- Writing then reading a date-time: for every instant with year 0..9999 and every
    whole-minute offset of less than 24 h, the text parses back to exactly that instant and
    that offset, with the sub-second part dropped. -/
theorem parse_of_format (t : GoTime) (hy0 : 0 ≤ Time.year t) (hy1 : Time.year t ≤ 9999)
    (h60 : t.off % 60 = 0) (hlo : -86400 < t.off) (hhi : t.off < 86400) :
    Time.parseRFC3339 (Time.formatRFC3339 t) = some ⟨t.sec, 0, t.off⟩ :=
  Time.C14_parse_format t hy0 hy1 h60 hlo hhi

/-- The instant read does not depend on the offset it was rendered with (so it does not
    depend on the process time zone either). -/
theorem instant_independent_of_offset (sec : Int) (n : Nat) (off₁ off₂ : Int)
    (hy₁ : 0 ≤ Time.year ⟨sec, n, off₁⟩ ∧ Time.year ⟨sec, n, off₁⟩ ≤ 9999)
    (hy₂ : 0 ≤ Time.year ⟨sec, n, off₂⟩ ∧ Time.year ⟨sec, n, off₂⟩ ≤ 9999)
    (h₁ : off₁ % 60 = 0 ∧ -86400 < off₁ ∧ off₁ < 86400)
    (h₂ : off₂ % 60 = 0 ∧ -86400 < off₂ ∧ off₂ < 86400) :
    ∃ t₁ t₂, Time.parseRFC3339 (Time.formatRFC3339 ⟨sec, n, off₁⟩) = some t₁ ∧
      Time.parseRFC3339 (Time.formatRFC3339 ⟨sec, n, off₂⟩) = some t₂ ∧
      t₁.sec = sec ∧ t₂.sec = sec ∧ t₁.sec = t₂.sec ∧ t₁.off = off₁ ∧ t₂.off = off₂ :=
  Time.C14_offset_independent sec n off₁ off₂ hy₁ hy₂ h₁ h₂

/-- Sub-second digits (after `.` or `,`, any number of them) never change the second that is
    read: they are truncated into the nanosecond field, which is < 10^9 (no carry). -/
theorem subsecond_dropped_never_rounded (t : GoTime) (hy0 : 0 ≤ Time.year t) (hy1 : Time.year t ≤ 9999)
    (h60 : t.off % 60 = 0) (hlo : -86400 < t.off) (hhi : t.off < 86400)
    (p : UInt8) (hp : p = 0x2E ∨ p = 0x2C) (ds : Bytes) (hne : ds ≠ [])
    (hdig : ∀ c ∈ ds, Time.isDigit c = true) :
    Time.parseRFC3339 (Time.headText (Time.civilOf t) ++ (p :: ds ++ Time.formatZone t.off))
      = some ⟨t.sec, Time.fracNanos ds, t.off⟩ ∧ Time.fracNanos ds < 10 ^ 9 :=
  Time.C14_fraction_format t hy0 hy1 h60 hlo hhi hp hne hdig

/-- The current tables: ToTime of a string parses it with the RFC 3339 layout; when it parses,
    the result is exactly the parsed instant and offset — no zone function is consulted. -/
theorem toTime_of_string (ext : Ext) (s : Bytes) (t : GoTime) (h : Time.parseRFC3339 s = some t) :
    castNamed genTables ext "ToTime" (.str s) = .ok (.time t) := by
  simp [castNamed, callNamed, genTables, Gen.casters, findClause, typeOf, evalBranch, special,
    Gen.timeStringFormat, h]

/-- An integer is read as Unix seconds (rendered in the process zone: `zoneOffset`). -/
theorem toTime_of_int64 (ext : Ext) (v off : Int) (hz : ext.zoneOffset v = some off)
    (hv : -(2 ^ 62 : Int) < v ∧ v < 2 ^ 62) :
    castNamed genTables ext "ToTime" (.int .i64 v) = .ok (.time ⟨v, 0, off⟩) := by
  have h1 : ¬ (v ≤ -(2 ^ 62 : Int)) := by omega
  have h2 : ¬ (v ≥ (2 ^ 62 : Int)) := by omega
  simp [castNamed, callNamed, genTables, Gen.casters, findClause, typeOf, evalBranch, evalE, hz, h1, h2]
  omega

/-- date-time → timestamp is the instant's Unix seconds, whatever the offset: reading a
    timestamp as a date-time and back denotes the same instant in EVERY time zone. -/
theorem timestamp_of_time (ext : Ext) (t : GoTime) :
    castNamed genTables ext "ToTimestamp" (.time t) = .ok (.int .i64 t.sec) := by
  simp [castNamed, callNamed, genTables, Gen.casters, findClause, typeOf, evalBranch, evalE]

theorem timestamp_roundtrip_any_zone (ext : Ext) (v off : Int) (hz : ext.zoneOffset v = some off)
    (hv : -(2 ^ 62 : Int) < v ∧ v < 2 ^ 62) :
    ∃ t, castNamed genTables ext "ToTime" (.int .i64 v) = .ok (.time t) ∧
      castNamed genTables ext "ToTimestamp" (.time t) = .ok (.int .i64 v) :=
  ⟨_, toTime_of_int64 ext v off hz hv, timestamp_of_time ext _⟩

/-- ToTimestamp of a date-time string with explicit offset is its instant. -/
theorem timestamp_of_string (ext : Ext) (s : Bytes) (t : GoTime) (h : Time.parseRFC3339 s = some t) :
    castNamed genTables ext "ToTimestamp" (.str s) = .ok (.int .i64 t.sec) := by
  simp [castNamed, callNamed, genTables, Gen.casters, findClause, typeOf, evalBranch, special,
    Gen.timeStringFormat, h]

/-- ToString of a time with year 0..9999 renders it with the RFC 3339 layout at its own
    offset; outside that range it fails (repair F-C04) — so what is written can be read back. -/
theorem toString_of_time (ext : Ext) (t : GoTime) :
    castNamed genTables ext "ToString" (.time t) =
      if Time.year t < 0 ∨ Time.year t > 9999 then .err .cast else .ok (.str (Time.formatRFC3339 t)) := by
  by_cases h1 : Time.year t < 0
  · simp [castNamed, callNamed, genTables, Gen.casters, findClause, typeOf, evalBranch, evalE, evalG,
      cmpInt, failWith, Gen.sentinels, wrapsRoot, Gen.timeStringFormat, layoutString, h1]
  · by_cases h2 : Time.year t > 9999
    · simp [castNamed, callNamed, genTables, Gen.casters, findClause, typeOf, evalBranch, evalE, evalG,
        cmpInt, failWith, Gen.sentinels, wrapsRoot, Gen.timeStringFormat, layoutString, h1, h2]
    · simp [castNamed, callNamed, genTables, Gen.casters, findClause, typeOf, evalBranch, evalE, evalG,
        cmpInt, failWith, Gen.sentinels, wrapsRoot, Gen.timeStringFormat, layoutString, h1, h2]

/-- C14 composed: a date-time string with explicit offset (in the stated domain), read by
    ToTime and written by ToString, is read again as the same instant and the same offset —
    for every process time zone (no `zoneOffset` hypothesis). -/
theorem read_write_read (ext : Ext) (s : Bytes) (t : GoTime) (h : Time.parseRFC3339 s = some t)
    (hy0 : 0 ≤ Time.year t) (hy1 : Time.year t ≤ 9999)
    (h60 : t.off % 60 = 0) (hlo : -86400 < t.off) (hhi : t.off < 86400) :
    ∃ out, castNamed genTables ext "ToTime" (.str s) = .ok (.time t) ∧
      castNamed genTables ext "ToString" (.time t) = .ok (.str out) ∧
      Time.parseRFC3339 out = some ⟨t.sec, 0, t.off⟩ := by
  refine ⟨Time.formatRFC3339 t, toTime_of_string ext s t h, ?_, parse_of_format t hy0 hy1 h60 hlo hhi⟩
  rw [toString_of_time]
  have : ¬ (Time.year t < 0 ∨ Time.year t > 9999) := by omega
  simp [this]

end Jl.C14
