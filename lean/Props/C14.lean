/-
  C14 — date-time handling preserves the instant and an explicit offset.

  Statement (properties.jsonl): a date-time string with an explicit offset is read as exactly
  that instant and written back with the same instant and the same offset whatever the
  process time zone; an integer is read as Unix seconds; and converting between date-time and
  timestamp columns preserves the instant exactly.  Sub-second digits are dropped, never
  rounded up, and the result of reading a timestamp as a date-time denotes the same instant in
  every time zone.

  Model: Model.Time (port of package time for the two layouts in play: civil calendar,
  Format, the general parser's language), interpreted through the regenerated cast tables
  (ToTime, ToTimestamp, ToString).  The process time zone enters only through
  `Ext.zoneOffset` (the offset of time.Local at an instant): the theorems quantify over
  every such function.
-/
import Proofs.Time
import Proofs.CastInt
import Proofs.LineTime
import Proofs.LineTimeMore

namespace Jl.C14
open Jl Cast

set_option linter.unusedSimpArgs false

/-- The calendar port is a bijection: every valid civil date (all years) maps to a day number
    and back, and every day number is a valid date. -/
theorem civil_calendar_bijection :
    (∀ (y : Int) (m d : Nat), Time.ValidDate y m d → Time.civilFromDays (Time.daysFromCivil y m d) = (y, m, d)) ∧
    (∀ z : Int, Time.daysFromCivil (Time.civilFromDays z).1 (Time.civilFromDays z).2.1 (Time.civilFromDays z).2.2 = z) :=
  ⟨fun _ _ _ h => Time.civilFromDays_daysFromCivil h, fun z => (Time.daysFromCivil_civilFromDays z).2⟩

/-- Writing then reading a date-time: for every instant with year 0..9999 and every
    whole-minute offset of less than 24 h, the text parses back to exactly that instant and
    that offset, with the sub-second part dropped. -/
theorem parse_of_format (t : GoTime) (hy0 : 0 ≤ Time.year t) (hy1 : Time.year t ≤ 9999)
    (h60 : t.off % 60 = 0) (hlo : -86400 < t.off) (hhi : t.off < 86400) :
    Time.parseRFC3339 (Time.formatRFC3339 t) = some ⟨t.sec, 0, t.off⟩ :=
  Time.C14_parse_format t hy0 hy1 h60 hlo hhi

/-- The instant read does not depend on the offset it was rendered with (so it does not
    depend on the process time zone either). -/
theorem instant_independent_of_offset (sec : Int) (n : Nat) (off₁ off₂ : Int)
    (hy₁ : 0 ≤ Time.year ⟨sec, n, off₁⟩ ∧ Time.year ⟨sec, n, off₁⟩ ≤ 9999)
    (hy₂ : 0 ≤ Time.year ⟨sec, n, off₂⟩ ∧ Time.year ⟨sec, n, off₂⟩ ≤ 9999)
    (h₁ : off₁ % 60 = 0 ∧ -86400 < off₁ ∧ off₁ < 86400)
    (h₂ : off₂ % 60 = 0 ∧ -86400 < off₂ ∧ off₂ < 86400) :
    ∃ t₁ t₂, Time.parseRFC3339 (Time.formatRFC3339 ⟨sec, n, off₁⟩) = some t₁ ∧
      Time.parseRFC3339 (Time.formatRFC3339 ⟨sec, n, off₂⟩) = some t₂ ∧
      t₁.sec = sec ∧ t₂.sec = sec ∧ t₁.sec = t₂.sec ∧ t₁.off = off₁ ∧ t₂.off = off₂ :=
  Time.C14_offset_independent sec n off₁ off₂ hy₁ hy₂ h₁ h₂

/-- Sub-second digits (after `.` or `,`, any number of them) never change the second that is
    read: they are truncated into the nanosecond field, which is < 10^9 (no carry). -/
theorem subsecond_dropped_never_rounded (t : GoTime) (hy0 : 0 ≤ Time.year t) (hy1 : Time.year t ≤ 9999)
    (h60 : t.off % 60 = 0) (hlo : -86400 < t.off) (hhi : t.off < 86400)
    (p : UInt8) (hp : p = 0x2E ∨ p = 0x2C) (ds : Bytes) (hne : ds ≠ [])
    (hdig : ∀ c ∈ ds, Time.isDigit c = true) :
    Time.parseRFC3339 (Time.headText (Time.civilOf t) ++ (p :: ds ++ Time.formatZone t.off))
      = some ⟨t.sec, Time.fracNanos ds, t.off⟩ ∧ Time.fracNanos ds < 10 ^ 9 :=
  Time.C14_fraction_format t hy0 hy1 h60 hlo hhi hp hne hdig

/-- The current tables: ToTime of a string parses it with the RFC 3339 layout; when it parses,
    the result is exactly the parsed instant and offset — no zone function is consulted. -/
theorem toTime_of_string (ext : Ext) (s : Bytes) (t : GoTime) (h : Time.parseRFC3339 s = some t) :
    castNamed genTables ext "ToTime" (.str s) = .ok (.time t) := by
  simp [castNamed, callNamed, genTables, Gen.casters, findClause, typeOf, evalBranch, special,
    Gen.timeStringFormat, h]

/-- An integer is read as Unix seconds (rendered in the process zone: `zoneOffset`). -/
theorem toTime_of_int64 (ext : Ext) (v off : Int) (hz : ext.zoneOffset v = some off)
    (hv : -(2 ^ 62 : Int) < v ∧ v < 2 ^ 62) :
    castNamed genTables ext "ToTime" (.int .i64 v) = .ok (.time ⟨v, 0, off⟩) := by
  have h1 : ¬ (v ≤ -(2 ^ 62 : Int)) := by omega
  have h2 : ¬ (v ≥ (2 ^ 62 : Int)) := by omega
  simp [castNamed, callNamed, genTables, Gen.casters, findClause, typeOf, evalBranch, evalE, hz, h1, h2]
  omega

/-- date-time → timestamp is the instant's Unix seconds, whatever the offset: reading a
    timestamp as a date-time and back denotes the same instant in EVERY time zone. -/
theorem timestamp_of_time (ext : Ext) (t : GoTime) :
    castNamed genTables ext "ToTimestamp" (.time t) = .ok (.int .i64 t.sec) := by
  simp [castNamed, callNamed, genTables, Gen.casters, findClause, typeOf, evalBranch, evalE]

theorem timestamp_roundtrip_any_zone (ext : Ext) (v off : Int) (hz : ext.zoneOffset v = some off)
    (hv : -(2 ^ 62 : Int) < v ∧ v < 2 ^ 62) :
    ∃ t, castNamed genTables ext "ToTime" (.int .i64 v) = .ok (.time t) ∧
      castNamed genTables ext "ToTimestamp" (.time t) = .ok (.int .i64 v) :=
  ⟨_, toTime_of_int64 ext v off hz hv, timestamp_of_time ext _⟩

/-- ToTimestamp of a date-time string with explicit offset is its instant. -/
theorem timestamp_of_string (ext : Ext) (s : Bytes) (t : GoTime) (h : Time.parseRFC3339 s = some t) :
    castNamed genTables ext "ToTimestamp" (.str s) = .ok (.int .i64 t.sec) := by
  simp [castNamed, callNamed, genTables, Gen.casters, findClause, typeOf, evalBranch, special,
    Gen.timeStringFormat, h]

/-- ToString of a time with year 0..9999 renders it with the RFC 3339 layout at its own
    offset; outside that range it fails (repair F-C04) — so what is written can be read back. -/
theorem toString_of_time (ext : Ext) (t : GoTime) :
    castNamed genTables ext "ToString" (.time t) =
      if Time.year t < 0 ∨ Time.year t > 9999 then .err .cast else .ok (.str (Time.formatRFC3339 t)) := by
  by_cases h1 : Time.year t < 0
  · simp [castNamed, callNamed, genTables, Gen.casters, findClause, typeOf, evalBranch, evalE, evalG,
      cmpInt, failWith, Gen.sentinels, wrapsRoot, Gen.timeStringFormat, layoutString, h1]
  · by_cases h2 : Time.year t > 9999
    · simp [castNamed, callNamed, genTables, Gen.casters, findClause, typeOf, evalBranch, evalE, evalG,
        cmpInt, failWith, Gen.sentinels, wrapsRoot, Gen.timeStringFormat, layoutString, h1, h2]
    · simp [castNamed, callNamed, genTables, Gen.casters, findClause, typeOf, evalBranch, evalE, evalG,
        cmpInt, failWith, Gen.sentinels, wrapsRoot, Gen.timeStringFormat, layoutString, h1, h2]

/-- C14 composed: a date-time string with explicit offset (in the stated domain), read by
    ToTime and written by ToString, is read again as the same instant and the same offset —
    for every process time zone (no `zoneOffset` hypothesis). -/
theorem read_write_read (ext : Ext) (s : Bytes) (t : GoTime) (h : Time.parseRFC3339 s = some t)
    (hy0 : 0 ≤ Time.year t) (hy1 : Time.year t ≤ 9999)
    (h60 : t.off % 60 = 0) (hlo : -86400 < t.off) (hhi : t.off < 86400) :
    ∃ out, castNamed genTables ext "ToTime" (.str s) = .ok (.time t) ∧
      castNamed genTables ext "ToString" (.time t) = .ok (.str out) ∧
      Time.parseRFC3339 out = some ⟨t.sec, 0, t.off⟩ := by
  refine ⟨Time.formatRFC3339 t, toTime_of_string ext s t h, ?_, parse_of_format t hy0 hy1 h60 hlo hhi⟩
  rw [toString_of_time]
  have : ¬ (Time.year t < 0 ∨ Time.year t > 9999) := by omega
  simp [this]

/-! ### On the emitted BYTES: one line through importer and exporter (`Proofs/LineTime`)

  `jlLine ti to line` is the importer's `GetRow` under `ti`, the exporter's `CreateRow` under `to` and
  `row.MarshalJSON`, over the regenerated cast tables; the conclusions are about the object the model
  of the reader delivers for the bytes written. -/

open Jl.Template Jl.LineTime in
/-- Date-time column in, date-time column out (raw type none or time.Time on either side), the line's
    only member an RFC 3339 text denoting `t` with an offset below 24 h: for EVERY process zone the
    line is accepted, and the member written is a text that parses to the same second, the same offset
    and no sub-second part.  (Year range and whole-minute offset follow from the text being accepted.) -/
theorem datetime_line_keeps_instant_and_offset (ext : Ext) (k : Bytes) (hk : JsonQuote.sanitize k = k)
    {fi fo : Format} {tyi tyo : Ty} (hi : IsDT fi tyi) (ho : IsDT fo tyo) (line s : Bytes) (t : GoTime)
    (hline : Json.unmarshal line = (.cons k (.str s) .nil, true))
    (hp : Time.parseRFC3339 s = some t) (hlo : -86400 < t.off) (hhi : t.off < 86400) :
    (∃ b, jlLine ⟨genTables, ext⟩ (withCol [] k fi tyi) (withCol [] k fo tyo) line = .ok (b, none)) ∧
    ∀ b, jlLine ⟨genTables, ext⟩ (withCol [] k fi tyi) (withCol [] k fo tyo) line = .ok (b, none) →
      ∃ body tree, b = body ++ [0x0A] ∧ Json.unmarshal body = (tree, true) ∧
        ∃ s', LineSpec.lookupJV tree k = some (.str s') ∧
          ∃ t', Time.parseRFC3339 s' = some t' ∧ t'.sec = t.sec ∧ t'.off = t.off ∧ t'.nsec = 0 :=
  datetime_line_of_offset ext k hk hi ho line s t hline hp hlo hhi

open Jl.Template Jl.LineTime in
/-- "Whatever the process time zone", literally: the bytes written do not depend on `ext`. -/
theorem datetime_line_zone_independent (ext₁ ext₂ : Ext) (k : Bytes) {fi fo : Format} {tyi tyo : Ty}
    (hi : IsDT fi tyi) (ho : IsDT fo tyo) (line s : Bytes) (t : GoTime)
    (hline : Json.unmarshal line = (.cons k (.str s) .nil, true))
    (hp : Time.parseRFC3339 s = some t) :
    jlLine ⟨genTables, ext₁⟩ (withCol [] k fi tyi) (withCol [] k fo tyo) line =
      jlLine ⟨genTables, ext₂⟩ (withCol [] k fi tyi) (withCol [] k fo tyo) line :=
  LineTime.datetime_line_zone_independent ext₁ ext₂ k hi ho line s t hline hp
    (parsed_domain hp).1 (parsed_domain hp).2.1

open Jl.Template Jl.LineTime in
/-- Sub-second digits are dropped, never rounded up — on the bytes: the text of `t` with a fraction of
    any length after `.` or `,` is written back exactly as the text of `t`. -/
theorem subsecond_dropped_on_the_line (ext : Ext) (k : Bytes) {fi fo : Format} {tyi tyo : Ty}
    (hi : IsDT fi tyi) (ho : IsDT fo tyo) (line : Bytes) (t : GoTime)
    (hy0 : 0 ≤ Time.year t) (hy1 : Time.year t ≤ 9999)
    (h60 : t.off % 60 = 0) (hlo : -86400 < t.off) (hhi : t.off < 86400)
    (p : UInt8) (hp : p = 0x2E ∨ p = 0x2C) (ds : Bytes) (hne : ds ≠ [])
    (hdig : ∀ c ∈ ds, Time.isDigit c = true)
    (hline : Json.unmarshal line =
      (.cons k (.str (Time.headText (Time.civilOf t) ++ (p :: ds ++ Time.formatZone t.off))) .nil,
        true)) :
    jlLine ⟨genTables, ext⟩ (withCol [] k fi tyi) (withCol [] k fo tyo) line =
      .ok (LineTime.objText k (JsonWrite.quote (Time.formatRFC3339 t)) ++ [0x0A], none) :=
  subsecond_line_written ext k hi ho line t hy0 hy1 h60 hlo hhi p hp ds hne hdig hline

open Jl.Template Jl.LineTime in
/-- Date-time column in, timestamp column out: for every process zone and every accepted text the line
    is accepted and the member written is the integer literal of the instant's Unix second. -/
theorem datetime_to_timestamp_line (ext : Ext) (k : Bytes) (hk : JsonQuote.sanitize k = k)
    {fi fo : Format} {tyi tyo : Ty} (hi : IsDT fi tyi) (ho : IsTS fo tyo) (line s : Bytes) (t : GoTime)
    (hline : Json.unmarshal line = (.cons k (.str s) .nil, true))
    (hp : Time.parseRFC3339 s = some t) :
    (∃ b, jlLine ⟨genTables, ext⟩ (withCol [] k fi tyi) (withCol [] k fo tyo) line = .ok (b, none)) ∧
    ∀ b, jlLine ⟨genTables, ext⟩ (withCol [] k fi tyi) (withCol [] k fo tyo) line = .ok (b, none) →
      ∃ body tree, b = body ++ [0x0A] ∧ Json.unmarshal body = (tree, true) ∧
        LineSpec.lookupJV tree k = some (.num (IntText.formatInt t.sec)) :=
  timestamp_line ext k hk hi ho line s t hline hp

open Jl.Template Jl.LineTime in
/-- Timestamp column in (an integer literal: Unix seconds), date-time column out: in two process zones,
    each with its own offset at that instant, both lines are accepted and the two texts written denote
    the SAME second, each at its zone's offset, with no sub-second part. -/
theorem timestamp_to_datetime_same_instant_in_every_zone (ext₁ ext₂ : Ext) (k : Bytes)
    (hk : JsonQuote.sanitize k = k) {fi fo : Format}
    {tyi tyo : Ty} (hi : IsTS fi tyi) (ho : IsDT fo tyo) (line lit : Bytes) (n off₁ off₂ : Int)
    (hline : Json.unmarshal line = (.cons k (.num lit) .nil, true))
    (hn : IntText.parseInt0 lit 64 = some n)
    (hz₁ : ext₁.zoneOffset n = some off₁) (hz₂ : ext₂.zoneOffset n = some off₂)
    (hy₁ : 0 ≤ Time.year ⟨n, 0, off₁⟩ ∧ Time.year ⟨n, 0, off₁⟩ ≤ 9999)
    (hy₂ : 0 ≤ Time.year ⟨n, 0, off₂⟩ ∧ Time.year ⟨n, 0, off₂⟩ ≤ 9999)
    (h₁ : off₁ % 60 = 0 ∧ -86400 < off₁ ∧ off₁ < 86400)
    (h₂ : off₂ % 60 = 0 ∧ -86400 < off₂ ∧ off₂ < 86400) :
    ∃ body₁ body₂ tree₁ tree₂ s₁ s₂ t₁ t₂,
      jlLine ⟨genTables, ext₁⟩ (withCol [] k fi tyi) (withCol [] k fo tyo) line =
        .ok (body₁ ++ [0x0A], none) ∧
      jlLine ⟨genTables, ext₂⟩ (withCol [] k fi tyi) (withCol [] k fo tyo) line =
        .ok (body₂ ++ [0x0A], none) ∧
      Json.unmarshal body₁ = (tree₁, true) ∧ Json.unmarshal body₂ = (tree₂, true) ∧
      LineSpec.lookupJV tree₁ k = some (.str s₁) ∧ LineSpec.lookupJV tree₂ k = some (.str s₂) ∧
      Time.parseRFC3339 s₁ = some t₁ ∧ Time.parseRFC3339 s₂ = some t₂ ∧
      t₁.sec = n ∧ t₂.sec = n ∧ t₁.sec = t₂.sec ∧ t₁.off = off₁ ∧ t₂.off = off₂ ∧
      t₁.nsec = 0 ∧ t₂.nsec = 0 :=
  unix_line_same_instant ext₁ ext₂ k hk hi ho line lit n off₁ off₂ hline hn hz₁ hz₂ hy₁ hy₂ h₁ h₂

open Jl.Template Jl.LineTime in
/-- Templates with ANY number of columns declaring the same distinct names the escaper leaves alone (as
    every `jl` definition does): on an accepted line, if every input member that is an RFC 3339 text
    (as the oracle reads the input: last of repeated names) has an offset below 24 h and sits under a
    date-time column of the importer whose exporter column is a date-time or timestamp column, then the
    oracle the correspondence check applies to the implementation's output (`c14LineViolation`, restated
    as `LineTime.c14Violation`) finds nothing on the model's output — whatever the other columns and
    members are.  `FloatTextOK` is only there because other columns may print floats. -/
theorem emitted_line_keeps_times (ext : Ext) (ti to : Tmpl) (line b : Bytes)
    (h : jlLine ⟨genTables, ext⟩ ti to line = .ok (b, none)) (hx : JsonPrint.FloatTextOK ext)
    (hto : (OMap.keys to).Nodup) (hperm : (OMap.keys ti).Perm (OMap.keys to))
    (hutf : ∀ k ∈ OMap.keys to, JsonQuote.sanitize k = k)
    (hin : ∀ k ∈ Order.inputKeys line, JsonQuote.sanitize k = k)
    (hcols : ∀ k s t, (k, JV.str s) ∈ (LineSpec.normDup (Json.unmarshal line).1).toList →
      Time.parseRFC3339 s = some t →
      (-86400 < t.off ∧ t.off < 86400) ∧
      ∃ raw₁ fi tyi raw₂ fo tyo, (k, Val.cell raw₁ fi tyi) ∈ ti ∧ (k, Val.cell raw₂ fo tyo) ∈ to ∧
        IsDT fi tyi ∧ (IsDT fo tyo ∨ IsTS fo tyo)) :
    LineTime.c14Violation line (jlLine ⟨genTables, ext⟩ ti to line) = none :=
  emitted_line_oracle ext ti to line b h hx hto hperm hutf hin hcols

/-- The one hypothesis of `datetime_line_keeps_instant_and_offset` that is not automatic cannot be
    dropped: Go's parser accepts the offset `+24:00`, the exporter writes it, and the text written is no
    longer accepted (cf. the known finding `offset-24-60` of C05). -/
theorem line_offset_bound_needed (line : Bytes)
    (hline : Json.unmarshal line = (.cons [0x74] (.str LineTime.Demo.farS) .nil, true)) :
    ∃ body, Template.jlLine LineTime.Demo.env LineTime.Demo.tmpl LineTime.Demo.tmpl line =
        .ok (body ++ [0x0A], none) ∧
      Json.unmarshal body = (.cons [0x74] (.str LineTime.Demo.farOut) .nil, true) ∧
      Time.parseRFC3339 LineTime.Demo.farOut = none ∧
      LineTime.c14Violation line
        (Template.jlLine LineTime.Demo.env LineTime.Demo.tmpl LineTime.Demo.tmpl line) =
          some "written-text-unreadable" :=
  LineTime.Demo.offset_bound_needed line hline

/-! ### Every descriptor pair of the correspondence check (Proofs/LineTimeMore)

`harnessIns` × `harnessOuts` are the column descriptors the harness pairs for C14 (date-time and
timestamp formats over no raw type, `time.Time`, and integer / float raw types the cast to which
fails, so that `NewValue` keeps the `time.Time`). -/

open Jl.Template Jl.LineTime Jl.LineTimeMore Jl.JsonQuote in
/-- Every pair whose output is not a timestamp: the line is accepted, and the member written
    parses to the same instant and THE SAME OFFSET — for every `ext`, hence every process zone. -/
theorem every_pair_keeps_the_offset (ext : Ext) (k : Bytes) (hk : sanitize k = k)
    (di do_ : Format × Ty) (hi : di ∈ harnessIns) (ho : do_ ∈ harnessOuts)
    (hts : do_.1 ≠ .timestamp) (line s : Bytes) (t : GoTime)
    (hline : Json.unmarshal line = (.cons k (.str s) .nil, true))
    (hp : Time.parseRFC3339 s = some t) (hlo : -86400 < t.off) (hhi : t.off < 86400) :
    (∃ b, jlLine ⟨genTables, ext⟩ (withCol [] k di.1 di.2) (withCol [] k do_.1 do_.2) line =
      .ok (b, none)) ∧
    ∀ b, jlLine ⟨genTables, ext⟩ (withCol [] k di.1 di.2) (withCol [] k do_.1 do_.2) line =
      .ok (b, none) → SameTimeText k t b :=
  offset_kept ext k hk di do_ hi ho hts line s t hline hp hlo hhi

open Jl.Template Jl.LineTime Jl.LineTimeMore Jl.JsonQuote in
/-- Every pair whose output is a timestamp: the member is the integer literal of the instant's
    Unix second — always written, never rejected, whatever the declared raw type. -/
theorem every_timestamp_pair_writes_the_second (ext : Ext) (k : Bytes) (hk : sanitize k = k)
    (di do_ : Format × Ty) (hi : di ∈ harnessIns) (ho : do_ ∈ harnessOuts)
    (hts : do_.1 = .timestamp) (line s : Bytes) (t : GoTime)
    (hline : Json.unmarshal line = (.cons k (.str s) .nil, true))
    (hp : Time.parseRFC3339 s = some t) :
    (∃ b, jlLine ⟨genTables, ext⟩ (withCol [] k di.1 di.2) (withCol [] k do_.1 do_.2) line =
      .ok (b, none)) ∧
    ∀ b, jlLine ⟨genTables, ext⟩ (withCol [] k di.1 di.2) (withCol [] k do_.1 do_.2) line =
      .ok (b, none) →
      ∃ body tree, b = body ++ [0x0A] ∧ Json.unmarshal body = (tree, true) ∧
        LineSpec.lookupJV tree k = some (.num (IntText.formatInt t.sec)) :=
  timestamp_written ext k hk di do_ hi ho hts line s t hline hp

open Jl.Template Jl.LineTime Jl.LineTimeMore Jl.JsonQuote in
/-- The oracle of the correspondence check (`c14Violation`, the logic of the harness's
    `c14LineViolation`) finds nothing on the model's line for every pair of those lists. -/
theorem oracle_silent_on_every_pair (ext : Ext) (k : Bytes) (hk : sanitize k = k)
    (di do_ : Format × Ty) (hi : di ∈ harnessIns) (ho : do_ ∈ harnessOuts) (line s : Bytes)
    (t : GoTime) (hline : Json.unmarshal line = (.cons k (.str s) .nil, true))
    (hp : Time.parseRFC3339 s = some t) (hlo : -86400 < t.off) (hhi : t.off < 86400) :
    c14Violation line
      (jlLine ⟨genTables, ext⟩ (withCol [] k di.1 di.2) (withCol [] k do_.1 do_.2) line) = none :=
  harness_oracle ext k hk di do_ hi ho line s t hline hp hlo hhi

end Jl.C14
