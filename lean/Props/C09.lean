/-
  C09 — integer casts return the exact value or an error, never a wrapped one.

  Statement (properties.jsonl): casting any supported value to any signed or unsigned integer
  type returns either an error or a result whose numeric value equals the source value
  (truncated toward zero for fractional floats); it never wraps, saturates or invents a value
  for out-of-range, infinite or NaN input.  Every integral source value that fits the target
  succeeds, and the verdict and result do not depend on which Go type or decimal text carried
  the value.

  The theorems are about `genTables`, the tables extract/ regenerates from /repo/pkg/cast on
  every run, interpreted by Model.Cast; `CastSpec.intCastViolation` is the statement of the
  property on one (target, source, result) triple and is also the oracle applied to the
  implementation's results.  All theorems hold for every `Ext` (stdlib parameters play no
  role in these branches).
-/
import Proofs.CastInt

namespace Jl.C09
open Jl Cast

/-- Integer sources of every type and value: exact value when it fits, error otherwise. -/
theorem int_source_exact_or_error (ext : Ext) (tgt src : IntTy) (v : Int) (hv : src.inRange v) :
    castNamed genTables ext (casterOfInt tgt) (.int src v) =
      if tgt.inRange v then .ok (.int tgt v) else .err .cast :=
  cast_int_source genTables ext _ _ tgt src v (caster_present tgt) (int_branches_ok tgt src) hv

/-- … hence the property's oracle never fires on an integer source. -/
theorem int_source_no_violation (ext : Ext) (tgt src : IntTy) (v : Int) (hv : src.inRange v) :
    CastSpec.intCastViolation tgt (.int src v)
      (castNamed genTables ext (casterOfInt tgt) (.int src v)) = none := by
  rw [int_source_exact_or_error ext tgt src v hv]
  by_cases h : tgt.inRange v <;> simp [CastSpec.intCastViolation, CastSpec.numVal, h]

/-- The verdict and result do not depend on which integer Go type carried the value. -/
theorem carrier_independent (ext : Ext) (tgt s₁ s₂ : IntTy) (v : Int)
    (h₁ : s₁.inRange v) (h₂ : s₂.inRange v) :
    castNamed genTables ext (casterOfInt tgt) (.int s₁ v) =
      castNamed genTables ext (casterOfInt tgt) (.int s₂ v) := by
  rw [int_source_exact_or_error ext tgt s₁ v h₁, int_source_exact_or_error ext tgt s₂ v h₂]

/-- float64 sources, every bit pattern: NaN and ±Inf are rejected; a finite value is either
    rejected or converted to its truncation toward zero, which then fits the target; an
    integral value that fits is never rejected. -/
theorem float64_source (ext : Ext) (tgt : IntTy) (b : Nat) :
    CastSpec.intCastViolation tgt (.f64 b)
      (castNamed genTables ext (casterOfInt tgt) (.f64 b)) = none := by
  have h := cast_float_source genTables ext _ _ tgt (.f64 b) (Float.toFVal Float.f64 b) b
    (Or.inl ⟨rfl, rfl⟩) (caster_present tgt) (float64_branches_ok tgt)
  simp only [CastSpec.intCastViolation, CastSpec.numVal]
  unfold floatOutcomeSpec at h
  cases hx : Float.toFVal Float.f64 b with
  | nan => rw [hx] at h; simp [h]
  | inf n => rw [hx] at h; simp [h]
  | fin tr frac neg =>
    rw [hx] at h
    rcases h with ⟨hr, hin⟩ | ⟨hr, hno⟩
    · cases frac <;> simp [hr, hin]
    · cases frac
      · simp [hr, hno rfl]
      · simp [hr]

/-- float32 sources, every bit pattern. -/
theorem float32_source (ext : Ext) (tgt : IntTy) (b : Nat) :
    CastSpec.intCastViolation tgt (.f32 b)
      (castNamed genTables ext (casterOfInt tgt) (.f32 b)) = none := by
  have h := cast_float_source genTables ext _ _ tgt (.f32 b) (Float.toFVal Float.f32 b) b
    (Or.inr ⟨rfl, rfl⟩) (caster_present tgt) (float32_branches_ok tgt)
  simp only [CastSpec.intCastViolation, CastSpec.numVal]
  unfold floatOutcomeSpec at h
  cases hx : Float.toFVal Float.f32 b with
  | nan => rw [hx] at h; simp [h]
  | inf n => rw [hx] at h; simp [h]
  | fin tr frac neg =>
    rw [hx] at h
    rcases h with ⟨hr, hin⟩ | ⟨hr, hno⟩
    · cases frac <;> simp [hr, hin]
    · cases frac
      · simp [hr, hno rfl]
      · simp [hr]

/-- Booleans cast to 1 / 0 of the requested type. -/
theorem bool_source (ext : Ext) (tgt : IntTy) (b : Bool) :
    CastSpec.intCastViolation tgt (.bool b)
      (castNamed genTables ext (casterOfInt tgt) (.bool b)) = none := by
  rw [cast_bool_source genTables ext _ _ tgt b (caster_present tgt) (bool_branches_ok tgt)]
  cases tgt <;> cases b <;> decide

/-- Text sources (string; json.Number delegates to the same branch): the caster parses with
    strconv.ParseInt / ParseUint in base 0 with the target's own bit size — the shape and the
    arguments are re-checked against the source on every run. -/
theorem text_source_shape (tgt : IntTy) :
    textBranchSpec genTables tgt (findClause (casterOf genTables (casterOfInt tgt)) .str) ∧
    numBranchSpec tgt (findClause (casterOf genTables (casterOfInt tgt)) .num) :=
  ⟨text_branches_ok tgt, num_branches_ok tgt⟩

/-- Canonical decimal text (the image of strconv.FormatInt, i.e. `0 | -?[1-9][0-9]*`) carried
    by a string: exactly the value when it fits, the cast failure otherwise — for every value
    of any size, with the ported strconv parser (Proofs.IntText). -/
theorem text_source_exact_or_error (ext : Ext) (tgt : IntTy) (v : Int) :
    castNamed genTables ext (casterOfInt tgt) (.str (IntText.formatInt v)) =
      if tgt.inRange v then .ok (.int tgt v) else .err .cast :=
  call_text_source genTables ext _ _ tgt v 22 (caster_present tgt) (text_branches_ok tgt)

/-- … and by a json.Number. -/
theorem number_source_exact_or_error (ext : Ext) (tgt : IntTy) (v : Int) :
    castNamed genTables ext (casterOfInt tgt) (.num (IntText.formatInt v)) =
      if tgt.inRange v then .ok (.int tgt v) else .err .cast :=
  cast_num_source genTables ext _ tgt v (caster_present tgt) (text_branches_ok tgt) (num_branches_ok tgt)

/-- Carrier independence across Go integer types, decimal text and json.Number. -/
theorem carrier_independent_text (ext : Ext) (tgt src : IntTy) (v : Int) (h : src.inRange v) :
    castNamed genTables ext (casterOfInt tgt) (.str (IntText.formatInt v)) =
      castNamed genTables ext (casterOfInt tgt) (.int src v) ∧
    castNamed genTables ext (casterOfInt tgt) (.num (IntText.formatInt v)) =
      castNamed genTables ext (casterOfInt tgt) (.int src v) := by
  rw [text_source_exact_or_error, number_source_exact_or_error, int_source_exact_or_error ext tgt src v h]
  exact ⟨rfl, rfl⟩

/-- The oracle never fires on canonical decimal text. -/
theorem text_source_no_violation (ext : Ext) (tgt : IntTy) (v : Int) :
    CastSpec.intCastViolation tgt (.str (IntText.formatInt v))
      (castNamed genTables ext (casterOfInt tgt) (.str (IntText.formatInt v))) = none := by
  rw [text_source_exact_or_error]
  by_cases h : tgt.inRange v <;>
    simp [CastSpec.intCastViolation, CastSpec.numVal, IntText.canonicalDecimal_formatInt, h]

/-! Non-vacuity: the guards are not trivially `true` (values at the bounds are accepted),
    and the previously wrapped inputs are rejected. -/
example : castNamed genTables Ext.empty "ToInt64" (.f64 0x43DFFFFFFFFFFFFF) =
    .ok (.int .i64 9223372036854774784) := by rfl      -- largest float64 below 2^63
example : castNamed genTables Ext.empty "ToInt64" (.f64 0x43E0000000000000) = .err .cast := by
  rfl                                                      -- 2^63
example : castNamed genTables Ext.empty "ToInt8" (.f64 0x7FF8000000000001) = .err .cast := by
  rfl                                                      -- NaN
example : castNamed genTables Ext.empty "ToUint8" (.f64 0x406FF00000000000) = .ok (.int .u8 255) := by
  rfl                                                      -- 255.5 truncates

end Jl.C09
