/-
  C09 — integer casts return the exact value or an error, never a wrapped one.

  Statement (properties.jsonl): casting any supported value to any signed or unsigned integer
  type returns either an error or a result whose numeric value equals the source value
  (truncated toward zero for fractional floats); it never wraps, saturates or invents a value
  for out-of-range, infinite or NaN input.  Every integral source value that fits the target
  succeeds, and the verdict and result do not depend on which Go type or decimal text carried
  the value.

  The theorems are about `genTables`, the tables extract/ regenerates from /repo/pkg/cast on
  every run, interpreted by Model.Cast; `CastSpec.intCastViolation` is the statement of the
  property on one (target, source, result) triple and is also the oracle applied to the
  implementation's results.  All theorems hold for every `Ext` (stdlib parameters play no
  role in these branches).
-/
import Proofs.CastInt
import Proofs.LineInts
import Proofs.GettersExact

namespace Jl.C09
open Jl Cast

/-- Integer sources of every type and value: exact value when it fits, error otherwise. -/
theorem int_source_exact_or_error (ext : Ext) (tgt src : IntTy) (v : Int) (hv : src.inRange v) :
    castNamed genTables ext (casterOfInt tgt) (.int src v) =
      if tgt.inRange v then .ok (.int tgt v) else .err .cast :=
  cast_int_source genTables ext _ _ tgt src v (caster_present tgt) (int_branches_ok tgt src) hv

/-- … hence the property's oracle never fires on an integer source. -/
theorem int_source_no_violation (ext : Ext) (tgt src : IntTy) (v : Int) (hv : src.inRange v) :
    CastSpec.intCastViolation tgt (.int src v)
      (castNamed genTables ext (casterOfInt tgt) (.int src v)) = none := by
  rw [int_source_exact_or_error ext tgt src v hv]
  by_cases h : tgt.inRange v <;> simp [CastSpec.intCastViolation, CastSpec.numVal, h]

/-- The verdict and result do not depend on which integer Go type carried the value. -/
theorem carrier_independent (ext : Ext) (tgt s₁ s₂ : IntTy) (v : Int)
    (h₁ : s₁.inRange v) (h₂ : s₂.inRange v) :
    castNamed genTables ext (casterOfInt tgt) (.int s₁ v) =
      castNamed genTables ext (casterOfInt tgt) (.int s₂ v) := by
  rw [int_source_exact_or_error ext tgt s₁ v h₁, int_source_exact_or_error ext tgt s₂ v h₂]

/-- float64 sources, every bit pattern: NaN and ±Inf are rejected; a finite value is either
    rejected or converted to its truncation toward zero, which then fits the target; an
    integral value that fits is never rejected. -/
theorem float64_source (ext : Ext) (tgt : IntTy) (b : Nat) :
    CastSpec.intCastViolation tgt (.f64 b)
      (castNamed genTables ext (casterOfInt tgt) (.f64 b)) = none := by
  have h := cast_float_source genTables ext _ _ tgt (.f64 b) (Float.toFVal Float.f64 b) b
    (Or.inl ⟨rfl, rfl⟩) (caster_present tgt) (float64_branches_ok tgt)
  simp only [CastSpec.intCastViolation, CastSpec.numVal]
  unfold floatOutcomeSpec at h
  cases hx : Float.toFVal Float.f64 b with
  | nan => rw [hx] at h; simp [h]
  | inf n => rw [hx] at h; simp [h]
  | fin tr frac neg =>
    rw [hx] at h
    rcases h with ⟨hr, hin⟩ | ⟨hr, hno⟩
    · cases frac <;> simp [hr, hin]
    · cases frac
      · simp [hr, hno rfl]
      · simp [hr]

/-- float32 sources, every bit pattern. -/
theorem float32_source (ext : Ext) (tgt : IntTy) (b : Nat) :
    CastSpec.intCastViolation tgt (.f32 b)
      (castNamed genTables ext (casterOfInt tgt) (.f32 b)) = none := by
  have h := cast_float_source genTables ext _ _ tgt (.f32 b) (Float.toFVal Float.f32 b) b
    (Or.inr ⟨rfl, rfl⟩) (caster_present tgt) (float32_branches_ok tgt)
  simp only [CastSpec.intCastViolation, CastSpec.numVal]
  unfold floatOutcomeSpec at h
  cases hx : Float.toFVal Float.f32 b with
  | nan => rw [hx] at h; simp [h]
  | inf n => rw [hx] at h; simp [h]
  | fin tr frac neg =>
    rw [hx] at h
    rcases h with ⟨hr, hin⟩ | ⟨hr, hno⟩
    · cases frac <;> simp [hr, hin]
    · cases frac
      · simp [hr, hno rfl]
      · simp [hr]

/-- Booleans cast to 1 / 0 of the requested type. -/
theorem bool_source (ext : Ext) (tgt : IntTy) (b : Bool) :
    CastSpec.intCastViolation tgt (.bool b)
      (castNamed genTables ext (casterOfInt tgt) (.bool b)) = none := by
  rw [cast_bool_source genTables ext _ _ tgt b (caster_present tgt) (bool_branches_ok tgt)]
  cases tgt <;> cases b <;> decide

/-- Text sources (string; json.Number delegates to the same branch): the caster parses with
    strconv.ParseInt / ParseUint in base 0 with the target's own bit size — the shape and the
    arguments are re-checked against the source on every run. -/
theorem text_source_shape (tgt : IntTy) :
    textBranchSpec genTables tgt (findClause (casterOf genTables (casterOfInt tgt)) .str) ∧
    numBranchSpec tgt (findClause (casterOf genTables (casterOfInt tgt)) .num) :=
  ⟨text_branches_ok tgt, num_branches_ok tgt⟩

/-- Canonical decimal text (the image of strconv.FormatInt, i.e. `0 | -?[1-9][0-9]*`) carried
    by a string: exactly the value when it fits, the cast failure otherwise — for every value
    of any size, with the ported strconv parser (Proofs.IntText). -/
theorem text_source_exact_or_error (ext : Ext) (tgt : IntTy) (v : Int) :
    castNamed genTables ext (casterOfInt tgt) (.str (IntText.formatInt v)) =
      if tgt.inRange v then .ok (.int tgt v) else .err .cast :=
  call_text_source genTables ext _ _ tgt v 22 (caster_present tgt) (text_branches_ok tgt)

/-- … and by a json.Number. -/
theorem number_source_exact_or_error (ext : Ext) (tgt : IntTy) (v : Int) :
    castNamed genTables ext (casterOfInt tgt) (.num (IntText.formatInt v)) =
      if tgt.inRange v then .ok (.int tgt v) else .err .cast :=
  cast_num_source genTables ext _ tgt v (caster_present tgt) (text_branches_ok tgt) (num_branches_ok tgt)

/-- Carrier independence across Go integer types, decimal text and json.Number. -/
theorem carrier_independent_text (ext : Ext) (tgt src : IntTy) (v : Int) (h : src.inRange v) :
    castNamed genTables ext (casterOfInt tgt) (.str (IntText.formatInt v)) =
      castNamed genTables ext (casterOfInt tgt) (.int src v) ∧
    castNamed genTables ext (casterOfInt tgt) (.num (IntText.formatInt v)) =
      castNamed genTables ext (casterOfInt tgt) (.int src v) := by
  rw [text_source_exact_or_error, number_source_exact_or_error, int_source_exact_or_error ext tgt src v h]
  exact ⟨rfl, rfl⟩

/-- The oracle never fires on canonical decimal text. -/
theorem text_source_no_violation (ext : Ext) (tgt : IntTy) (v : Int) :
    CastSpec.intCastViolation tgt (.str (IntText.formatInt v))
      (castNamed genTables ext (casterOfInt tgt) (.str (IntText.formatInt v))) = none := by
  rw [text_source_exact_or_error]
  by_cases h : tgt.inRange v <;>
    simp [CastSpec.intCastViolation, CastSpec.numVal, IntText.canonicalDecimal_formatInt, h]

/-! Non-vacuity: the guards are not trivially `true` (values at the bounds are accepted),
    and the previously wrapped inputs are rejected. -/
example : castNamed genTables Ext.empty "ToInt64" (.f64 0x43DFFFFFFFFFFFFF) =
    .ok (.int .i64 9223372036854774784) := by rfl      -- largest float64 below 2^63
example : castNamed genTables Ext.empty "ToInt64" (.f64 0x43E0000000000000) = .err .cast := by
  rfl                                                      -- 2^63
example : castNamed genTables Ext.empty "ToInt8" (.f64 0x7FF8000000000001) = .err .cast := by
  rfl                                                      -- NaN
example : castNamed genTables Ext.empty "ToUint8" (.f64 0x406FF00000000000) = .ok (.int .u8 255) := by
  rfl                                                      -- 255.5 truncates

/-! ### On the emitted BYTES: integer columns through one line (`Proofs/LineInts`)

  `jlLine ti to line` = importer `GetRow`, exporter `CreateRow`, `row.MarshalJSON` over the regenerated
  tables.  The input member is the canonical decimal text of `v`, carried as a JSON number literal (a
  `json.Number` for the code) or as a JSON string; the column is declared numeric / string / timestamp /
  auto (`LineInts.IntFmt`) with an integer raw type `T` on both sides. -/

open Jl.Template Jl.LineInts Jl.JsonQuote in
/-- Exact value or the line is rejected — never a wrapped one — for every `Ext`: either `v` fits `T` (and
    int64 under a timestamp exporter) and exactly `{"k":<decimal of v>}` (quoted under a string column) and a
    newline is written; or it does not and the line ends in an error with NOTHING written. -/
theorem int_line_exact_or_rejected (ext : Ext) (k : Bytes) (hk : sanitize k = k) {fi fo : Format}
    (hfi : IntFmt fi) (hfo : IntFmt fo) (t : IntTy) (v : Int) (line : Bytes) (jv : JV)
    (hline : Json.unmarshal line = (.cons k jv .nil, true))
    (hjv : IsCarrierJV jv (IntText.formatInt v)) :
    (t.inRange v ∧ (fo = .timestamp → IntTy.i64.inRange v) ∧
      jlLine ⟨genTables, ext⟩ (withCol [] k fi (.int t)) (withCol [] k fo (.int t)) line =
        .ok (LineTime.objText k (cellText fo v) ++ [0x0A], none) ∧
      Json.unmarshal (LineTime.objText k (cellText fo v)) = (.cons k (cellJV fo v) .nil, true) ∧
      LineSpec.lookupJV (.cons k (cellJV fo v) .nil) k = some (cellJV fo v)) ∨
    ((¬ t.inRange v ∨ (fo = .timestamp ∧ ¬ IntTy.i64.inRange v)) ∧
      ∃ e, jlLine ⟨genTables, ext⟩ (withCol [] k fi (.int t)) (withCol [] k fo (.int t)) line =
        .ok ([], some e)) :=
  LineInts.int_line_exact_or_rejected ext k hk hfi hfo t v line jv hline hjv

open Jl.Template Jl.LineInts Jl.JsonQuote in
/-- Read the other way: whatever was written for an ACCEPTED line carries under `k` exactly `v`, and `v`
    fits `T`. -/
theorem int_line_accepted_is_exact (ext : Ext) (k : Bytes) (hk : sanitize k = k) {fi fo : Format}
    (hfi : IntFmt fi) (hfo : IntFmt fo) (t : IntTy) (v : Int) (line : Bytes) (jv : JV)
    (hline : Json.unmarshal line = (.cons k jv .nil, true))
    (hjv : IsCarrierJV jv (IntText.formatInt v)) (b : Bytes)
    (hb : jlLine ⟨genTables, ext⟩ (withCol [] k fi (.int t)) (withCol [] k fo (.int t)) line =
      .ok (b, none)) :
    t.inRange v ∧ ∃ body tree, b = body ++ [0x0A] ∧ Json.unmarshal body = (tree, true) ∧
      LineSpec.lookupJV tree k = some (cellJV fo v) :=
  LineInts.int_line_accepted_exact ext k hk hfi hfo t v line jv hline hjv b hb

open Jl.Template Jl.LineInts in
/-- "By decimal text or by json.Number": the number literal and the string of the same canonical decimal
    give the SAME outcome of the line (same bytes, or both rejected). -/
theorem carrier_independent_on_the_line (ext : Ext) (k : Bytes) {fi fo : Format} (hfi : IntFmt fi)
    (hfo : IntFmt fo) (t : IntTy) (v : Int) (line₁ line₂ : Bytes)
    (h₁ : Json.unmarshal line₁ = (.cons k (.num (IntText.formatInt v)) .nil, true))
    (h₂ : Json.unmarshal line₂ = (.cons k (.str (IntText.formatInt v)) .nil, true)) :
    jlLine ⟨genTables, ext⟩ (withCol [] k fi (.int t)) (withCol [] k fo (.int t)) line₁ =
      jlLine ⟨genTables, ext⟩ (withCol [] k fi (.int t)) (withCol [] k fo (.int t)) line₂ :=
  LineInts.carrier_independent_line ext k hfi hfo t v line₁ line₂ h₁ h₂

open Jl.Template Jl.LineInts Jl.JsonQuote in
/-- Templates with ANY number of columns (distinct names): on an accepted line, every column declared with an
    integer raw type `T` on both sides whose input member (the last of its name) is the canonical decimal of
    `v` holds a `v` that fits `T`, and the member written under it is exactly `v` — whatever the other columns
    and members are.  `FloatTextOK` only because other columns may print floats. -/
theorem emitted_line_ints_exact (ext : Ext) (ti to : Tmpl) (line b : Bytes)
    (h : jlLine ⟨genTables, ext⟩ ti to line = .ok (b, none)) (hx : JsonPrint.FloatTextOK ext)
    (hti : (OMap.keys ti).Nodup) (hto : (OMap.keys to).Nodup) :
    ∃ body tree, b = body ++ [0x0A] ∧ Json.unmarshal body = (tree, true) ∧
      ∀ k ci co t v jv, OMap.lookup ti k = some ci → OMap.lookup to k = some co →
        IntFmt (Cells.format ci) → Cells.rawType ci = .int t →
        IntFmt (Cells.format co) → Cells.rawType co = .int t →
        (∀ k' ∈ OMap.keys to ++ OMap.keys ti ++ Order.inputKeys line,
          sanitize k' = sanitize k → k' = k) →
        LineSpec.lookupJV (LineSpec.normDup (Json.unmarshal line).1) k = some jv →
        IsCarrierJV jv (IntText.formatInt v) →
        t.inRange v ∧ (Cells.format co = .timestamp → IntTy.i64.inRange v) ∧
          LineSpec.lookupJV tree (sanitize k) = some (cellJV (Cells.format co) v) :=
  LineInts.emitted_line_ints_pointwise ext ti to line b h hx hti hto

open Jl.Template Jl.LineInts in
/-- …and a line holding an out-of-range integer under such a column of the importer is never accepted,
    whatever the exporter's template. -/
theorem out_of_range_line_never_accepted (ext : Ext) (ti to : Tmpl) (line : Bytes)
    (hti : (OMap.keys ti).Nodup) (k : Bytes) (ci : Val) (hci : OMap.lookup ti k = some ci)
    (hf : IntFmt (Cells.format ci)) (t : IntTy) (hty : Cells.rawType ci = .int t)
    (jv : JV) (v : Int) (hjv : IsCarrierJV jv (IntText.formatInt v))
    (hlast : LineSpec.lookupJV (LineSpec.normDup (Json.unmarshal line).1) k = some jv)
    (hv : ¬ t.inRange v) (b : Bytes) :
    jlLine ⟨genTables, ext⟩ ti to line ≠ .ok (b, none) :=
  LineInts.out_of_range_not_accepted ext ti to line hti k ci hci hf t hty jv v hjv hlast hv b

/-! ### The typed getters of a row (Proofs/GettersExact)

`Row.GetInt8 … GetUint64` go through the same casters; the property read on them: the value when
it fits the getter's type, the zero value otherwise, never a wrapped one. -/

open Jl.GettersExact in
/-- An integer getter on a cell carrying the integer `v` (a Go integer of any of the ten types,
    canonical decimal text in a string or a json.Number): `v` when it fits, else 0. -/
theorem getter_exact_or_zero (ext : Ext) (t : IntTy) (row : List (Bytes × Val)) (k : Bytes)
    (raw : Dyn) (v : Int) (hk : (Value.lookup row k).map Cells.raw = some raw)
    (hc : Carries raw v) :
    Getters.typedGet ⟨genTables, ext⟩ (getterOfInt t) row k =
      some (if t.inRange v then .ok (.int t v) else .ok (.int t 0)) :=
  int_getter_exact_or_zero ext t row k raw v hk hc

open Jl.GettersExact in
/-- …and on a float64 of any bit pattern: the truncation when the value is finite and lies in
    the type's range, else 0. -/
theorem getter_float64 (ext : Ext) (t : IntTy) (b : Nat) (row : List (Bytes × Val)) (k : Bytes)
    (hk : (Value.lookup row k).map Cells.raw = some (.f64 b)) :
    Getters.typedGet ⟨genTables, ext⟩ (getterOfInt t) row k =
      some (.ok (.int t (if FloatFits t (Float.toFVal Float.f64 b)
                         then truncOf (Float.toFVal Float.f64 b) else 0))) :=
  int_getter_float64 ext t b row k hk

open Jl.GettersExact in
/-- The oracle the correspondence check applies to the getters never fires on the regenerated
    tables: whatever the cell holds (any Go value whose integers lie in their own type's range),
    a non-zero answer of an integer getter is the carried value, in range. -/
theorem getter_never_wraps (ext : Ext) (t : IntTy) (row : List (Bytes × Val)) (k : Bytes)
    (raw : Dyn) (hk : (Value.lookup row k).map Cells.raw = some raw) (hraw : IntCarrierOK raw)
    (r : Int) (hr : r ≠ 0)
    (h : Getters.typedGet ⟨genTables, ext⟩ (getterOfInt t) row k = some (.ok (.int t r))) :
    CastSpec.intCastViolation t raw (.ok (.int t r)) = none :=
  int_getter_never_wraps ext t row k raw hk hraw r hr h

/-- The contrast the documentation announces: on the row `{"v": 300}` `GetInt8` answers 0 while an
    `int8` field filled by `MapTo` receives 44 (reflect's silent conversion). -/
example :
    Getters.typedGet ⟨genTables, Ext.empty⟩ "GetInt8"
        [([0x76], .cell (.int .int 300) .auto .none)] [0x76] = some (.ok (.int .i8 0)) ∧
    MapTo.mapTo genTables Ext.empty [([0x76], .cell (.int .int 300) .auto .none)]
        (.pointerToStruct [⟨[0x56], .int .i8, true, .int .i8 7⟩]) =
      .ok (.pointerToStruct [⟨[0x56], .int .i8, true, .int .i8 44⟩]) := by
  refine ⟨by rfl, by rfl⟩

end Jl.C09
