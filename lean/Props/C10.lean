/-
  C10 — casts are total and return exactly the requested type.

  Statement (properties.jsonl): for every target type and every input of any dynamic Go type
  a cast returns without panicking either a nil error with a result that is nil exactly when
  the input is nil and otherwise of exactly the requested type, or a nil result with an error
  that wraps the package's cast-failure sentinel.

  Theorems are about `genTables` (regenerated from pkg/cast on every run).
-/
import Proofs.CastInt
import Proofs.CastTyped

namespace Jl.C10
open Jl Cast CastTyped

set_option linter.unusedSimpArgs false

/-- Every sentinel of errors.go wraps the root sentinel `ErrUnableToCast` (the `%w` chain
    is read from the source). -/
theorem sentinels_wrap_root :
    ∀ p ∈ genTables.sentinels, wrapsRoot genTables.sentinels 4 p.1 = true := by
  simp [genTables, Gen.sentinels, wrapsRoot]

/-- `cast.To` with a nil target type returns the value unchanged; any target type outside
    the 18 supported ones fails with the root sentinel. -/
theorem castTo_none_and_unknown (ext : Ext) (v : Dyn) :
    castTo genTables ext .none v = .ok v ∧ castTo genTables ext .other v = .err .cast := by
  constructor <;>
  simp [castTo, genTables, Gen.dispatchTo, Gen.dispatchToDefault, evalBranch, evalE, failWith,
    Gen.sentinels, wrapsRoot]

/-- Integer targets, integer sources: the result has exactly the requested type (corollary of
    the exactness theorem of C09). -/
theorem int_result_typed (ext : Ext) (tgt src : IntTy) (v : Int) (hv : src.inRange v) (r : Dyn)
    (h : castNamed genTables ext (casterOfInt tgt) (.int src v) = .ok r) :
    typeOf r = .int tgt := by
  rw [cast_int_source genTables ext _ _ tgt src v (caster_present tgt) (int_branches_ok tgt src) hv] at h
  split at h
  · cases h; rfl
  · cases h

/-- Every one of the ten integer casters sends nil to nil. -/
theorem int_nil_to_nil (ext : Ext) (tgt : IntTy) :
    castNamed genTables ext (casterOfInt tgt) .nil = .ok .nil := by
  cases tgt <;>
  simp [castNamed, callNamed, genTables, Gen.casters, findClause, typeOf, evalBranch, casterOfInt]

/-- A value of an unsupported dynamic type (struct, pointer, named type, func, chan, …) is
    rejected by every integer caster with an error wrapping the sentinel. -/
theorem int_other_rejected (ext : Ext) (tgt : IntTy) (tag : Nat) :
    castNamed genTables ext (casterOfInt tgt) (.other tag) = .err .cast := by
  cases tgt <;>
  simp [castNamed, callNamed, genTables, Gen.casters, findClause, typeOf, evalBranch, casterOfInt,
    failWith, Gen.sentinels, wrapsRoot]

/-- The whole regenerated table passes the static checker of Proofs.CastTyped (every clause of
    every caster for every type it lists, every default branch, the nil clauses, cast.To's
    dispatch, all sentinels, the sizes of binary_ops.go): re-decided on every run. -/
theorem tables_pass_checker : tablesOK genTables = true := genTables_ok

/-- C10 for each of the 19 casters, every input of any dynamic type: no panic; a result that
    is nil exactly when the input is nil and otherwise of exactly the promised type; or an
    error wrapping the sentinel (`.ext` is the model's "stdlib answer not supplied" marker,
    not an outcome of the code). -/
theorem caster_total_and_typed (ext : Ext) (name : String) (hn : name ∈ casterNames) (v : Dyn) :
    match castNamed genTables ext name v with
    | .ok r => (r = .nil ↔ v = .nil) ∧ (v ≠ .nil → some (typeOf r) = resultTyOfCaster? name)
    | .err e => e = .cast ∨ e = .ext
    | .panic _ => False :=
  gen_cast_C10 ext name hn v

/-- C10 for `cast.To` with a sample of any type (`Ty.none` = nil sample: identity). -/
theorem castTo_total_and_typed (ext : Ext) (t : Ty) (v : Dyn) :
    match castTo genTables ext t v with
    | .ok r => if t = .none then r = v else (r = .nil ↔ v = .nil) ∧ (v ≠ .nil → typeOf r = t)
    | .err e => e = .cast ∨ e = .ext
    | .panic _ => False :=
  gen_castTo_C10 ext t v

/-- The oracle applied to the implementation never fires on the model's results. -/
theorem no_typed_violation (ext : Ext) (t : Ty) (ht : t ≠ .none) (v : Dyn) :
    CastSpec.typedViolation t v (castTo genTables ext t v) = none ∨
      castTo genTables ext t v = .err .ext :=
  gen_castTo_no_violation ext t ht v

/-! Non-vacuity -/
example : "ToTime" ∈ casterNames := by decide
example : castNamed genTables Ext.empty "ToBool" (.str [0x74]) = .ok (.bool true) := by rfl

end Jl.C10
