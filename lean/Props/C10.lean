/-
  C10 — casts are total and return exactly the requested type.

  Statement (properties.jsonl): for every target type and every input of any dynamic Go type
  a cast returns without panicking either a nil error with a result that is nil exactly when
  the input is nil and otherwise of exactly the requested type, or a nil result with an error
  that wraps the package's cast-failure sentinel.  Consequently the raw value of a column
  declared with raw type T is nil or a T after every successful import (`import_typed`).

  Theorems are about `genTables` (regenerated from pkg/cast on every run).
-/
import Proofs.CastInt
import Proofs.CastTyped
import Model.Value
import Proofs.ValueTie
import Proofs.TypedHistory

namespace Jl.C10
open Jl Cast CastTyped Jl.Value

set_option linter.unusedSimpArgs false

/-- Every sentinel of errors.go wraps the root sentinel `ErrUnableToCast` (the `%w` chain
    is read from the source). -/
theorem sentinels_wrap_root :
    ∀ p ∈ genTables.sentinels, wrapsRoot genTables.sentinels 4 p.1 = true := by
  simp [genTables, Gen.sentinels, wrapsRoot]

/-- `cast.To` with a nil target type returns the value unchanged; any target type outside
    the 18 supported ones fails with the root sentinel. -/
theorem castTo_none_and_unknown (ext : Ext) (v : Dyn) :
    castTo genTables ext .none v = .ok v ∧ castTo genTables ext .other v = .err .cast := by
  constructor <;>
  simp [castTo, genTables, Gen.dispatchTo, Gen.dispatchToDefault, evalBranch, evalE, failWith,
    Gen.sentinels, wrapsRoot]

/-- Integer targets, integer sources: the result has exactly the requested type (corollary of
    the exactness theorem of C09). -/
theorem int_result_typed (ext : Ext) (tgt src : IntTy) (v : Int) (hv : src.inRange v) (r : Dyn)
    (h : castNamed genTables ext (casterOfInt tgt) (.int src v) = .ok r) :
    typeOf r = .int tgt := by
  rw [cast_int_source genTables ext _ _ tgt src v (caster_present tgt) (int_branches_ok tgt src) hv] at h
  split at h
  · cases h; rfl
  · cases h

/-- Every one of the ten integer casters sends nil to nil. -/
theorem int_nil_to_nil (ext : Ext) (tgt : IntTy) :
    castNamed genTables ext (casterOfInt tgt) .nil = .ok .nil := by
  cases tgt <;>
  simp [castNamed, callNamed, genTables, Gen.casters, findClause, typeOf, evalBranch, casterOfInt]

/-- A value of an unsupported dynamic type (struct, pointer, named type, func, chan, …) is
    rejected by every integer caster with an error wrapping the sentinel. -/
theorem int_other_rejected (ext : Ext) (tgt : IntTy) (tag : Nat) :
    castNamed genTables ext (casterOfInt tgt) (.other tag) = .err .cast := by
  cases tgt <;>
  simp [castNamed, callNamed, genTables, Gen.casters, findClause, typeOf, evalBranch, casterOfInt,
    failWith, Gen.sentinels, wrapsRoot]

/-- The whole regenerated table passes the static checker of Proofs.CastTyped (every clause of
    every caster for every type it lists, every default branch, the nil clauses, cast.To's
    dispatch, all sentinels, the sizes of binary_ops.go): re-decided on every run. -/
theorem tables_pass_checker : tablesOK genTables = true := genTables_ok

/-- C10 for each of the 19 casters, every input of any dynamic type: no panic; a result that
    is nil exactly when the input is nil and otherwise of exactly the promised type; or an
    error wrapping the sentinel (`.ext` is the model's "stdlib answer not supplied" marker,
    not an outcome of the code). -/
theorem caster_total_and_typed (ext : Ext) (name : String) (hn : name ∈ casterNames) (v : Dyn) :
    match castNamed genTables ext name v with
    | .ok r => (r = .nil ↔ v = .nil) ∧ (v ≠ .nil → some (typeOf r) = resultTyOfCaster? name)
    | .err e => e = .cast ∨ e = .ext
    | .panic _ => False :=
  gen_cast_C10 ext name hn v

/-- C10 for `cast.To` with a sample of any type (`Ty.none` = nil sample: identity). -/
theorem castTo_total_and_typed (ext : Ext) (t : Ty) (v : Dyn) :
    match castTo genTables ext t v with
    | .ok r => if t = .none then r = v else (r = .nil ↔ v = .nil) ∧ (v ≠ .nil → typeOf r = t)
    | .err e => e = .cast ∨ e = .ext
    | .panic _ => False :=
  gen_castTo_C10 ext t v

/-- The oracle applied to the implementation never fires on the model's results. -/
theorem no_typed_violation (ext : Ext) (t : Ty) (ht : t ≠ .none) (v : Dyn) :
    CastSpec.typedViolation t v (castTo genTables ext t v) = none ∨
      castTo genTables ext t v = .err .ext :=
  gen_castTo_no_violation ext t ht v

/-! Row level -/

private theorem importFail_ok {o : Outcome Dyn} {r : Dyn} (h : importFail o = .ok r) : o = .ok r := by
  cases o with
  | ok x => simpa [importFail] using h
  | err e => cases e <;> simp [importFail] at h
  | panic s => simp [importFail] at h

private theorem castTo_ok_typed (ext : Ext) (typ : Ty) (ht : typ ≠ .none) (v r : Dyn)
    (h : importFail (castTo genTables ext typ v) = .ok r) : r = .nil ∨ typeOf r = typ := by
  have h' := importFail_ok h
  have := gen_castTo_typed ext typ ht v r h'
  by_cases hv : v = .nil
  · left; exact this.1.mpr hv
  · right; exact this.2 hv

private theorem importFrom_typed (ext : Ext) (name : String) (typ : Ty) (ht : typ ≠ .none) (v r : Dyn)
    (h : importFrom ⟨genTables, ext⟩ name v typ = .ok r) : r = .nil ∨ typeOf r = typ := by
  unfold importFrom at h
  split at h
  · exact absurd rfl ht
  · exact castTo_ok_typed ext typ ht v r h

private theorem importFromBinary_typed (ext : Ext) (typ : Ty) (ht : typ ≠ .none) (v r : Dyn)
    (h : importFromBinary ⟨genTables, ext⟩ v typ = .ok r) : r = .nil ∨ typeOf r = typ := by
  unfold importFromBinary at h
  split at h
  · split at h
    · cases h
    · split at h
      · exact absurd rfl ht
      · exact castTo_ok_typed ext typ ht _ r h
  · cases h
  · cases h
  · rename_i o h1 h2 h3
    -- the remaining outcomes of ToString are errors or panics, never `.ok`
    cases hto : importFail (castNamed genTables ext "ToString" v) with
    | ok x =>
      rw [hto] at h
      cases x <;> simp_all
    | err e => rw [hto] at h; cases h
    | panic s => rw [hto] at h; cases h

/-- C10, last sentence: after a successful import of anything that is not itself a
    jsonline.Value, the raw value of a column declared with raw type `typ` is nil or of
    exactly that type — for every format, over the casters of the current source. -/
theorem import_typed (ext : Ext) (f : Format) (typ : Ty) (ht : typ ≠ .none) (v : Dyn)
    (hv : ∀ w, v ≠ .val w) (c : Val)
    (h : importCell ⟨genTables, ext⟩ f typ v = .ok (c, none)) :
    ∃ raw, c = .cell raw f typ ∧ (raw = .nil ∨ typeOf raw = typ) := by
  have key : importByFormat ⟨genTables, ext⟩ f typ v = .ok (c, none) →
      ∃ raw, c = .cell raw f typ ∧ (raw = .nil ∨ typeOf raw = typ) := by
    intro hb
    unfold importByFormat at hb
    simp only at hb
    split at hb
    · rename_i r hres
      cases hb
      refine ⟨r, rfl, ?_⟩
      cases f with
      | string => exact importFrom_typed ext _ typ ht v r hres
      | numeric => exact importFrom_typed ext _ typ ht v r hres
      | boolean => exact importFrom_typed ext _ typ ht v r hres
      | binary => exact importFromBinary_typed ext typ ht v r hres
      | date => exact importFrom_typed ext _ typ ht v r hres
      | datetime => exact importFrom_typed ext _ typ ht v r hres
      | timestamp => exact importFrom_typed ext _ typ ht v r hres
      | auto =>
        have := gen_castTo_typed ext typ ht v r hres
        by_cases hn : v = .nil
        · left; exact this.1.mpr hn
        · right; exact this.2 hn
      | hidden =>
        have := gen_castTo_typed ext typ ht v r hres
        by_cases hn : v = .nil
        · left; exact this.1.mpr hn
        · right; exact this.2 hn
      | bad => cases hres
    · cases hb
    · cases hb
    · cases hb
  unfold importCell at h
  split at h
  · cases h; exact ⟨.nil, rfl, Or.inl rfl⟩
  · rename_i ms
    exact absurd rfl (hv (.row ms))
  · rename_i w _
    exact absurd rfl (hv w)
  · exact key h

/-! Non-vacuity -/
example : "ToTime" ∈ casterNames := by decide
example : castNamed genTables Ext.empty "ToBool" (.str [0x74]) = .ok (.bool true) := by rfl

example : ∃ c, importCell ⟨genTables, Ext.empty⟩ .numeric (.int .i8) (.num [0x37]) = .ok (c, none) := ⟨_, rfl⟩

/-! ### The model of `value.go` is REGENERATED (`extract/value.go` → `Gen.ValueTable`, `Proofs/ValueTie`)

  `value.Import`, `value.Export`, `NewValue`, `CloneValue` and the fourteen functions of `conversions_import.go` /
  `conversions_export.go` are read from the source on every run (symbolic execution format by format, classified into
  the small syntax of `Model.ValueSyntax`) and interpreted by `Model.ValueGen`.  The theorems of this file are about
  the hand-written `Model.Value`; this one says that `Model.Value` IS that interpretation of today's source, so a
  change of the source (another caster for a format, a layout instead of `cast.ToString`, a dropped nil check, a Row
  accepted by another format, another sentinel, renumbered formats …) stops it from compiling. -/
theorem value_model_is_the_source :
    (Gen.valueTable.known = true ∧ Gen.valueTable.importPreamble = .asModelled ∧
      Gen.valueTable.exportPreamble = .asModelled ∧ Gen.valueTable.newValue = .asModelled ∧
      Gen.valueTable.cloneValue = .asModelled) ∧
    (∀ (env : Value.Env) (f : Format) (typ : Ty) (val : Dyn),
      ValueGen.importByFormatG Gen.valueTable env f typ val = Value.importByFormat env f typ val) ∧
    (∀ (env : Value.Env) (old : Dyn) (f : Format) (typ : Ty) (val : Dyn), f ≠ .bad →
      ValueGen.importCellG Gen.valueTable env old f typ val = Value.importCell env f typ val) ∧
    (∀ (env : Value.Env) (raw : Dyn) (f : Format) (typ : Ty),
      ValueGen.exportCellG Gen.valueTable env raw f = Value.exportVal env (.cell raw f typ)) ∧
    Gen.valueTable.formats = Format.declared.map (fun f => (f.goName, (f.ctorIdx : Int))) :=
  ⟨ValueTie.table_known, ValueTie.import_as_modelled, ValueTie.importCell_as_modelled,
   ValueTie.export_as_modelled, ValueTie.formats_as_modelled⟩


/-! ### The last sentence over whole histories (Proofs/TypedHistory)

`DeclKept t row`: every column the template declares is still in the row with its format and raw
type; `TypedAt t row`: the raw value of each such column is nil or of its declared raw type.
The operations: `ImportAtKey`, `UnmarshalJSON` (any text), `Row.Import`, `ImportAtPath`, `Set`
(any value), `CloneRow`, `Template.CreateRow`. -/

open Jl.Value Jl.TypedHistory in
/-- One import into a declared cell, accepted OR refused, of anything that is not itself a
    `jsonline.Value` cell — a nested object (a Row) included, since 5abb079: the cell keeps its
    format and raw type and holds nil or a value of that type. -/
theorem import_typed_rows_included (ext : Ext) {f : Format} {ty : Ty} {x : Dyn} {c' : Val}
    {e : Option ErrClass} (hx : NoCellVal x)
    (h : importCell ⟨genTables, ext⟩ f ty x = .ok (c', e)) :
    ∃ raw', c' = .cell raw' f ty ∧ RawTyped ty raw' :=
  importCell_spec ext hx h

open Jl.Value Jl.Template Jl.TypedHistory in
/-- Reading a line with a template (accepted or rejected, ANY text): every declared column keeps
    its declaration and holds nil or a value of its raw type. -/
theorem row_read_with_a_template_is_typed (ext : Ext) {t : Tmpl} (hnd : (OMap.keys t).Nodup)
    (hp : NilProtos t) {line : Bytes} {row : RowV} {e : Option ErrClass}
    (h : getRow ⟨genTables, ext⟩ t line = .ok (row, e)) : DeclKept t row ∧ TypedAt t row :=
  getRow_typed ext hnd hp h

open Jl.Value Jl.Template Jl.TypedHistory in
/-- …and it stays so through ANY history of the mutators applied to a row the template created:
    every state reached keeps every declaration and is typed.  `NoValueArg`: the API arguments
    are not `jsonline.Value` cells (a Value hands over its own declaration, by the API's
    contract: `Demo.iak_value_replaces_declaration`); `¬ Bare`: no `CreateRow` from a Go map,
    slice or Row, which builds cells with `NewValue` — "try to cast, else keep"
    (`Demo.createRow_gomap_untyped`); a construction, not an import. -/
theorem every_history_stays_typed (ext : Ext) {t : Tmpl} (hnd : (OMap.keys t).Nodup)
    (hp : NilProtos t) (ops : List Op) (hs : ∀ op ∈ ops, op.NoValueArg)
    (hb : ∀ op ∈ ops, ¬ op.Bare) {row₀ : RowV}
    (h0 : createRowEmpty ⟨genTables, ext⟩ t = .ok row₀) :
    ∀ r ∈ trace ⟨genTables, ext⟩ t row₀ ops, DeclKept t r ∧ TypedAt t r :=
  history_empty_typed ext hnd hp ops hs hb h0

open Jl.Value Jl.Template Jl.TypedHistory in
/-- The same from a row read from text. -/
theorem every_history_from_a_line_stays_typed (ext : Ext) {t : Tmpl}
    (hnd : (OMap.keys t).Nodup) (hp : NilProtos t) (ops : List Op)
    (hs : ∀ op ∈ ops, op.NoValueArg) (hb : ∀ op ∈ ops, ¬ op.Bare) {line : Bytes}
    {row₀ : RowV} {e : Option ErrClass} (h0 : getRow ⟨genTables, ext⟩ t line = .ok (row₀, e)) :
    ∀ r ∈ trace ⟨genTables, ext⟩ t row₀ ops, DeclKept t r ∧ TypedAt t r :=
  history_text_typed ext hnd hp ops hs hb h0

end Jl.C10
