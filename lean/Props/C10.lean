/-
  C10 — casts are total and return exactly the requested type.

  Statement (properties.jsonl): for every target type and every input of any dynamic Go type
  a cast returns without panicking either a nil error with a result that is nil exactly when
  the input is nil and otherwise of exactly the requested type, or a nil result with an error
  that wraps the package's cast-failure sentinel.

  Theorems are about `genTables` (regenerated from pkg/cast on every run).
-/
import Proofs.CastInt

namespace Jl.C10
open Jl Cast

set_option linter.unusedSimpArgs false

/-- Every sentinel of errors.go wraps the root sentinel `ErrUnableToCast` (the `%w` chain
    is read from the source). -/
theorem sentinels_wrap_root :
    ∀ p ∈ genTables.sentinels, wrapsRoot genTables.sentinels 4 p.1 = true := by
  simp [genTables, Gen.sentinels, wrapsRoot]

/-- `cast.To` with a nil target type returns the value unchanged; any target type outside
    the 18 supported ones fails with the root sentinel. -/
theorem castTo_none_and_unknown (ext : Ext) (v : Dyn) :
    castTo genTables ext .none v = .ok v ∧ castTo genTables ext .other v = .err .cast := by
  constructor <;>
  simp [castTo, genTables, Gen.dispatchTo, Gen.dispatchToDefault, evalBranch, evalE, failWith,
    Gen.sentinels, wrapsRoot]

/-- Integer targets, integer sources: the result has exactly the requested type (corollary of
    the exactness theorem of C09). -/
theorem int_result_typed (ext : Ext) (tgt src : IntTy) (v : Int) (hv : src.inRange v) (r : Dyn)
    (h : castNamed genTables ext (casterOfInt tgt) (.int src v) = .ok r) :
    typeOf r = .int tgt := by
  rw [cast_int_source genTables ext _ _ tgt src v (caster_present tgt) (int_branches_ok tgt src) hv] at h
  split at h
  · cases h; rfl
  · cases h

/-- Every one of the ten integer casters sends nil to nil. -/
theorem int_nil_to_nil (ext : Ext) (tgt : IntTy) :
    castNamed genTables ext (casterOfInt tgt) .nil = .ok .nil := by
  cases tgt <;>
  simp [castNamed, callNamed, genTables, Gen.casters, findClause, typeOf, evalBranch, casterOfInt]

/-- A value of an unsupported dynamic type (struct, pointer, named type, func, chan, …) is
    rejected by every integer caster with an error wrapping the sentinel. -/
theorem int_other_rejected (ext : Ext) (tgt : IntTy) (tag : Nat) :
    castNamed genTables ext (casterOfInt tgt) (.other tag) = .err .cast := by
  cases tgt <;>
  simp [castNamed, callNamed, genTables, Gen.casters, findClause, typeOf, evalBranch, casterOfInt,
    failWith, Gen.sentinels, wrapsRoot]

end Jl.C10
