/-
  Props.C06S — SUPPLEMENTARY theorems of property C06: the statements of Props/C06.lean carried down to lines,
  columns and bytes over the REGENERATED cast tables (Proofs/RowSerial).
  They are built and audited on every run like the others; they are kept apart because they rest on the cast
  tables, which the core statement of C06 does not: when the translator cannot READ a caster (a rewrite it does not
  recognise, reported as `unknown`), these are reported as not re-proved in the evidence while the core theorems and
  the correspondence still decide the property; when the tables are read and a theorem here no longer checks, that
  is reported as a broken obligation like any other (DESIGN §4.1).
-/
import Props.C06
import Proofs.RowSerial

namespace Jl.C06
open Jl LRow
variable {C V E : Type}

/-! ### "…and serialisation follows the same order" — on the BYTES, at every depth (`Proofs/RowSerial`) -/

open Jl.JsonQuote (sanitize) in
/-- After ANY history, with any cell operations: if the row prints, the text is an object whose member names — as a JSON
    reader delivers them — are exactly the keys of the iteration whose cell is not hidden, in iteration order, which is
    the key order of the specification (first-insertion order, no duplicates). -/
theorem serialisation_follows_iteration {E : Type} (env : Value.Env) (hx : JsonPrint.FloatTextOK env.ext)
    (ops : CellOps Val Dyn E) (hist : List (RowOp Val Dyn)) (bs : Bytes)
    (hm : RowPrint.marshalRow env (Members.ofList (RowSerial.entries (LRow.empty.run ops hist))) = .ok bs) :
    ∃ t, Json.unmarshal bs = (t, true) ∧ bs.head? = some 0x7B ∧
      LineSpec.keysOf t = (RowSerial.iterVisibleKeys (LRow.empty.run ops hist)).map sanitize ∧
      LineSpec.keysOf t = (RowPrint.visibleKeys (OMap.run ops [] hist)).map sanitize ∧
      (OMap.keys (OMap.run ops [] hist)).Nodup ∧
      (RowPrint.visibleKeys (OMap.run ops [] hist)).Sublist (OMap.keys (OMap.run ops [] hist)) :=
  RowSerial.serial_follows_iteration env hx ops hist bs hm

/-- Every depth: the skeleton of member names of the printed text (what the correspondence check observes as `js=`)
    is the skeleton of the row itself — a nested row prints ITS visible keys in ITS order, arrays keep element order, a
    Go map prints in its stored (sorted: `RowSerial.raw_row_prints_sorted`) order.  `ScalarExport`: formatted cells export
    scalars, which holds of the regenerated tables (`RowSerial.gen_scalarExport`). -/
theorem serialisation_follows_order_at_every_depth {E : Type} (env : Value.Env)
    (hx : JsonPrint.FloatTextOK env.ext) (hs : RowSerial.ScalarExport env)
    (ops : CellOps Val Dyn E) (hist : List (RowOp Val Dyn)) (bs : Bytes)
    (hm : RowPrint.marshalRow env (Members.ofList (RowSerial.entries (LRow.empty.run ops hist))) = .ok bs) :
    ∃ tree, Json.unmarshal bs = (tree, true) ∧
      RowSerial.skelMembers tree = RowSerial.deepMembers (Members.ofList (OMap.run ops [] hist)) :=
  RowSerial.serial_deep env hx hs ops hist bs hm

/-- "Replacing or re-importing an existing key never moves it": an extra Set / SetValue / ImportAtKey (by key or by
    position) on an EXISTING key leaves the key list of every later state as it would have been — provided no later step
    reports an error on either run (an `Import` of a map stops at its first error: `RowSerial` has the kernel-checked
    histories where the key lists differ otherwise). -/
theorem existing_key_never_moves (ops : CellOps C V E) (pre post : List (RowOp C V))
    (op : RowOp C V) (k : Bytes) (c : C)
    (hk : RowSerial.singleKey (LRow.empty.run ops pre) op = some k)
    (hc : (LRow.empty.run ops pre).m k = some c)
    (n₁ : RowSerial.NoErr ops (LRow.empty.run ops pre) post)
    (n₂ : RowSerial.NoErr ops ((LRow.empty.run ops pre).step ops op).1 post) :
    (LRow.empty.run ops (pre ++ op :: post)).l = (LRow.empty.run ops (pre ++ post)).l :=
  RowSerial.existing_key_never_moves ops pre post op k c hk hc n₁ n₂

end Jl.C06
