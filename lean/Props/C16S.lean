/-
  Props.C16S — SUPPLEMENTARY theorems of property C16: the statements of Props/C16.lean carried down to lines,
  columns and bytes over the REGENERATED cast tables (Proofs/LineAccept).
  They are built and audited on every run like the others; they are kept apart because they rest on the cast
  tables, which the core statement of C16 does not: when the translator cannot READ a caster (a rewrite it does not
  recognise, reported as `unknown`), these are reported as not re-proved in the evidence while the core theorems and
  the correspondence still decide the property; when the tables are read and a theorem here no longer checks, that
  is reported as a broken obligation like any other (DESIGN §4.1).
-/
import Props.C16
import Proofs.LineAccept

namespace Jl.C16
open Jl Jl.Value Jl.Template

/-! ### With a TEMPLATE: accepted iff one JSON object whose declared columns convert (`Proofs/LineAccept`)

  `LineAccept.ConvertsAll env ti line` folds the members the reader delivers, in order, through the import of each into
  the cell the row holds under its name at that moment (a declared column: `Value.Import` under the column's
  descriptor; an undeclared name: an Auto cell), and says that none reports an error. -/

/-- The property itself for a templated importer, any environment: `GetRow` accepts a line IFF it is exactly one JSON
    object (the RFC 8259 grammar over bytes) AND its declared columns convert. -/
theorem templated_accept_iff (env : Env) (ti : Tmpl) (line : Bytes) :
    (∃ r, getRow env ti line = .ok (r, none)) ↔
      Grammar.IsObjectText line ∧ LineAccept.ConvertsAll env ti line = true :=
  LineAccept.getRow_accepts_iff env ti line

/-- "Declared columns convert", spelled out over the regenerated tables for templates of distinct column names (what
    builder calls make): for EVERY member `(k, v)` of the object — repeated names included — and every declared column
    `k : (f, ty)`, the import of `v` under `(f, ty)` reports no error.  (A value never changes a column's declaration,
    `LineAccept.descAt_step`; undeclared names always convert.) -/
theorem converts_all_iff (ext : Ext) (ti : Tmpl) (line : Bytes)
    (hnd : (OMap.keys ti).Nodup) (hp : LineAccept.Proto ti) :
    LineAccept.ConvertsAll ⟨genTables, ext⟩ ti line = true ↔
      ∀ k v, (k, v) ∈ (Json.unmarshal line).1.toList →
        ∀ f ty, OMap.lookup ti k = some (.cell .nil f ty) →
          LineAccept.ImportsOK ⟨genTables, ext⟩ f ty (LineAccept.dynOf ext v) :=
  LineAccept.gen_convertsAll_iff ext ti line hnd hp

/-- Through importer AND exporter: a line is emitted IFF it is one JSON object, its declared columns convert, and every
    visible cell of the exporter's row renders (any environment). -/
theorem line_emitted_iff (env : Env) (ti to : Tmpl) (line : Bytes) :
    (∃ b, jlLine env ti to line = .ok (b, none)) ↔
      Grammar.IsObjectText line ∧ LineAccept.ConvertsAll env ti line = true ∧
        LineAccept.RendersAll env to (LineAccept.importedRow env ti line) = true :=
  LineAccept.jlLine_accepts_iff env ti to line

/-- …and in every other case NOTHING is written: over the regenerated tables the outcome of a line is one line written,
    or an error with zero bytes, or the model's abstention (a standard-library answer it was not given) — never a
    panic. -/
theorem line_outcomes (ext : Ext) (ti to : Tmpl) (line : Bytes) :
    (∃ body, jlLine ⟨genTables, ext⟩ ti to line = .ok (body ++ [0x0A], none)) ∨
      (∃ e, jlLine ⟨genTables, ext⟩ ti to line = .ok ([], some e)) ∨
      jlLine ⟨genTables, ext⟩ ti to line = .err .ext :=
  LineAccept.gen_jlLine_cases ext ti to line

end Jl.C16
