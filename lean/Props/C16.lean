/-
  C16 — a line is accepted iff it is exactly one valid JSON object.

  Statement (properties.jsonl): a line is accepted if and only if it is exactly one
  syntactically valid JSON object, optionally surrounded by whitespace, whose declared columns
  convert; any other text — invalid JSON, a non-object value, trailing content after the
  object, a truncated object, an empty line — is rejected with an error.  A rejected line
  yields no output line and no partially filled row.

  Model: Model.JsonRead (json.Decoder in token mode + row.go's parser), Model.Value
  (import into declared columns), Model.Template.getRow / jlLine.  Specification:
  Model.JsonGrammar (RFC 8259 at byte level).
-/
import Model.Template
import Model.JsonGrammar
import Proofs.JsonAccept
import Proofs.FlowTieImport
import Proofs.RowTieText

namespace Jl.C16
open Jl Jl.Value Jl.Template

/-- A line whose text is not accepted by the reader is reported as an error, whatever the
    template: acceptance of the row requires acceptance of the text. -/
theorem syntax_error_reported (env : Env) (row : List (Bytes × Val)) (text : Bytes)
    (o : List (Bytes × Val)) (h : unmarshalInto env row text = .ok (o, none)) :
    Json.accepts text = true := by
  unfold unmarshalInto at h
  simp only [Json.accepts]
  generalize Json.unmarshal text = u at h
  obtain ⟨ms, accepted⟩ := u
  simp only at h
  split at h
  · split at h
    · cases h
    · rename_i o' _
      simp only [Outcome.ok.injEq, Prod.mk.injEq] at h
      by_cases ha : accepted = true
      · exact ha
      · simp [ha] at h
    · cases h
    · cases h
  · cases h
  · cases h

/-- A rejected line yields no output line: nothing is handed to the writer. -/
theorem rejected_line_writes_nothing (env : Env) (ti to : Tmpl) (line : Bytes)
    (row : List (Bytes × Val)) (e : ErrClass) (h : getRow env ti line = .ok (row, some e)) :
    jlLine env ti to line = .ok ([], some e) := by
  simp [jlLine, h]

/-- C16, the equivalence: for EVERY byte string, the reader accepts the text if and only if it
    is exactly one RFC 8259 JSON object optionally surrounded by whitespace (both directions;
    completeness includes that the parser's fuel suffices). -/
theorem accepted_iff_one_json_object (bs : Bytes) :
    Json.accepts bs = true ↔ Grammar.IsObjectText bs :=
  JsonAcc.accepts_iff bs

/-- … so every other text is rejected: invalid JSON, a non-object value, trailing content,
    a truncated object, an empty or blank line. -/
theorem rejected_iff_not_one_json_object (bs : Bytes) :
    Json.accepts bs = false ↔ ¬ Grammar.IsObjectText bs :=
  JsonAcc.rejects_iff bs

/-- With a template: a line is accepted only if its text is one JSON object (and then its
    declared columns converted: `unmarshalInto` returned no error). -/
theorem accepted_row_implies_object_text (env : Env) (row o : List (Bytes × Val)) (text : Bytes)
    (h : unmarshalInto env row text = .ok (o, none)) : Grammar.IsObjectText text :=
  (JsonAcc.accepts_iff text).mp (syntax_error_reported env row text o h)

/-! Rejections and acceptances by kernel evaluation of the reader model on the texts named
    in the property (examples, not the theorem: the equivalence with the grammar for every
    byte string is `Proofs.JsonAccept.accepts_iff`). -/
example : Json.accepts [] = false := by rfl                                   -- empty line
example : Json.accepts [0x20] = false := by rfl                               -- blank line
example : Json.accepts [0x7B, 0x7D] = true := by rfl                          -- {}
example : Json.accepts [0x20, 0x7B, 0x20, 0x7D, 0x20] = true := by rfl        -- " { } "
example : Json.accepts [0x5B, 0x31, 0x5D] = false := by rfl                   -- [1]: not an object
example : Json.accepts [0x31] = false := by rfl                               -- 1
example : Json.accepts [0x7B, 0x7D, 0x7B, 0x7D] = false := by rfl             -- {}{}: trailing content
example : Json.accepts [0x7B, 0x7D, 0x20, 0x78] = false := by rfl             -- {} x
example : Json.accepts [0x7B] = false := by rfl                               -- {: truncated
example : Json.accepts [0xEF, 0xBB, 0xBF, 0x7B, 0x7D] = false := by rfl       -- BOM

/-! ### The reader of the model is the source's (Proofs/FlowTieImport, Proofs/RowTieText) -/

/-- As written today: `GetRow` is the model's `getRow`; `UnmarshalJSON` reads numbers as literals
    (`UseNumber`), wants `{`, the members through `parseobject` until `}`, and then ONLY the end of
    the input; nested objects and arrays go element by element through `handledelim`. -/
theorem reader_model_is_the_source :
    (∀ (env : Value.Env) (t : Template.Tmpl) (line : Bytes),
      FlowTie.getRowG Gen.flowTable.getRow Gen.flowTable.createRowEmpty env t line =
        some (Template.getRow env t line)) ∧
    Gen.rowFacts.unmarshal = [.newDecoder true, .openDelim 0x7B, .members "parseobject", .onlyEOF] ∧
    (∃ k, Gen.rowFacts.parseObject = .whileMore "handledelim" k 0x7D) ∧
    Gen.rowFacts.parseArray = .whileMore "handledelim" 0x5D :=
  ⟨FlowTie.getRow_is_getRow, RowTie.unmarshal_as_modelled.1, RowTie.unmarshal_as_modelled.2.1,
   RowTie.unmarshal_as_modelled.2.2.1⟩

end Jl.C16
