/-
  C04 — a declared column is emitted in its format's JSON class or the line is rejected.

  Statement (properties.jsonl): for every declared column the emitted member is null or a JSON
  value of the lexical class of the column's output format — string; number; true/false;
  canonical padded base64 string; YYYY-MM-DD; RFC 3339 date-time; integer — whatever the JSON
  type of the input and whatever raw type is declared.  When the input value cannot be
  converted the line is rejected with an error instead of being emitted with a value of
  another class; columns of declared sub-rows are enforced in the same way [FALSE of the
  code: known finding `subrow-flatten`].

  Proved per format over the regenerated cast tables, for every raw value: string, numeric,
  boolean, timestamp (`scalar_formats_typed`), binary (`binary_is_canonical_base64`), date
  (`date_column_class`), datetime (`datetime_column_class`); auto and hidden have no class.
-/
import Model.LineSpec
import Proofs.CastTyped
import Proofs.Base64
import Proofs.TimeShape
import Proofs.LineLevel
import Proofs.RoundTrip
import Proofs.ValueTie
import Proofs.ExportText
import Proofs.FlowTie
import Proofs.FlowTieBuilders

namespace Jl.C04
open Jl Jl.Value Cast CastTyped

/-- A nil raw value is emitted as null whatever the format. -/
theorem nil_exports_nil (env : Env) (f : Format) (typ : Ty) :
    exportVal env (.cell .nil f typ) = .ok .nil := by
  simp [exportVal]

/-- Binary columns: whatever is emitted is the standard base64 encoding of some bytes —
    canonical and padded by construction (`decode (encode b) = b`, and `encode` is the only
    producer of the text). -/
theorem binary_is_canonical_base64 (env : Env) (raw : Dyn) (typ : Ty) (e : Dyn)
    (h : exportVal env (.cell raw .binary typ) = .ok e) :
    e = .nil ∨ ∃ b, e = .str (Base64.encode b) ∧ LineSpec.isCanonicalBase64 (Base64.encode b) = true := by
  cases raw with
  | nil => left; simpa [exportVal] using h.symm
  | _ =>
    right
    simp only [exportVal] at h
    split at h
    · rename_i b _
      cases h
      exact ⟨b, rfl, by simp [LineSpec.isCanonicalBase64, Base64.decode_encode]⟩
    · cases h
    · rename_i o _ _
      cases o <;> simp_all

/-- For a non-nil raw value the scalar formats export through exactly one caster. -/
theorem export_scalar_formats (env : Env) (raw : Dyn) (typ : Ty) (hraw : raw ≠ .nil) :
    exportVal env (.cell raw .string typ) = exportFail (castNamed env.T env.ext "ToString" raw) ∧
    exportVal env (.cell raw .numeric typ) = exportFail (castNamed env.T env.ext "ToNumber" raw) ∧
    exportVal env (.cell raw .boolean typ) = exportFail (castNamed env.T env.ext "ToBool" raw) ∧
    exportVal env (.cell raw .timestamp typ) = exportFail (castNamed env.T env.ext "ToTimestamp" raw) := by
  cases raw <;> simp [exportVal] at hraw ⊢

/-- String, numeric, boolean and timestamp columns of the current tables: the exported value
    has exactly the Go type whose JSON encoding is the format's class (string → string,
    json.Number → number literal validated at marshal time, bool → true/false,
    int64 → integer) — corollary of C10's typing theorem. -/
theorem scalar_formats_typed (ext : Ext) (raw e : Dyn) (typ : Ty) (hraw : raw ≠ .nil) :
    (exportVal ⟨genTables, ext⟩ (.cell raw .string typ) = .ok e → typeOf e = .str) ∧
    (exportVal ⟨genTables, ext⟩ (.cell raw .numeric typ) = .ok e → typeOf e = .num) ∧
    (exportVal ⟨genTables, ext⟩ (.cell raw .boolean typ) = .ok e → typeOf e = .bool) ∧
    (exportVal ⟨genTables, ext⟩ (.cell raw .timestamp typ) = .ok e → typeOf e = .int .i64) := by
  have key : ∀ name, name ∈ casterNames → ∀ want, resultTyOfCaster? name = some want →
      exportFail (castNamed genTables ext name raw) = .ok e → typeOf e = want := by
    intro name hn want hw h
    generalize hc : castNamed genTables ext name raw = o at h
    cases o with
    | ok r =>
      simp only [exportFail] at h
      cases h
      have := (gen_cast_typed ext name hn raw e hc).2 hraw
      rw [hw] at this
      exact (Option.some.inj this)
    | err x => cases x <;> simp [exportFail] at h
    | panic _ => simp [exportFail] at h
  obtain ⟨h1, h2, h3, h4⟩ := export_scalar_formats ⟨genTables, ext⟩ raw typ hraw
  refine ⟨?_, ?_, ?_, ?_⟩
  · rw [h1]; exact key "ToString" (by decide) _ rfl
  · rw [h2]; exact key "ToNumber" (by decide) _ rfl
  · rw [h3]; exact key "ToBool" (by decide) _ rfl
  · rw [h4]; exact key "ToTimestamp" (by decide) _ rfl

/-- A number literal that is not a valid JSON number never marshals: the line is rejected. -/
theorem invalid_number_rejected (env : Env) (l : Bytes) (h1 : l ≠ []) (h2 : JsonWrite.isValidNumber l = false) :
    RowPrint.marshalDyn env (.num l) = .err .marshal := by
  cases l with
  | nil => exact absurd rfl h1
  | cons c r => unfold RowPrint.marshalDyn; simp [h2]

/-! ### Date and date-time columns (`Proofs/TimeShape.lean`) -/

/-- A `date` column emits null or a string of the form YYYY-MM-DD — for every raw value of every
    type, every declared raw type and every zone function: times are guarded to years 0..9999,
    integers go through the time branch, a string is handed back only after the 2006-01-02 parser
    accepted it, everything else delegates or fails. -/
theorem date_column_class (ext : Ext) (raw : Dyn) (typ : Ty) (e : Dyn)
    (h : exportVal ⟨genTables, ext⟩ (.cell raw .date typ) = .ok e) :
    e = .nil ∨ ∃ s, e = .str s ∧ LineSpec.isDateText s = true :=
  TimeShape.date_column_class ext raw typ e h

/-- A `datetime` column emits null or an RFC 3339 date-time, provided zone offsets stay below 100 h
    (the zone function's answers and the offset of a raw `time.Time`; text sources are bounded by
    the parser). The bound is needed: Go's `Z07:00` prints the offset hour without clamping
    (`TimeShape.datetime_raw_offset_bound_needed`). -/
theorem datetime_column_class (ext : Ext) (raw : Dyn) (typ : Ty) (e : Dyn)
    (hext : ∀ sec off, ext.zoneOffset sec = some off → off.natAbs < 360000)
    (hraw : ∀ t, raw = .time t → t.off.natAbs < 360000)
    (h : exportVal ⟨genTables, ext⟩ (.cell raw .datetime typ) = .ok e) :
    e = .nil ∨ ∃ s, e = .str s ∧ LineSpec.isDateTimeText s = true :=
  TimeShape.datetime_column_class ext raw typ e hext hraw h

/-- All declared scalar formats at once, in the words of the oracle (`LineSpec.inClass` on the JSON
    image of the exported value is decided on every generated case; here: the exported Go value has
    the type / text shape whose JSON encoding is the class). -/
example : exportVal ⟨genTables, Ext.empty⟩ (.cell (.time ⟨0, 0, 0⟩) .date .time) =
    .ok (.str [0x31,0x39,0x37,0x30,0x2D,0x30,0x31,0x2D,0x30,0x31]) := TimeShape.date_column_epoch

/-- Member names of a tree the reader delivered are fixed by the escaper. -/
private theorem keys_fixed_of_reader : ∀ (t : JVMembers), RoundTrip.ReaderStrings t →
    ∀ k ∈ t.toList.map Prod.fst, JsonQuote.sanitize k = k
  | .nil, _, k, hk => by simp [JVMembers.toList] at hk
  | .cons k0 v ms, h, k, hk => by
    simp only [RoundTrip.ReaderStrings, RoundTrip.AllM] at h
    simp only [JVMembers.toList, List.map_cons, List.mem_cons] at hk
    rcases hk with rfl | hk
    · exact h.1
    · exact keys_fixed_of_reader ms h.2.2 k hk

/-! ### On the emitted bytes (`Proofs/LineLevel`) -/

open Jl.JsonQuote (sanitize) in
open Jl.Template in
/-- C04 for one exported cell, every format at once, in the words of the oracle: the JSON value
    the reader delivers for the member is in the lexical class of the column's format
    (`LineSpec.inClass`), for every raw value, raw type and standard-library parameter — for a
    date-time column provided zone offsets and the offset of a raw `time.Time` stay below 100 h. -/
theorem member_in_class (ext : Ext) (raw : Dyn) (f : Format) (typ : Ty) (e : Dyn)
    (he : exportVal ⟨genTables, ext⟩ (.cell raw f typ) = .ok e)
    (hdt : f = .datetime → TimeShape.ZoneOK ext ∧ TimeShape.TimeSrcOK raw) :
    LineSpec.inClass f (JsonPrint.treeVal ⟨genTables, ext⟩ (.cell raw f typ)) = true :=
  LineLevel.member_in_class ext raw f typ e he hdt

open Jl.JsonQuote (sanitize) in
open Jl.Template in
/-- C04 on the BYTES of an emitted line, in the words of the oracle the correspondence check
    applies to the implementation's output: for every input text accepted by `jlLine` over the
    regenerated cast tables, templates declaring the same distinct well-formed-UTF-8 names (as
    every `jl` definition does), the line is an object text and a newline and
    `LineSpec.classViolation` finds nothing in the object a JSON reader delivers for it.
    `hdt` (zone offsets below 100 h, prototype cells holding no wilder `time.Time`) is asked only
    when the output template has a date-time column; `LineLevel.Zone.zone_bound_needed` and
    `LineLevel.Clash.separation_needed` show that neither it nor the UTF-8 condition can go. -/
theorem emitted_bytes_in_class (ext : Ext) (ti to : Tmpl) (line b : Bytes) (fuel : Nat)
    (h : jlLine ⟨genTables, ext⟩ ti to line = .ok (b, none)) (hx : JsonPrint.FloatTextOK ext)
    (hto : (OMap.keys to).Nodup) (hperm : (OMap.keys ti).Perm (OMap.keys to))
    (hutf : ∀ k ∈ OMap.keys to, sanitize k = k)
    (hdt : (∃ kv ∈ to, Cells.format kv.2 = .datetime) → LineLevel.DateTimeSide ext ti to) :
    ∃ body t, b = body ++ [0x0A] ∧ Json.unmarshal body = (t, true) ∧
      LineSpec.classViolation fuel (LineLevel.leafCols to) t = none := by
  refine LineLevel.emitted_line_classes_same_names ext ti to line b fuel h hx hto hperm hutf ?_ hdt
  intro k hk
  have hrs := RoundTrip.reader_strings (line := line) (t := (Json.unmarshal line).1)
    (b := (Json.unmarshal line).2) rfl
  exact keys_fixed_of_reader _ hrs k hk

/-! ### The model of `value.go` is REGENERATED (`extract/value.go` → `Gen.ValueTable`, `Proofs/ValueTie`)

  `value.Import`, `value.Export`, `NewValue`, `CloneValue` and the fourteen functions of `conversions_import.go` /
  `conversions_export.go` are read from the source on every run (symbolic execution format by format, classified into
  the small syntax of `Model.ValueSyntax`) and interpreted by `Model.ValueGen`.  The theorems of this file are about
  the hand-written `Model.Value`; this one says that `Model.Value` IS that interpretation of today's source, so a
  change of the source (another caster for a format, a layout instead of `cast.ToString`, a dropped nil check, a Row
  accepted by another format, another sentinel, renumbered formats …) stops it from compiling. -/
theorem value_model_is_the_source :
    (Gen.valueTable.known = true ∧ Gen.valueTable.importPreamble = .asModelled ∧
      Gen.valueTable.exportPreamble = .asModelled ∧ Gen.valueTable.newValue = .asModelled ∧
      Gen.valueTable.cloneValue = .asModelled) ∧
    (∀ (env : Value.Env) (f : Format) (typ : Ty) (val : Dyn),
      ValueGen.importByFormatG Gen.valueTable env f typ val = Value.importByFormat env f typ val) ∧
    (∀ (env : Value.Env) (old : Dyn) (f : Format) (typ : Ty) (val : Dyn), f ≠ .bad →
      ValueGen.importCellG Gen.valueTable env old f typ val = Value.importCell env f typ val) ∧
    (∀ (env : Value.Env) (raw : Dyn) (f : Format) (typ : Ty),
      ValueGen.exportCellG Gen.valueTable env raw f = Value.exportVal env (.cell raw f typ)) ∧
    Gen.valueTable.formats = Format.declared.map (fun f => (f.goName, (f.ctorIdx : Int))) :=
  ⟨ValueTie.table_known, ValueTie.import_as_modelled, ValueTie.importCell_as_modelled,
   ValueTie.export_as_modelled, ValueTie.formats_as_modelled⟩

/-! ### The text route (`Exporter.Export` / `CreateRow` given JSON text): classes on the bytes (`Proofs/ExportText`) -/

open Jl.JsonQuote (sanitize) in
open Jl.Template in
/-- For text handed straight to `Export` over the regenerated tables: the line is an object text and a newline and
    `LineSpec.classViolation` finds nothing in the object read back from it — whatever the text holds under a declared
    name, the member is in its format's class or the line is rejected.  (Distinct names the escaper leaves alone; the
    zone bound when the template has a date-time column.)  Here the cell comes from `Import` under the OUTPUT
    descriptor, so its raw value is typed (`ExportText.text_cell_typed`): the `swallowed-cast` route does not exist. -/
theorem text_route_in_class (ext : Ext) (to : Tmpl) (line b : Bytes) (fuel : Nat)
    (h : exportLine ⟨genTables, ext⟩ to (.str line) = .ok (b, none)) (hx : JsonPrint.FloatTextOK ext)
    (hto : (OMap.keys to).Nodup) (hutf : ∀ k ∈ OMap.keys to, sanitize k = k)
    (hdt : (∃ kv ∈ to, Cells.format kv.2 = .datetime) → ExportText.DateTimeSideText ext to) :
    ∃ body t, b = body ++ [0x0A] ∧ Json.unmarshal body = (t, true) ∧
      LineSpec.classViolation fuel (LineLevel.leafCols to) t = none :=
  ExportText.text_bytes_in_class ext to line b fuel h hx hto hutf hdt

open Jl.Template in
/-- The two routes DIFFER on the same text and output template — kernel-checked: under `c: string(int)` the text
    `{"c":""}` is rejected by the text route (the import under the output descriptor fails) and emitted by the
    importer→exporter route (`NewValue` swallows the failed cast: the known finding `swallowed-cast` of C05). -/
theorem text_route_differs_from_importer_route :
    exportLine ExportText.Swallowed.env ExportText.Swallowed.to (.str ExportText.Swallowed.line) =
      .ok ([], some .unsupportedImport) ∧
    jlLine ExportText.Swallowed.env [] ExportText.Swallowed.to ExportText.Swallowed.line =
      .ok (ExportText.Swallowed.line ++ [0x0A], none) :=
  ⟨ExportText.Swallowed.routes_differ.1, ExportText.Swallowed.routes_differ.2.1⟩


/-! ### The template builders are the source's (Proofs/FlowTie) -/

/-- Every `With<Format>`, `WithMapped<Format>` and `With` of `template.go`, as written today,
    declares the column the model's `withCol` declares: the format the method is named after (or
    given), the raw type given (or none). -/
theorem builders_are_the_source :
    (∀ (env : Value.Env) (f : Format), f ≠ .bad → ∀ (t : Template.Tmpl) (name : Bytes)
        (fp : Format) (tp : Ty) (sub : Template.Tmpl),
      FlowTie.runBuilder env ("With" ++ f.goName) t name fp tp sub =
        some (.ok (Template.withCol t name f .none))) ∧
    (∀ (ext : Ext) (f : Format), f ≠ .bad → f ≠ .hidden → ∀ (t : Template.Tmpl) (name : Bytes)
        (fp : Format) (typ : Ty) (sub : Template.Tmpl),
      FlowTie.runBuilder ⟨genTables, ext⟩ ("WithMapped" ++ f.goName) t name fp typ sub =
        some (.ok (Template.withCol t name f typ))) ∧
    (∀ (ext : Ext) (t : Template.Tmpl) (name : Bytes) (f : Format) (typ : Ty)
        (sub : Template.Tmpl),
      FlowTie.runBuilder ⟨genTables, ext⟩ "With" t name f typ sub =
        some (.ok (Template.withCol t name f typ))) :=
  ⟨fun env f hf t name fp tp sub => FlowTie.plain_builder_is_withCol env f hf t name fp tp sub,
   fun ext f hf hh t name fp typ sub => FlowTie.mapped_builder_is_withCol ext f hf hh t name fp typ sub,
   FlowTie.with_is_withCol⟩

end Jl.C04
