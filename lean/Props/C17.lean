/-
  C17 — no public operation panics or crashes, whatever the key, index, path or data.

  Statement (properties.jsonl): no public operation of rows, values, templates, importers,
  exporters or streamers panics or crashes the process, for any key (present or absent),
  index, path, stored value or input line within the size limit.  Absent or unconvertible
  data are reported through the operation's own channel — false, nil, a zero value or an
  error.

  Two ties: (1) the regenerated inventory of panic-capable sites of pkg/jsonline and pkg/cast
  (Gen.Sites: single-value type assertions, index and slice expressions, explicit panics,
  reflect calls) equals the list below, each entry with the reason it cannot fire — a new
  unchecked assertion or index expression in the source re-opens `sites_accounted`;
  (2) the models return `Outcome`, in which a panic is an outcome: the theorems show that no
  modelled operation — import, export, parse, print, CreateRow, GetRow, Export, ImportAtPath,
  Stream — ever produces it, for any argument.  Stack exhaustion and runtime crashes cannot be
  exhibited by the model (harness only, nesting depth 10^4 as in the property).
-/
import Model.Template
import Gen.Sites
import Proofs.CastTyped
import Proofs.NoPanic
import Model.Getters
import Proofs.MapTo
import Proofs.GettersExact
import Proofs.RowTieGetters

namespace Jl.C17
open Jl Jl.Value Cast CastTyped

/-- The panic-capable sites of pkg/jsonline and why none can fire. -/
def expectedSites : List (String × String × Nat) := [
  ("LcFirst", "slice", 1),              -- str[i+1:] with i the index of the first rune: i+1 ≤ len(str)
  ("exportToBinary", "assert", 1),      -- b.([]byte) on ToBinary's result for a non-nil value: typed by C10
  ("handledelim", "assert", 1),         -- NewRow().(*row): NewRow returns a *row
  ("importFromBinary", "assert", 1),    -- str.(string) on ToString's result for a non-nil value: typed by C10
  ("row.FindValuesAtPath", "index", 3), -- keys[0] (SplitN yields ≥ 1 element); keys[1] twice, after len(keys) == 1 returned
  ("row.MapTo", "assert", 3),           -- i.(int64|uint64|float64) on ToInt64/ToUint64/ToFloat64 of a value of that family: typed by C10
  ("row.MapTo", "reflect:CanFloat", 1),
  ("row.MapTo", "reflect:CanInt", 1),
  ("row.MapTo", "reflect:CanSet", 1),
  ("row.MapTo", "reflect:CanUint", 1),
  ("row.MapTo", "reflect:Elem", 3),     -- after Kind() == Ptr && !IsNil()
  ("row.MapTo", "reflect:Field", 2),    -- i < NumField()
  ("row.MapTo", "reflect:IsNil", 1),    -- after Kind() == Ptr
  ("row.MapTo", "reflect:Kind", 6),
  ("row.MapTo", "reflect:NumField", 1), -- after Elem().Kind() == Struct
  ("row.MapTo", "reflect:SetBool", 1),  -- each setter after CanSet() and the matching kind test
  ("row.MapTo", "reflect:SetBytes", 1),
  ("row.MapTo", "reflect:SetFloat", 1),
  ("row.MapTo", "reflect:SetInt", 1),
  ("row.MapTo", "reflect:SetString", 1),
  ("row.MapTo", "reflect:SetUint", 1),
  ("row.MapTo", "reflect:Type", 2),
  ("row.MarshalJSON", "index", 1),      -- res[len(res)-1] under len(res) > 1
  ("row.SetValueAtPath", "panic", 1)    -- unexported method of the unexported type, not in the Row interface: unreachable
]

/-- The panic-capable sites of pkg/cast and why none can fire. -/
def expectedCastSites : List (String × String × Nat) := [
  ("ToBinary", "index", 1),             -- b[idx] with idx ranging over b
  ("ToBinary", "reflect:Elem", 1),      -- Type().Elem() after Kind() == Array
  ("ToBinary", "reflect:Index", 1),     -- idx < Len()
  ("ToBinary", "reflect:Kind", 2),
  ("ToBinary", "reflect:Len", 1),       -- after Kind() == Array
  ("ToBinary", "reflect:Type", 1),
  ("ToBinary", "reflect:Uint", 1),      -- after Elem().Kind() == Uint8
  ("boolFromBytes", "index", 1),        -- bytes[0] after len(bytes) == 1
  ("boolToBytes", "index", 1),          -- bytes[0] of make([]byte, 1)
  ("int8FromBytes", "index", 1),
  ("int8ToBytes", "index", 1),
  ("uint8FromBytes", "index", 1),
  ("uint8ToBytes", "index", 1)
]

/-- Every site of the regenerated inventory is an accounted one, with at most the accounted number of
    occurrences in that function (a site that disappears from the source needs no new argument; a
    new one, or one more occurrence, re-opens this). -/
def accounted (gen expected : List (String × String × Nat)) : Bool :=
  gen.all fun s => expected.any fun e => e.1 == s.1 && e.2.1 == s.2.1 && s.2.2 ≤ e.2.2

/-- The regenerated inventory is accounted for (re-decided on every run). -/
theorem sites_accounted :
    accounted Gen.sites expectedSites = true ∧ accounted Gen.castSites expectedCastSites = true := by
  constructor <;> decide

/-- …and the accounted list is not padded: on the pinned source it IS the inventory. -/
example : expectedSites.length = 24 ∧ expectedCastSites.length = 13 := by decide

/-- `NewValue` never panics (casts are total: C10). -/
theorem newValue_no_panic (ext : Ext) (v : Dyn) (f : Format) (typ : Ty) (s : String) :
    newValue ⟨genTables, ext⟩ v f typ ≠ .panic s := by
  unfold newValue
  intro h
  split at h
  · cases h
  · cases h
  · cases h
  · rename_i s' hp
    exact gen_castTo_no_panic ext typ v s' hp

/-- `Set` on an existing key never panics. -/
theorem setExisting_no_panic (ext : Ext) (c : Val) (x : Dyn) (s : String) :
    setExisting ⟨genTables, ext⟩ c x ≠ .panic s := by
  unfold setExisting
  intro h
  simp only at h
  split at h
  · exact newValue_no_panic ext _ _ _ s h
  · cases h
  · exact newValue_no_panic ext _ _ _ s h
  · rename_i s' hp
    exact gen_castTo_no_panic ext _ x s' hp

/-- `CloneValue` (hence `CloneRow`, `CreateRowEmpty`) never panics. -/
theorem cloneValue_no_panic (ext : Ext) (v : Val) (s : String) :
    cloneValue ⟨genTables, ext⟩ v ≠ .panic s :=
  newValue_no_panic ext _ _ _ s

/-! ### The sixteen typed getters (`Model/Getters.lean`; defect F-C17a was their single-value assertions) -/

theorem getter_zero_typed : ∀ e ∈ Getters.table, typeOf (Getters.zeroOf e.2.2) = e.2.2 := by decide

theorem getter_casters_known : ∀ e ∈ Getters.table, e.2.1 ∈ casterNames := by decide

theorem lookup_mem {name : String} {c : String} {ty : Ty} (h : Getters.table.lookup name = some (c, ty)) :
    (name, c, ty) ∈ Getters.table := by
  have : ∀ (l : List (String × String × Ty)), l.lookup name = some (c, ty) → (name, c, ty) ∈ l := by
    intro l
    induction l with
    | nil => intro h; simp [List.lookup] at h
    | cons hd tl ih =>
      intro h
      obtain ⟨a, b⟩ := hd
      simp only [List.lookup] at h
      split at h
      · rename_i heq
        have : name = a := by simpa using heq
        cases h; subst this; simp
      · exact List.mem_cons_of_mem _ (ih h)
  exact this _ h

/-- Every typed getter, on every row and key: never a panic, and a result of exactly the getter's
    type — the cast of the stored raw value, or the zero value. -/
theorem getter_total_and_typed (ext : Ext) (name caster : String) (ty : Ty)
    (h : Getters.table.lookup name = some (caster, ty)) (row : List (Bytes × Val)) (k : Bytes) :
    ∃ o, Getters.typedGet ⟨genTables, ext⟩ name row k = some o ∧
      match o with
      | .ok r => typeOf r = ty
      | .err e => e = .ext
      | .panic _ => False := by
  have hm := lookup_mem h
  have hz : typeOf (Getters.zeroOf ty) = ty := getter_zero_typed _ hm
  have hc : caster ∈ casterNames := getter_casters_known _ hm
  unfold Getters.typedGet
  rw [h]
  refine ⟨_, rfl, ?_⟩
  cases hr : castNamed genTables ext caster (Getters.getOrNil row k) with
  | ok r =>
    simp only
    by_cases hb : (typeOf r == ty) = true
    · simp only [hb, if_true]; simpa using hb
    · simp only [hb]; exact hz
  | err e =>
    cases e <;> simp [hz]
  | panic s => exact absurd hr (gen_cast_no_panic ext caster hc _ s)

/-! ### Every modelled public operation, for every argument (`Proofs/NoPanic.lean`)

The models return `Outcome`, in which a panic is an outcome guarded by the condition under
which the Go code would panic (the single-value type assertions of `importFromBinary` and
`exportToBinary`, the little-endian put/get on short buffers). None is reachable over the
casters of the current source. -/

open Jl.Template Jl.Stream in
/-- `Value.Import` / `Row.Import*` (any nesting of rows, slices and maps). -/
theorem import_no_panic (ext : Ext) (c : Val) (x : Dyn) (s : String) :
    importVal ⟨genTables, ext⟩ c x ≠ .panic s := NoPanic.importVal_no_panic ext c x s

/-- `Value.Export` / `Row.Export`. -/
theorem export_no_panic (ext : Ext) (v : Val) (s : String) :
    exportVal ⟨genTables, ext⟩ v ≠ .panic s := NoPanic.exportVal_no_panic ext v s

/-- `Row.UnmarshalJSON` of any text into any row. -/
theorem unmarshal_no_panic (ext : Ext) (o : List (Bytes × Val)) (text : Bytes) (s : String) :
    unmarshalInto ⟨genTables, ext⟩ o text ≠ .panic s := NoPanic.unmarshalInto_no_panic ext o text s

/-- `Row.MarshalJSON` of any row. -/
theorem marshal_no_panic (ext : Ext) (ms : Members) (s : String) :
    RowPrint.marshalRow ⟨genTables, ext⟩ ms ≠ .panic s := NoPanic.marshalRow_no_panic ext ms s

/-- `Template.CreateRow` for every input kind, `CreateRowEmpty`. -/
theorem createRow_no_panic (ext : Ext) (t : Jl.Template.Tmpl) (v : Dyn) (s : String) :
    Jl.Template.createRow ⟨genTables, ext⟩ t v ≠ .panic s ∧
    Jl.Template.createRowEmpty ⟨genTables, ext⟩ t ≠ .panic s :=
  ⟨NoPanic.createRow_no_panic ext t v s, NoPanic.createRowEmpty_no_panic ext t s⟩

/-- `Importer.GetRow`, `Exporter.Export`, and one line through both as jl does. -/
theorem one_line_no_panic (ext : Ext) (ti to : Jl.Template.Tmpl) (line : Bytes) (v : Dyn) (s : String) :
    Jl.Template.getRow ⟨genTables, ext⟩ ti line ≠ .panic s ∧
    Jl.Template.exportLine ⟨genTables, ext⟩ to v ≠ .panic s ∧
    Jl.Template.jlLine ⟨genTables, ext⟩ ti to line ≠ .panic s :=
  ⟨NoPanic.getRow_no_panic ext ti line s, NoPanic.exportLine_no_panic ext to v s,
   NoPanic.jlLine_no_panic ext ti to line s⟩

/-- `Row.ImportAtPath` for every path (`GetValueAtPath` / `FindValuesAtPath` return options). -/
theorem importAtPath_no_panic (ext : Ext) (row : List (Bytes × Val)) (path : Bytes) (x : Dyn) (s : String) :
    Jl.Path.importAtPath ⟨genTables, ext⟩ row path x ≠ .panic s :=
  NoPanic.importAtPath_no_panic ext row path x s

/-- `Streamer.Stream` for every reader script (faults included), writer script and processor. -/
theorem stream_no_panic (cfg : Jl.Stream.Cfg) (hT : cfg.env.T = genTables)
    (reader : List Scanner.ReadEv) (writer : List Jl.Stream.WriteEv) (s : String) :
    Jl.Stream.stream cfg reader writer ≠ .panic s := NoPanic.stream_no_panic cfg hT reader writer s

/-! ### `Row.MapTo` — the one public operation that uses package reflect (`Model/MapTo`, `Proofs/MapTo`)

  The target is described as reflect sees it (not a pointer / nil pointer / pointer to something that is not a
  struct / pointer to a struct with fields of a kind, settable or not); the casters are called where the code calls
  them and the single-value assertions `i.(int64)`, `i.(uint64)`, `i.(float64)` ARE panic branches of the model: that
  they never fire is a theorem about the regenerated cast tables, not an assumption. -/

/-- `MapTo` never panics: for every row, every target and every `Ext`, over the regenerated tables. -/
theorem mapTo_no_panic (ext : Ext) (row : List (Bytes × Val)) (t : MapTo.Target) (s : String) :
    MapTo.mapTo genTables ext row t ≠ .panic s :=
  MapTo.mapTo_no_panic ext row t s

/-- It returns, or the model abstains — and it abstains only on a settable field whose name starts with a rune
    outside the ranges of `unicode.ToLower` that were ported (`lcFirst … = none`). -/
theorem mapTo_total (ext : Ext) (row : List (Bytes × Val)) (t : MapTo.Target) :
    (∃ t', MapTo.mapTo genTables ext row t = .ok t') ∨
      (MapTo.mapTo genTables ext row t = .err .ext ∧
        ∃ fs, t = .pointerToStruct fs ∧ ∃ f ∈ fs, f.settable = true ∧ MapTo.lcFirst f.name = none) :=
  MapTo.mapTo_total ext row t

/-- Anything but a non-nil pointer to a struct is left as it is (for ANY cast tables). -/
theorem mapTo_not_struct_untouched (T : CastTables) (ext : Ext) (row : List (Bytes × Val)) (t : MapTo.Target)
    (h : ∀ fs, t ≠ .pointerToStruct fs) : MapTo.mapTo T ext row t = .ok t :=
  MapTo.mapTo_not_struct_untouched T ext row t h

/-- A field changes only if it is settable, the row holds the key `LcFirst(name)` and the stored value's family
    matches the field's kind; name, kind and settability never change (for ANY cast tables). -/
theorem mapTo_only_matching_fields (T : CastTables) (ext : Ext) (row : List (Bytes × Val))
    (fs : List MapTo.Field) (t' : MapTo.Target) (h : MapTo.mapTo T ext row (.pointerToStruct fs) = .ok t') :
    ∃ fs', t' = .pointerToStruct fs' ∧
      MapTo.Pointwise (fun f f' => MapTo.Kept (MapTo.Matches row f) f f') fs fs' :=
  MapTo.mapTo_only_matching_fields T ext row fs t' h

/-- What a matching signed field receives: the stored integer WRAPPED at the field's width (the silent wrap-around
    of `reflect.SetInt` — stated as it is; it is not a panic). -/
theorem mapTo_int_value (ext : Ext) (row : List (Bytes × Val)) (fs fs' : List MapTo.Field)
    (h : MapTo.mapTo genTables ext row (.pointerToStruct fs) = .ok (.pointerToStruct fs'))
    (i : Nat) (hi : i < fs.length) (hi' : i < fs'.length) (ft st : IntTy) (key : Bytes) (v : Val) (x : Int)
    (hset : fs[i].settable = true) (hkind : fs[i].kind = .int ft) (hft : ft.signed = true)
    (hkey : MapTo.lcFirst fs[i].name = some key) (hv : Value.lookup row key = some v)
    (hraw : Cells.raw v = .int st x) (hst : st.signed = true) (hx : st.inRange x) :
    fs'[i] = { fs[i] with current := .int ft (ft.wrap x) } :=
  MapTo.mapTo_int_value ext row fs fs' h i hi hi' ft st key v x hset hkind hft hkey hv hraw hst hx

/-- What one field receives does not depend on the other fields of the struct. -/
theorem mapTo_field_independent (T : CastTables) (ext : Ext) (row : List (Bytes × Val))
    (fs fs' gs gs' : List MapTo.Field)
    (hf : MapTo.mapTo T ext row (.pointerToStruct fs) = .ok (.pointerToStruct fs'))
    (hg : MapTo.mapTo T ext row (.pointerToStruct gs) = .ok (.pointerToStruct gs'))
    (i j : Nat) (hi : i < fs.length) (hj : j < gs.length) (hi' : i < fs'.length) (hj' : j < gs'.length)
    (same : fs[i] = gs[j]) : fs'[i] = gs'[j] :=
  MapTo.mapTo_field_independent T ext row fs fs' gs gs' hf hg i j hi hj hi' hj' same


/-! ### The zero value, getter by getter (Proofs/GettersExact) -/

open Jl.GettersExact in
/-- Every one of the sixteen getters answers the zero value of its type when the key is absent,
    when the cell holds nil (JSON null) and when it holds something no caster converts: an array,
    a map, a nested row, a value of a foreign type. -/
theorem getter_zero_when_nothing_converts (ext : Ext) (name caster : String) (ty : Ty)
    (h : Getters.table.lookup name = some (caster, ty)) (row : List (Bytes × Val)) (k : Bytes)
    (hraw : Getters.getOrNil row k = .nil ∨ Unconvertible (Getters.getOrNil row k)) :
    Getters.typedGet ⟨genTables, ext⟩ name row k = some (.ok (Getters.zeroOf ty)) :=
  getter_zero_of_unconvertible ext name caster ty h row k hraw


/-! ### The getters and MapTo of the model are the source's (Proofs/RowTieGetters) -/

/-- Each of the sixteen typed getters, as written today, is `GetOrNil`, its caster, and a
    comma-ok assertion to its Go type (`Getters.table`); `MapTo`'s type switch has the cases of
    `MapTo.store`. -/
theorem getters_are_the_source :
    (∀ row ∈ Getters.table, Gen.rowFacts.getters.lookup row.1 =
        some (.castCommaOk "GetOrNil" row.2.1 (RowTie.goType row.2.2)))
    ∧ Gen.rowFacts.getters.length = Getters.table.length
    ∧ Gen.rowFacts.readers.lookup "GetOrNil" = some (.orNil "Get")
    ∧ Gen.rowFacts.readers.lookup "Get" = some .mapRaw :=
  RowTie.getters_as_modelled

/-- `MapTo`, as written today: the ten integer cases go through `ToInt64` / `ToUint64` behind
    `CanInt` / `CanUint`, the float cases through `ToFloat64` behind `CanFloat`; string, bool and
    `[]byte` are stored when the field's kind matches; fifteen cases in all, over the fields of the
    pointed-to struct, each asking the row for `LcFirst(name)`. -/
theorem mapTo_is_the_source :
    (∀ t ∈ IntTy.all, ((RowTie.mapCases Gen.rowFacts.mapTo).lookup (RowTie.goInt t)).map MapCase.castFirst =
      some (if t.signed then .viaCast "ToInt64" "CanInt" "SetInt" "int64"
            else .viaCast "ToUint64" "CanUint" "SetUint" "uint64"))
    ∧ (RowTie.mapCases Gen.rowFacts.mapTo).length = 15
    ∧ (∃ cs, Gen.rowFacts.mapTo = .fields 22 25 "LcFirst" "Get" cs) :=
  ⟨RowTie.mapTo_as_modelled.1, RowTie.mapTo_as_modelled.2.2.2.2.2.1,
   RowTie.mapTo_as_modelled.2.2.2.2.2.2⟩

end Jl.C17
