/-
  Props.C07S — SUPPLEMENTARY theorems of property C07: the statements of Props/C07.lean carried down to lines,
  columns and bytes over the REGENERATED cast tables (Proofs/StreamAccept).
  They are built and audited on every run like the others; they are kept apart because they rest on the cast
  tables, which the core statement of C07 does not: when the translator cannot READ a caster (a rewrite it does not
  recognise, reported as `unknown`), these are reported as not re-proved in the evidence while the core theorems and
  the correspondence still decide the property; when the tables are read and a theorem here no longer checks, that
  is reported as a broken obligation like any other (DESIGN §4.1).
-/
import Props.C07
import Proofs.StreamAccept

namespace Jl.C07
open Jl Jl.Scanner Jl.Stream

/-! ### What the stream writes, in terms of the lines (Proofs/StreamAccept)

`acceptable cfg l` is C16's acceptance condition made executable (object text, every declared
input column converts, every output column renders); `emitted`, `lineErr` and `lineCalls` are
the line, the error class and the processor calls `jl` has for one line. -/

open Jl.StreamAccept in
/-- Tolerant processing writes the image of exactly the acceptable lines, in input order, makes
    one failed processor call per line that is not acceptable (blank lines included: an empty
    line is not an object) and returns nil — whatever the chunking. -/
theorem tolerant_writes_exactly_the_acceptable_lines (cfg : Cfg) (hp : cfg.proc = .tolerant)
    (reader : List ReadEv) (ws : List WriteEv) (hff : FaultFree cfg reader ws)
    (hset : ∀ l ∈ specLines (allData reader), Settled cfg l) :
    ∃ obs, stream cfg reader ws = .ok obs ∧ obs.ret = none ∧
      obs.writes = ((specLines (allData reader)).filter (acceptable cfg)).map (emitted cfg) ∧
      (obs.calls.filter (fun c => c.2.isSome)).length =
        ((specLines (allData reader)).filter (fun l => !acceptable cfg l)).length ∧
      obs.calls.filterMap (·.2) =
        ((specLines (allData reader)).filter (fun l => !acceptable cfg l)).filterMap (lineErr cfg) :=
  tolerant_writes_exactly_acceptable cfg hp reader ws hff hset

open Jl.StreamAccept in
/-- Independence of the lines: what one line contributes to the output does not depend on the
    lines before or after it — the writes of `pre ++ l ++ "\n" ++ post` are those of `pre`,
    then `l`'s own line if it has one, then those of `post`. -/
theorem a_line_does_not_depend_on_its_neighbours (cfg : Cfg) (hp : cfg.proc = .tolerant)
    (pre l post : Bytes) (hpre : pre = [] ∨ ∃ q, pre = q ++ [0x0A]) (hl : (0x0A : UInt8) ∉ l)
    (reader rpre rpost : List ReadEv) (ws wpre wpost : List WriteEv)
    (hd : allData reader = pre ++ l ++ [0x0A] ++ post)
    (hdpre : allData rpre = pre) (hdpost : allData rpost = post)
    (hff : FaultFree cfg reader ws)
    (hcpre : Calm 100 rpre) (hcpost : Calm 100 rpost)
    (hwpre : ∀ w ∈ wpre, w = WriteEv.ok) (hwpost : ∀ w ∈ wpost, w = WriteEv.ok)
    (hset : ∀ x ∈ specLines (allData reader), Settled cfg x) :
    ∃ obs opre opost, stream cfg reader ws = .ok obs ∧ stream cfg rpre wpre = .ok opre ∧
      stream cfg rpost wpost = .ok opost ∧
      obs.writes = opre.writes ++ (out cfg (dropCR l)).toList ++ opost.writes :=
  tolerant_independent cfg hp pre l post hpre hl reader rpre rpost ws wpre wpost hd hdpre hdpost
    hff hcpre hcpost hwpre hwpost hset

open Jl.StreamAccept in
/-- The default processor: the lines before the first unacceptable one are written, that line's
    error is returned, nothing after it is processed. -/
theorem default_stops_at_the_first_unacceptable_line (cfg : Cfg) (hp : cfg.proc = .default)
    (reader : List ReadEv) (ws : List WriteEv) (hff : FaultFree cfg reader ws)
    (good : List Bytes) (l : Bytes) (rest : List Bytes)
    (hlines : specLines (allData reader) = good ++ l :: rest)
    (hgood : ∀ x ∈ good, acceptable cfg x = true) (hs : Settled cfg l)
    (hacc : acceptable cfg l = false) :
    stream cfg reader ws =
      .ok ⟨lineErr cfg l, good.flatMap (lineCalls cfg) ++ lineCalls cfg l, good.map (emitted cfg)⟩ :=
  default_stream_prefix cfg hp reader ws hff good l rest hlines hgood hs hacc

open Jl.StreamAccept Jl.StreamAccept.Demo in
/-- Non-vacuity over the regenerated tables: the five-line input `{"n":1}`, `{"n":300}` (int8
    overflow), a blank line, `{"n":2}x`, `{"n":3}` under any chunking. -/
theorem five_line_run (reader : List ReadEv) (hcalm : Calm 100 reader)
    (hd : allData reader = input) :
    stream (cfgOf .tolerant) reader [] =
      .ok ⟨none,
        [(true, none), (false, some .unsupportedImport), (false, some .syntax),
         (false, some .syntax), (true, none)],
        [l1 ++ [0x0A], l3 ++ [0x0A]]⟩ ∧
    stream (cfgOf .default) reader [] =
      .ok ⟨some .unsupportedImport, [(true, none), (false, some .unsupportedImport)],
        [l1 ++ [0x0A]]⟩ :=
  ⟨tolerant_run reader hcalm hd, default_run reader hcalm hd⟩

end Jl.C07
