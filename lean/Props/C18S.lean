/-
  Props.C18S — SUPPLEMENTARY theorems of property C18: the statements of Props/C18.lean carried down to lines,
  columns and bytes over the REGENERATED cast tables (Proofs/PathRoundTrip).
  They are built and audited on every run like the others; they are kept apart because they rest on the cast
  tables, which the core statement of C18 does not: when the translator cannot READ a caster (a rewrite it does not
  recognise, reported as `unknown`), these are reported as not re-proved in the evidence while the core theorems and
  the correspondence still decide the property; when the tables are read and a theorem here no longer checks, that
  is reported as a broken obligation like any other (DESIGN §4.1).
-/
import Props.C18
import Proofs.PathRoundTrip

namespace Jl.C18
open Jl Jl.Value Jl.Path

/-! ### Writing through a path, then reading through it (`Proofs/PathRoundTrip`) -/

/-- A successful `ImportAtPath` is read back at that path: the cell found there afterwards is what `Value.Import` made
    of the cell that was there (any environment). -/
theorem get_after_import (env : Env) (row row' : List (Bytes × Val)) (path : Bytes) (x : Dyn)
    (h : importAtPath env row path x = .ok (row', none)) :
    ∃ v v', getValueAtPath row path = some v ∧ importVal env v x = .ok (v', none) ∧
      getValueAtPath row' path = some v' :=
  PathRoundTrip.get_after_import env row row' path x h

/-- For an Auto / Hidden cell without raw type and a plain value (not itself a `jsonline.Value`), over the regenerated
    tables: the import succeeds and the raw value read back at the path is the value imported. -/
theorem get_after_import_auto (ext : Ext) (row row' : List (Bytes × Val)) (path : Bytes) (x : Dyn)
    (e : Option ErrClass) (r : Dyn) (f : Format) (hf : f = .auto ∨ f = .hidden) (hx : PathRoundTrip.Plain x)
    (hc : getValueAtPath row path = some (.cell r f .none))
    (h : importAtPath ⟨genTables, ext⟩ row path x = .ok (row', e)) :
    e = none ∧ getValueAtPath row' path = some (.cell x f .none) ∧ getAtPath row' path = some x :=
  PathRoundTrip.get_after_import_auto ext row row' path x e r f hf hx hc h

/-- "Touches only the addressed cell", for dotted paths at every depth: every path that is neither a prefix nor an
    extension of the one imported at finds what it found before — whatever the import did (success or error). -/
theorem import_keeps_other_paths (env : Env) (row row' : List (Bytes × Val)) (path q : Bytes)
    (x : Dyn) (e : Option ErrClass) (h : importAtPath env row path x = .ok (row', e))
    (h1 : ¬ splitDots q <+: splitDots path) (h2 : ¬ splitDots path <+: splitDots q) :
    getValueAtPath row' q = getValueAtPath row q :=
  PathRoundTrip.import_keeps_other_paths env row row' path q x e h h1 h2

/-- A path that cannot be walked (missing segment, below a scalar, through a Go map): the import reports
    path-not-found and the row is unchanged. -/
theorem import_at_unwalkable_path (env : Env) (row : List (Bytes × Val)) (path : Bytes)
    (x : Dyn) (h : getValueAtPath row path = none) :
    importAtPath env row path x = .ok (row, some .pathNotFound) :=
  PathRoundTrip.import_missing_is_error_and_noop env row path x h

/-- "The most recently stored value" through paths: importing twice at one path is importing the second value (the
    first one plain — a `jsonline.Value` handed to `Import` replaces the cell's declaration:
    `PathRoundTrip.import_import_needs_plain` is the witness that this cannot be dropped). -/
theorem import_import (env : Env) (row row₁ : List (Bytes × Val)) (path : Bytes) (x₁ x₂ : Dyn)
    (e₁ : Option ErrClass) (r : Dyn) (f : Format) (t : Ty)
    (hc : getValueAtPath row path = some (.cell r f t)) (hx₁ : PathRoundTrip.Plain x₁)
    (h₁ : importAtPath env row path x₁ = .ok (row₁, e₁)) :
    importAtPath env row₁ path x₂ = importAtPath env row path x₂ :=
  PathRoundTrip.import_import env row row₁ path x₁ x₂ e₁ r f t hc hx₁ h₁

/-- The two readers: whatever `GetValueAtPath` finds, `FindValuesAtPath` finds alone; and when no array lies on the
    path the two agree on absence too. -/
theorem find_of_get (row : List (Bytes × Val)) (path : Bytes) (v : Val) (hg : getValueAtPath row path = some v) :
    findValuesAtPath row path = some [v] :=
  PathRoundTrip.find_of_get row path v hg

theorem find_single (row : List (Bytes × Val)) (path : Bytes)
    (hna : PathRoundTrip.NoArrayOn row (splitDots path)) :
    findValuesAtPath row path = (getValueAtPath row path).map fun v => [v] :=
  PathRoundTrip.find_single row path hna

end Jl.C18
