/-
  C13 — typed columns survive write-then-read through JSON with value and type intact.

  Statement (properties.jsonl): for every column whose format and raw type form a lossless
  pairing, writing a raw value to a JSON line and reading that line back through the same
  template yields a raw value equal to the original and of the same Go type, for every value
  of that type.  Times are compared as instants at one-second resolution.

  The theorems are stated at the level of one cell: `exportVal` gives the exported Go value
  `e`; its JSON image is read back by the reader as `e`'s own tree (C02 `read_of_written`:
  strings after `sanitize`, the identity on the ASCII texts involved here; numbers by their
  literal text); `importCell` of that value under the same (format, raw type) gives back the
  original raw value with the original type.  Proved for every value of the type:
    here            string / numeric / binary x the ten integer types; boolean(bool), string(bool)
    Proofs/Pairings timestamp x integers and none; string / auto x string (valid UTF-8);
                    numeric / auto / string x json.Number (valid literal); binary x []byte, none,
                    string, json.Number, bool, floats (bit-exact), time.Time; datetime(time|none)
                    and string(time) (same second, same offset); numeric / timestamp x time.Time
                    (same instant, for every zone function); numeric / timestamp / binary x bool;
                    auto x integers and bool; string / numeric x floats GIVEN strconv's answers
  (`Pairings.text_f64`, `text_f32`: the shortest rendering and its correctly rounded parse are
  strconv's, hypotheses there).  What remains judged by the oracle only: auto x floats / times,
  string x floats without the strconv hypothesis, boolean(none) from non-bool JSON.
-/
import Model.Tables
import Model.Value
import Props.C11
import Props.C12
import Proofs.Base64
import Proofs.Pairings
import Proofs.RowRoundTrip
import Proofs.RowRoundTripN
import Proofs.ValueTie
import Proofs.RowTieMarshal
import Proofs.RowTieText
import Proofs.FlowTieExport
import Proofs.FlowTieImport

namespace Jl.C13
open Jl Jl.Value Jl.JsonQuote Cast

set_option linter.unusedSimpArgs false

/-- The table itself: which (format, raw type) pairings are claimed lossless (95 + defaults). -/
example : Tables.lossless .string (.int .i8) = true ∧ Tables.lossless .boolean (.int .i8) = false ∧
    Tables.lossless .date .none = false ∧ Tables.lossless .timestamp .f64 = false := by decide

private theorem importFail_ok (o : Outcome Dyn) (r : Dyn) (h : o = .ok r) : importFail o = .ok r := by
  subst h; rfl

private theorem exportFail_ok (o : Outcome Dyn) (r : Dyn) (h : o = .ok r) : exportFail o = .ok r := by
  subst h; rfl

/-- string(INT): written as the decimal text, read back as the same integer of the same type. -/
theorem string_int (ext : Ext) (t : IntTy) (v : Int) (hv : t.inRange v) :
    exportVal ⟨genTables, ext⟩ (.cell (.int t v) .string (.int t)) = .ok (.str (IntText.formatInt v)) ∧
    importCell ⟨genTables, ext⟩ .string (.int t) (.str (IntText.formatInt v)) =
      .ok (.cell (.int t v) .string (.int t), none) := by
  constructor
  · simp only [exportVal]
    exact exportFail_ok _ _ (C12.toString_int ext t v hv)
  · obtain ⟨⟨s, hs1, hs2⟩, _⟩ := C12.int_text_reads_back ext t v hv
    rw [C12.toString_int ext t v hv] at hs1
    cases hs1
    simp only [importCell, importByFormat, importFrom, importFail_ok _ _ hs2]

/-- numeric(INT): written as the number literal, read back exactly. -/
theorem numeric_int (ext : Ext) (t : IntTy) (v : Int) (hv : t.inRange v) :
    exportVal ⟨genTables, ext⟩ (.cell (.int t v) .numeric (.int t)) = .ok (.num (IntText.formatInt v)) ∧
    importCell ⟨genTables, ext⟩ .numeric (.int t) (.num (IntText.formatInt v)) =
      .ok (.cell (.int t v) .numeric (.int t), none) := by
  constructor
  · simp only [exportVal]
    exact exportFail_ok _ _ (C12.toNumber_int ext t v hv)
  · obtain ⟨_, ⟨s, hs1, hs2⟩⟩ := C12.int_text_reads_back ext t v hv
    rw [C12.toNumber_int ext t v hv] at hs1
    cases hs1
    simp only [importCell, importByFormat, importFrom, importFail_ok _ _ hs2]

/-- binary(INT): written as the base64 of the little-endian image, read back exactly. -/
theorem binary_int (ext : Ext) (t : IntTy) (v : Int) (hv : t.inRange v) :
    exportVal ⟨genTables, ext⟩ (.cell (.int t v) .binary (.int t)) =
      .ok (.str (Base64.encode (LE.put (t.bits / 8) (LE.toU t.bits v)))) ∧
    importCell ⟨genTables, ext⟩ .binary (.int t)
        (.str (Base64.encode (LE.put (t.bits / 8) (LE.toU t.bits v)))) =
      .ok (.cell (.int t v) .binary (.int t), none) := by
  constructor
  · simp only [exportVal, exportFail_ok _ _ (encode_int ext t v)]
  · have hts : ∀ s, castNamed genTables ext "ToString" (.str s) = .ok (.str s) := by
      intro s
      simp [castNamed, callNamed, genTables, Gen.casters, findClause, typeOf, evalBranch, evalE]
    have hdec := C11.decode_encode_int ext t v hv
    simp only [importCell, importByFormat, importFromBinary, importFail_ok _ _ (hts _), Base64.decode_encode]
    cases t <;> simp only [importFail_ok _ _ hdec]

/-- boolean(bool) and string(bool). -/
theorem bool_columns (ext : Ext) (b : Bool) :
    exportVal ⟨genTables, ext⟩ (.cell (.bool b) .boolean .bool) = .ok (.bool b) ∧
    importCell ⟨genTables, ext⟩ .boolean .bool (.bool b) = .ok (.cell (.bool b) .boolean .bool, none) ∧
    exportVal ⟨genTables, ext⟩ (.cell (.bool b) .string .bool) = .ok (.str (IntText.formatBool b)) ∧
    importCell ⟨genTables, ext⟩ .string .bool (.str (IntText.formatBool b)) =
      .ok (.cell (.bool b) .string .bool, none) := by
  have h1 : castNamed genTables ext "ToBool" (.bool b) = .ok (.bool b) := by
    simp [castNamed, callNamed, genTables, Gen.casters, findClause, typeOf, evalBranch, evalE]
  have h2 : castTo genTables ext .bool (.bool b) = .ok (.bool b) := by
    simp [castTo, callNamed, genTables, Gen.casters, Gen.dispatchTo, findClause, typeOf, evalBranch, evalE]
  obtain ⟨h3, h4⟩ := C12.bool_text ext b
  refine ⟨?_, ?_, ?_, ?_⟩
  · simp only [exportVal, exportFail_ok _ _ h1]
  · simp only [importCell, importByFormat, importFrom, importFail_ok _ _ h2]
  · simp only [exportVal, exportFail_ok _ _ h3]
  · simp only [importCell, importByFormat, importFrom, importFail_ok _ _ h4]

/-! ### Headline statements on the property's own terms (`Tables.inDomain`, `Tables.sameValue`) -/

/-- Date-time and string columns holding a time: for every time of the domain the text written is read
    back as the same one-second instant (and offset) — whatever the process zone. -/
theorem time_text_columns (ext : Ext) (t : GoTime) (f : Format) (ty : Ty)
    (hf : (f = .datetime ∧ (ty = .time ∨ ty = .none)) ∨ (f = .string ∧ ty = .time))
    (hd : Tables.inDomain f ty (.time t) = true) :
    ∃ e v', exportVal ⟨genTables, ext⟩ (.cell (.time t) f ty) = .ok (.str e) ∧
      importCell ⟨genTables, ext⟩ f ty (.str e) = .ok (.cell v' f ty, none) ∧
      Tables.sameValue (.time t) v' = true ∧ Tables.lossless f ty = true :=
  Pairings.datetime_time_sameValue ext t f ty hf hd

/-- Numeric and timestamp columns holding a time: the Unix second written is read back as the same
    instant, for every zone function that answers at that second. -/
theorem time_number_columns (ext : Ext) (t : GoTime) (off : Int) (hz : ext.zoneOffset t.sec = some off)
    (f : Format) (hf : f = .numeric ∨ f = .timestamp)
    (hd : Tables.inDomain f .time (.time t) = true) :
    ∃ e v', exportVal ⟨genTables, ext⟩ (.cell (.time t) f .time) = .ok e ∧
      (e = .num (IntText.formatInt t.sec) ∨ e = .int .i64 t.sec) ∧
      importCell ⟨genTables, ext⟩ f .time (.num (IntText.formatInt t.sec)) = .ok (.cell v' f .time, none) ∧
      Tables.sameValue (.time t) v' = true ∧ Tables.lossless f .time = true :=
  Pairings.numeric_time_sameValue ext t off hz f hf hd

/-- Timestamp columns of every integer type (values up to 2^63-1, as the table says: a larger
    uint64 is rejected at export, `Pairings.toTimestamp_u64_too_big`). -/
theorem timestamp_int (ext : Ext) (t : IntTy) (v : Int) (hv : t.inRange v) (hmax : v ≤ 9223372036854775807) :
    exportVal ⟨genTables, ext⟩ (.cell (.int t v) .timestamp (.int t)) = .ok (.int .i64 v) ∧
    importCell ⟨genTables, ext⟩ .timestamp (.int t) (.num (IntText.formatInt v)) =
      .ok (.cell (.int t v) .timestamp (.int t), none) :=
  Pairings.timestamp_int ext t v hv hmax

/-- Binary columns: every byte string, under []byte, none and string. -/
theorem binary_bytes (ext : Ext) (b : Bytes) :
    (exportVal ⟨genTables, ext⟩ (.cell (.bytes b) .binary .bytes) = .ok (.str (Base64.encode b)) ∧
     importCell ⟨genTables, ext⟩ .binary .bytes (.str (Base64.encode b)) =
       .ok (.cell (.bytes b) .binary .bytes, none)) ∧
    (exportVal ⟨genTables, ext⟩ (.cell (.bytes b) .binary .none) = .ok (.str (Base64.encode b)) ∧
     importCell ⟨genTables, ext⟩ .binary .none (.str (Base64.encode b)) =
       .ok (.cell (.bytes b) .binary .none, none)) :=
  Pairings.binary_bytes ext b

/-! ### The whole route: Go value -> row -> JSON line -> row -> raw value (`Proofs/RowRoundTrip`) -/

/-- C13 on the route the property names, for the 69 pairings covered outright: a one-column template
    of the pairing, the row created from the Go value, the line `Export` writes, and the row `GetRow`
    reads from that line through the same template — for every key the reader delivers unchanged and
    every value of the column's Go type (or nil) in the property's domain, the route succeeds and the
    raw value read back is the same value of the same Go type. -/
theorem line_route_lossless (ext : Ext) (key : Bytes) (hk : sanitize key = key)
    (f : Format) (ty : Ty) (hc : (f, ty) ∈ RowRoundTrip.covered) (v : Dyn)
    (hty : v = .nil ∨ typeOf v = RowRoundTrip.valueTy f ty)
    (hd : Tables.inDomain f ty v = true) :
    Tables.lossless f ty = true ∧
    ∃ v', RowRoundTrip.LineRoute ⟨genTables, ext⟩ key f ty v v' ∧ Tables.sameValue v v' = true :=
  ⟨(RowRoundTrip.row_lossless_covered ext key hk f ty hc v hty hd).1,
   RowRoundTrip.line_lossless_covered ext key hk f ty hc v hty hd⟩

/-- The five pairings that go through the process zone or ParseFloat, given answers of the
    standard-library parameter: numeric / timestamp / binary x time.Time, numeric / timestamp x bool. -/
theorem row_route_lossless_ext (ext : Ext) (hzone : ∀ s, ∃ off, ext.zoneOffset s = some off)
    (law : Pairings.DigitLaw ext) (key : Bytes) (hk : sanitize key = key)
    (f : Format) (ty : Ty) (hc : (f, ty) ∈ RowRoundTrip.coveredExt) (v : Dyn)
    (hty : v = .nil ∨ typeOf v = RowRoundTrip.valueTy f ty)
    (hd : Tables.inDomain f ty v = true) :
    Tables.lossless f ty = true ∧ RowRoundTrip.RowLossless ⟨genTables, ext⟩ key f ty v :=
  RowRoundTrip.row_lossless_coveredExt ext hzone law key hk f ty hc v hty hd

/-- Why the domain of string x json.Number asks for well-formed UTF-8: the literal FF goes out as
    "\ufffd" and comes back as U+FFFD, on the whole route, for every `ext`. -/
theorem string_number_needs_utf8 (ext : Ext) (key : Bytes) (hk : sanitize key = key) :
    RowRoundTrip.Route ⟨genTables, ext⟩ key .string .num (.num [0xFF]) (.num [0xEF, 0xBF, 0xBD]) ∧
    Tables.inDomain .string .num (.num [0xFF]) = false :=
  ⟨(RowRoundTrip.string_num_not_lossless ext key hk).2.2.1, by
    simp [Tables.inDomain, Utf8.valid, Utf8.seqLen, JsonWrite.isValidNumber]⟩

/-! ### Templates with ANY number of columns (`Proofs/RowRoundTripN`) -/

/-- C13 for a template with any number of columns, in the words of the tables.  `t` declares distinct
    names (what every sequence of `With…` calls builds: `templates_built_by_with`), the visible names are
    ones the escaper leaves alone, every visible column is one of the pairings covered outright, the Go
    map handed to `CreateRow` / `Export` holds under every declared name nil or a value of the column's
    Go type in the property's domain, and names the template does not declare are carried as scalars
    (`ExtrasOK`; nothing is asked when every name is declared).  Then: every visible pairing is in
    `Tables.lossless`; the route create → marshal → create empty → unmarshal and the route
    `Exporter.Export` → `Importer.GetRow` both succeed on the same bytes; the text holds the visible
    names in DECLARATION order whatever the map's order; the row read back holds the declared columns in
    declaration order; every visible column is read back with the same value and the same Go type
    (`Tables.sameValue`; nil for a name the map does not hold); hidden columns come back nil. -/
theorem n_columns_lossless (ext : Ext) (t : Template.Tmpl) (m : DynMap)
    (hnd : (OMap.keys t).Nodup) (hp : RowRoundTripN.Proto t)
    (hkeys : ∀ k ∈ RowPrint.visibleKeys t, sanitize k = k)
    (hcov : ∀ k f ty, (k, Val.cell .nil f ty) ∈ t → f ≠ .hidden → RowRoundTrip.coveredB f ty = true)
    (hm : RowRoundTripN.WellTypedMap t m) (hx : RowRoundTripN.ExtrasOK ⟨genTables, ext⟩ t m) :
    (∀ k f ty, (k, Val.cell .nil f ty) ∈ t → f ≠ .hidden → Tables.lossless f ty = true) ∧
    RowRoundTripN.RowLosslessN ⟨genTables, ext⟩ t m :=
  RowRoundTripN.lossless_N ext t m hnd hp hkeys hcov hm hx

/-- The same with the five pairings that consult the process zone or ParseFloat allowed too. -/
theorem n_columns_lossless_ext (ext : Ext) (hzone : ∀ s, ∃ off, ext.zoneOffset s = some off)
    (law : Pairings.DigitLaw ext) (t : Template.Tmpl) (m : DynMap)
    (hnd : (OMap.keys t).Nodup) (hp : RowRoundTripN.Proto t)
    (hkeys : ∀ k ∈ RowPrint.visibleKeys t, sanitize k = k)
    (hcov : ∀ k f ty, (k, Val.cell .nil f ty) ∈ t → f ≠ .hidden →
      RowRoundTrip.coveredB f ty = true ∨ (f, ty) ∈ RowRoundTrip.coveredExt)
    (hm : RowRoundTripN.WellTypedMap t m) (hx : RowRoundTripN.ExtrasOK ⟨genTables, ext⟩ t m) :
    (∀ k f ty, (k, Val.cell .nil f ty) ∈ t → f ≠ .hidden → Tables.lossless f ty = true) ∧
    RowRoundTripN.RowLosslessN ⟨genTables, ext⟩ t m :=
  RowRoundTripN.lossless_N_ext ext hzone law t m hnd hp hkeys hcov hm hx

/-- The two public entry points alone, every name of the map declared: `Export` then `GetRow`. -/
theorem n_columns_line (ext : Ext) (t : Template.Tmpl) (m : DynMap)
    (hnd : (OMap.keys t).Nodup) (hp : RowRoundTripN.Proto t)
    (hkeys : ∀ k ∈ RowPrint.visibleKeys t, sanitize k = k)
    (hcov : ∀ k f ty, (k, Val.cell .nil f ty) ∈ t → f ≠ .hidden → RowRoundTrip.coveredB f ty = true)
    (hm : RowRoundTripN.WellTypedMap t m) (hdecl : ∀ kv ∈ m.toList, kv.1 ∈ OMap.keys t) :
    ∃ bytes r, RowRoundTripN.LineRouteN ⟨genTables, ext⟩ t (.gomap m) bytes r ∧
      Order.inputKeys bytes = RowPrint.visibleKeys t ∧ OMap.keys r = OMap.keys t ∧
      RowRoundTripN.ColumnsSurvive t m r :=
  RowRoundTripN.line_lossless_N ext t m hnd hp hkeys hcov hm hdecl

/-- Hidden columns are the reason `Tables.lossless` excludes `hidden(…)`: whatever a hidden column held,
    the row read back holds nil there. -/
theorem hidden_columns_do_not_survive {t : Template.Tmpl} {m : DynMap} {r : List (Bytes × Val)}
    (h : RowRoundTripN.ColumnsSurvive t m r) (k : Bytes) (ty : Ty)
    (hm : (k, Val.cell .nil .hidden ty) ∈ t) (hv : RowRoundTripN.valOf m k ≠ .nil) :
    ∃ v', (Value.lookup r k).map Cells.raw = some v' ∧
      Tables.sameValue (RowRoundTripN.valOf m k) v' = false :=
  RowRoundTripN.hidden_lost h k ty hm hv

/-- The hypotheses "distinct names" and "cell prototypes" are no restriction on templates built by
    `With(name, format, rawtype)` calls, in any number and with repeated names. -/
theorem templates_built_by_with (cols : List (Bytes × Format × Ty)) :
    (OMap.keys (RowRoundTripN.ofCols cols)).Nodup ∧ RowRoundTripN.Proto (RowRoundTripN.ofCols cols) :=
  RowRoundTripN.ofCols_ok cols

/-! ### The model of `value.go` is REGENERATED (`extract/value.go` → `Gen.ValueTable`, `Proofs/ValueTie`)

  `value.Import`, `value.Export`, `NewValue`, `CloneValue` and the fourteen functions of `conversions_import.go` /
  `conversions_export.go` are read from the source on every run (symbolic execution format by format, classified into
  the small syntax of `Model.ValueSyntax`) and interpreted by `Model.ValueGen`.  The theorems of this file are about
  the hand-written `Model.Value`; this one says that `Model.Value` IS that interpretation of today's source, so a
  change of the source (another caster for a format, a layout instead of `cast.ToString`, a dropped nil check, a Row
  accepted by another format, another sentinel, renumbered formats …) stops it from compiling. -/
theorem value_model_is_the_source :
    (Gen.valueTable.known = true ∧ Gen.valueTable.importPreamble = .asModelled ∧
      Gen.valueTable.exportPreamble = .asModelled ∧ Gen.valueTable.newValue = .asModelled ∧
      Gen.valueTable.cloneValue = .asModelled) ∧
    (∀ (env : Value.Env) (f : Format) (typ : Ty) (val : Dyn),
      ValueGen.importByFormatG Gen.valueTable env f typ val = Value.importByFormat env f typ val) ∧
    (∀ (env : Value.Env) (old : Dyn) (f : Format) (typ : Ty) (val : Dyn), f ≠ .bad →
      ValueGen.importCellG Gen.valueTable env old f typ val = Value.importCell env f typ val) ∧
    (∀ (env : Value.Env) (raw : Dyn) (f : Format) (typ : Ty),
      ValueGen.exportCellG Gen.valueTable env raw f = Value.exportVal env (.cell raw f typ)) ∧
    Gen.valueTable.formats = Format.declared.map (fun f => (f.goName, (f.ctorIdx : Int))) :=
  ⟨ValueTie.table_known, ValueTie.import_as_modelled, ValueTie.importCell_as_modelled,
   ValueTie.export_as_modelled, ValueTie.formats_as_modelled⟩


/-! ### Reader and writer are the source's (Proofs/RowTieMarshal, RowTieText, FlowTieExport, FlowTieImport)

The property speaks of lines WRITTEN and READ BACK; the code doing both is read from `row.go`,
`exporter.go` and `importer.go` on every run. -/

/-- As written today: `row.MarshalJSON` is the model's `marshalVal`, `Exporter.Export` the model's
    `exportLine` (one `Write`, the separator of `Gen.Sites`), `Importer.GetRow` the model's
    `getRow`, and `UnmarshalJSON` reads numbers as literals, wants `{`, the members until `}` and
    then only the end of the input. -/
theorem reader_and_writer_are_the_source :
    (∀ (env : Value.Env) (ms : Members),
      RowTie.marshalRowG Gen.rowFacts.marshal (RowPrint.marshalVal env) ms.toList =
        some (RowPrint.marshalVal env (.row ms))) ∧
    (∀ (env : Value.Env) (t : Template.Tmpl) (v : Dyn),
      FlowTie.exportG Gen.flowTable.exporterExport env t v = some (Template.exportLine env t v)) ∧
    (∀ (env : Value.Env) (t : Template.Tmpl) (line : Bytes),
      FlowTie.getRowG Gen.flowTable.getRow Gen.flowTable.createRowEmpty env t line =
        some (Template.getRow env t line)) ∧
    Gen.rowFacts.unmarshal = [.newDecoder true, .openDelim 0x7B, .members "parseobject", .onlyEOF] :=
  ⟨RowTie.marshal_as_modelled, FlowTie.export_is_exportLine, FlowTie.getRow_is_getRow,
   RowTie.unmarshal_as_modelled.1⟩

end Jl.C13
