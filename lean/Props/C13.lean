/-
  C13 — typed columns survive write-then-read through JSON with value and type intact.

  Statement (properties.jsonl): for every column whose format and raw type form a lossless
  pairing, writing a raw value to a JSON line and reading that line back through the same
  template yields a raw value equal to the original and of the same Go type, for every value
  of that type.  Times are compared as instants at one-second resolution.

  The theorems are stated at the level of one cell: `exportVal` gives the exported Go value
  `e`; its JSON image is read back by the reader as `e`'s own tree (C02 `read_of_written`:
  strings after `sanitize`, the identity on the ASCII texts involved here; numbers by their
  literal text); `importCell` of that value under the same (format, raw type) gives back the
  original raw value with the original type.  Proved here for all ten integer types under
  string, numeric, timestamp and binary, and for bool; the remaining pairings of the table
  (floats under `Ext`, strings, times, json.Number) are judged by the oracle on every case.
-/
import Model.Tables
import Model.Value
import Props.C11
import Props.C12
import Proofs.Base64

namespace Jl.C13
open Jl Jl.Value Cast

set_option linter.unusedSimpArgs false

/-- The table itself: which (format, raw type) pairings are claimed lossless (95 + defaults). -/
example : Tables.lossless .string (.int .i8) = true ∧ Tables.lossless .boolean (.int .i8) = false ∧
    Tables.lossless .date .none = false ∧ Tables.lossless .timestamp .f64 = false := by decide

private theorem importFail_ok (o : Outcome Dyn) (r : Dyn) (h : o = .ok r) : importFail o = .ok r := by
  subst h; rfl

private theorem exportFail_ok (o : Outcome Dyn) (r : Dyn) (h : o = .ok r) : exportFail o = .ok r := by
  subst h; rfl

/-- string(INT): written as the decimal text, read back as the same integer of the same type. -/
theorem string_int (ext : Ext) (t : IntTy) (v : Int) (hv : t.inRange v) :
    exportVal ⟨genTables, ext⟩ (.cell (.int t v) .string (.int t)) = .ok (.str (IntText.formatInt v)) ∧
    importCell ⟨genTables, ext⟩ .string (.int t) (.str (IntText.formatInt v)) =
      .ok (.cell (.int t v) .string (.int t), none) := by
  constructor
  · simp only [exportVal]
    exact exportFail_ok _ _ (C12.toString_int ext t v hv)
  · obtain ⟨⟨s, hs1, hs2⟩, _⟩ := C12.int_text_reads_back ext t v hv
    rw [C12.toString_int ext t v hv] at hs1
    cases hs1
    simp only [importCell, importByFormat, importFrom, importFail_ok _ _ hs2]

/-- numeric(INT): written as the number literal, read back exactly. -/
theorem numeric_int (ext : Ext) (t : IntTy) (v : Int) (hv : t.inRange v) :
    exportVal ⟨genTables, ext⟩ (.cell (.int t v) .numeric (.int t)) = .ok (.num (IntText.formatInt v)) ∧
    importCell ⟨genTables, ext⟩ .numeric (.int t) (.num (IntText.formatInt v)) =
      .ok (.cell (.int t v) .numeric (.int t), none) := by
  constructor
  · simp only [exportVal]
    exact exportFail_ok _ _ (C12.toNumber_int ext t v hv)
  · obtain ⟨_, ⟨s, hs1, hs2⟩⟩ := C12.int_text_reads_back ext t v hv
    rw [C12.toNumber_int ext t v hv] at hs1
    cases hs1
    simp only [importCell, importByFormat, importFrom, importFail_ok _ _ hs2]

/-- binary(INT): written as the base64 of the little-endian image, read back exactly. -/
theorem binary_int (ext : Ext) (t : IntTy) (v : Int) (hv : t.inRange v) :
    exportVal ⟨genTables, ext⟩ (.cell (.int t v) .binary (.int t)) =
      .ok (.str (Base64.encode (LE.put (t.bits / 8) (LE.toU t.bits v)))) ∧
    importCell ⟨genTables, ext⟩ .binary (.int t)
        (.str (Base64.encode (LE.put (t.bits / 8) (LE.toU t.bits v)))) =
      .ok (.cell (.int t v) .binary (.int t), none) := by
  constructor
  · simp only [exportVal, exportFail_ok _ _ (encode_int ext t v)]
  · have hts : ∀ s, castNamed genTables ext "ToString" (.str s) = .ok (.str s) := by
      intro s
      simp [castNamed, callNamed, genTables, Gen.casters, findClause, typeOf, evalBranch, evalE]
    have hdec := C11.decode_encode_int ext t v hv
    simp only [importCell, importByFormat, importFromBinary, importFail_ok _ _ (hts _), Base64.decode_encode]
    cases t <;> simp only [importFail_ok _ _ hdec]

/-- boolean(bool) and string(bool). -/
theorem bool_columns (ext : Ext) (b : Bool) :
    exportVal ⟨genTables, ext⟩ (.cell (.bool b) .boolean .bool) = .ok (.bool b) ∧
    importCell ⟨genTables, ext⟩ .boolean .bool (.bool b) = .ok (.cell (.bool b) .boolean .bool, none) ∧
    exportVal ⟨genTables, ext⟩ (.cell (.bool b) .string .bool) = .ok (.str (IntText.formatBool b)) ∧
    importCell ⟨genTables, ext⟩ .string .bool (.str (IntText.formatBool b)) =
      .ok (.cell (.bool b) .string .bool, none) := by
  have h1 : castNamed genTables ext "ToBool" (.bool b) = .ok (.bool b) := by
    simp [castNamed, callNamed, genTables, Gen.casters, findClause, typeOf, evalBranch, evalE]
  have h2 : castTo genTables ext .bool (.bool b) = .ok (.bool b) := by
    simp [castTo, callNamed, genTables, Gen.casters, Gen.dispatchTo, findClause, typeOf, evalBranch, evalE]
  obtain ⟨h3, h4⟩ := C12.bool_text ext b
  refine ⟨?_, ?_, ?_, ?_⟩
  · simp only [exportVal, exportFail_ok _ _ h1]
  · simp only [importCell, importByFormat, importFrom, importFail_ok _ _ h2]
  · simp only [exportVal, exportFail_ok _ _ h3]
  · simp only [importCell, importByFormat, importFrom, importFail_ok _ _ h4]

end Jl.C13
