/-
  C18 — dotted-path access agrees with key-by-key navigation, built or parsed.

  Statement (properties.jsonl): looking up a dotted path in a row returns the same value as
  descending key by key through the nested objects, whether the row was built
  programmatically or parsed from JSON text; a path with a missing segment reports absence,
  and importing at a path changes exactly the addressed value.  Searching a path across
  arrays of objects returns the addressed value of every element that has it, in document
  order.

  Model: Model.Path (GetValueAtPath / FindValuesAtPath / ImportAtPath as row.go writes them,
  over rows in which a nested row is either a bare row cell or an Auto cell wrapping a row).
  Specification: `navigate` (repeated GetValue), `collect`.  Keys containing `.` are not
  addressable by a dotted path (DESIGN.md §10).
-/
import Model.Path
import Proofs.Row
import Proofs.RowTieText

namespace Jl.C18
open Jl Jl.Value Jl.Path

/-- Splitting a joined path gives back the keys, when no key contains a dot. -/
theorem split_join (ks : List Bytes) (hne : ks ≠ []) (hnd : ∀ k ∈ ks, (0x2E : UInt8) ∉ k) :
    splitDots (joinDots ks) = ks := by
  have key : ∀ (k : Bytes), (0x2E : UInt8) ∉ k → ∀ rest : Bytes, ∀ tl : List Bytes, ∀ hd : Bytes,
      splitDots rest = hd :: tl → splitDots (k ++ rest) = (k ++ hd) :: tl := by
    intro k hk
    induction k with
    | nil => intro rest tl hd h; simpa using h
    | cons c k ih =>
      intro rest tl hd h
      have hc : c ≠ 0x2E := fun e => hk (by simp [e])
      have hk' : (0x2E : UInt8) ∉ k := fun m => hk (by simp [m])
      simp [splitDots, hc, ih hk' rest tl hd h]
  induction ks with
  | nil => exact absurd rfl hne
  | cons k rest ih =>
    cases rest with
    | nil =>
      have := key k (hnd k (by simp)) [] [] [] (by simp [splitDots])
      simpa [joinDots] using this
    | cons k2 rest2 =>
      have ih' := ih (by simp) (fun x hx => hnd x (by simp [hx]))
      have h2 : splitDots (0x2E :: joinDots (k2 :: rest2)) = [] :: (k2 :: rest2) := by
        simp [splitDots, ih']
      have := key k (hnd k (by simp)) _ _ _ h2
      simpa [joinDots] using this

/-- Path lookup is key-by-key navigation, for every row (built or parsed, any mixture of the
    two representations of nested rows) and every list of keys. -/
theorem get_is_navigation (row : List (Bytes × Val)) (ks : List Bytes) :
    getValueAtKeys row ks = navigate row ks := by
  induction ks generalizing row with
  | nil => rfl
  | cons k rest ih =>
    cases rest with
    | nil => rfl
    | cons k2 rest2 =>
      simp only [getValueAtKeys, navigate]
      cases lookup row k with
      | none => rfl
      | some v =>
        simp only [Option.bind]
        cases asRow v with
        | none => rfl
        | some sub => exact ih sub

/-- `strings.Split` never returns an empty list: every path, the empty one included, has a first segment. -/
theorem split_never_empty (p : Bytes) : splitDots p ≠ [] := by
  induction p with
  | nil => simp [splitDots]
  | cons c rest ih =>
    unfold splitDots; split
    · simp
    · split <;> simp

/-- Joining what a path splits into gives back the path — for EVERY path (no hypothesis): with `split_join` the two
    functions are a bijection between paths and non-empty lists of dot-free segments, so every path names exactly one
    chain of keys and every such chain is named by exactly one path. -/
theorem join_split (p : Bytes) : joinDots (splitDots p) = p := by
  induction p with
  | nil => simp [splitDots, joinDots]
  | cons c rest ih =>
    unfold splitDots; split
    · rename_i h
      have hc : c = 0x2E := by simpa using h
      have hne := split_never_empty rest
      cases hs : splitDots rest with
      | nil => exact absurd hs hne
      | cons k ks =>
        rw [hs] at ih
        simp [joinDots, ih, hc]
    · cases hs : splitDots rest with
      | nil => exact absurd hs (split_never_empty rest)
      | cons k ks =>
        rw [hs] at ih
        cases ks with
        | nil => simp [joinDots] at ih ⊢; exact ih
        | cons k2 ks2 => simp [joinDots] at ih ⊢; exact ih

/-- The segments of a path never contain a dot. -/
theorem split_segments_have_no_dot (p : Bytes) : ∀ k ∈ splitDots p, (0x2E : UInt8) ∉ k := by
  induction p with
  | nil => simp [splitDots]
  | cons c rest ih =>
    unfold splitDots; split
    · intro k hk
      simp at hk
      rcases hk with rfl | hk
      · simp
      · exact ih k hk
    · rename_i h
      have hc : ¬ c = 0x2E := by simpa using h
      cases hs : splitDots rest with
      | nil => exact absurd hs (split_never_empty rest)
      | cons k ks =>
        rw [hs] at ih
        intro k' hk'
        simp at hk'
        rcases hk' with rfl | hk'
        · have := ih k (by simp)
          simp; exact ⟨fun h => hc h.symm, this⟩
        · exact ih k' (by simp [hk'])

/-- C18, lookup: a dotted path returns what key-by-key navigation returns. -/
theorem path_lookup_is_navigation (row : List (Bytes × Val)) (ks : List Bytes) (hne : ks ≠ [])
    (hnd : ∀ k ∈ ks, (0x2E : UInt8) ∉ k) :
    getValueAtPath row (joinDots ks) = navigate row ks := by
  rw [getValueAtPath, split_join ks hne hnd, get_is_navigation]

/-- C18, lookup, for EVERY path text: what `GetValueAtPath` returns is key-by-key navigation along the path's own
    segments (and those segments are the unique dot-free chain the path names). -/
theorem every_path_is_navigation (row : List (Bytes × Val)) (p : Bytes) :
    getValueAtPath row p = navigate row (splitDots p) ∧ joinDots (splitDots p) = p ∧
      splitDots p ≠ [] ∧ ∀ k ∈ splitDots p, (0x2E : UInt8) ∉ k :=
  ⟨by rw [getValueAtPath, get_is_navigation], join_split p, split_never_empty p,
   split_segments_have_no_dot p⟩

example : splitDots [0x61, 0x2E, 0x2E, 0x62, 0x2E] = [[0x61], [], [0x62], []] ∧
    joinDots [[0x61], [], [0x62], []] = [0x61, 0x2E, 0x2E, 0x62, 0x2E] := by decide

/-- A missing segment at any depth reports absence. -/
theorem missing_segment_is_absent (row : List (Bytes × Val)) (k : Bytes) (rest : List Bytes)
    (h : lookup row k = none) : navigate row (k :: rest) = none := by
  cases rest <;> simp [navigate, h]

/-- A path that continues below a value that is not a row reports absence (it does not
    return that value). -/
theorem below_scalar_is_absent (row : List (Bytes × Val)) (k k2 : Bytes) (rest : List Bytes) (v : Val)
    (h : lookup row k = some v) (hs : asRow v = none) : navigate row (k :: k2 :: rest) = none := by
  simp [navigate, h, hs]

/-- `FindValuesAtPath` is the document-order collection through rows and arrays of objects —
    for every document, every array length and every path (the model of the function and the
    specification coincide; the function itself is tied to row.go by the correspondence check). -/
theorem find_is_collection (fuel : Nat) (row : List (Bytes × Val)) (keys : List Bytes) :
    findValues fuel row keys = collect fuel row keys := by
  induction fuel generalizing row keys with
  | zero => cases keys <;> simp [findValues, collect]
  | succ n ih =>
    match keys with
    | [] => simp [findValues, collect]
    | [k] => simp [findValues, collect]
    | k :: k2 :: rest =>
      simp only [findValues, collect]
      cases hl : lookup row k with
      | none => simp
      | some v =>
        simp only [Option.bind]
        cases ha : asRow v with
        | some sub => simp [ih]
        | none =>
          simp only
          split
          · rename_i xs _
            congr 1
            congr 1
            funext acc x
            cases x <;> simp [ih]
          · rfl

/-- Importing at a path touches exactly the addressed top-level entry: every other key keeps
    its value, and no key is added, dropped or moved. -/
theorem import_touches_only_addressed (env : Env) (row row' : List (Bytes × Val)) (k : Bytes)
    (rest : List Bytes) (x : Dyn) (e : Option ErrClass)
    (h : importAtKeys env row (k :: rest) x = .ok (row', e)) :
    (∀ k', k' ≠ k → lookup row' k' = lookup row k') ∧ OMap.keys row' = OMap.keys row := by
  have hup : ∀ v c, lookup row k = some v →
      (∀ k', k' ≠ k → lookup (upsert row k c) k' = lookup row k') ∧
      OMap.keys (upsert row k c) = OMap.keys row := by
    intro v c hv
    refine ⟨fun k' hk' => by simp [lookup, upsert, OMap.lookup_upsert, hk'], ?_⟩
    have hmem : k ∈ OMap.keys row := by
      by_cases hm : k ∈ OMap.keys row
      · exact hm
      · have := OMap.lookup_none_of_not_mem row k hm
        simp [lookup, this] at hv
    simp [upsert, OMap.keys_upsert, hmem]
  cases rest with
  | nil =>
    simp only [importAtKeys] at h
    split at h
    · cases h; exact ⟨fun _ _ => rfl, rfl⟩
    · rename_i v hv
      split at h
      · cases h; exact hup v _ hv
      · cases h
      · cases h
  | cons k2 rest2 =>
    simp only [importAtKeys] at h
    split at h
    · cases h; exact ⟨fun _ _ => rfl, rfl⟩
    · rename_i v hv
      split at h
      · cases h; exact ⟨fun _ _ => rfl, rfl⟩
      · split at h
        · cases h; exact hup v _ hv
        · cases h
        · cases h

/-! ### The path functions of the model are the source's (Proofs/RowTieText) -/

/-- As written today: a path is split on `.`, each segment is looked up with `GetValue`, descent
    goes through `asRow` (a row, or a cell whose raw value is one); `GetAtPath` is the raw value
    of `GetValueAtPath`. -/
theorem path_model_is_the_source :
    Gen.rowFacts.getValueAtPath = .splitDescend "." "GetValue" "asRow"
    ∧ Gen.rowFacts.findValuesAtPath = .firstKeyThenRowOrArrayOfRows "." "GetValue" "asRow"
    ∧ Gen.rowFacts.asRow = .rowOrRawRow
    ∧ Gen.rowFacts.readers.lookup "GetValue" = some .mapValue
    ∧ Gen.rowFacts.readers.lookup "GetAtPath" = some (.rawOf "GetValueAtPath") :=
  RowTie.path_as_modelled

end Jl.C18
