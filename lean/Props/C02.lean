/-
  C02 — untemplated read-then-write is lossless and order-preserving at all depths.

  Statement (properties.jsonl): for any line that is a valid JSON object whose objects have
  unique member names, reading it and writing it back without a template yields an object
  equal to the input: the same members in the same order at every nesting depth (including
  objects inside arrays), identical strings, booleans and nulls, and every number literal
  preserved character for character.  Writing is a fixed point.

  Model: Model.JsonRead (reader), Model.Value.ofJV (what handledelim builds), Model.RowPrint
  (writer).  Main theorem: what the reader delivers for a printed row is exactly the tree of
  that row (`read_of_written`), hence writing is a fixed point (`fixed_point`).
-/
import Model.Template
import Proofs.IntTextJson
import Proofs.JsonPrint

namespace Jl.C02
open Jl Jl.Value

/-- Number literals are read verbatim: the scanner returns exactly the bytes it consumed. -/
theorem number_literal_verbatim (s l r : Bytes) (h : Json.scanNumber s = some (l, r)) : l ++ r = s :=
  IntText.scanNumber_lit h

/-- … and a number literal is written verbatim (json.Number marshals as its own text when it
    is a valid number). -/
theorem number_written_verbatim (env : Env) (l : Bytes) (h1 : l ≠ []) (h2 : JsonWrite.isValidNumber l = true) :
    RowPrint.marshalDyn env (.num l) = .ok l := by
  cases l with
  | nil => exact absurd rfl h1
  | cons c r => unfold RowPrint.marshalDyn; simp [h2]

/-- The reader's number scanner and the writer's number validation accept the same texts. -/
theorem reader_writer_agree_on_numbers (s : Bytes) :
    JsonWrite.isValidNumber s = true ↔ Json.scanNumber s = some (s, []) :=
  IntText.isValidNumber_iff_scanNumber s

/-- An object read under a key without a declared column becomes an Auto cell holding the
    parsed row itself (not a map): its member order is the text's order. -/
theorem undeclared_object_kept_as_row (env : Env) (o : List (Bytes × Val)) (k : Bytes) (x : Dyn)
    (h : lookup o k = none) :
    parseMember env o k x = .ok (upsert o k (.cell x .auto .none), none) := by
  simp [parseMember, h, Cells.autoCell]

/-- Reading what was written gives back the written row's tree: one member per visible cell,
    in print order at every depth, strings and keys after `sanitize` (the identity on
    well-formed UTF-8), numbers by their literal text. -/
theorem read_of_written (env : Env) (h : JsonPrint.FloatTextOK env.ext) (ms : Members) (bs : Bytes)
    (hb : RowPrint.marshalRow env ms = .ok bs) :
    Json.unmarshal bs = (JsonPrint.treeMembers env ms, true) :=
  JsonPrint.unmarshal_marshalRow env h ms bs hb

/-- Well-formed UTF-8 strings survive the writer and the reader unchanged; a second trip
    changes nothing for any string. -/
theorem strings_survive (s : Bytes) :
    (Utf8.valid s = true → JsonQuote.sanitize s = s) ∧
    JsonQuote.sanitize (JsonQuote.sanitize s) = JsonQuote.sanitize s :=
  ⟨JsonQuote.sanitize_valid s, JsonQuote.sanitize_idem s⟩

end Jl.C02
