/-
  C02 — untemplated read-then-write is lossless and order-preserving at all depths.

  Statement (properties.jsonl): for any line that is a valid JSON object whose objects have
  unique member names, reading it and writing it back without a template yields an object
  equal to the input: the same members in the same order at every nesting depth (including
  objects inside arrays), identical strings, booleans and nulls, and every number literal
  preserved character for character.  Writing is a fixed point.

  Model: Model.JsonRead (reader), Model.Value.ofJV (what handledelim builds), Model.RowPrint
  (writer).  Main theorem: what the reader delivers for a printed row is exactly the tree of
  that row (`read_of_written`), hence writing is a fixed point (`fixed_point`).
-/
import Model.Template
import Proofs.IntTextJson
import Proofs.JsonPrint
import Proofs.RoundTrip
import Proofs.RowTieMarshal
import Proofs.RowTieText
import Proofs.FlowTieExport
import Proofs.FlowTieImport

namespace Jl.C02
open Jl Jl.Value

/-- Number literals are read verbatim: the scanner returns exactly the bytes it consumed. -/
theorem number_literal_verbatim (s l r : Bytes) (h : Json.scanNumber s = some (l, r)) : l ++ r = s :=
  IntText.scanNumber_lit h

/-- … and a number literal is written verbatim (json.Number marshals as its own text when it
    is a valid number). -/
theorem number_written_verbatim (env : Env) (l : Bytes) (h1 : l ≠ []) (h2 : JsonWrite.isValidNumber l = true) :
    RowPrint.marshalDyn env (.num l) = .ok l := by
  cases l with
  | nil => exact absurd rfl h1
  | cons c r => unfold RowPrint.marshalDyn; simp [h2]

/-- The reader's number scanner and the writer's number validation accept the same texts. -/
theorem reader_writer_agree_on_numbers (s : Bytes) :
    JsonWrite.isValidNumber s = true ↔ Json.scanNumber s = some (s, []) :=
  IntText.isValidNumber_iff_scanNumber s

/-- An object read under a key without a declared column becomes an Auto cell holding the
    parsed row itself (not a map): its member order is the text's order. -/
theorem undeclared_object_kept_as_row (env : Env) (o : List (Bytes × Val)) (k : Bytes) (x : Dyn)
    (h : lookup o k = none) :
    parseMember env o k x = .ok (upsert o k (.cell x .auto .none), none) := by
  simp [parseMember, h, Cells.autoCell]

/-- Reading what was written gives back the written row's tree: one member per visible cell,
    in print order at every depth, strings and keys after `sanitize` (the identity on
    well-formed UTF-8), numbers by their literal text. -/
theorem read_of_written (env : Env) (h : JsonPrint.FloatTextOK env.ext) (ms : Members) (bs : Bytes)
    (hb : RowPrint.marshalRow env ms = .ok bs) :
    Json.unmarshal bs = (JsonPrint.treeMembers env ms, true) :=
  JsonPrint.unmarshal_marshalRow env h ms bs hb

/-- Well-formed UTF-8 strings survive the writer and the reader unchanged; a second trip
    changes nothing for any string. -/
theorem strings_survive (s : Bytes) :
    (Utf8.valid s = true → JsonQuote.sanitize s = s) ∧
    JsonQuote.sanitize (JsonQuote.sanitize s) = JsonQuote.sanitize s :=
  ⟨JsonQuote.sanitize_valid s, JsonQuote.sanitize_idem s⟩

/-! ### The whole property, byte level (`Proofs/RoundTrip.lean`)

`jlLine env [] [] line` is what the untemplated importer → exporter does with one line. `t` is the
ordered tree the reader delivers for the text (members in order at every depth, strings decoded,
number literals verbatim); `UniqueKeys t`: no member name occurs twice in an object, at any
depth. No hypothesis on the cast tables, on the stdlib parameters or on the strings: the
untemplated path never casts and never prints a float, and every string the decoder returns is
well-formed UTF-8 (ill-formed input bytes have already become U+FFFD in `t`). -/

/-- Lossless and a byte-level fixed point: for every accepted line whose member names are unique at
    every depth, the line written denotes the same ordered tree, and feeding it back yields exactly
    the same bytes (and the line holds no raw newline). -/
theorem lossless_and_fixed_point (env : Env) (line : Bytes) (t : JVMembers)
    (hread : Json.unmarshal line = (t, true)) (hu : RoundTrip.UniqueKeys t) :
    ∃ out, Jl.Template.jlLine env [] [] line = .ok (out ++ [0x0A], none) ∧ Json.unmarshal out = (t, true) ∧
      Jl.Template.jlLine env [] [] out = .ok (out ++ [0x0A], none) ∧ (0x0A : UInt8) ∉ out :=
  RoundTrip.lossless_fixed_point env line t hread hu

/-- The output is a function of the tree alone (`printTree`): insignificant white space and escape
    spellings of the input do not matter, everything the tree records does. -/
theorem output_is_print_of_tree (env : Env) (line : Bytes) (t : JVMembers)
    (hread : Json.unmarshal line = (t, true)) (hu : RoundTrip.UniqueKeys t) :
    Jl.Template.jlLine env [] [] line = .ok (RoundTrip.printTree t ++ [0x0A], none) :=
  RoundTrip.jlLine_untemplated env line t hread hu

/-- The domain restriction is needed: with a repeated name the second value is imported into the
    first occurrence's cell, so a member is lost (`RoundTrip.Dup.dup_imports_first`). -/
theorem unique_names_needed (env : Env) (line : Bytes) (t : JVMembers)
    (h : Jl.Template.getRow env [] line = .ok (RoundTrip.rowOfTree t, none)) :
    ((RoundTrip.pairsOf t).map Prod.fst).Nodup :=
  RoundTrip.row_of_tree_only_if env line t h

/-- Every string the reader returns is well-formed UTF-8 and every number literal a valid JSON number,
    for ANY input bytes (rejected lines included). -/
theorem reader_delivers_clean_tree (line : Bytes) : RoundTrip.ReaderTree (Json.unmarshal line).1 :=
  RoundTrip.reader_tree_ok line


/-! ### Reader and writer are the source's (Proofs/RowTieMarshal, RowTieText, FlowTieExport, FlowTieImport)

The property speaks of lines WRITTEN and READ BACK; the code doing both is read from `row.go`,
`exporter.go` and `importer.go` on every run. -/

/-- As written today: `row.MarshalJSON` is the model's `marshalVal`, `Exporter.Export` the model's
    `exportLine` (one `Write`, the separator of `Gen.Sites`), `Importer.GetRow` the model's
    `getRow`, and `UnmarshalJSON` reads numbers as literals, wants `{`, the members until `}` and
    then only the end of the input. -/
theorem reader_and_writer_are_the_source :
    (∀ (env : Value.Env) (ms : Members),
      RowTie.marshalRowG Gen.rowFacts.marshal (RowPrint.marshalVal env) ms.toList =
        some (RowPrint.marshalVal env (.row ms))) ∧
    (∀ (env : Value.Env) (t : Template.Tmpl) (v : Dyn),
      FlowTie.exportG Gen.flowTable.exporterExport env t v = some (Template.exportLine env t v)) ∧
    (∀ (env : Value.Env) (t : Template.Tmpl) (line : Bytes),
      FlowTie.getRowG Gen.flowTable.getRow Gen.flowTable.createRowEmpty env t line =
        some (Template.getRow env t line)) ∧
    Gen.rowFacts.unmarshal = [.newDecoder true, .openDelim 0x7B, .members "parseobject", .onlyEOF] :=
  ⟨RowTie.marshal_as_modelled, FlowTie.export_is_exportLine, FlowTie.getRow_is_getRow,
   RowTie.unmarshal_as_modelled.1⟩

end Jl.C02
