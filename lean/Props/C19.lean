/-
  C19 — jl behaves as the library does, and file and inline templates are equivalent.

  Statement (properties.jsonl): the same column definitions given as a row.yml file or as an
  inline template argument produce byte-identical output and the same accept/reject decisions
  for every input, an inline template replaces the file definition entirely, and the command's
  output for any input equals what the library streamer produces with the equivalent
  templates.  A malformed template makes the command exit non-zero without emitting data,
  while per-line data errors are logged and do not abort the stream or change the exit status.

  Model: Model.Jl (parseDescriptor's regexp as a function over the regenerated registries,
  the YAML route `parse`, the inline route `createTemplateFromRow`, `createTemplate`).
  YAML / flag parsing and the process boundary are executed only (built binary).
-/
import Model.Jl
import Proofs.Row
import Proofs.JlDescriptor
import Proofs.FlowTieAll
import Proofs.JlTie

namespace Jl.C19
open Jl Jl.Value Jl.Template Jl.JlCmd

/-- Splitting `in:out` at the first colon gives back both descriptors when the input
    descriptor contains no colon. -/
theorem split_inline (i o : Bytes) (h : (0x3A : UInt8) ∉ i) :
    splitColon (inlineText i o) = (i, some o) := by
  unfold splitColon inlineText
  have h1 : ∀ (l : Bytes), (0x3A : UInt8) ∉ l → ∀ r, (l ++ 0x3A :: r).takeWhile (· != 0x3A) = l := by
    intro l hl r
    induction l with
    | nil => simp
    | cons c l ih =>
      have hc : c ≠ 0x3A := fun e => hl (by simp [e])
      simp [List.takeWhile, hc, ih (fun m => hl (by simp [m]))]
  have h2 : ∀ (l : Bytes), (0x3A : UInt8) ∉ l → ∀ r, (l ++ 0x3A :: r).dropWhile (· != 0x3A) = 0x3A :: r := by
    intro l hl r
    induction l with
    | nil => simp
    | cons c l ih =>
      have hc : c ≠ 0x3A := fun e => hl (by simp [e])
      simp [List.dropWhile, hc, ih (fun m => hl (by simp [m]))]
  simp [h1 i h o, h2 i h o]

/-- Storing twice at the same key keeps only the last value, at the first position. -/
theorem upsert_upsert (o : List (Bytes × Val)) (k : Bytes) (a b : Val) :
    upsert (upsert o k a) k b = upsert o k b := by
  unfold upsert
  induction o with
  | nil => simp [OMap.upsert]
  | cons e t ih =>
    obtain ⟨k', c⟩ := e
    by_cases hk : k' = k
    · subst hk; simp [OMap.upsert]
    · simp [OMap.upsert, hk, ih]

/-- The common domain of the two languages: descriptors without `:`; declared sub-rows have
    at least one column. -/
def Common : Nat → List ColDef → Prop
  | 0, _ => True
  | fuel + 1, cols => ∀ c ∈ cols,
    match c with
    | .leaf _ i _ => (0x3A : UInt8) ∉ i
    | .sub _ sub => sub ≠ [] ∧ Common fuel sub

/-- One column, both routes, from the same accumulated pair. -/
theorem col_equiv (env : Env) (fuel : Nat)
    (ih : ∀ cols, Common fuel cols → ofYaml env fuel cols = ofInline env fuel cols)
    (acc : Outcome (Tmpl × Tmpl)) (c : ColDef)
    (hc : match c with | .leaf _ i _ => (0x3A : UInt8) ∉ i | .sub _ sub => sub ≠ [] ∧ Common fuel sub) :
    yamlCol env (ofYaml env fuel) acc c = inlineCol env (ofInline env fuel) acc c := by
  cases acc with
  | err e => rfl
  | panic s => rfl
  | ok p =>
    obtain ⟨ti, to⟩ := p
    cases c with
    | leaf name i o =>
      simp only at hc
      simp only [yamlCol, inlineCol, split_inline i o hc]
    | sub name sub =>
      obtain ⟨hne, hcom⟩ := hc
      have hemp : sub.isEmpty = false := by cases sub <;> simp_all
      have hw : ∀ (t : Tmpl) (s : Tmpl), withRow env (withCol t name .auto .none) name s = withRow env t name s := by
        intro t s
        unfold withRow withCol
        cases cloneRow env s <;> simp [upsert_upsert]
      simp only [yamlCol, inlineCol, hemp, Bool.false_eq_true, if_false, ih sub hcom]
      cases ofInline env fuel sub with
      | ok p => obtain ⟨si, so⟩ := p; simp only [hw]
      | err e => rfl
      | panic s => rfl

/-- C19, equivalence of the two configuration languages: the same column definitions, given
    as YAML columns or as an inline template, build the same (input, output) template pair —
    for every column list of the common domain, at every nesting depth. -/
theorem yaml_inline_equivalent (env : Env) (fuel : Nat) :
    ∀ cols, Common fuel cols → ofYaml env fuel cols = ofInline env fuel cols := by
  induction fuel with
  | zero => intro cols _; rfl
  | succ fuel ih =>
    intro cols hcom
    simp only [ofYaml, ofInline]
    have key : ∀ (cs : List ColDef) (acc : Outcome (Tmpl × Tmpl)), (∀ c ∈ cs,
        match c with | .leaf _ i _ => (0x3A : UInt8) ∉ i | .sub _ sub => sub ≠ [] ∧ Common fuel sub) →
        cs.foldl (yamlCol env (ofYaml env fuel)) acc = cs.foldl (inlineCol env (ofInline env fuel)) acc := by
      intro cs
      induction cs with
      | nil => intro acc _; rfl
      | cons c cs ihcs =>
        intro acc hcs
        simp only [List.foldl_cons]
        rw [col_equiv env fuel ih acc c (hcs c (by simp))]
        exact ihcs _ (fun c' hc' => hcs c' (by simp [hc']))
    exact key cols _ hcom

/-- An inline template replaces the file definition entirely: whatever the file declared. -/
theorem inline_replaces_file (env : Env) (file file' inline : List ColDef) (t t' : Tmpl × Tmpl)
    (h : ofYaml env 16 file = .ok t) (h' : ofYaml env 16 file' = .ok t') :
    createTemplate env file (some inline) = createTemplate env file' (some inline) := by
  simp [createTemplate, h, h']

/-- Without an inline template (absent, empty or `{}`) the file definition is used. -/
theorem no_inline_keeps_file (env : Env) (file : List ColDef) :
    createTemplate env file none = ofYaml env 16 file := by
  unfold createTemplate
  cases ofYaml env 16 file <;> rfl

/-- The descriptor language on examples of each class (kernel-evaluated over the regenerated
    registries): plain, typed, unknown names, and the regexp's rejections. -/
example : parseDescriptor [0x73, 0x74, 0x72, 0x69, 0x6E, 0x67] = (.string, .none) := by decide
example : parseDescriptor ([0x62, 0x69, 0x6E, 0x61, 0x72, 0x79] ++ [0x28, 0x69, 0x6E, 0x74, 0x33, 0x32, 0x29]) =
    (.binary, .int .i32) := by decide
example : parseDescriptor [] = (.auto, .none) := by decide
example : parseDescriptor [0x73, 0x28, 0x29] = (.auto, .none) := by decide          -- "s()": no match

/-! ### The descriptor language: the hand-written splitter IS the regular expression (`Proofs/JlDescriptor`)

  `JlDescriptor.Matches s name arg?` is `^([^\(]+)(?:\(([^\)]+)\))?$` as a relation on bytes (a match is unique;
  reading the text rune by rune as Go's regexp does gives the same matches, ill-formed UTF-8 included:
  `JlDescriptor.go_rune_match_iff_byte_match`). -/

theorem descriptor_match_unique {s n n' : Bytes} {a a' : Option Bytes}
    (h : JlDescriptor.Matches s n a) (h' : JlDescriptor.Matches s n' a') : n = n' ∧ a = a' :=
  JlDescriptor.matches_unique h h'

/-- The model's splitting function returns (name, group 2) exactly for the matches of the expression … -/
theorem split_is_the_regexp (s n g : Bytes) :
    splitDescriptor s = some (n, g) ↔ JlDescriptor.Matches s n (JlDescriptor.argOf g) :=
  JlDescriptor.splitDescriptor_eq_some_iff s n g

/-- … and reports no match exactly when nothing matches. -/
theorem no_split_iff_no_match (s : Bytes) :
    splitDescriptor s = none ↔ ¬ ∃ n a, JlDescriptor.Matches s n a :=
  JlDescriptor.parseDescriptor_none_iff s

/-- Never a failure, and the fallbacks over the REGENERATED registries: no match → (auto, no raw type); otherwise the
    registry's format for the name (auto when unknown) and the registry's type for the argument (none when unknown or
    absent). -/
theorem parseDescriptor_total (s : Bytes) :
    (¬ (∃ n a, JlDescriptor.Matches s n a) ∧ parseDescriptor s = (.auto, .none)) ∨
    (∃ n a, JlDescriptor.Matches s n a ∧ parseDescriptor s = (JlDescriptor.formatOf n, JlDescriptor.typeOf a)) :=
  JlDescriptor.parseDescriptor_total s

/-- Every name of the registries means itself, alone and between parentheses after every format name. -/
theorem registry_names_mean_themselves (e : Bytes × Format) (he : e ∈ Gen.formatRegistry) (t : Bytes × Ty)
    (ht : t ∈ Gen.typeRegistry) :
    parseDescriptor e.1 = (e.2, .none) ∧
    parseDescriptor (e.1 ++ JlDescriptor.LP :: (t.1 ++ [JlDescriptor.RP])) = (e.2, t.2) :=
  ⟨JlDescriptor.known_format e he, JlDescriptor.known_format_type e he t ht⟩

/-- Case and white space are significant: a loader that lower-cases or trims descriptors changes what a definition
    means (the seeded change `C10-14` did the first). -/
theorem lowercasing_or_trimming_changes_meaning :
    (∃ s, parseDescriptor (JlDescriptor.asciiLower s) ≠ parseDescriptor s) ∧
    (∃ s, parseDescriptor (JlDescriptor.trimSpaces s) ≠ parseDescriptor s) :=
  ⟨JlDescriptor.lowercasing_changes_meaning, JlDescriptor.trimming_changes_meaning⟩

/-- `in:out`: the FIRST colon splits (as `strings.SplitN(_, ":", 2)`); a descriptor without colon stands for both. -/
theorem inline_pair_split (a b : Bytes) (h : 0x3A ∉ a) :
    JlDescriptor.inlinePair (a ++ 0x3A :: b) = (parseDescriptor a, parseDescriptor b) ∧
    JlDescriptor.inlinePair a = (parseDescriptor a, parseDescriptor a) :=
  ⟨JlDescriptor.inlinePair_colon a b h, JlDescriptor.inlinePair_no_colon a h⟩


/-! ### Everything `jl` calls, read from the source (Proofs/FlowTieAll) -/

/-- The whole regenerated table of `template.go`, `exporter.go`, `importer.go` and `streamer.go`
    — the nineteen builders, `CreateRow`, `Export`, the importer, the processors and `Stream` —
    holds nothing unknown and is the table the model was written against. -/
theorem library_flow_is_the_source :
    Gen.flowTable.known = true ∧ Gen.flowTable = FlowSpec.expectedFlow :=
  ⟨FlowTie.flow_known, FlowTie.flow_as_modelled⟩


/-! ### The command itself, read from the source (Proofs/JlTie)

`extract/jlfacts.go` runs the functions of `cmd/jl` through the symbolic executor on every run
(`Gen.JlFacts`). -/

open Jl.JlCmd in
/-- As written today: a column descriptor is split at its FIRST colon (`splitColon`), a descriptor
    is read with the regular expression `Proofs/JlDescriptor` is about (format name in group 1,
    raw type in group 2, unknown names giving Auto / no raw type) — the model's `parseDescriptor` —,
    the definition file is read first and an explicit `-t` REPLACES it — the model's
    `createTemplate` —, and the processor the command installs logs the failure and carries on. -/
theorem command_is_the_source :
    Gen.jlFacts.known = true ∧
    (∀ s : Bytes, JlTie.splitG Gen.jlFacts.inlineRoute s = some (splitColon s)) ∧
    (∀ s : Bytes, JlTie.parseDescriptorG Gen.jlFacts.descriptor s = some (parseDescriptor s)) ∧
    (∀ (env : Value.Env) (file : List ColDef) (inline : Option (List ColDef)),
      JlTie.createTemplateG Gen.jlFacts.createTemplate env file inline =
        some (createTemplate env file inline)) ∧
    JlTie.procG Gen.jlFacts.processor = some .tolerant :=
  ⟨JlTie.jl_facts_known, JlTie.split_is_splitColon, JlTie.parseDescriptor_is_parseDescriptor,
   JlTie.createTemplate_is_createTemplate, JlTie.processor_is_tolerant.1⟩

/-- Standard output is handed to the exporter (and asked for its descriptor by the colour test),
    nothing else; nothing is printed without a writer; the importer reads with the first template
    of the pair and the exporter writes with the second; a template error ends the process with a
    non-zero status, a stream error does not. -/
theorem command_streams_are_the_source :
    (Gen.jlFacts.stdStreams.filter fun e => e.2.1 == "os.Stdout") =
      [("computeColor", "os.Stdout", ".Fd"), ("run", "os.Stdout", ".GetExporter")]
    ∧ Gen.jlFacts.printCalls = []
    ∧ ∃ code, Gen.jlFacts.run = .stream code 0 "Stdin" 1 "Stdout" ∧ code ≠ 0 :=
  JlTie.streams_as_modelled

end Jl.C19
