/-
  C19 — jl behaves as the library does, and file and inline templates are equivalent.

  Statement (properties.jsonl): the same column definitions given as a row.yml file or as an
  inline template argument produce byte-identical output and the same accept/reject decisions
  for every input, an inline template replaces the file definition entirely, and the command's
  output for any input equals what the library streamer produces with the equivalent
  templates.  A malformed template makes the command exit non-zero without emitting data,
  while per-line data errors are logged and do not abort the stream or change the exit status.

  Model: Model.Jl (parseDescriptor's regexp as a function over the regenerated registries,
  the YAML route `parse`, the inline route `createTemplateFromRow`, `createTemplate`).
  YAML / flag parsing and the process boundary are executed only (built binary).
-/
import Model.Jl
import Proofs.Row

namespace Jl.C19
open Jl Jl.Value Jl.Template Jl.JlCmd

/-- Splitting `in:out` at the first colon gives back both descriptors when the input
    descriptor contains no colon. -/
theorem split_inline (i o : Bytes) (h : (0x3A : UInt8) ∉ i) :
    splitColon (inlineText i o) = (i, some o) := by
  unfold splitColon inlineText
  have h1 : ∀ (l : Bytes), (0x3A : UInt8) ∉ l → ∀ r, (l ++ 0x3A :: r).takeWhile (· != 0x3A) = l := by
    intro l hl r
    induction l with
    | nil => simp
    | cons c l ih =>
      have hc : c ≠ 0x3A := fun e => hl (by simp [e])
      simp [List.takeWhile, hc, ih (fun m => hl (by simp [m]))]
  have h2 : ∀ (l : Bytes), (0x3A : UInt8) ∉ l → ∀ r, (l ++ 0x3A :: r).dropWhile (· != 0x3A) = 0x3A :: r := by
    intro l hl r
    induction l with
    | nil => simp
    | cons c l ih =>
      have hc : c ≠ 0x3A := fun e => hl (by simp [e])
      simp [List.dropWhile, hc, ih (fun m => hl (by simp [m]))]
  simp [h1 i h o, h2 i h o]

/-- Storing twice at the same key keeps only the last value, at the first position. -/
theorem upsert_upsert (o : List (Bytes × Val)) (k : Bytes) (a b : Val) :
    upsert (upsert o k a) k b = upsert o k b := by
  unfold upsert
  induction o with
  | nil => simp [OMap.upsert]
  | cons e t ih =>
    obtain ⟨k', c⟩ := e
    by_cases hk : k' = k
    · subst hk; simp [OMap.upsert]
    · simp [OMap.upsert, hk, ih]

/-- The common domain of the two languages: descriptors without `:`; declared sub-rows have
    at least one column. -/
def Common : Nat → List ColDef → Prop
  | 0, _ => True
  | fuel + 1, cols => ∀ c ∈ cols,
    match c with
    | .leaf _ i _ => (0x3A : UInt8) ∉ i
    | .sub _ sub => sub ≠ [] ∧ Common fuel sub

/-- One column, both routes, from the same accumulated pair. -/
theorem col_equiv (env : Env) (fuel : Nat)
    (ih : ∀ cols, Common fuel cols → ofYaml env fuel cols = ofInline env fuel cols)
    (acc : Outcome (Tmpl × Tmpl)) (c : ColDef)
    (hc : match c with | .leaf _ i _ => (0x3A : UInt8) ∉ i | .sub _ sub => sub ≠ [] ∧ Common fuel sub) :
    yamlCol env (ofYaml env fuel) acc c = inlineCol env (ofInline env fuel) acc c := by
  cases acc with
  | err e => rfl
  | panic s => rfl
  | ok p =>
    obtain ⟨ti, to⟩ := p
    cases c with
    | leaf name i o =>
      simp only at hc
      simp only [yamlCol, inlineCol, split_inline i o hc]
    | sub name sub =>
      obtain ⟨hne, hcom⟩ := hc
      have hemp : sub.isEmpty = false := by cases sub <;> simp_all
      have hw : ∀ (t : Tmpl) (s : Tmpl), withRow env (withCol t name .auto .none) name s = withRow env t name s := by
        intro t s
        unfold withRow withCol
        cases cloneRow env s <;> simp [upsert_upsert]
      simp only [yamlCol, inlineCol, hemp, Bool.false_eq_true, if_false, ih sub hcom]
      cases ofInline env fuel sub with
      | ok p => obtain ⟨si, so⟩ := p; simp only [hw]
      | err e => rfl
      | panic s => rfl

/-- C19, equivalence of the two configuration languages: the same column definitions, given
    as YAML columns or as an inline template, build the same (input, output) template pair —
    for every column list of the common domain, at every nesting depth. -/
theorem yaml_inline_equivalent (env : Env) (fuel : Nat) :
    ∀ cols, Common fuel cols → ofYaml env fuel cols = ofInline env fuel cols := by
  induction fuel with
  | zero => intro cols _; rfl
  | succ fuel ih =>
    intro cols hcom
    simp only [ofYaml, ofInline]
    have key : ∀ (cs : List ColDef) (acc : Outcome (Tmpl × Tmpl)), (∀ c ∈ cs,
        match c with | .leaf _ i _ => (0x3A : UInt8) ∉ i | .sub _ sub => sub ≠ [] ∧ Common fuel sub) →
        cs.foldl (yamlCol env (ofYaml env fuel)) acc = cs.foldl (inlineCol env (ofInline env fuel)) acc := by
      intro cs
      induction cs with
      | nil => intro acc _; rfl
      | cons c cs ihcs =>
        intro acc hcs
        simp only [List.foldl_cons]
        rw [col_equiv env fuel ih acc c (hcs c (by simp))]
        exact ihcs _ (fun c' hc' => hcs c' (by simp [hc']))
    exact key cols _ hcom

/-- An inline template replaces the file definition entirely: whatever the file declared. -/
theorem inline_replaces_file (env : Env) (file file' inline : List ColDef) (t t' : Tmpl × Tmpl)
    (h : ofYaml env 16 file = .ok t) (h' : ofYaml env 16 file' = .ok t') :
    createTemplate env file (some inline) = createTemplate env file' (some inline) := by
  simp [createTemplate, h, h']

/-- Without an inline template (absent, empty or `{}`) the file definition is used. -/
theorem no_inline_keeps_file (env : Env) (file : List ColDef) :
    createTemplate env file none = ofYaml env 16 file := by
  unfold createTemplate
  cases ofYaml env 16 file <;> rfl

/-- The descriptor language on examples of each class (kernel-evaluated over the regenerated
    registries): plain, typed, unknown names, and the regexp's rejections. -/
example : parseDescriptor [0x73, 0x74, 0x72, 0x69, 0x6E, 0x67] = (.string, .none) := by decide
example : parseDescriptor ([0x62, 0x69, 0x6E, 0x61, 0x72, 0x79] ++ [0x28, 0x69, 0x6E, 0x74, 0x33, 0x32, 0x29]) =
    (.binary, .int .i32) := by decide
example : parseDescriptor [] = (.auto, .none) := by decide
example : parseDescriptor [0x73, 0x28, 0x29] = (.auto, .none) := by decide          -- "s()": no match

end Jl.C19
