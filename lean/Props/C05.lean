/-
  C05 — emitted lines are fixed points of their output template (idempotence).

  Statement (properties.jsonl): every emitted line is a fixed point of its own output
  template: reading an emitted line L with the output template's column descriptors and
  writing it with those same descriptors, under the same time zone, is accepted and yields
  exactly L again, byte for byte, for every column whose output format and raw type form a
  self-readable (lossless) pairing.

  Cell level, as in C13: if reading the exported value under the same (format, raw type)
  gives back the cell, exporting again gives the same value (`fixed_point_of_read_back`),
  instantiated for the integer and bool pairings proved in C13.  The statement without the
  hypothesis "the raw value is well-typed for the descriptor" is FALSE of the code
  (`swallowed_cast_counterexample`, known finding): the exporter builds the output row with
  NewValue, which swallows a failed cast.
-/
import Props.C13

namespace Jl.C05
open Jl Jl.Value Cast

set_option linter.unusedSimpArgs false

/-- If the exported value, read under the same descriptor, gives back the same cell, then
    writing again yields the same value: the emitted member is a fixed point. -/
theorem fixed_point_of_read_back (env : Env) (raw e : Dyn) (f : Format) (typ : Ty)
    (hexp : exportVal env (.cell raw f typ) = .ok e)
    (himp : importCell env f typ e = .ok (.cell raw f typ, none)) :
    ∃ c, importCell env f typ e = .ok (c, none) ∧ exportVal env c = .ok e :=
  ⟨_, himp, hexp⟩

/-- Integer columns under string, numeric and binary are fixed points, for every value. -/
theorem int_columns_fixed_point (ext : Ext) (t : IntTy) (v : Int) (hv : t.inRange v) :
    (∃ e c, exportVal ⟨genTables, ext⟩ (.cell (.int t v) .string (.int t)) = .ok e ∧
        importCell ⟨genTables, ext⟩ .string (.int t) e = .ok (c, none) ∧ exportVal ⟨genTables, ext⟩ c = .ok e) ∧
    (∃ e c, exportVal ⟨genTables, ext⟩ (.cell (.int t v) .numeric (.int t)) = .ok e ∧
        importCell ⟨genTables, ext⟩ .numeric (.int t) e = .ok (c, none) ∧ exportVal ⟨genTables, ext⟩ c = .ok e) ∧
    (∃ e c, exportVal ⟨genTables, ext⟩ (.cell (.int t v) .binary (.int t)) = .ok e ∧
        importCell ⟨genTables, ext⟩ .binary (.int t) e = .ok (c, none) ∧ exportVal ⟨genTables, ext⟩ c = .ok e) := by
  obtain ⟨s1, s2⟩ := C13.string_int ext t v hv
  obtain ⟨n1, n2⟩ := C13.numeric_int ext t v hv
  obtain ⟨b1, b2⟩ := C13.binary_int ext t v hv
  exact ⟨⟨_, _, s1, s2, s1⟩, ⟨_, _, n1, n2, n1⟩, ⟨_, _, b1, b2, b1⟩⟩

/-- The full statement is false of the code (known finding `swallowed-cast`): with the output
    descriptor string(int), the raw value "" (a string that is no integer) is kept uncast by
    NewValue, exported as "", and "" is rejected when read back under string(int). -/
theorem swallowed_cast_counterexample (ext : Ext) :
    newValue ⟨genTables, ext⟩ (.str []) .string (.int .int) = .ok (.cell (.str []) .string (.int .int)) ∧
    exportVal ⟨genTables, ext⟩ (.cell (.str []) .string (.int .int)) = .ok (.str []) ∧
    importCell ⟨genTables, ext⟩ .string (.int .int) (.str []) =
      .ok (.cell .nil .string (.int .int), some .unsupportedImport) := by
  have hcast : castTo genTables ext (.int .int) (.str []) = .err .cast := by
    simp [castTo, callNamed, genTables, Gen.casters, Gen.dispatchTo, findClause, typeOf, evalBranch, evalE,
      runParse, IntText.parseInt0, failWith, Gen.sentinels, wrapsRoot]
  have hstr : castNamed genTables ext "ToString" (.str []) = .ok (.str []) := by
    simp [castNamed, callNamed, genTables, Gen.casters, findClause, typeOf, evalBranch, evalE]
  refine ⟨?_, ?_, ?_⟩
  · simp [newValue, hcast]
  · simp [exportVal, hstr, exportFail]
  · simp [importCell, importByFormat, importFrom, hcast, importFail]

end Jl.C05
