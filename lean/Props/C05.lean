/-
  C05 — emitted lines are fixed points of their output template (idempotence).

  Statement (properties.jsonl): every emitted line is a fixed point of its own output
  template: reading an emitted line L with the output template's column descriptors and
  writing it with those same descriptors, under the same time zone, is accepted and yields
  exactly L again, byte for byte, for every column whose output format and raw type form a
  self-readable (lossless) pairing.

  Cell level, as in C13: if reading the exported value under the same (format, raw type)
  gives back the cell, exporting again gives the same value (`fixed_point_of_read_back`),
  instantiated for every lossless pairing proved in C13 / Proofs/Pairings and for every
  non-lossless self-readable pairing (`table_coverage`: boolean(T), hidden(T), date(...),
  datetime(string|[]byte), timestamp(json.Number|floats), numeric(string|[]byte)) in
  Proofs/SelfReadable.  The statement without the
  hypothesis "the raw value is well-typed for the descriptor" is FALSE of the code
  (`swallowed_cast_counterexample`, known finding): the exporter builds the output row with
  NewValue, which swallows a failed cast.
-/
import Props.C13
import Proofs.SelfReadable
import Proofs.LineFixedPoint
import Proofs.ValueTie
import Proofs.RowTieMarshal
import Proofs.RowTieText
import Proofs.FlowTieExport
import Proofs.FlowTieImport

namespace Jl.C05
open Jl Jl.Value Cast

set_option linter.unusedSimpArgs false

/-- If the exported value, read under the same descriptor, gives back the same cell, then
    writing again yields the same value: the emitted member is a fixed point. -/
theorem fixed_point_of_read_back (env : Env) (raw e : Dyn) (f : Format) (typ : Ty)
    (hexp : exportVal env (.cell raw f typ) = .ok e)
    (himp : importCell env f typ e = .ok (.cell raw f typ, none)) :
    ∃ c, importCell env f typ e = .ok (c, none) ∧ exportVal env c = .ok e :=
  ⟨_, himp, hexp⟩

/-- Integer columns under string, numeric and binary are fixed points, for every value. -/
theorem int_columns_fixed_point (ext : Ext) (t : IntTy) (v : Int) (hv : t.inRange v) :
    (∃ e c, exportVal ⟨genTables, ext⟩ (.cell (.int t v) .string (.int t)) = .ok e ∧
        importCell ⟨genTables, ext⟩ .string (.int t) e = .ok (c, none) ∧ exportVal ⟨genTables, ext⟩ c = .ok e) ∧
    (∃ e c, exportVal ⟨genTables, ext⟩ (.cell (.int t v) .numeric (.int t)) = .ok e ∧
        importCell ⟨genTables, ext⟩ .numeric (.int t) e = .ok (c, none) ∧ exportVal ⟨genTables, ext⟩ c = .ok e) ∧
    (∃ e c, exportVal ⟨genTables, ext⟩ (.cell (.int t v) .binary (.int t)) = .ok e ∧
        importCell ⟨genTables, ext⟩ .binary (.int t) e = .ok (c, none) ∧ exportVal ⟨genTables, ext⟩ c = .ok e) := by
  obtain ⟨s1, s2⟩ := C13.string_int ext t v hv
  obtain ⟨n1, n2⟩ := C13.numeric_int ext t v hv
  obtain ⟨b1, b2⟩ := C13.binary_int ext t v hv
  exact ⟨⟨_, _, s1, s2, s1⟩, ⟨_, _, n1, n2, n1⟩, ⟨_, _, b1, b2, b1⟩⟩

/-- The full statement is false of the code (known finding `swallowed-cast`): with the output
    descriptor string(int), the raw value "" (a string that is no integer) is kept uncast by
    NewValue, exported as "", and "" is rejected when read back under string(int). -/
theorem swallowed_cast_counterexample (ext : Ext) :
    newValue ⟨genTables, ext⟩ (.str []) .string (.int .int) = .ok (.cell (.str []) .string (.int .int)) ∧
    exportVal ⟨genTables, ext⟩ (.cell (.str []) .string (.int .int)) = .ok (.str []) ∧
    importCell ⟨genTables, ext⟩ .string (.int .int) (.str []) =
      .ok (.cell .nil .string (.int .int), some .unsupportedImport) := by
  have hcast : castTo genTables ext (.int .int) (.str []) = .err .cast := by
    simp [castTo, callNamed, genTables, Gen.casters, Gen.dispatchTo, findClause, typeOf, evalBranch, evalE,
      runParse, IntText.parseInt0, failWith, Gen.sentinels, wrapsRoot]
  have hstr : castNamed genTables ext "ToString" (.str []) = .ok (.str []) := by
    simp [castNamed, callNamed, genTables, Gen.casters, findClause, typeOf, evalBranch, evalE]
  refine ⟨?_, ?_, ?_⟩
  · simp [newValue, hcast]
  · simp [exportVal, hstr, exportFail]
  · simp [importCell, importByFormat, importFrom, hcast, importFail]

/-! ### The self-readable pairings that are not lossless (`Proofs/SelfReadable.lean`)

`SelfReadable.FixedPoint env f ty e e'` : reading `e'` (what the JSON reader delivers for the emitted
`e`) under (f, ty) succeeds and writing the cell again gives `e`. -/

/-- Every pairing of the self-readable table is either lossless (C13 and the `*_fixed_point`
    corollaries of `Proofs/Pairings.lean`) or one of the families below. -/
theorem table_coverage (f : Format) (ty : Ty)
    (h1 : Tables.selfReadable f ty = true) (h2 : Tables.lossless f ty = false) :
    (f = .boolean ∧ ty ≠ .none ∧ ty ≠ .bool) ∨ f = .hidden ∨
    (f = .date ∧ (ty = .none ∨ ty = .str ∨ ty = .bytes ∨ ty = .num)) ∨
    (f = .datetime ∧ (ty = .str ∨ ty = .bytes)) ∨
    (f = .timestamp ∧ (ty = .num ∨ ty = .f64 ∨ ty = .f32)) ∨
    (f = .numeric ∧ (ty = .str ∨ ty = .bytes)) :=
  SelfReadable.nonlossless_selfReadable_cases f ty h1 h2

/-- boolean(T), every T: what a boolean column emits for a well-typed raw value (true / false / null)
    is read back under the same descriptor and emitted again unchanged. -/
theorem boolean_row_fixed_point (ext : Ext) (raw : Dyn) (ty : Ty) (e : Dyn)
    (hwt : SelfReadable.WellTyped .boolean ty raw) (hh : SelfReadable.BooleanHyp ext ty)
    (h : exportVal ⟨genTables, ext⟩ (.cell raw .boolean ty) = .ok e) :
    (e = .nil ∨ ∃ b, e = .bool b) ∧ SelfReadable.FixedPoint ⟨genTables, ext⟩ .boolean ty e e :=
  SelfReadable.boolean_fixed_point ext raw ty e hwt hh h

/-- date(none | string | []byte | json.Number): for EVERY raw value (well-typed or not) and every zone
    function, the emitted date is accepted by the date parser and is a fixed point. -/
theorem date_row_fixed_point (ext : Ext) (raw : Dyn) (ty : Ty) (e : Dyn)
    (hty : ty = .none ∨ ty = .str ∨ ty = .bytes ∨ ty = .num)
    (h : exportVal ⟨genTables, ext⟩ (.cell raw .date ty) = .ok e) :
    (e = .nil ∧ SelfReadable.FixedPoint ⟨genTables, ext⟩ .date ty .nil .nil) ∨
    (∃ d, e = .str d ∧ Time.parseDateOk d = true ∧ JsonQuote.sanitize d = d ∧
      SelfReadable.FixedPoint ⟨genTables, ext⟩ .date ty (.str d) (.str (JsonQuote.sanitize d))) :=
  SelfReadable.date_fixed_point ext raw ty e hty h

/-- datetime(string | []byte): the emitted RFC 3339 text is a fixed point, provided zone offsets are 0 or
    at least a minute and below 25 h, and the raw text does not carry the offset ±25:00 … -/
theorem datetime_text_fixed_point (ext : Ext) (raw : Dyn) (s : Bytes) (ty : Ty) (e : Dyn)
    (hwt : (ty = .str ∧ raw = .str s) ∨ (ty = .bytes ∧ raw = .bytes s))
    (hzone : ∀ v off, ext.zoneOffset v = some off → SelfReadable.OffsetOK off)
    (hs : ∀ t, Time.parseRFC3339 s = some t → t.off.natAbs ≠ 90000)
    (h : exportVal ⟨genTables, ext⟩ (.cell raw .datetime ty) = .ok e) :
    ∃ t, e = .str (Time.formatRFC3339 t) ∧ SelfReadable.TimeFrom ext s t ∧
      JsonQuote.sanitize (Time.formatRFC3339 t) = Time.formatRFC3339 t ∧
      SelfReadable.FixedPoint ⟨genTables, ext⟩ .datetime ty e (.str (JsonQuote.sanitize (Time.formatRFC3339 t))) :=
  SelfReadable.datetime_fixed_point ext raw s ty e hwt hzone hs h

/-- … which is exactly the known finding `offset-24-60`, now with a kernel-checked witness: the text
    `2000-01-01T00:00:00+24:60` is accepted (a leniency of time.Parse), written `…+25:00`, and that
    text is rejected on the next pass — for every zone function. -/
theorem offset_24_60_counterexample (ext : Ext) :
    exportVal ⟨genTables, ext⟩ (.cell (.str SelfReadable.text2460) .datetime .str) = .ok (.str SelfReadable.text2500) ∧
    JsonQuote.sanitize SelfReadable.text2500 = SelfReadable.text2500 ∧
    importCell ⟨genTables, ext⟩ .datetime .str (.str SelfReadable.text2500) =
      .ok (.cell (.str SelfReadable.text2500) .datetime .str, none) ∧
    exportVal ⟨genTables, ext⟩ (.cell (.str SelfReadable.text2500) .datetime .str) = .err .unsupportedExport :=
  SelfReadable.datetime_str_offset_25h_counterexample ext

/-- hidden(T): the line is the line of the row without its hidden cells, whatever they hold. -/
theorem hidden_cells_do_not_reach_the_line (env : Env) (k : Bytes) (raw raw' : Dyn) (ty ty' : Ty) (ms : Members) :
    RowPrint.marshalRow env (.cons k (.cell raw .hidden ty) ms) =
      RowPrint.marshalRow env (.cons k (.cell raw' .hidden ty') ms) :=
  SelfReadable.hidden_line_indep env k raw raw' ty ty' ms

/-- numeric(string | []byte) and timestamp(json.Number): the literal / integer emitted is a fixed point
    (timestamp(float64|float32): `SelfReadable.timestamp_f64_exact`, `timestamp_f32_exact`, given
    strconv's answer for the integer text). -/
theorem numeric_text_fixed_point (ext : Ext) (s : Bytes) :
    (∃ e, exportVal ⟨genTables, ext⟩ (.cell (.str s) .numeric .str) = .ok e ∧ e = .num s ∧
      SelfReadable.FixedPoint ⟨genTables, ext⟩ .numeric .str e e) ∧
    (∃ e, exportVal ⟨genTables, ext⟩ (.cell (.bytes s) .numeric .bytes) = .ok e ∧ e = .num s ∧
      SelfReadable.FixedPoint ⟨genTables, ext⟩ .numeric .bytes e e) :=
  SelfReadable.numeric_text_fixed_point ext s

theorem timestamp_number_fixed_point (ext : Ext) (l : Bytes) (e : Dyn)
    (h : exportVal ⟨genTables, ext⟩ (.cell (.num l) .timestamp .num) = .ok e) :
    ∃ n, e = .int .i64 n ∧ SelfReadable.FixedPoint ⟨genTables, ext⟩ .timestamp .num e (.num (IntText.formatInt n)) :=
  SelfReadable.timestamp_num_fixed_point ext l e h

/-! ### The whole LINE, any number of columns (`Proofs/LineFixedPoint`) -/

open Jl.Template Jl.JsonQuote in
/-- C05 at line level over the regenerated tables, in the words of the tables.  Output template with
    distinct names the escaper leaves alone, every visible column a covered pairing (a subset of
    `Tables.selfReadable`), input columns among the output columns; any number of columns, hidden
    columns, absent columns, undeclared members (repeated names, nested objects and arrays
    included).  If every visible declared cell of the emitted row holds a raw value that is
    well-typed for its descriptor (what `swallowed-cast` violates), in the property's domain (what
    `illformed-utf8-escape` violates), with the standard-library answers its pairing needs
    (`ExtHyp`, which also excludes `offset-24-60`), then the emitted line, read with `(to, to)`, is
    accepted and written again byte for byte. -/
theorem line_fixed_point (ext : Ext) (hx : JsonPrint.FloatTextOK ext) (ti to : Tmpl)
    (line b : Bytes) (hto : (OMap.keys to).Nodup)
    (hsan_to : ∀ k ∈ OMap.keys to, sanitize k = k)
    (hsub : ∀ k ∈ OMap.keys ti, k ∈ OMap.keys to)
    (hpair : ∀ k v, OMap.lookup to k = some v → Cells.format v ≠ .hidden →
      LineFixedPoint.coveredB (Cells.format v) (Cells.rawType v) = true)
    (h : jlLine ⟨genTables, ext⟩ ti to line = .ok (b, none))
    (hval : ∀ r row', getRow ⟨genTables, ext⟩ ti line = .ok (r, none) →
      createRow ⟨genTables, ext⟩ to (.val (.row (Members.ofList r))) = .ok (row', none) →
      ∀ k v raw, OMap.lookup to k = some v → Cells.format v ≠ .hidden →
        OMap.lookup row' k = some (.cell raw (Cells.format v) (Cells.rawType v)) →
        SelfReadable.WellTyped (Cells.format v) (Cells.rawType v) raw ∧
        Tables.inDomain (Cells.format v) (Cells.rawType v) raw = true ∧
        LineFixedPoint.ExtHyp ext (Cells.format v) (Cells.rawType v) raw) :
    (∀ k v, OMap.lookup to k = some v → Cells.format v ≠ .hidden →
      Tables.selfReadable (Cells.format v) (Cells.rawType v) = true) ∧
    ∃ body, b = body ++ [0x0A] ∧ jlLine ⟨genTables, ext⟩ to to body = .ok (b, none) :=
  LineFixedPoint.gen_line_fixed_point_table ext hx ti to line b hto hsan_to hsub hpair h hval

open Jl.Template Jl.JsonQuote in
/-- Templates of `auto` / `hidden` columns without raw type (what unknown descriptors give too):
    EVERY accepted line is emitted as a fixed point, nothing asked of the line. -/
theorem auto_columns_fixed_point (ext : Ext) (hx : JsonPrint.FloatTextOK ext) (ti to : Tmpl)
    (line b : Bytes) (hti : (OMap.keys ti).Nodup) (hto : (OMap.keys to).Nodup)
    (hsan_to : ∀ k ∈ OMap.keys to, sanitize k = k)
    (hsub : ∀ k ∈ OMap.keys ti, k ∈ OMap.keys to)
    (hcols_to : ∀ k v, OMap.lookup to k = some v →
      v = .cell .nil .auto .none ∨ v = .cell .nil .hidden .none)
    (hcols_ti : ∀ k, OMap.lookup to k = some (.cell .nil .auto .none) →
      OMap.lookup ti k = some (.cell .nil .auto .none))
    (h : jlLine ⟨genTables, ext⟩ ti to line = .ok (b, none)) :
    ∃ body, b = body ++ [0x0A] ∧ jlLine ⟨genTables, ext⟩ to to body = .ok (b, none) :=
  LineFixedPoint.gen_line_fixed_point_auto_columns ext hx ti to line b hti hto hsan_to hsub hcols_to hcols_ti h

open Jl.Template in
/-- The known findings at LINE level, kernel-checked on the model of the whole pipeline:
    `swallowed-cast` — `{"c":""}` under (no input template, output `c`: string(int)) is emitted as it
    is and REJECTED by the second pass; `illformed-utf8-escape` — the emitted line is accepted by the
    second pass but written again with other bytes. -/
theorem known_findings_at_line_level (ext : Ext) :
    (jlLine ⟨genTables, ext⟩ [] LineFixedPoint.Swallowed.tmpl LineFixedPoint.Swallowed.line =
        .ok (LineFixedPoint.Swallowed.line ++ [0x0A], none) ∧
     jlLine ⟨genTables, ext⟩ LineFixedPoint.Swallowed.tmpl LineFixedPoint.Swallowed.tmpl LineFixedPoint.Swallowed.line =
        .ok ([], some .unsupportedImport)) ∧
    (jlLine ⟨genTables, ext⟩ LineFixedPoint.IllFormed.ti LineFixedPoint.IllFormed.to LineFixedPoint.IllFormed.line =
        .ok (LineFixedPoint.IllFormed.body1 ++ [0x0A], none) ∧
     jlLine ⟨genTables, ext⟩ LineFixedPoint.IllFormed.to LineFixedPoint.IllFormed.to LineFixedPoint.IllFormed.body1 =
        .ok (LineFixedPoint.IllFormed.body2 ++ [0x0A], none) ∧
     LineFixedPoint.IllFormed.body2 ≠ LineFixedPoint.IllFormed.body1) :=
  ⟨LineFixedPoint.Swallowed.swallowed_cast_line ext, LineFixedPoint.IllFormed.ill_formed_line ext⟩

/-! ### The model of `value.go` is REGENERATED (`extract/value.go` → `Gen.ValueTable`, `Proofs/ValueTie`)

  `value.Import`, `value.Export`, `NewValue`, `CloneValue` and the fourteen functions of `conversions_import.go` /
  `conversions_export.go` are read from the source on every run (symbolic execution format by format, classified into
  the small syntax of `Model.ValueSyntax`) and interpreted by `Model.ValueGen`.  The theorems of this file are about
  the hand-written `Model.Value`; this one says that `Model.Value` IS that interpretation of today's source, so a
  change of the source (another caster for a format, a layout instead of `cast.ToString`, a dropped nil check, a Row
  accepted by another format, another sentinel, renumbered formats …) stops it from compiling. -/
theorem value_model_is_the_source :
    (Gen.valueTable.known = true ∧ Gen.valueTable.importPreamble = .asModelled ∧
      Gen.valueTable.exportPreamble = .asModelled ∧ Gen.valueTable.newValue = .asModelled ∧
      Gen.valueTable.cloneValue = .asModelled) ∧
    (∀ (env : Value.Env) (f : Format) (typ : Ty) (val : Dyn),
      ValueGen.importByFormatG Gen.valueTable env f typ val = Value.importByFormat env f typ val) ∧
    (∀ (env : Value.Env) (old : Dyn) (f : Format) (typ : Ty) (val : Dyn), f ≠ .bad →
      ValueGen.importCellG Gen.valueTable env old f typ val = Value.importCell env f typ val) ∧
    (∀ (env : Value.Env) (raw : Dyn) (f : Format) (typ : Ty),
      ValueGen.exportCellG Gen.valueTable env raw f = Value.exportVal env (.cell raw f typ)) ∧
    Gen.valueTable.formats = Format.declared.map (fun f => (f.goName, (f.ctorIdx : Int))) :=
  ⟨ValueTie.table_known, ValueTie.import_as_modelled, ValueTie.importCell_as_modelled,
   ValueTie.export_as_modelled, ValueTie.formats_as_modelled⟩


/-! ### Reader and writer are the source's (Proofs/RowTieMarshal, RowTieText, FlowTieExport, FlowTieImport)

The property speaks of lines WRITTEN and READ BACK; the code doing both is read from `row.go`,
`exporter.go` and `importer.go` on every run. -/

/-- As written today: `row.MarshalJSON` is the model's `marshalVal`, `Exporter.Export` the model's
    `exportLine` (one `Write`, the separator of `Gen.Sites`), `Importer.GetRow` the model's
    `getRow`, and `UnmarshalJSON` reads numbers as literals, wants `{`, the members until `}` and
    then only the end of the input. -/
theorem reader_and_writer_are_the_source :
    (∀ (env : Value.Env) (ms : Members),
      RowTie.marshalRowG Gen.rowFacts.marshal (RowPrint.marshalVal env) ms.toList =
        some (RowPrint.marshalVal env (.row ms))) ∧
    (∀ (env : Value.Env) (t : Template.Tmpl) (v : Dyn),
      FlowTie.exportG Gen.flowTable.exporterExport env t v = some (Template.exportLine env t v)) ∧
    (∀ (env : Value.Env) (t : Template.Tmpl) (line : Bytes),
      FlowTie.getRowG Gen.flowTable.getRow Gen.flowTable.createRowEmpty env t line =
        some (Template.getRow env t line)) ∧
    Gen.rowFacts.unmarshal = [.newDecoder true, .openDelim 0x7B, .members "parseobject", .onlyEOF] :=
  ⟨RowTie.marshal_as_modelled, FlowTie.export_is_exportLine, FlowTie.getRow_is_getRow,
   RowTie.unmarshal_as_modelled.1⟩

end Jl.C05
