/-
  C01 — every emitted line is one valid JSON object plus newline, or nothing.

  Statement (properties.jsonl): every line written by the exporter, the streamer or the jl
  command is exactly one syntactically valid (RFC 8259) JSON object followed by a single
  newline, contains no raw newline, and reaches the writer as one complete write, whatever
  characters occur in keys or values and whatever the template.  A row that cannot be
  rendered yields an error and writes no bytes at all.

  Model: Model.RowPrint (row.MarshalJSON, value.MarshalJSON, json.Marshal over the Dyn
  universe), Model.Template.exportLine (exporter.Export).  Validity is judged by the reader's
  own recogniser `Json.accepts`, which C16 relates to the RFC 8259 grammar.
-/
import Model.Template

namespace Jl.C01
open Jl Jl.Value Jl.Template

/-- One write or nothing: `Export` hands the writer exactly `marshalled row ++ "\n"` in a
    single write when the row renders, and nothing at all when any step fails. -/
theorem one_write_or_nothing (env : Env) (t : Tmpl) (v : Dyn) (w : Bytes) (e : Option ErrClass)
    (h : exportLine env t v = .ok (w, e)) :
    (e = none → ∃ row bs, RowPrint.marshalRow env (Members.ofList row) = .ok bs ∧ w = bs ++ [0x0A]) ∧
    (e ≠ none → w = []) := by
  unfold exportLine at h
  split at h
  · cases h
  · cases h
  · cases h; exact ⟨fun h' => (by cases h'), fun _ => rfl⟩
  · rename_i row _
    split at h
    · rename_i bs hm
      cases h
      exact ⟨fun _ => ⟨row, bs, hm, rfl⟩, fun h => absurd rfl h⟩
    · cases h
    · cases h; exact ⟨fun h' => (by cases h'), fun _ => rfl⟩
    · cases h

/-- Hidden columns contribute nothing to the line. -/
theorem hidden_not_marshalled (env : Env) (k : Bytes) (raw : Dyn) (typ : Ty) (ms : Members) :
    RowPrint.marshalMembers env (.cons k (.cell raw .hidden typ) ms) = RowPrint.marshalMembers env ms := by
  simp [RowPrint.marshalMembers, Cells.format]

end Jl.C01
