/-
  C01 — every emitted line is one valid JSON object plus newline, or nothing.

  Statement (properties.jsonl): every line written by the exporter, the streamer or the jl
  command is exactly one syntactically valid (RFC 8259) JSON object followed by a single
  newline, contains no raw newline, and reaches the writer as one complete write, whatever
  characters occur in keys or values and whatever the template.  A row that cannot be
  rendered yields an error and writes no bytes at all.

  Model: Model.RowPrint (row.MarshalJSON, value.MarshalJSON, json.Marshal over the Dyn
  universe), Model.Template.exportLine (exporter.Export).  Validity is stated with the
  reader's recogniser `Json.accepts`, which C16 relates to the RFC 8259 grammar.

  Stdlib parameter: json.Marshal's spelling of floats (`Ext.jsonFloat`) — assumed to be a
  valid JSON number (`FloatTextOK`, encoding/json's contract); everything else is proved,
  including the quote lemma for every byte string (Proofs.JsonQuote.strBody_quoteBody).
-/
import Model.Template
import Proofs.JsonPrint
import Proofs.RowTieMarshal
import Proofs.FlowTieExport

namespace Jl.C01
open Jl Jl.Value Jl.Template Jl.JsonPrint

/-- One write or nothing: `Export` hands the writer exactly `marshalled row ++ "\n"` in a
    single write when the row renders, and nothing at all when any step fails. -/
theorem one_write_or_nothing (env : Env) (t : Tmpl) (v : Dyn) (w : Bytes) (e : Option ErrClass)
    (h : exportLine env t v = .ok (w, e)) :
    (e = none → ∃ row bs, RowPrint.marshalRow env (Members.ofList row) = .ok bs ∧ w = bs ++ [0x0A]) ∧
    (e ≠ none → w = []) := by
  unfold exportLine at h
  split at h
  · cases h
  · cases h
  · cases h; exact ⟨fun h' => (by cases h'), fun _ => rfl⟩
  · rename_i row _
    split at h
    · rename_i bs hm
      cases h
      exact ⟨fun _ => ⟨row, bs, hm, rfl⟩, fun h => absurd rfl h⟩
    · cases h
    · cases h; exact ⟨fun h' => (by cases h'), fun _ => rfl⟩
    · cases h

/-- Hidden columns contribute nothing to the line. -/
theorem hidden_not_marshalled (env : Env) (k : Bytes) (raw : Dyn) (typ : Ty) (ms : Members) :
    RowPrint.marshalMembers env (.cons k (.cell raw .hidden typ) ms) = RowPrint.marshalMembers env ms := by
  simp [RowPrint.marshalMembers, Cells.format]

/-- C01, validity: every row that marshals — any nesting, any key and value bytes (controls,
    quotes, backslashes, U+2028/2029, ill-formed UTF-8), any template, any Go raw value of the
    model's universe — is accepted by the reader as exactly one JSON object and contains no
    newline byte. -/
theorem every_marshalled_row_is_one_valid_object (env : Env) (h : FloatTextOK env.ext)
    (ms : Members) (bs : Bytes) (hb : RowPrint.marshalRow env ms = .ok bs) :
    Json.accepts bs = true ∧ (0x0A : UInt8) ∉ bs :=
  marshalRow_valid env h ms bs hb

/-- C01 for `exporter.Export` (every input kind of CreateRow, every template): what reaches
    the writer is one accepted object text, then exactly one newline, which is the last byte. -/
theorem exported_line_valid (env : Env) (h : FloatTextOK env.ext) (t : Tmpl) (v : Dyn) (w : Bytes)
    (hw : exportLine env t v = .ok (w, none)) :
    (∃ bs, w = bs ++ [0x0A] ∧ Json.accepts bs = true ∧ (0x0A : UInt8) ∉ bs) ∧
    w.count 0x0A = 1 ∧ w.getLast? = some 0x0A :=
  ⟨exportLine_valid env h t v w hw, exportLine_one_newline env h t v w hw⟩

/-- C01 for a line through jl (importer then exporter), and nothing is written on error. -/
theorem jl_line_valid_or_nothing (env : Env) (h : FloatTextOK env.ext) (ti to : Tmpl) (line w : Bytes) :
    (jlLine env ti to line = .ok (w, none) →
      ∃ bs, w = bs ++ [0x0A] ∧ Json.accepts bs = true ∧ (0x0A : UInt8) ∉ bs) ∧
    (∀ e, jlLine env ti to line = .ok (w, some e) → w = []) :=
  ⟨jlLine_valid env h ti to line w, fun e => jlLine_error env ti to line w e⟩

/-- The quote lemma behind it: the encoder's output for ANY byte string is read back by the
    string scanner as one string token (the sanitised string), leaving exactly the rest. -/
theorem quote_is_one_string_token (s rest : Bytes) :
    Json.scanScalar (JsonWrite.quote s ++ rest) = some (.str (JsonQuote.sanitize s), rest) ∧
    ∀ b ∈ JsonWrite.quote s, 0x20 ≤ b :=
  ⟨JsonQuote.scanScalar_quote s rest, JsonQuote.quote_ge s⟩

/-! ### The writer's code is the source's (Proofs/RowTieMarshal, Proofs/FlowTieExport)

`Gen.rowFacts.marshal` and `Gen.flowTable.exporterExport` are regenerated from `row.go` and
`exporter.go` on every run; interpreted from the meaning of their constructors alone they compute
what the model's `marshalVal` and `exportLine` compute — so the theorems above are about
`MarshalJSON`'s buffer discipline and `Export`'s single write as they are written today. -/

/-- `row.MarshalJSON`, as the source says it today, is `RowPrint.marshalVal env (.row ms)`; and
    `Exporter.Export` is `exportLine`: one `Write` of the marshalled row followed by the line
    separator the translator read (0x0A). -/
theorem writer_model_is_the_source :
    (∀ (env : Value.Env) (ms : Members),
      RowTie.marshalRowG Gen.rowFacts.marshal (RowPrint.marshalVal env) ms.toList =
        some (RowPrint.marshalVal env (.row ms))) ∧
    (∀ (env : Value.Env) (t : Template.Tmpl) (v : Dyn),
      FlowTie.exportG Gen.flowTable.exporterExport env t v = some (Template.exportLine env t v)) ∧
    Gen.flowTable.exporterExport = .oneWrite Gen.lineSeparator .wrapped :=
  ⟨RowTie.marshal_as_modelled, FlowTie.export_is_exportLine, FlowTie.separator_as_generated⟩

end Jl.C01
