/-
  C20 — a finished template can be shared by concurrent goroutines.

  Statement (properties.jsonl): a template that is no longer being modified may be used by any
  number of goroutines concurrently to create rows, importers and exporters: there are no
  data races, and every goroutine obtains exactly the results it would obtain when running
  alone.

  Two parts.  (1) Footprints, regenerated from the source on every run (Gen.Sites): the only
  thing the read-only template operations do with the prototype row is `CloneRow(t.empty)`;
  CloneRow / CloneValue / IterValues only call readers on it; none of those readers — nor any
  function of pkg/cast — assigns through a receiver, a parameter or a package-level variable.
  (2) For operations that do not modify the shared memory, EVERY schedule gives every
  goroutine the results it gets alone (induction over the schedule).
  Cannot be exhibited by the model: the Go memory model, compiler reorderings, the runtime —
  there the race detector runs of the harness are the only evidence.
-/
import Model.Conc
import Gen.Sites

namespace Jl.C20
open Jl Jl.Conc

/-- `l ⊆ allowed` as a decidable check. -/
def within {α : Type} [BEq α] (l allowed : List α) : Bool := l.all fun x => allowed.contains x

/-- What the read-only template operations do with the prototype: clone it, nothing else
    (anything else they would do with it re-opens this). -/
theorem prototype_only_cloned :
    within (Gen.protoUses.filter fun p =>
        p.1 ∈ ["template.CreateRow", "template.CreateRowEmpty", "template.GetExporter", "template.GetImporter"])
      [("template.CreateRow", "CloneRow"), ("template.CreateRowEmpty", "CloneRow")] = true := by decide

/-- Cloning only calls readers on its argument. -/
theorem clone_only_reads :
    within Gen.cloneUses [("CloneRow", "r.IterValues"), ("CloneValue", "v.GetFormat"), ("CloneValue", "v.GetRawType"),
      ("CloneValue", "v.Raw"), ("row.IterValues", "r.l.Front")] = true := by decide

/-- The functions that assign through a receiver, a parameter or a package-level variable —
    none of them is one of the readers used on the prototype, and all of them are either
    builder calls, constructors' fluent setters, or mutators of the row / cell they are called
    on (which, after `CloneRow`, is a fresh object: C15). A new writer re-opens this. -/
theorem writers_are_not_the_readers :
    within (Gen.jsonlineWrites.map Prod.fst)
      ["exporter.WithTemplate", "importer.WithTemplate", "row.ImportAtKey", "row.Set", "row.SetValue",
       "row.parseobject", "streamer.WithProcessor", "value.Import"] = true := by decide

/-- The writer inventory above lists assignments to fields of the struct types whose objects can
    be shared through the API (those implementing an exported interface, the types of package-level
    variables, and what their fields reach); a private helper object made afresh by a call (an
    iterator, a builder) is owned by that call. The API's own types are all in the tracked set. -/
theorem api_types_are_tracked :
    within ["exporter", "importer", "row", "streamer", "template", "value"] Gen.jsonlineSharedTypes = true := by
  decide

/-- pkg/cast assigns nothing outside its locals: `cast.TimeStringFormat` and the sentinels are
    only read. -/
theorem cast_writes_nothing_shared : Gen.castWrites = [] := by decide

/-- Neither package keeps a package-level variable of slice, map, pointer, channel, array or struct type: there is no
    memory that every goroutine reaches and that a caller who was handed a value could write to (a `[]byte` or a map
    returned from such a variable would be shared by every row of every goroutine). A new one re-opens this. -/
theorem no_reference_typed_package_variable : Gen.refGlobals = [] := by decide

/-- The invariant of every reachable state: memory unchanged, every remaining operation
    read-only, and each goroutine's results are those of the operations it has executed, as
    if it ran alone on the initial memory. -/
def Inv {M R : Type} (m : M) (progs : Nat → List (Op M R)) (s : St M R) : Prop :=
  s.mem = m ∧ (∀ j, ∀ op ∈ s.progs j, op.ReadOnly) ∧
  ∀ j, ∃ done, progs j = done ++ s.progs j ∧ s.results j = alone m done

theorem inv_init {M R : Type} (m : M) (progs : Nat → List (Op M R))
    (hro : ∀ j, ∀ op ∈ progs j, op.ReadOnly) : Inv m progs (init m progs) :=
  ⟨rfl, hro, fun _ => ⟨[], by simp [init], by simp [init, alone]⟩⟩

theorem inv_step {M R : Type} (m : M) (progs : Nat → List (Op M R)) (s : St M R) (i : Nat)
    (h : Inv m progs s) : Inv m progs (step s i) := by
  obtain ⟨hm, hro, hres⟩ := h
  unfold step
  cases hp : s.progs i with
  | nil => exact ⟨hm, hro, hres⟩
  | cons op rest =>
    have hop : op.ReadOnly := hro i op (by simp [hp])
    refine ⟨by simp [hm, hop m], ?_, ?_⟩
    · intro j o ho
      by_cases hj : j = i
      · subst hj
        simp [upd] at ho
        exact hro j o (by simp [hp, ho])
      · simp [upd, hj] at ho
        exact hro j o ho
    · intro j
      by_cases hj : j = i
      · subst hj
        obtain ⟨done, hd1, hd2⟩ := hres j
        refine ⟨done ++ [op], by simp [upd, hd1, hp], ?_⟩
        simp [upd, hd2, alone, hm]
      · obtain ⟨done, hd1, hd2⟩ := hres j
        exact ⟨done, by simp [upd, hj, hd1], by simp [upd, hj, hd2]⟩

/-- C20, schedule independence: with read-only operations, after ANY schedule the shared
    memory is unchanged and each goroutine's results so far are exactly what it obtains for
    the operations it has executed when running alone on the initial memory. -/
theorem same_as_alone {M R : Type} (m : M) (progs : Nat → List (Op M R))
    (hro : ∀ j, ∀ op ∈ progs j, op.ReadOnly) (sched : List Nat) :
    let s := runSchedule (init m progs) sched
    s.mem = m ∧ ∀ j, ∃ done, progs j = done ++ s.progs j ∧ s.results j = alone m done := by
  have h : ∀ (sched : List Nat) (s : St M R), Inv m progs s → Inv m progs (runSchedule s sched) := by
    intro sched
    induction sched with
    | nil => intro s hs; exact hs
    | cons i sched ih => intro s hs; exact ih _ (inv_step m progs s i hs)
  obtain ⟨h1, _, h3⟩ := h sched _ (inv_init m progs hro)
  exact ⟨h1, h3⟩

/-- … in particular a complete schedule (every goroutine finished) gives every goroutine
    exactly its sequential results. -/
theorem finished_same_as_sequential {M R : Type} (m : M) (progs : Nat → List (Op M R))
    (hro : ∀ j, ∀ op ∈ progs j, op.ReadOnly) (sched : List Nat) (j : Nat)
    (hfin : (runSchedule (init m progs) sched).progs j = []) :
    (runSchedule (init m progs) sched).results j = alone m (progs j) := by
  obtain ⟨_, h⟩ := same_as_alone m progs hro sched
  obtain ⟨done, hd1, hd2⟩ := h j
  rw [hfin, List.append_nil] at hd1
  rw [hd2, hd1]

/-- Schedule independence stated outright: two schedules — any two — that both let goroutine `j`
    finish give it the same results, and both leave the shared memory as it was. -/
theorem results_do_not_depend_on_the_schedule {M R : Type} (m : M) (progs : Nat → List (Op M R))
    (hro : ∀ j, ∀ op ∈ progs j, op.ReadOnly) (s₁ s₂ : List Nat) (j : Nat)
    (h₁ : (runSchedule (init m progs) s₁).progs j = [])
    (h₂ : (runSchedule (init m progs) s₂).progs j = []) :
    (runSchedule (init m progs) s₁).results j = (runSchedule (init m progs) s₂).results j ∧
    (runSchedule (init m progs) s₁).mem = (runSchedule (init m progs) s₂).mem := by
  rw [finished_same_as_sequential m progs hro s₁ j h₁, finished_same_as_sequential m progs hro s₂ j h₂,
    (same_as_alone m progs hro s₁).1, (same_as_alone m progs hro s₂).1]
  exact ⟨rfl, rfl⟩

/-- The read-only hypothesis is what carries the theorem (and is what `prototype_only_cloned` /
    `clone_only_reads` read from the source on every run): with ONE operation that writes the shared
    memory, two schedules give another goroutine different results. -/
theorem one_writer_makes_results_schedule_dependent :
    let rd : Op Nat Nat := ⟨fun m => (m, m)⟩
    let wr : Op Nat Nat := ⟨fun m => (m + 1, 0)⟩
    let progs : Nat → List (Op Nat Nat) := fun j => if j = 0 then [rd] else if j = 1 then [wr] else []
    (runSchedule (init 5 progs) [0, 1]).results 0 = [5] ∧
    (runSchedule (init 5 progs) [1, 0]).results 0 = [6] ∧
    (runSchedule (init 5 progs) [0, 1]).progs 0 = [] ∧ (runSchedule (init 5 progs) [1, 0]).progs 0 = [] := by
  decide

/-- Non-vacuity: two goroutines, three read-only operations, an interleaved schedule. -/
example :
    let op (k : Nat) : Op Nat Nat := ⟨fun m => (m, m + k)⟩
    let progs : Nat → List (Op Nat Nat) := fun j => if j = 0 then [op 1, op 2] else if j = 1 then [op 10] else []
    ((runSchedule (init 5 progs) [0, 1, 0]).results 0, (runSchedule (init 5 progs) [0, 1, 0]).results 1)
      = ([6, 7], [15]) := by decide

end Jl.C20
