/-
  Props.C03S — SUPPLEMENTARY theorems of property C03: the statements of Props/C03.lean carried down to lines,
  columns and bytes over the REGENERATED cast tables (Proofs/LineValues, Proofs/ExportText).
  They are built and audited on every run like the others; they are kept apart because they rest on the cast
  tables, which the core statement of C03 does not: when the translator cannot READ a caster (a rewrite it does not
  recognise, reported as `unknown`), these are reported as not re-proved in the evidence while the core theorems and
  the correspondence still decide the property; when the tables are read and a theorem here no longer checks, that
  is reported as a broken obligation like any other (DESIGN §4.1).
-/
import Props.C03
import Proofs.LineValues
import Proofs.ExportText

namespace Jl.C03
open Jl Jl.Value Jl.Template

/-! ### Whole VALUES on the emitted bytes: no level is ever re-sorted (`Proofs/LineValues`) -/

open Jl.JsonQuote (sanitize) in
/-- "Objects found under any other column keep their input member order", on the BYTES and at every depth:
    for an accepted line over the regenerated tables, a member whose name NEITHER template declares comes out
    as exactly the JSON value the input held under that name — the last member of that name, and inside it
    every repeated name at its first position with its last value (`LineSpec.normDup`, what the oracle compares
    with; the identity on inputs without repeated names: `LineValues.normDup_unique`) — same member order at
    every depth, arrays included, strings as decoded, number literals verbatim.  The separation hypothesis is
    the one of `emitted_bytes_keys` (no other key of the line is written like `k`). -/
theorem undeclared_member_verbatim (ext : Ext) (ti to : Tmpl) (line b k : Bytes) (v : JV)
    (h : jlLine ⟨genTables, ext⟩ ti to line = .ok (b, none)) (hx : JsonPrint.FloatTextOK ext)
    (hki : k ∉ OMap.keys ti) (hko : k ∉ OMap.keys to)
    (hsep : ∀ k' ∈ OMap.keys to ++ OMap.keys ti ++ Order.inputKeys line,
      sanitize k' = sanitize k → k' = k)
    (hv : LineSpec.lookupJV (LineSpec.normDup (Json.unmarshal line).1) k = some v) :
    ∃ body t, b = body ++ [0x0A] ∧ Json.unmarshal body = (t, true) ∧
      LineSpec.lookupJV t (sanitize k) = some v :=
  LineValues.undeclared_member_verbatim_gen ext ti to line b k v h hx hki hko hsep hv

open Jl.JsonQuote (sanitize) in
/-- The same for a name declared as an `auto` column without raw type in BOTH templates. -/
theorem auto_column_verbatim (ext : Ext) (ti to : Tmpl) (line b k : Bytes) (v : JV)
    (ri ro : Dyn) (h : jlLine ⟨genTables, ext⟩ ti to line = .ok (b, none)) (hx : JsonPrint.FloatTextOK ext)
    (hndi : (OMap.keys ti).Nodup) (hndo : (OMap.keys to).Nodup)
    (hci : (k, Val.cell ri .auto .none) ∈ ti) (hco : (k, Val.cell ro .auto .none) ∈ to)
    (hsep : ∀ k' ∈ OMap.keys to ++ OMap.keys ti ++ Order.inputKeys line,
      sanitize k' = sanitize k → k' = k)
    (hv : LineSpec.lookupJV (LineSpec.normDup (Json.unmarshal line).1) k = some v) :
    ∃ body t, b = body ++ [0x0A] ∧ Json.unmarshal body = (t, true) ∧
      LineSpec.lookupJV t (sanitize k) = some v :=
  LineValues.auto_column_verbatim_gen ext ti to line b k v ri ro h hx hndi hndo hci hco hsep hv

open Jl.JsonQuote (sanitize) in
/-- In the oracle's words: the last clause of `LineSpec.orderViolation` ("undeclared-value-reshaped", shown
    to be that clause by `LineValues.orderViolation_succ`) finds nothing on the model's line, for templates
    whose input names are all output names and whose output names the escaper leaves alone. -/
theorem undeclared_values_never_reshaped (ext : Ext) (ti to : Tmpl) (line b : Bytes)
    (h : jlLine ⟨genTables, ext⟩ ti to line = .ok (b, none)) (hx : JsonPrint.FloatTextOK ext)
    (hsub : ∀ k ∈ OMap.keys ti, k ∈ OMap.keys to)
    (hfix : ∀ k ∈ OMap.keys to, sanitize k = k) :
    ∃ body t, b = body ++ [0x0A] ∧ Json.unmarshal body = (t, true) ∧
      LineValues.undeclaredClause (LineLevel.leafCols to) (LineSpec.normDup (Json.unmarshal line).1) t false
        = none :=
  LineValues.undeclared_clause_none ext ti to line b h hx hsub hfix

/-- Why the statement is about `normDup` of the input and not the raw reader value: a name repeated INSIDE
    an undeclared object is imported into its first occurrence (`{"z":{"a":1,"b":2,"a":3}}` comes out with
    `"z":{"a":3,"b":2}`) — kernel-checked on the whole pipeline. -/
theorem repeated_name_inside_undeclared_object :
    jlLine LineValues.Dup.env LineValues.Dup.tmpl LineValues.Dup.tmpl LineValues.Dup.line =
      .ok (LineValues.Dup.out ++ [0x0A], none) ∧
    LineSpec.lookupJV (Json.unmarshal LineValues.Dup.line).1 [0x7A] = some LineValues.Dup.zRaw ∧
    ∃ t, Json.unmarshal LineValues.Dup.out = (t, true) ∧
      LineSpec.lookupJV t [0x7A] = some LineValues.Dup.zNorm ∧ LineValues.Dup.zNorm ≠ LineValues.Dup.zRaw :=
  LineValues.Dup.raw_value_not_kept

/-! ### The text route (`Exporter.Export` / `CreateRow` given JSON text): the same key order (`Proofs/ExportText`) -/

open Jl.JsonQuote (sanitize) in
/-- For text handed straight to `Export`: the member names of the emitted line are, in the oracle's words, the
    template's visible columns in declaration order and then the text's other names in order of first appearance. -/
theorem text_route_keys_expected (env : Env) (to : Tmpl) (line b : Bytes)
    (h : exportLine env to (.str line) = .ok (b, none)) (hx : JsonPrint.FloatTextOK env.ext)
    (hto : (OMap.keys to).Nodup) :
    ∃ body t, b = body ++ [0x0A] ∧ Json.unmarshal body = (t, true) ∧
      LineSpec.keysOf t =
        (LineSpec.expectedKeys (LineLevel.leafCols to) (LineSpec.keysOf (Json.unmarshal line).1)).map
          sanitize :=
  ExportText.text_bytes_keys_expected env to line b h hx hto

end Jl.C03
