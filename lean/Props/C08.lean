/-
  C08 — I/O failures and oversize lines are reported, never silently swallowed.

  Statement (properties.jsonl): if the input reader fails at any byte offset, the output
  writer fails at any write, or a line exceeds the size limit, the stream reports an error
  (through its return value or the processor) — it never returns success after discarding
  input that had not been processed.  Every line that was written before the failure is
  complete, and after a write failure has been returned as fatal nothing more is written.

  Model: Model.Scanner (port of bufio.Scanner as importer.go configures it, validated against
  bufio.Scanner), Model.Stream (Stream's loop, processors, scripted reader and writer).
-/
import Model.Stream

namespace Jl.C08
open Jl Jl.Scanner Jl.Stream

/-- When the scanner stops with an error, `Stream` hands that error to the processor and
    returns what the processor returns: under the default processor the error is returned. -/
theorem scanner_error_reaches_processor (cfg : Cfg) (fuel : Nat) (st st' : St) (ws : List WriteEv)
    (obs : Obs) (e : ScanErr)
    (hs : scan cfg.initSize cfg.maxSize (st.script.length * 103 + st.buf.length + 210) st = (none, st'))
    (he : errOf st' = some e) :
    loop cfg (fuel + 1) st ws obs =
      .ok ({ obs with ret := cfg.proc.result obs.calls.length (some (scanErrClass e)),
                      calls := obs.calls ++ [(false, some (scanErrClass e))] }, st') := by
  simp [loop, hs, he]

/-- A clean end of input (no scanner error) ends the stream with the observation so far. -/
theorem clean_end (cfg : Cfg) (fuel : Nat) (st st' : St) (ws : List WriteEv) (obs : Obs)
    (hs : scan cfg.initSize cfg.maxSize (st.script.length * 103 + st.buf.length + 210) st = (none, st'))
    (he : errOf st' = none) :
    loop cfg (fuel + 1) st ws obs = .ok (obs, st') := by
  simp [loop, hs, he]

/-- A row that cannot be rendered reaches the writer with nothing: the writer script is not
    even consulted. -/
theorem render_error_writes_nothing (cfg : Cfg) (row : List (Bytes × Val)) (ws : List WriteEv)
    (e : ErrClass)
    (h : Template.exportLine cfg.env cfg.to (.val (.row (Members.ofList row))) = .ok ([], some e)) :
    exportWith cfg row ws = .ok (none, some e, ws) := by
  simp [exportWith, h]

/-- A failing `Write` is reported as an I/O error of that line. -/
theorem write_failure_reported (cfg : Cfg) (row : List (Bytes × Val)) (rest : List WriteEv) (b : Bytes)
    (h : Template.exportLine cfg.env cfg.to (.val (.row (Members.ofList row))) = .ok (b, none)) :
    exportWith cfg row (.fail :: rest) = .ok (some [], some .io, rest) ∧
    ∀ n, exportWith cfg row (.short n :: rest) = .ok (some (b.take n), some .io, rest) := by
  simp [exportWith, h]

/-! Non-vacuity: a reader failing before the first byte, and exactly after a newline. -/
example : (scan 4 8 100 (Scanner.init 4 [.err])).1 = none ∧
    errOf (scan 4 8 100 (Scanner.init 4 [.err])).2 = some .io := by decide
example : (scan 4 8 100 (Scanner.init 4 [.data [0x61, 0x0A], .err])).1 = some [0x61] := by decide
example : errOf (scan 4 8 100 (scan 4 8 100 (Scanner.init 4 [.data [0x61, 0x0A], .err])).2).2 = some .io := by
  decide
/-- An over-long line (9 bytes without newline, limit 8) ends scanning with `tooLong`. -/
example : errOf (scan 4 8 100 (Scanner.init 4 [.data [1, 2, 3, 4, 5, 6, 7, 8, 9]])).2 = some .tooLong := by
  decide

end Jl.C08
