/-
  C08 — I/O failures and oversize lines are reported, never silently swallowed.

  Statement (properties.jsonl): if the input reader fails at any byte offset, the output
  writer fails at any write, or a line exceeds the size limit, the stream reports an error
  (through its return value or the processor) — it never returns success after discarding
  input that had not been processed.  Every line that was written before the failure is
  complete, and after a write failure has been returned as fatal nothing more is written.

  Model: Model.Scanner (port of bufio.Scanner as importer.go configures it, validated against
  bufio.Scanner), Model.Stream (Stream's loop, processors, scripted reader and writer).
-/
import Model.Stream
import Proofs.Stream
import Proofs.ScannerLimit
import Proofs.FlowTieStream
import Proofs.FlowTieImport
import Proofs.JlTie

namespace Jl.C08
open Jl Jl.Scanner Jl.Stream

/-- When the scanner stops with an error, `Stream` hands that error to the processor and
    returns what the processor returns: under the default processor the error is returned. -/
theorem scanner_error_reaches_processor (cfg : Cfg) (fuel : Nat) (st st' : St) (ws : List WriteEv)
    (obs : Obs) (e : ScanErr)
    (hs : scan cfg.initSize cfg.maxSize (st.script.length * 103 + st.buf.length + 210) st = (none, st'))
    (he : errOf st' = some e) :
    loop cfg (fuel + 1) st ws obs =
      .ok ({ obs with ret := cfg.proc.result obs.calls.length (some (scanErrClass e)),
                      calls := obs.calls ++ [(false, some (scanErrClass e))] }, st') := by
  simp [loop, hs, he]

/-- A clean end of input (no scanner error) ends the stream with the observation so far. -/
theorem clean_end (cfg : Cfg) (fuel : Nat) (st st' : St) (ws : List WriteEv) (obs : Obs)
    (hs : scan cfg.initSize cfg.maxSize (st.script.length * 103 + st.buf.length + 210) st = (none, st'))
    (he : errOf st' = none) :
    loop cfg (fuel + 1) st ws obs = .ok (obs, st') := by
  simp [loop, hs, he]

/-- A row that cannot be rendered reaches the writer with nothing: the writer script is not
    even consulted. -/
theorem render_error_writes_nothing (cfg : Cfg) (row : List (Bytes × Val)) (ws : List WriteEv)
    (e : ErrClass)
    (h : Template.exportLine cfg.env cfg.to (.val (.row (Members.ofList row))) = .ok ([], some e)) :
    exportWith cfg row ws = .ok (none, some e, ws) := by
  simp [exportWith, h]

/-- A failing `Write` is reported as an I/O error of that line. -/
theorem write_failure_reported (cfg : Cfg) (row : List (Bytes × Val)) (rest : List WriteEv) (b : Bytes)
    (h : Template.exportLine cfg.env cfg.to (.val (.row (Members.ofList row))) = .ok (b, none)) :
    exportWith cfg row (.fail :: rest) = .ok (some [], some .io, rest) ∧
    ∀ n, exportWith cfg row (.short n :: rest) = .ok (some (b.take n), some .io, rest) := by
  simp [exportWith, h]

/-- C08, reader side, over whole runs: a stream that returns nil and made no error call has
    consumed the ENTIRE input (script exhausted, buffer empty, clean EOF) — it never returns
    success after discarding unprocessed input.  Holds for reader failures at any offset
    (line boundaries and offset 0 included), over-long lines and no-progress readers. -/
theorem silent_success_consumed_everything (cfg : Cfg) (reader : List ReadEv) (ws : List WriteEv)
    (obs : Obs) (st' : St) (hpow : cfg.maxSize ≤ cfg.initSize * 2 ^ 200)
    (h : streamSt cfg reader ws = .ok (obs, st')) (hret : obs.ret = none)
    (hcalls : ∀ c ∈ obs.calls, c.2 = none) :
    st'.err = none ∧ st'.eof = true ∧ st'.script = [] ∧ st'.buf = [] :=
  C08_silent_success_consumed_everything cfg reader ws obs st' hpow h hret hcalls

/-- Any scanner failure (I/O error, over-long line, no progress) is reported: through the
    return value or through a processor call carrying it. -/
theorem failure_reported (cfg : Cfg) (reader : List ReadEv) (ws : List WriteEv) (obs : Obs) (st' : St)
    (e : ScanErr) (h : streamSt cfg reader ws = .ok (obs, st')) (herr : errOf st' = some e) :
    obs.ret ≠ none ∨ ∃ c ∈ obs.calls, c.2 = some (scanErrClass e) :=
  C08_failure_reported cfg reader ws obs st' e h herr

/-- Under the default processor every error is fatal and returned, and it is the last thing
    that happened: no call before the last carries an error. -/
theorem default_processor_fatal (cfg : Cfg) (hp : cfg.proc = .default) (fuel : Nat) (st : St)
    (ws : List WriteEv) (obs : Obs) (st' : St)
    (h : loop cfg fuel st ws ⟨none, [], []⟩ = .ok (obs, st')) :
    (∀ c ∈ obs.calls.dropLast, c.2 = none) ∧ obs.ret = obs.calls.getLast?.bind (·.2) :=
  C08_default_fatal cfg hp fuel st ws obs st' h

/-- Writer side: every element of `writes` is a complete exported line (ending in LF) when its
    `Write` succeeded, and the truncated / empty bytes of the failing call otherwise. -/
theorem writes_are_complete_lines (cfg : Cfg) (fuel : Nat) (st : St) (ws : List WriteEv) (obs : Obs) (st' : St)
    (h : loop cfg fuel st ws ⟨none, [], []⟩ = .ok (obs, st')) (i : Nat) (w : Bytes)
    (hw : obs.writes[i]? = some w) :
    ∃ b b0, ExportedLine cfg b ∧ b = b0 ++ [0x0A] ∧ w = writeResult b ws[i]? :=
  C08_writes cfg fuel st ws obs st' h i w hw

/-- After a write failure has been returned as fatal (default processor) nothing more is
    written: the failing write is the last one and the stream returns the I/O error. -/
theorem nothing_written_after_fatal_write (cfg : Cfg) (hp : cfg.proc = .default) (fuel : Nat) (st : St)
    (ws : List WriteEv) (obs : Obs) (st' : St)
    (h : loop cfg fuel st ws ⟨none, [], []⟩ = .ok (obs, st')) (i : Nat) (ev : WriteEv)
    (hi : i < obs.writes.length) (hev : ws[i]? = some ev) (hf : ev.isFail = true) :
    i + 1 = obs.writes.length ∧ obs.ret = some .io :=
  C08_default_write_failure cfg hp fuel st ws obs st' h i ev hi hev hf

/-! Non-vacuity: a reader failing before the first byte, and exactly after a newline. -/
example : (scan 4 8 100 (Scanner.init 4 [.err])).1 = none ∧
    errOf (scan 4 8 100 (Scanner.init 4 [.err])).2 = some .io := by decide
example : (scan 4 8 100 (Scanner.init 4 [.data [0x61, 0x0A], .err])).1 = some [0x61] := by decide
example : errOf (scan 4 8 100 (scan 4 8 100 (Scanner.init 4 [.data [0x61, 0x0A], .err])).2).2 = some .io := by
  decide
/-- An over-long line (9 bytes without newline, limit 8) ends scanning with `tooLong`. -/
example : errOf (scan 4 8 100 (Scanner.init 4 [.data [1, 2, 3, 4, 5, 6, 7, 8, 9]])).2 = some .tooLong := by
  decide

/-! ### A line over the importer's limit (`Proofs/ScannerLimit`)

  `ScannerLimit.overlong_line_yields_too_long`: for a reader without faults whose bytes are complete lines that fit, then
  a line of `maxSize` bytes or more, then anything: whatever the chunking, the scanner yields exactly the lines before it,
  then no token and the too-long error — and (`overlong_aftermath`) nothing of what lay beyond the limit is ever read;
  the one thing `bufio.Scanner` can still hand over is the truncated first `maxSize` bytes, WITH the error set
  (`ScannerLimit.sticky_counterexample`: Go's scanner does that; the importer's `GetRow` looks at the error first). -/

/-- At stream level, under the processor that carries on: the lines before the over-long one have their outcomes, the
    processor is handed ONE call carrying the too-long error, and nothing after it is processed. -/
theorem oversize_line_reported_tolerant (cfg : Cfg) (hp : cfg.proc = .tolerant) (reader : List ReadEv)
    (ws : List WriteEv) (lines : List Bytes) (long rest : Bytes) (hcalm : Calm 100 reader)
    (hdata : allData reader = ScannerLimit.joinLF lines ++ long ++ rest)
    (hfit : ScannerLimit.FitLines cfg.maxSize lines) (hlong : cfg.maxSize ≤ long.length)
    (hnolf : (0x0A : UInt8) ∉ long.take cfg.maxSize)
    (hle : cfg.initSize ≤ cfg.maxSize) (hpow : cfg.maxSize ≤ cfg.initSize * 2 ^ 200)
    (hws : ∀ w ∈ ws, w = WriteEv.ok) (os : List LineOutcome)
    (hmap : mapOutcomes cfg (lines.map dropCR) = .ok os) :
    stream cfg reader ws =
      .ok ⟨none, os.flatMap ScannerLimit.callsOf ++ [(false, some .tooLong)], os.filterMap ScannerLimit.writtenOf⟩ :=
  ScannerLimit.stream_overlong_tolerant cfg hp reader ws lines long rest hcalm hdata hfit hlong hnolf hle hpow hws os hmap

/-- Under the default processor, every earlier line written: `Stream()` RETURNS the too-long error. -/
theorem oversize_line_returned_default (cfg : Cfg) (hp : cfg.proc = .default) (reader : List ReadEv)
    (ws : List WriteEv) (lines : List Bytes) (long rest : Bytes) (hcalm : Calm 100 reader)
    (hdata : allData reader = ScannerLimit.joinLF lines ++ long ++ rest)
    (hfit : ScannerLimit.FitLines cfg.maxSize lines) (hlong : cfg.maxSize ≤ long.length)
    (hnolf : (0x0A : UInt8) ∉ long.take cfg.maxSize)
    (hle : cfg.initSize ≤ cfg.maxSize) (hpow : cfg.maxSize ≤ cfg.initSize * 2 ^ 200)
    (hws : ∀ w ∈ ws, w = WriteEv.ok) (bs : List Bytes)
    (hmap : mapOutcomes cfg (lines.map dropCR) = .ok (bs.map .written)) :
    stream cfg reader ws =
      .ok ⟨some .tooLong, List.replicate bs.length (true, none) ++ [(false, some .tooLong)], bs⟩ :=
  ScannerLimit.stream_overlong_default_all_written cfg hp reader ws lines long rest hcalm hdata hfit hlong hnolf hle hpow hws bs hmap

/-- Once the scanner has an error it keeps it, never asks the reader again, and the only tokens it can still deliver
    are an initial part of the lines of the bytes ALREADY in its buffer. -/
theorem scanner_error_is_sticky (i m : Nat) (e : ScanErr) (fuels : List Nat) (s : St) (h : errOf s = some e) :
    errOf (ScannerLimit.scans i m fuels s).2 = some e ∧ (ScannerLimit.scans i m fuels s).2.script = s.script ∧
    ScannerLimit.tokensOf (ScannerLimit.scans i m fuels s).1 <+: specLines s.buf :=
  ScannerLimit.too_long_is_sticky i m e fuels s h


/-! ### Where a failure goes, read from the source (Proofs/FlowTieStream, Proofs/FlowTieImport) -/

/-- As written today: `GetRow` looks at the scanner's error before parsing; `Importer.Err` is the
    scanner's error; after the loop `Stream` hands that error to the processor and returns what
    the processor returns; `Export` makes one `Write` and wraps its error. -/
theorem failure_path_is_the_source :
    Gen.flowTable.getRow = .scannerErrThenParse .nil .wrapped ∧
    Gen.flowTable.importerErr = .scannerErr ∧
    Gen.flowTable.stream = FlowSpec.expectedFlow.stream ∧
    Gen.flowTable.newImporter = .scanner 0 Gen.initialBufferSize Gen.maximumBufferSize :=
  ⟨FlowTie.getRow_as_modelled, FlowTie.err_as_modelled, FlowTie.stream_as_modelled,
   FlowTie.scanner_sizes.1⟩


/-- …and through the command: the processor `jl` installs LOGS the failure of a line (at error level, on standard
    error) and carries on; standard output is handed to the exporter and nothing else is printed on it; a template
    error ends the process with a non-zero status. Read from `cmd/jl` on every run (Proofs/JlTie). -/
theorem command_reports_failures_is_the_source :
    Gen.jlFacts.processor = .logsAndReturnsNil ∧
    JlTie.procG Gen.jlFacts.processor = some .tolerant ∧
    Gen.jlFacts.printCalls = [] ∧
    (∃ code, Gen.jlFacts.run = .stream code 0 "Stdin" 1 "Stdout" ∧ code ≠ 0) :=
  ⟨JlTie.processor_as_modelled, JlTie.processor_is_tolerant.1, JlTie.streams_as_modelled.2.1,
   JlTie.streams_as_modelled.2.2⟩

end Jl.C08
