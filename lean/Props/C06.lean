/-
  C06 — a row behaves as a map that remembers first-insertion order.

  Statement (properties.jsonl): after any sequence of sets, value replacements, positional
  sets, imports (by key, by position, of maps and slices) and JSON unmarshals, a row's length
  equals its number of distinct keys, iteration and in-range positional access enumerate keys
  in order of first insertion, lookups return the most recently stored value, and
  serialisation follows the same order.  Replacing or re-importing an existing key never
  moves, duplicates or drops it.

  Model: `LRow` (Model.Row) keeps the code's two structures — key list and map — and every
  mutator is written as row.go writes it.  Specification: `OMap`, an association list with
  replace-in-place / append.  All theorems quantify over every history (`List RowOp`), every
  cell behaviour (`CellOps`), every key and value.
-/
import Proofs.Row
import Proofs.RowKeeps
import Proofs.RowTie
import Proofs.RowTieAll

namespace Jl.C06
open Jl LRow
variable {C V E : Type}

/-- Every reachable row (any history from the empty row) is coherent and is, abstractly, the
    insertion-ordered map obtained by running the same history on the specification. -/
theorem refines_omap (ops : CellOps C V E) (hist : List (RowOp C V)) :
    (LRow.empty.run ops hist).abs = OMap.run ops [] hist ∧ (LRow.empty.run ops hist).Inv :=
  run_refines ops hist LRow.empty inv_empty

/-- Same from any coherent row (e.g. a template clone). -/
theorem refines_omap_from (ops : CellOps C V E) (r : LRow C) (h : r.Inv) (hist : List (RowOp C V)) :
    (r.run ops hist).abs = OMap.run ops r.abs hist ∧ (r.run ops hist).Inv :=
  run_refines ops hist r h

/-- Each single step agrees with the specification on state *and* on the reported error. -/
theorem step_agrees (ops : CellOps C V E) (r : LRow C) (h : r.Inv) (op : RowOp C V) :
    (r.step ops op).1.abs = (OMap.step ops r.abs op).1 ∧
    (r.step ops op).2 = (OMap.step ops r.abs op).2 ∧ (r.step ops op).1.Inv :=
  step_refines ops r h op

/-- `Len` = number of distinct keys: the key list has no duplicate and lists exactly the
    keys of the map. -/
theorem len_distinct (ops : CellOps C V E) (hist : List (RowOp C V)) :
    let r := LRow.empty.run ops hist
    r.len = (OMap.run ops [] hist).length ∧ r.l.Nodup ∧ ∀ k, r.has k = true ↔ k ∈ r.l := by
  intro r
  obtain ⟨ha, hi⟩ := refines_omap ops hist
  refine ⟨?_, hi.1, fun k => ((hi.2 k).symm)⟩
  have := abs_keys r hi
  rw [ha] at this
  simp [LRow.len, ← this, OMap.keys]

/-- Iteration enumerates exactly the specification's entries, in its order. -/
theorem iter_is_spec (ops : CellOps C V E) (hist : List (RowOp C V)) :
    (LRow.empty.run ops hist).iter =
      (OMap.run ops [] hist).map fun kc => (kc.1, some kc.2) := by
  obtain ⟨ha, hi⟩ := refines_omap ops hist
  generalize LRow.empty.run ops hist = r at ha hi
  rw [← ha]
  obtain ⟨_, hm⟩ := hi
  unfold LRow.iter LRow.abs
  have : ∀ l : List Bytes, (∀ k ∈ l, (r.m k).isSome = true) →
      l.map (fun k => (k, r.m k)) =
      (l.filterMap fun k => (r.m k).map fun c => (k, c)).map fun kc => (kc.1, some kc.2) := by
    intro l
    induction l with
    | nil => intro _; rfl
    | cons a t ih =>
      intro hl
      obtain ⟨c, hc⟩ := Option.isSome_iff_exists.mp (hl a (by simp))
      simp [hc, ih (fun k hk => hl k (by simp [hk]))]
  exact this r.l fun k hk => (hm k).mp hk

/-- Positional access reads the key at that position of the specification's key order
    (and the empty key outside the range, as the code does). -/
theorem positional_is_spec (ops : CellOps C V E) (hist : List (RowOp C V)) (i : Int) :
    let r := LRow.empty.run ops hist
    r.getValueAt i = OMap.lookup (OMap.run ops [] hist) (OMap.keyAt (OMap.run ops [] hist) i) := by
  intro r
  obtain ⟨ha, hi⟩ := refines_omap ops hist
  rw [← ha, keyAt_abs r hi, abs_lookup r hi]; rfl

/-- Lookups return the most recently stored value, and storing at one key changes no other. -/
theorem get_after_store (r : LRow C) (k k' : Bytes) (c : C) :
    (r.setValue k c).getValue k' = if k' = k then some c else r.getValue k' := by
  simp [LRow.setValue, LRow.getValue, LRow.mset]

/-- No step ever moves, duplicates or drops an existing key: the old key list is a prefix of
    the new one (new keys are only appended). -/
theorem keys_only_appended (ops : CellOps C V E) (r : LRow C) (op : RowOp C V) :
    r.l <+: (r.step ops op).1.l := by
  have hens : ∀ (r : LRow C) k, r.l <+: r.ensure k := by
    intro r k; unfold LRow.ensure; split
    · exact List.prefix_refl _
    · exact List.prefix_append _ _
  have hset : ∀ (r : LRow C) k x, r.l <+: (r.set ops k x).l := by
    intro r k x; unfold LRow.set; cases r.m k <;> exact hens r k
  have himp : ∀ (r : LRow C) k x, r.l <+: (r.importAtKey ops k x).1.l := by
    intro r k x; unfold LRow.importAtKey; cases r.m k <;> exact hens r k
  have hpm : ∀ (r : LRow C) k x, r.l <+: (r.parseMember ops k x).1.l := by
    intro r k x; unfold LRow.parseMember
    cases r.m k
    · exact List.prefix_append _ _
    · exact List.prefix_refl _
  cases op with
  | set k x => exact hset r k x
  | setAt i x => exact hset r _ x
  | setValue k c => exact hens r k
  | setValueAt i c => exact hens r _
  | importAtKey k x => exact himp r k x
  | importAtIndex i x => exact himp r _ x
  | importSlice xs =>
    simp only [LRow.step]
    generalize 0 = i
    induction xs generalizing r i with
    | nil => exact List.prefix_refl _
    | cons x xs ih =>
      unfold LRow.importSliceFrom
      have h1 := himp r (r.keyAt i) x
      rcases hc : r.importAtKey ops (r.keyAt ↑i) x with ⟨r', e⟩
      rw [hc] at h1
      cases e with
      | some e => exact h1
      | none => exact List.IsPrefix.trans h1 (ih r' (i + 1))
  | importMap kvs =>
    simp only [LRow.step]
    induction kvs generalizing r with
    | nil => exact List.prefix_refl _
    | cons kv kvs ih =>
      obtain ⟨k, x⟩ := kv
      unfold LRow.importMap
      have h1 := himp r k x
      rcases hc : r.importAtKey ops k x with ⟨r', e⟩
      rw [hc] at h1
      cases e with
      | some e => exact h1
      | none => exact List.IsPrefix.trans h1 (ih r')
  | unmarshal ms =>
    simp only [LRow.step]
    induction ms generalizing r with
    | nil => exact List.prefix_refl _
    | cons kv ms ih =>
      obtain ⟨k, x⟩ := kv
      unfold LRow.parseMembers
      have h1 := hpm r k x
      rcases hc : r.parseMember ops k x with ⟨r', e⟩
      rw [hc] at h1
      cases e with
      | some e => exact h1
      | none => exact List.IsPrefix.trans h1 (ih r')

/-- Over a whole history the first-insertion order of earlier keys is kept. -/
theorem history_keeps_order (ops : CellOps C V E) (hist : List (RowOp C V)) (r : LRow C) :
    r.l <+: (r.run ops hist).l := by
  induction hist generalizing r with
  | nil => exact List.prefix_refl _
  | cons op rest ih => exact List.IsPrefix.trans (keys_only_appended ops r op) (ih _)

/-- "…never drops it", map half: a key that has a cell keeps having one after every history —
    no mutator deletes a map entry, and a failing import or unmarshal keeps what was stored before
    the error.  Holds for every row, coherent or not, and every cell behaviour. -/
theorem key_never_lost (ops : CellOps C V E) (hist : List (RowOp C V)) (r : LRow C) (k : Bytes)
    (h : r.has k = true) : (r.run ops hist).has k = true :=
  RowKeeps.keeps_run ops hist r k h

/-- "…never moves it", stated on positions: the key at position `i` is still the key at position
    `i` after every history (so `GetAtIndex(i)` keeps addressing the same key), and — on a coherent
    row — it still has a cell there. -/
theorem position_is_stable (ops : CellOps C V E) (hist : List (RowOp C V)) (r : LRow C)
    (i : Nat) (k : Bytes) (hk : r.l[i]? = some k) :
    (r.run ops hist).l[i]? = some k ∧ (r.has k = true → (r.run ops hist).has k = true) := by
  refine ⟨?_, key_never_lost ops hist r k⟩
  obtain ⟨t, ht⟩ := history_keeps_order ops hist r
  rw [← ht, List.getElem?_append_left (List.getElem?_eq_some_iff.mp hk).1]
  exact hk

/-- The row never shrinks: its length after any history is at least what it was. -/
theorem len_never_decreases (ops : CellOps C V E) (hist : List (RowOp C V)) (r : LRow C) :
    r.len ≤ (r.run ops hist).len := by
  obtain ⟨t, ht⟩ := history_keeps_order ops hist r
  unfold LRow.len; rw [← ht, List.length_append]; omega

/-! Non-vacuity: a concrete history with a replaced key, a positional set outside the range
    (which addresses the empty key) and an unmarshal touching an existing key. -/
private def demoOps : CellOps Nat Nat Unit :=
  { newCell := id, autoCell := id, setExisting := fun _ x => x, importInto := fun _ x => (x, none) }

example :
    (LRow.empty.run demoOps
      [.set [97] 1, .set [98] 2, .set [97] 3, .setAt 7 4, .unmarshal [([98], 5), ([99], 6)]]).l
      = [[97], [98], [], [99]] := by decide

example :
    OMap.run demoOps []
      [.set [97] 1, .set [98] 2, .set [97] 3, .setAt 7 4, .unmarshal [([98], 5), ([99], 6)]]
      = [([97], 3), ([98], 5), ([], 4), ([99], 6)] := by decide

example :
    (LRow.empty.run demoOps [.set [97] 1, .set [98] 2]).has [97] = true ∧
    ((LRow.empty.run demoOps [.set [97] 1, .set [98] 2]).run demoOps
      [.set [97] 3, .setAt 7 4, .unmarshal [([98], 5), ([99], 6)]]).has [97] = true := by decide

/-! ### The row of the model is `row.go` (Proofs/RowTie, Proofs/RowTieAll)

`extract/rowfacts.go` runs every function of `row.go` through the symbolic executor and classifies
the result into the shapes of `Model.RowFactsSyntax` (`Gen.RowFacts`, regenerated on every run). -/

/-- Nothing in the regenerated facts is unknown, they are the facts the model assumes (up to the
    accepted alternative spellings, `RowFacts.normalised`), and nowhere
    in the package is the key list shortened or reordered, or a map entry deleted: the list is
    only read (`Front`, `Len`) or extended (`PushBack`). -/
theorem row_model_is_the_source :
    Gen.rowFacts.known = true ∧ Gen.rowFacts.normalised = RowFactsSpec.expected ∧
    (∀ m ∈ Gen.rowFacts.listMethods, m ∈ ["Front", "Len", "PushBack"]) ∧
    Gen.rowFacts.mapDeletes = 0 :=
  ⟨RowTie.row_facts_known, RowTie.row_facts_as_modelled, RowTie.list_only_grows.1,
   RowTie.list_only_grows.2⟩

/-- The three keyed mutators, as the source writes them today, ARE `LRow.set`, `LRow.setValue`
    and `LRow.importAtKey` — whatever the cells do. -/
theorem mutators_are_the_source :
    (∀ {C V E : Type} (ops : CellOps C V E) (r : LRow C) (k : Bytes) (x : V),
      RowTie.keyedRun Gen.rowFacts.set (RowTie.ofCellOps ops) r k x = some (r.set ops k x, none)) ∧
    (∀ {C E : Type} (r : LRow C) (k : Bytes) (c : C),
      RowTie.keyedRun Gen.rowFacts.setValue (RowTie.cellArg (E := E)) r k c =
        some (r.setValue k c, none)) ∧
    (∀ {C V E : Type} (ops : CellOps C V E) (r : LRow C) (k : Bytes) (x : V),
      RowTie.keyedRun Gen.rowFacts.importAtKey (RowTie.ofCellOps ops) r k x =
        some (r.importAtKey ops k x)) :=
  ⟨fun ops r k x => RowTie.set_as_modelled ops r k x,
   fun r k c => RowTie.setValue_as_modelled r k c,
   fun ops r k x => RowTie.importAtKey_as_modelled ops r k x⟩

end Jl.C06
