/-
  C12 — numbers rendered as text or JSON numbers read back exactly.

  Statement (properties.jsonl): rendering any signed, unsigned or finite floating-point value
  as text or as a JSON number yields a plain decimal literal that is a valid JSON number, and
  casting that literal back to the original type returns exactly the original value
  (bit-identical for floats, including negative zero).  Booleans render as true/false in text
  and 1/0 as numbers and read back unchanged; non-finite floats never produce a number that
  marshals.

  Integers and booleans: proved outright for the regenerated tables and the ported
  strconv (Proofs.IntText): every value of every integer type, no bound.
  Floats: `float_partial` — shortest-digit generation and correctly rounded parsing are
  strconv's; they enter as the parameter `Ext` with the round-trip law as an explicit
  hypothesis (DESIGN.md §3.1 b, §6).  What is proved is that jsonline's part — the verb 'f',
  precision -1, the formatting bit size, the parsing bit size, the narrowing conversion, the
  dispatch — composes that law into an exact round trip.
-/
import Proofs.CastBin
import Proofs.IntText
import Proofs.LineFloats

namespace Jl.C12
open Jl Cast

set_option linter.unusedSimpArgs false

private theorem widen (t u : IntTy) (v : Int) (hv : t.inRange v)
    (hsub : ∀ x, t.inRange x → u.inRange x) : u.wrap v = v :=
  wrap_of_inRange u v (hsub v hv)

/-- ToString of an integer of any type is its decimal text (strconv.FormatInt / FormatUint /
    Itoa, base 10 — the verbs and the base are read from the source on every run). -/
theorem toString_int (ext : Ext) (t : IntTy) (v : Int) (hv : t.inRange v) :
    castNamed genTables ext "ToString" (.int t v) = .ok (.str (IntText.formatInt v)) := by
  cases t <;>
  simp [castNamed, callNamed, genTables, Gen.casters, findClause, typeOf, evalBranch, evalE] <;>
  (congr 1; apply wrap_of_inRange;
   simp [IntTy.inRange, IntTy.min, IntTy.max, IntTy.signed, IntTy.bits] at hv ⊢; omega)

/-- ToNumber of an integer of any type is the json.Number with the same decimal text. -/
theorem toNumber_int (ext : Ext) (t : IntTy) (v : Int) (hv : t.inRange v) :
    castNamed genTables ext "ToNumber" (.int t v) = .ok (.num (IntText.formatInt v)) := by
  cases t <;>
  simp [castNamed, callNamed, genTables, Gen.casters, findClause, typeOf, evalBranch, evalE] <;>
  (congr 1; apply wrap_of_inRange;
   simp [IntTy.inRange, IntTy.min, IntTy.max, IntTy.signed, IntTy.bits] at hv ⊢; omega)

/-- cast.To(sample of integer type t, x) is the caster of that type. -/
theorem castTo_int (ext : Ext) (t : IntTy) (x : Dyn) :
    castTo genTables ext (.int t) x = callNamed genTables ext 23 (casterOfInt t) x := by
  cases t <;> simp [castTo, genTables, Gen.dispatchTo, evalBranch, evalE, casterOfInt]

/-- Integers: the rendered text, cast back to the original type, is exactly the original
    value — for every value of all ten types, via text and via json.Number. -/
theorem int_text_reads_back (ext : Ext) (t : IntTy) (v : Int) (hv : t.inRange v) :
    (∃ s, castNamed genTables ext "ToString" (.int t v) = .ok (.str s) ∧
          castTo genTables ext (.int t) (.str s) = .ok (.int t v)) ∧
    (∃ s, castNamed genTables ext "ToNumber" (.int t v) = .ok (.num s) ∧
          castTo genTables ext (.int t) (.num s) = .ok (.int t v)) := by
  refine ⟨⟨_, toString_int ext t v hv, ?_⟩, ⟨_, toNumber_int ext t v hv, ?_⟩⟩
  · rw [castTo_int, call_text_source genTables ext _ _ t v 21 (caster_present t) (text_branches_ok t)]
    simp [hv]
  · rw [castTo_int]
    unfold callNamed
    simp only [caster_present t, typeOf]
    have hnum := num_branches_ok t
    generalize findClause (casterOf genTables (casterOfInt t)) .num = br at hnum
    unfold numBranchSpec at hnum
    split at hnum
    · subst hnum
      simp only [evalBranch, evalE]
      rw [call_text_source genTables ext _ _ t v 19 (caster_present t) (text_branches_ok t)]
      simp [hv]
    · exact absurd hnum id

/-- The text is the canonical decimal literal of the value (no sign for non-negative values,
    no leading zeros, no exponent, no prefix): `canonicalDecimal` reads it back. -/
theorem int_text_is_canonical (v : Int) :
    CastSpec.canonicalDecimal (IntText.formatInt v) = some v :=
  IntText.canonicalDecimal_formatInt v

/-- Two different integers never render as the same text, whatever their types: the text (and the
    json.Number) of a value determines the value — for every pair of values of the ten types. -/
theorem int_text_distinguishes_values (ext : Ext) (t u : IntTy) (v w : Int) (hv : t.inRange v)
    (hw : u.inRange w) (s : Bytes)
    (h1 : castNamed genTables ext "ToString" (.int t v) = .ok (.str s))
    (h2 : castNamed genTables ext "ToString" (.int u w) = .ok (.str s)) : v = w := by
  rw [toString_int ext t v hv] at h1
  rw [toString_int ext u w hw] at h2
  injection h1 with h1; injection h1 with h1
  injection h2 with h2; injection h2 with h2
  exact IntText.formatInt_injective (h1.trans h2.symm)

/-- Conversely the canonical decimal literal of a value is unique: a text that `canonicalDecimal`
    reads as `v` IS the text the casts write for `v` (no second spelling reads back silently as the
    same value under the canonical reader). -/
theorem canonical_text_is_unique (s : Bytes) (v : Int) :
    CastSpec.canonicalDecimal s = some v ↔ s = IntText.formatInt v :=
  IntText.canonicalDecimal_iff s v

/-- … and a JSON number token (the scanner of Model.JsonRead consumes exactly it). -/
theorem int_text_is_json_number (v : Int) :
    Json.scanNumber (IntText.formatInt v) = some (IntText.formatInt v, []) :=
  IntText.scanNumber_formatInt_nil v

/-- Booleans render as true/false in text and read back unchanged. -/
theorem bool_text (ext : Ext) (b : Bool) :
    castNamed genTables ext "ToString" (.bool b) = .ok (.str (IntText.formatBool b)) ∧
    castTo genTables ext .bool (.str (IntText.formatBool b)) = .ok (.bool b) := by
  cases b <;>
  simp [castNamed, castTo, callNamed, genTables, Gen.casters, Gen.dispatchTo, findClause, typeOf,
    evalBranch, evalE, special, IntText.formatBool, IntText.parseBool]

/-- Booleans render as 1/0 as numbers. -/
theorem bool_number (ext : Ext) (b : Bool) :
    castNamed genTables ext "ToNumber" (.bool b) = .ok (.num (if b then [0x31] else [0x30])) := by
  cases b <;>
  simp [castNamed, callNamed, genTables, Gen.casters, findClause, typeOf, evalBranch, evalE]

/-- The law assumed of strconv for floats (shortest formatting with verb 'f', precision -1,
    and correctly rounded parsing): the text parses back to the same value at the same bit
    size.  For float32 the parse result is a float64 holding a float32 value. -/
structure FloatLaw (ext : Ext) : Prop where
  rt64 : ∀ b, Float.isFinite Float.f64 b = true →
    ∃ s, ext.fmtFloat b 64 = some s ∧ ext.parseFloat s 64 = some (some b)
  rt32 : ∀ b, Float.isFinite Float.f32 b = true →
    ∃ s, ext.fmtFloat (Float.f32to64 b) 32 = some s ∧
      ∃ r, ext.parseFloat s 32 = some (some r) ∧ Float.f64to32 r = b

/-- Floats, partial: *given* strconv's round-trip law, text rendering followed by the cast
    back is the identity on every finite float64 and float32 bit pattern (so −0, subnormals
    and values beyond 2^53 included).  What this fixes about jsonline: verb, precision and bit
    sizes of the FormatFloat/ParseFloat calls, the float32 narrowing, the dispatch. -/
theorem float_partial (ext : Ext) (law : FloatLaw ext) :
    (∀ b, Float.isFinite Float.f64 b = true →
      ∃ s, castNamed genTables ext "ToString" (.f64 b) = .ok (.str s) ∧
           castTo genTables ext .f64 (.str s) = .ok (.f64 b) ∧
           castNamed genTables ext "ToNumber" (.f64 b) = .ok (.num s) ∧
           castTo genTables ext .f64 (.num s) = .ok (.f64 b)) ∧
    (∀ b, Float.isFinite Float.f32 b = true →
      ∃ s, castNamed genTables ext "ToString" (.f32 b) = .ok (.str s) ∧
           castTo genTables ext .f32 (.str s) = .ok (.f32 b) ∧
           castNamed genTables ext "ToNumber" (.f32 b) = .ok (.num s) ∧
           castTo genTables ext .f32 (.num s) = .ok (.f32 b)) := by
  constructor
  · intro b hb
    obtain ⟨s, hf, hp⟩ := law.rt64 b hb
    refine ⟨s, ?_, ?_, ?_, ?_⟩ <;>
    simp [castNamed, castTo, callNamed, genTables, Gen.casters, Gen.dispatchTo, findClause, typeOf,
      evalBranch, evalE, runParse, hf, hp]
  · intro b hb
    obtain ⟨s, hf, r, hp, hr⟩ := law.rt32 b hb
    refine ⟨s, ?_, ?_, ?_, ?_⟩ <;>
    simp [castNamed, castTo, callNamed, genTables, Gen.casters, Gen.dispatchTo, findClause, typeOf,
      evalBranch, evalE, runParse, hf, hp, hr]

/-! Non-vacuity -/
example : castNamed genTables Ext.empty "ToString" (.int .i8 (-128)) =
    .ok (.str [0x2D, 0x31, 0x32, 0x38]) := by
  rw [toString_int _ _ _ (by decide)]; simp [IntText.formatInt, IntText.natDigits, IntText.digitChar]

/-! ### On the emitted BYTES: float columns through one line, given strconv's law (`Proofs/LineFloats`)

  `LineFloats.float_line` characterises `jlLine` for one column declared numeric / string / auto with raw type float64 /
  float32 on both sides completely, by the answers of the standard-library parameter (`ParseFloat` of the member's
  text, `FormatFloat` of the value, json.Marshal's spelling). -/

open Jl.Template Jl.LineFloats Jl.JsonQuote in
/-- numeric(T) on both sides, the member a number literal that `ParseFloat` reads as a FINITE `T`: given the law of
    strconv (`LineFloats.FloatLaw`, the same two fields as `C12.FloatLaw`) and that the rendering of a finite value is
    a JSON number, the line is accepted, `{"k":<shortest rendering>}` is written, and fed back that line is accepted,
    holds the SAME bit pattern in the column and is written back byte for byte. -/
theorem float_line_fixed_point (ext : Ext) (law : LineFloats.FloatLaw ext) (hnumOK : FmtNumberOK ext)
    (k : Bytes) (hk : sanitize k = k) (T : FT) (lit : Bytes) (r : Nat) (line : Bytes)
    (hline : Json.unmarshal line = (.cons k (.num lit) .nil, true))
    (hp : ext.parseFloat lit T.bits = some (some r))
    (hfin : Float.isFinite T.fmt (T.narrow r) = true) :
    ∃ out, ext.fmtFloat (T.widen (T.narrow r)) T.bits = some out ∧ JsonWrite.isValidNumber out = true ∧
      getRow ⟨genTables, ext⟩ (withCol [] k .numeric T.ty) line =
        .ok ([(k, .cell (T.dyn (T.narrow r)) .numeric T.ty)], none) ∧
      jlLine ⟨genTables, ext⟩ (withCol [] k .numeric T.ty) (withCol [] k .numeric T.ty) line =
        .ok (LineTime.objText k out ++ [0x0A], none) ∧
      getRow ⟨genTables, ext⟩ (withCol [] k .numeric T.ty) (LineTime.objText k out) =
        .ok ([(k, .cell (T.dyn (T.narrow r)) .numeric T.ty)], none) ∧
      jlLine ⟨genTables, ext⟩ (withCol [] k .numeric T.ty) (withCol [] k .numeric T.ty)
        (LineTime.objText k out) = .ok (LineTime.objText k out ++ [0x0A], none) :=
  numeric_line_fixed_point_law ext law hnumOK k hk T lit r line hline hp hfin

/-- The two statements of the law are the same statement. -/
theorem float_law_same (ext : Ext) (law : FloatLaw ext) : LineFloats.FloatLaw ext := ⟨law.rt64, law.rt32⟩

open Jl.Template Jl.LineFloats in
/-- "Non-finite values never produce a number that marshals", on the line: a NaN or ±Inf held by a numeric(T) or
    auto(T) column is never written, whatever the standard-library parameter leaves unanswered — GIVEN that it answers
    as the library does on non-finite values (`NonFiniteLaw`: `FormatFloat` says NaN / +Inf / -Inf, json.Marshal
    refuses).  Under string(T) such a value IS written, as the string "NaN" (`LineFloats.nonfinite_string_written`). -/
theorem nonfinite_never_written_on_a_line (ext : Ext) (nf : NonFiniteLaw ext) (k : Bytes) {fi fo : Format}
    (hfi : FloatFmt fi) (hfo : fo = .numeric ∨ fo = .auto) (T : FT) (lit : Bytes) (r : Nat)
    (line : Bytes) (jv : JV)
    (hline : Json.unmarshal line = (.cons k jv .nil, true)) (hjv : LineInts.IsCarrierJV jv lit)
    (hp : ext.parseFloat lit T.bits = some (some r))
    (hinf : Float.isFinite T.fmt (T.narrow r) = false) (b : Bytes) :
    jlLine ⟨genTables, ext⟩ (withCol [] k fi T.ty) (withCol [] k fo T.ty) line ≠ .ok (b, none) :=
  nonfinite_never_written ext nf k hfi hfo T lit r line jv hline hjv hp hinf b

open Jl.Template Jl.LineFloats in
/-- A literal out of the type's range (1e400 under float64, 1e39 under float32: `ParseFloat` answers with an error) is
    rejected, nothing written — never an infinity or a clamped value. -/
theorem out_of_range_literal_rejected (ext : Ext) (k : Bytes) (T : FT) (lit : Bytes) (line : Bytes)
    (hline : Json.unmarshal line = (.cons k (.num lit) .nil, true))
    (hp : ext.parseFloat lit T.bits = some none) :
    jlLine ⟨genTables, ext⟩ (withCol [] k .numeric T.ty) (withCol [] k .numeric T.ty) line =
      .ok ([], some .unsupportedImport) :=
  numeric_line_out_of_range ext k T lit line hline hp

end Jl.C12
