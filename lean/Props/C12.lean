/-
  C12 — numbers rendered as text or JSON numbers read back exactly.

  Statement (properties.jsonl): rendering any signed, unsigned or finite floating-point value
  as text or as a JSON number yields a plain decimal literal that is a valid JSON number, and
  casting that literal back to the original type returns exactly the original value
  (bit-identical for floats, including negative zero).  Booleans render as true/false in text
  and 1/0 as numbers and read back unchanged; non-finite floats never produce a number that
  marshals.

  Integers and booleans: proved outright for the regenerated tables and the ported
  strconv (Proofs.IntText): every value of every integer type, no bound.
  Floats: `float_partial` — shortest-digit generation and correctly rounded parsing are
  strconv's; they enter as the parameter `Ext` with the round-trip law as an explicit
  hypothesis (DESIGN.md §3.1 b, §6).  What is proved is that jsonline's part — the verb 'f',
  precision -1, the formatting bit size, the parsing bit size, the narrowing conversion, the
  dispatch — composes that law into an exact round trip.
-/
import Proofs.CastBin
import Proofs.IntText

namespace Jl.C12
open Jl Cast

set_option linter.unusedSimpArgs false

private theorem widen (t u : IntTy) (v : Int) (hv : t.inRange v)
    (hsub : ∀ x, t.inRange x → u.inRange x) : u.wrap v = v :=
  wrap_of_inRange u v (hsub v hv)

/-- ToString of an integer of any type is its decimal text (strconv.FormatInt / FormatUint /
    Itoa, base 10 — the verbs and the base are read from the source on every run). -/
theorem toString_int (ext : Ext) (t : IntTy) (v : Int) (hv : t.inRange v) :
    castNamed genTables ext "ToString" (.int t v) = .ok (.str (IntText.formatInt v)) := by
  cases t <;>
  simp [castNamed, callNamed, genTables, Gen.casters, findClause, typeOf, evalBranch, evalE] <;>
  (congr 1; apply wrap_of_inRange;
   simp [IntTy.inRange, IntTy.min, IntTy.max, IntTy.signed, IntTy.bits] at hv ⊢; omega)

/-- ToNumber of an integer of any type is the json.Number with the same decimal text. -/
theorem toNumber_int (ext : Ext) (t : IntTy) (v : Int) (hv : t.inRange v) :
    castNamed genTables ext "ToNumber" (.int t v) = .ok (.num (IntText.formatInt v)) := by
  cases t <;>
  simp [castNamed, callNamed, genTables, Gen.casters, findClause, typeOf, evalBranch, evalE] <;>
  (congr 1; apply wrap_of_inRange;
   simp [IntTy.inRange, IntTy.min, IntTy.max, IntTy.signed, IntTy.bits] at hv ⊢; omega)

/-- cast.To(sample of integer type t, x) is the caster of that type. -/
theorem castTo_int (ext : Ext) (t : IntTy) (x : Dyn) :
    castTo genTables ext (.int t) x = callNamed genTables ext 23 (casterOfInt t) x := by
  cases t <;> simp [castTo, genTables, Gen.dispatchTo, evalBranch, evalE, casterOfInt]

/-- Integers: the rendered text, cast back to the original type, is exactly the original
    value — for every value of all ten types, via text and via json.Number. -/
theorem int_text_reads_back (ext : Ext) (t : IntTy) (v : Int) (hv : t.inRange v) :
    (∃ s, castNamed genTables ext "ToString" (.int t v) = .ok (.str s) ∧
          castTo genTables ext (.int t) (.str s) = .ok (.int t v)) ∧
    (∃ s, castNamed genTables ext "ToNumber" (.int t v) = .ok (.num s) ∧
          castTo genTables ext (.int t) (.num s) = .ok (.int t v)) := by
  refine ⟨⟨_, toString_int ext t v hv, ?_⟩, ⟨_, toNumber_int ext t v hv, ?_⟩⟩
  · rw [castTo_int, call_text_source genTables ext _ _ t v 21 (caster_present t) (text_branches_ok t)]
    simp [hv]
  · rw [castTo_int]
    unfold callNamed
    simp only [caster_present t, typeOf]
    have hnum := num_branches_ok t
    generalize findClause (casterOf genTables (casterOfInt t)) .num = br at hnum
    unfold numBranchSpec at hnum
    split at hnum
    · subst hnum
      simp only [evalBranch, evalE]
      rw [call_text_source genTables ext _ _ t v 19 (caster_present t) (text_branches_ok t)]
      simp [hv]
    · exact absurd hnum id

/-- The text is the canonical decimal literal of the value (no sign for non-negative values,
    no leading zeros, no exponent, no prefix): `canonicalDecimal` reads it back. -/
theorem int_text_is_canonical (v : Int) :
    CastSpec.canonicalDecimal (IntText.formatInt v) = some v :=
  IntText.canonicalDecimal_formatInt v

/-- … and a JSON number token (the scanner of Model.JsonRead consumes exactly it). -/
theorem int_text_is_json_number (v : Int) :
    Json.scanNumber (IntText.formatInt v) = some (IntText.formatInt v, []) :=
  IntText.scanNumber_formatInt_nil v

/-- Booleans render as true/false in text and read back unchanged. -/
theorem bool_text (ext : Ext) (b : Bool) :
    castNamed genTables ext "ToString" (.bool b) = .ok (.str (IntText.formatBool b)) ∧
    castTo genTables ext .bool (.str (IntText.formatBool b)) = .ok (.bool b) := by
  cases b <;>
  simp [castNamed, castTo, callNamed, genTables, Gen.casters, Gen.dispatchTo, findClause, typeOf,
    evalBranch, evalE, special, IntText.formatBool, IntText.parseBool]

/-- Booleans render as 1/0 as numbers. -/
theorem bool_number (ext : Ext) (b : Bool) :
    castNamed genTables ext "ToNumber" (.bool b) = .ok (.num (if b then [0x31] else [0x30])) := by
  cases b <;>
  simp [castNamed, callNamed, genTables, Gen.casters, findClause, typeOf, evalBranch, evalE]

/-- The law assumed of strconv for floats (shortest formatting with verb 'f', precision -1,
    and correctly rounded parsing): the text parses back to the same value at the same bit
    size.  For float32 the parse result is a float64 holding a float32 value. -/
structure FloatLaw (ext : Ext) : Prop where
  rt64 : ∀ b, Float.isFinite Float.f64 b = true →
    ∃ s, ext.fmtFloat b 64 = some s ∧ ext.parseFloat s 64 = some (some b)
  rt32 : ∀ b, Float.isFinite Float.f32 b = true →
    ∃ s, ext.fmtFloat (Float.f32to64 b) 32 = some s ∧
      ∃ r, ext.parseFloat s 32 = some (some r) ∧ Float.f64to32 r = b

/-- Floats, partial: *given* strconv's round-trip law, text rendering followed by the cast
    back is the identity on every finite float64 and float32 bit pattern (so −0, subnormals
    and values beyond 2^53 included).  What this fixes about jsonline: verb, precision and bit
    sizes of the FormatFloat/ParseFloat calls, the float32 narrowing, the dispatch. -/
theorem float_partial (ext : Ext) (law : FloatLaw ext) :
    (∀ b, Float.isFinite Float.f64 b = true →
      ∃ s, castNamed genTables ext "ToString" (.f64 b) = .ok (.str s) ∧
           castTo genTables ext .f64 (.str s) = .ok (.f64 b) ∧
           castNamed genTables ext "ToNumber" (.f64 b) = .ok (.num s) ∧
           castTo genTables ext .f64 (.num s) = .ok (.f64 b)) ∧
    (∀ b, Float.isFinite Float.f32 b = true →
      ∃ s, castNamed genTables ext "ToString" (.f32 b) = .ok (.str s) ∧
           castTo genTables ext .f32 (.str s) = .ok (.f32 b) ∧
           castNamed genTables ext "ToNumber" (.f32 b) = .ok (.num s) ∧
           castTo genTables ext .f32 (.num s) = .ok (.f32 b)) := by
  constructor
  · intro b hb
    obtain ⟨s, hf, hp⟩ := law.rt64 b hb
    refine ⟨s, ?_, ?_, ?_, ?_⟩ <;>
    simp [castNamed, castTo, callNamed, genTables, Gen.casters, Gen.dispatchTo, findClause, typeOf,
      evalBranch, evalE, runParse, hf, hp]
  · intro b hb
    obtain ⟨s, hf, r, hp, hr⟩ := law.rt32 b hb
    refine ⟨s, ?_, ?_, ?_, ?_⟩ <;>
    simp [castNamed, castTo, callNamed, genTables, Gen.casters, Gen.dispatchTo, findClause, typeOf,
      evalBranch, evalE, runParse, hf, hp, hr]

/-! Non-vacuity -/
example : castNamed genTables Ext.empty "ToString" (.int .i8 (-128)) =
    .ok (.str [0x2D, 0x31, 0x32, 0x38]) := by
  rw [toString_int _ _ _ (by decide)]; simp [IntText.formatInt, IntText.natDigits, IntText.digitChar]

end Jl.C12
