/-
  C11 — binary form of fixed-width values is a fixed little-endian bijection.

  Statement (properties.jsonl): for each fixed-width numeric type the binary form of a value
  is its little-endian image of exactly the type's size, and decoding it yields the identical
  value bit for bit; conversely every byte sequence of that exact size decodes and re-encodes
  to itself.  A byte sequence of any other length is rejected with an error when such a type
  is requested.

  Theorems are about `genTables` (regenerated from pkg/cast on every run: ToBinary's clauses,
  binary_ops.go, the `[]byte` clauses of the numeric casters, cast.To's dispatch).  The
  specification side is `CastSpec.leImage` / `CastSpec.binaryViolation` (also the oracle on the
  implementation's results) and the byte-order lemmas of Proofs.LE, which hold for every size.
-/
import Proofs.CastBin
import Proofs.LineBinary

namespace Jl.C11
open Jl Cast

/-- Encoding: the binary form of every integer of every type is its little-endian
    two's-complement image of exactly the type's size. -/
theorem encode_int_is_le_image (ext : Ext) (t : IntTy) (v : Int) :
    castNamed genTables ext "ToBinary" (.int t v) = .ok (.bytes (LE.put (t.bits / 8) (LE.toU t.bits v))) ∧
    (LE.put (t.bits / 8) (LE.toU t.bits v)).length = t.bits / 8 :=
  ⟨encode_int ext t v, LE.put_length _ _⟩

/-- Encoding of floats: the little-endian image of the IEEE bit pattern (every pattern,
    NaN payloads included). -/
theorem encode_float_is_le_image (ext : Ext) :
    (∀ b, b < 2 ^ 64 → castNamed genTables ext "ToBinary" (.f64 b) = .ok (.bytes (LE.put 8 b))) ∧
    (∀ b, b < 2 ^ 32 → castNamed genTables ext "ToBinary" (.f32 b) = .ok (.bytes (LE.put 4 b))) :=
  ⟨encode_f64 ext, encode_f32 ext⟩

/-- The oracle (`binaryViolation`) never fires on an encoding. -/
theorem encode_no_violation (ext : Ext) (t : IntTy) (v : Int) :
    CastSpec.binaryViolation "ToBinary" none (.int t v)
      (castNamed genTables ext "ToBinary" (.int t v)) = none := by
  rw [encode_int]; simp [CastSpec.binaryViolation, CastSpec.leImage]

/-- decode ∘ encode = id, bit for bit, for every value of the ten integer types. -/
theorem decode_encode_int (ext : Ext) (t : IntTy) (v : Int) (hv : t.inRange v) :
    castTo genTables ext (.int t) (.bytes (LE.put (t.bits / 8) (LE.toU t.bits v))) = .ok (.int t v) := by
  rw [decode_int]
  simp only [LE.put_length, if_true]
  have h8 : 8 * (t.bits / 8) = t.bits := by cases t <;> simp [IntTy.bits]
  have hpos : 1 ≤ t.bits / 8 := by cases t <;> simp [IntTy.bits]
  cases hs : t.signed with
  | true =>
    have := LE.signed_roundtrip (t.bits / 8) v hpos
    rw [h8] at this
    have hr := (inRange_signed_iff t hs v).mp hv
    simp [this hr.1 hr.2]
  | false =>
    have := LE.unsigned_roundtrip (t.bits / 8) v
    rw [h8] at this
    have hr := (inRange_unsigned_iff t hs v).mp hv
    simp [this hr.1 hr.2]

/-- decode ∘ encode = id for every float64 / float32 bit pattern. -/
theorem decode_encode_float (ext : Ext) :
    (∀ b, b < 2 ^ 64 → castTo genTables ext .f64 (.bytes (LE.put 8 b)) = .ok (.f64 b)) ∧
    (∀ b, b < 2 ^ 32 → castTo genTables ext .f32 (.bytes (LE.put 4 b)) = .ok (.f32 b)) := by
  constructor
  · intro b hb
    rw [decode_f64]; simp [LE.put_length, LE.get_put, Nat.mod_eq_of_lt (show b < 256 ^ 8 by simpa using hb)]
  · intro b hb
    rw [decode_f32]; simp [LE.put_length, LE.get_put, Nat.mod_eq_of_lt (show b < 256 ^ 4 by simpa using hb)]

/-- encode ∘ decode = id: every byte sequence of exactly the type's size decodes, and the
    decoded value re-encodes to the same bytes. -/
theorem encode_decode_int (ext : Ext) (t : IntTy) (s : Bytes) (hl : s.length = t.bits / 8) :
    ∃ v, castTo genTables ext (.int t) (.bytes s) = .ok (.int t v) ∧
      castNamed genTables ext "ToBinary" (.int t v) = .ok (.bytes s) := by
  have h8 : 8 * (t.bits / 8) = t.bits := by cases t <;> simp [IntTy.bits]
  refine ⟨if t.signed then LE.ofU t.bits (LE.get s) else (LE.get s : Int),
    by rw [decode_int]; simp [hl], ?_⟩
  rw [encode_int]
  cases hs : t.signed with
  | true =>
    have := LE.signed_image (t.bits / 8) s hl
    rw [h8] at this
    simp [this]
  | false =>
    have := LE.unsigned_image (t.bits / 8) s hl
    rw [h8] at this
    simp [this]

theorem encode_decode_float (ext : Ext) (s : Bytes) :
    (s.length = 8 → ∃ b, castTo genTables ext .f64 (.bytes s) = .ok (.f64 b) ∧
      castNamed genTables ext "ToBinary" (.f64 b) = .ok (.bytes s)) ∧
    (s.length = 4 → ∃ b, castTo genTables ext .f32 (.bytes s) = .ok (.f32 b) ∧
      castNamed genTables ext "ToBinary" (.f32 b) = .ok (.bytes s)) := by
  constructor
  · intro hl
    refine ⟨LE.get s, by rw [decode_f64]; simp [hl], ?_⟩
    have hlt := LE.get_lt s
    rw [hl] at hlt
    rw [encode_f64 ext _ (by simpa using hlt), LE.put_get 8 s hl]
  · intro hl
    refine ⟨LE.get s, by rw [decode_f32]; simp [hl], ?_⟩
    have hlt := LE.get_lt s
    rw [hl] at hlt
    rw [encode_f32 ext _ (by simpa using hlt), LE.put_get 4 s hl]

/-- "…a fixed bijection", injectivity stated outright: two values of one integer type with the same
    binary form are the same value (no two in-range integers share an encoding), for every type and
    every pair — a corollary of `decode_encode_int`, so it holds of what the generated tables do. -/
theorem encode_int_injective (ext : Ext) (t : IntTy) (v w : Int) (hv : t.inRange v) (hw : t.inRange w)
    (h : LE.put (t.bits / 8) (LE.toU t.bits v) = LE.put (t.bits / 8) (LE.toU t.bits w)) : v = w := by
  have h1 := decode_encode_int ext t v hv
  have h2 := decode_encode_int ext t w hw
  rw [h, h2] at h1
  injection h1 with h1
  injection h1 with _ h1
  exact h1.symm

/-- A byte sequence of any other length — every length, not a sample — is rejected with the
    cast-failure error when a fixed-width type is requested. -/
theorem wrong_length_rejected (ext : Ext) (s : Bytes) :
    (∀ t : IntTy, s.length ≠ t.bits / 8 → castTo genTables ext (.int t) (.bytes s) = .err .cast) ∧
    (s.length ≠ 8 → castTo genTables ext .f64 (.bytes s) = .err .cast) ∧
    (s.length ≠ 4 → castTo genTables ext .f32 (.bytes s) = .err .cast) ∧
    (s.length ≠ 1 → castTo genTables ext .bool (.bytes s) = .err .cast) := by
  refine ⟨fun t h => by rw [decode_int]; simp [h], fun h => by rw [decode_f64]; simp [h],
    fun h => by rw [decode_f32]; simp [h], fun h => ?_⟩
  rw [decode_bool]
  match s, h with
  | [], _ => rfl
  | [b], h => simp at h
  | _ :: _ :: _, _ => rfl

/-- bool: the one-byte normalising special case. -/
theorem bool_form (ext : Ext) (b : Bool) (x : UInt8) :
    castNamed genTables ext "ToBinary" (.bool b) = .ok (.bytes [if b then 1 else 0]) ∧
    castTo genTables ext .bool (.bytes [x]) = .ok (.bool (x != 0)) :=
  ⟨encode_bool ext b, by rw [decode_bool]⟩

/-- The byte order is little-endian and it matters (the big-endian image differs). -/
example : LE.put 2 1 = [1, 0] ∧ LE.putBE 2 1 = [0, 1] := by decide

/-! Non-vacuity on concrete values. -/
example : castNamed genTables Ext.empty "ToBinary" (.int .i32 (-2)) = .ok (.bytes [0xFE, 0xFF, 0xFF, 0xFF]) := by
  rfl
example : castTo genTables Ext.empty (.int .i16) (.bytes [0x00, 0x80]) = .ok (.int .i16 (-32768)) := by rfl
example : castTo genTables Ext.empty (.int .i16) (.bytes [0x00, 0x80, 0x00]) = .err .cast := by rfl

/-! ### On the emitted BYTES: binary columns of fixed-width raw types through one line (`Proofs/LineBinary`)

  `jlLine ti to line` = importer `GetRow`, exporter `CreateRow`, `row.MarshalJSON` over the regenerated
  tables.  `LineBinary.fixedWidth` is the width table the oracle uses; `LineBinary.reemitted ty bs` is `bs`
  for every type but bool, where any non-zero byte is written back as 01 (`bool_payload_normalised`). -/

open Jl.Template Jl.LineBinary Jl.JsonQuote in
/-- One binary column of a fixed-width raw type on both sides: the line is accepted IF AND ONLY IF the
    member is base64 of exactly the type's width — for every process zone and stdlib parameter. -/
theorem binary_line_accepted_iff_width (ext : Ext) (k : Bytes) {ty : Ty} {w : Nat}
    (hty : fixedWidth ty = some w) (line s : Bytes)
    (hline : Json.unmarshal line = (.cons k (.str s) .nil, true)) :
    (∃ b, jlLine ⟨genTables, ext⟩ (withCol [] k .binary ty) (withCol [] k .binary ty) line = .ok (b, none)) ↔
      ∃ bs, Base64.decode s = some bs ∧ bs.length = w :=
  binary_line_accepted_iff ext k hty line s hline

open Jl.Template Jl.LineBinary Jl.JsonQuote in
/-- …and then the member written is the CANONICAL base64 of the bytes accepted (of their normal form for
    bool), whatever spelling the input used. -/
theorem binary_line_reemits_accepted_bytes (ext : Ext) (k : Bytes) (hk : sanitize k = k) {ty : Ty} {w : Nat}
    (hty : fixedWidth ty = some w) (line s bs : Bytes)
    (hline : Json.unmarshal line = (.cons k (.str s) .nil, true))
    (hd : Base64.decode s = some bs) (hl : bs.length = w) :
    (∃ b, jlLine ⟨genTables, ext⟩ (withCol [] k .binary ty) (withCol [] k .binary ty) line = .ok (b, none)) ∧
    ∀ b, jlLine ⟨genTables, ext⟩ (withCol [] k .binary ty) (withCol [] k .binary ty) line = .ok (b, none) →
      ∃ body tree, b = body ++ [0x0A] ∧ Json.unmarshal body = (tree, true) ∧
        LineSpec.lookupJV tree k = some (.str (Base64.encode (reemitted ty bs))) :=
  binary_line ext k hk hty line s bs hline hd hl

open Jl.Template Jl.LineBinary in
/-- A payload of any other length is rejected — nothing is written — whatever the exporter's template. -/
theorem binary_line_other_length_rejected (ext : Ext) (k : Bytes) {ty : Ty} {w : Nat}
    (hty : fixedWidth ty = some w) (to : Tmpl) (line s bs : Bytes)
    (hline : Json.unmarshal line = (.cons k (.str s) .nil, true))
    (hd : Base64.decode s = some bs) (hl : bs.length ≠ w) :
    jlLine ⟨genTables, ext⟩ (withCol [] k .binary ty) to line = .ok ([], some .unsupportedImport) :=
  binary_line_wrong_length ext k hty to line s bs hline hd hl

open Jl.Template Jl.LineBinary Jl.JsonQuote in
/-- Templates with ANY number of columns declaring the same distinct names the escaper leaves alone: on an
    accepted line the oracle the correspondence check applies to the implementation's output
    (`c11LineViolation`, restated as `LineBinary.c11Violation`) finds nothing, given that every binary column
    of a fixed-width type it looks at is declared so in both templates. -/
theorem emitted_line_binary_oracle (ext : Ext) (ti to : Tmpl) (line b : Bytes)
    (h : jlLine ⟨genTables, ext⟩ ti to line = .ok (b, none)) (hx : JsonPrint.FloatTextOK ext)
    (hto : (OMap.keys to).Nodup) (hperm : (OMap.keys ti).Perm (OMap.keys to))
    (hutf : ∀ k ∈ OMap.keys to, sanitize k = k)
    (hin : ∀ k ∈ Order.inputKeys line, sanitize k = k) (cols : List LineSpec.Col)
    (hcols : ∀ n ty w, LineSpec.Col.leaf n .binary ty ∈ cols → fixedWidth ty = some w →
      ∃ raw₁ raw₂, (n, Val.cell raw₁ .binary ty) ∈ ti ∧ (n, Val.cell raw₂ .binary ty) ∈ to) :
    c11Violation cols line (jlLine ⟨genTables, ext⟩ ti to line) = none :=
  LineBinary.emitted_line_oracle ext ti to line b h hx hto hperm hutf hin cols hcols

end Jl.C11
