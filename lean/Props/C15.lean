/-
  C15 — templates, the rows they create and clones never alias each other.

  Statement (properties.jsonl): rows obtained from a template are independent of the template
  and of one another: filling, importing into, mutating or exporting any of them —
  successfully or not — never changes what the template produces afterwards nor the content
  of any other existing row, for any interleaving of such operations.  A cloned row can be
  modified at its top level without affecting its source, and a template changes only through
  its own builder calls.

  Model: Model.Alias — an explicit heap of cell objects with the allocation / in-place
  mutation behaviour of template.go, row.go, value.go (in the value-level models of the other
  properties rows are independent by construction, which is exactly what this property
  justifies).
-/
import Model.Alias

namespace Jl.C15
open Jl Jl.Alias

/-- An in-place write (what `value.Import` does through its pointer) changes the content at
    that address only. -/
theorem write_frame {C : Type} (h : Heap C) (a a' : Addr) (c : C) (hne : a' ≠ a) :
    (h.write a c).cells a' = h.cells a' := by
  simp [Heap.write, hne]

/-- Allocation returns a fresh address and leaves every allocated cell as it was. -/
theorem alloc_fresh {C : Type} (h : Heap C) (c : C) :
    (h.alloc c).2 = h.next ∧ (h.alloc c).1.next = h.next + 1 ∧
    ∀ a, a < h.next → (h.alloc c).1.cells a = h.cells a := by
  refine ⟨rfl, rfl, fun a ha => ?_⟩
  have : a ≠ h.next := Nat.ne_of_lt ha
  simp [Heap.alloc, this]

end Jl.C15
