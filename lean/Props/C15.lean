/-
  C15 — templates, the rows they create and clones never alias each other.

  Statement (properties.jsonl): rows obtained from a template are independent of the template
  and of one another: filling, importing into, mutating or exporting any of them —
  successfully or not — never changes what the template produces afterwards nor the content
  of any other existing row, for any interleaving of such operations.  A cloned row can be
  modified at its top level without affecting its source, and a template changes only through
  its own builder calls.

  Model: Model.Alias — an explicit heap of cell objects with the allocation / in-place
  mutation behaviour of template.go, row.go, value.go (in the value-level models of the other
  properties rows are independent by construction, which is exactly what this property
  justifies).
-/
import Model.Alias
import Proofs.Alias
import Proofs.AliasFamily
import Proofs.FlowTie

namespace Jl.C15
open Jl Jl.Alias

/-- An in-place write (what `value.Import` does through its pointer) changes the content at
    that address only. -/
theorem write_frame {C : Type} (h : Heap C) (a a' : Addr) (c : C) (hne : a' ≠ a) :
    (h.write a c).cells a' = h.cells a' := by
  simp [Heap.write, hne]

/-- Allocation returns a fresh address and leaves every allocated cell as it was. -/
theorem alloc_fresh {C : Type} (h : Heap C) (c : C) :
    (h.alloc c).2 = h.next ∧ (h.alloc c).1.next = h.next + 1 ∧
    ∀ a, a < h.next → (h.alloc c).1.cells a = h.cells a := by
  refine ⟨rfl, rfl, fun a ha => ?_⟩
  have : a ≠ h.next := Nat.ne_of_lt ha
  simp [Heap.alloc, this]

/-- A world made by the template builder satisfies the separation invariant. -/
theorem builder_world_separated {C : Type} (cols : List (Bytes × C)) : Sep (initWorld cols) :=
  sep_init cols

/-- C15, the template: after ANY interleaving of row operations (create, clone, import in
    place, set, drop — successful or not, whatever the contents) the prototype row object and
    the content of its cells are what the builder made. -/
theorem template_changes_only_through_builder {C : Type} (cols : List (Bytes × C)) (ops : List (Op C)) :
    content (run (initWorld cols) ops).heap (run (initWorld cols) ops).proto =
      cols.map fun e => (e.1, some e.2) :=
  template_content_init cols ops

/-- … hence what the template produces afterwards is unchanged: a row created after any
    history has exactly the cloned content of the declared columns. -/
theorem template_product_unchanged {C : Type} (cols : List (Bytes × C)) (ops : List (Op C)) (clone : C → C) :
    ∃ r, (step (run (initWorld cols) ops) (.createEmpty clone)).rows = (run (initWorld cols) ops).rows ++ [r] ∧
      content (step (run (initWorld cols) ops) (.createEmpty clone)).heap r =
        cols.map fun e => (e.1, some (clone e.2)) :=
  createEmpty_after_history cols ops clone

/-- C15, the rows: a step changes the content of no live row other than the one it operates
    on (in-place imports included). -/
theorem other_rows_unchanged {C : Type} {w : World C} (h : Sep w) (op : Op C) {j : Nat} {rj : RowObj}
    (hj : w.rows[j]? = some rj) (ht : op.target ≠ some j) :
    content (step w op).heap rj = content w.heap rj :=
  frame_content h op hj ht

/-- … and over whole histories that do not touch row `j`. -/
theorem other_rows_unchanged_history {C : Type} {w : World C} (h : Sep w) (ops : List (Op C))
    {j : Nat} {rj : RowObj} (hj : w.rows[j]? = some rj) (hops : ∀ op ∈ ops, ¬ op.touches j) :
    (run w ops).rows[j]? = some rj ∧ content (run w ops).heap rj = content w.heap rj :=
  frame_run h ops hj hops

/-- C15, clones: a cloned row can be modified at its top level (imports in place, sets)
    without affecting its source. -/
theorem clone_is_independent {C : Type} {w : World C} (h : Sep w) {i : Nat} {src : RowObj}
    (hi : w.rows[i]? = some src) (clone : C → C) :
    ∃ r, (step w (.cloneLive i clone)).rows = w.rows ++ [r] ∧
      content (step w (.cloneLive i clone)).heap src = content w.heap src ∧
      ∀ ops : List (Op C),
        (∀ op ∈ ops, ∃ k f, op = .importKey w.rows.length k f ∨ op = .setKey w.rows.length k f) →
        content (run (step w (.cloneLive i clone)) ops).heap src = content w.heap src := by
  obtain ⟨r, h1, _, h3, _, h5⟩ := clone_independent h hi clone
  exact ⟨r, h1, h3, fun ops hops => (h5 ops hops).2⟩

/-! The property really depends on cloning: `Proofs.Alias.bad_createEmpty_breaks_template`
    is a kernel-evaluated witness that, in the variant where CreateRowEmpty hands out the
    prototype itself, an in-place import into the created row changes the template, and
    `bad_createEmpty_not_sep` that the separation invariant is what fails there. -/

/-! ### Template FAMILIES: templates attached to one another with `WithRow` and extended afterwards
    (`Model/AliasFamily`, `Proofs/AliasFamily`)

  A world of several templates in the heap model, with the builder operations `with_ i name c` and
  `withRow i name j` (template `i` receives a FRESH CLONE of template `j`'s prototype, made at the call), row
  creation and the row mutators of the C15 histories.  `product w i` is what `CreateRowEmpty` of template `i` reads. -/

/-- In every reachable world the cells of distinct templates' prototypes are disjoint, and disjoint from the cells of
    every created row. -/
theorem families_separated {C : Type} (n : Nat) (ops : List (AliasFamily.Op C)) :
    let w := AliasFamily.run (AliasFamily.initWorld C n) ops
    (∀ (i j : Nat) pi pj, w.tmpls[i]? = some pi → w.tmpls[j]? = some pj → i ≠ j →
        ∀ a ∈ AliasFamily.taddrs pi, a ∉ AliasFamily.taddrs pj) ∧
      (∀ p ∈ w.tmpls, ∀ r ∈ w.rows, ∀ a ∈ AliasFamily.taddrs p, a ∉ addrs r) :=
  AliasFamily.reachable_separated n ops

/-- A builder call on template `i` changes the product of no other template. -/
theorem builder_call_changes_only_its_template {C : Type} {w : AliasFamily.World C} (inv : AliasFamily.Inv w)
    (op : AliasFamily.Op C) {i : Nat} (hop : op.tmplTarget = some i) (k : Nat) (hk : k ≠ i) :
    AliasFamily.product (AliasFamily.step w op) k = AliasFamily.product w k :=
  AliasFamily.builder_changes_only_own inv op hop k hk

/-- Attaching `j` to `i` and THEN anything — builder calls on `j` and on every other template, row creation, row
    mutation — short of a builder call on `i` itself leaves the product of `i` as it was right after the call. -/
theorem attached_template_extended_later {C : Type} {w : AliasFamily.World C} (inv : AliasFamily.Inv w) (i j : Nat)
    (name : Bytes) (clone : C → C) (pack) (ops : List (AliasFamily.Op C))
    (hops : ∀ op ∈ ops, op.tmplTarget ≠ some i) :
    AliasFamily.product (AliasFamily.run w (.withRow i name j clone pack :: ops)) i =
      AliasFamily.product (AliasFamily.step w (.withRow i name j clone pack)) i :=
  AliasFamily.attached_child_any_later_history inv i j name clone pack ops hops

/-- …and extending the parent afterwards does not change the template that was attached to it. -/
theorem parent_extended_later {C : Type} {w : AliasFamily.World C} (inv : AliasFamily.Inv w) {i j : Nat}
    (hij : i ≠ j) (name : Bytes) (clone : C → C) (pack) (ops : List (AliasFamily.Op C))
    (hops : ∀ op ∈ ops, op.tmplTarget = some i) :
    AliasFamily.product (AliasFamily.run w (.withRow i name j clone pack :: ops)) j = AliasFamily.product w j :=
  AliasFamily.parent_extended_later inv hij name clone pack ops hops

/-- Creating rows and mutating them, in any interleaving, changes no template's product. -/
theorem rows_never_change_a_template {C : Type} {w : AliasFamily.World C} (inv : AliasFamily.Inv w)
    (ops : List (AliasFamily.Op C))
    (hops : ∀ op ∈ ops, (∃ rop, op = .row rop) ∨ (∃ i clone pack, op = .createFrom i clone pack)) (k : Nat) :
    AliasFamily.product (AliasFamily.run w ops) k = AliasFamily.product w k :=
  AliasFamily.row_mutation_changes_no_template inv ops hops k

/-- Not vacuous, and the mechanism pinned: with the WRONG `WithRow` that stores the child's own prototype object instead
    of a clone (the regression "WithRow keeps sub.empty itself"), extending the child afterwards DOES change what the
    parent produces — kernel-checked on a concrete world. -/
theorem shared_prototype_would_leak :
    let w1 := AliasFamily.withRowShared AliasFamily.Witness.w0 0 AliasFamily.Witness.kP 1
    let w2 := AliasFamily.step w1 (.with_ 1 AliasFamily.Witness.kLate 7)
    AliasFamily.product w2 0 ≠ AliasFamily.product w1 0 :=
  AliasFamily.Witness.shared_child_extended_later_changes_parent.2.2


/-! ### Who clones what, read from the source (Proofs/FlowTie) -/

/-- As written today: `WithRow` stores a clone of the sub-template's prototype made at the call
    (`withRow`), `CreateRowEmpty` hands out a clone of the prototype, `CreateRow` is the model's
    `createRow` (every branch works on that clone), and `GetExporter` / `GetImporter` keep the
    template itself, not a copy. -/
theorem cloning_is_the_source :
    (∀ (env : Value.Env) (t : Template.Tmpl) (name : Bytes) (fp : Format) (tp : Ty)
        (sub : Template.Tmpl),
      FlowTie.runBuilder env "WithRow" t name fp tp sub = some (Template.withRow env t name sub)) ∧
    Gen.flowTable.createRowEmpty = .cloneOfProto ∧
    (∀ (env : Value.Env) (t : Template.Tmpl) (v : Dyn),
      FlowTie.createRowG Gen.flowTable.createRow env t v = some (Template.createRow env t v)) ∧
    Gen.flowTable.getExporter = .self ∧ Gen.flowTable.getImporter = .self :=
  ⟨FlowTie.withRow_is_withRow, FlowTie.createRowEmpty_as_modelled, FlowTie.createRow_is_createRow,
   FlowTie.getExporter_as_modelled, FlowTie.getImporter_as_modelled⟩

end Jl.C15
