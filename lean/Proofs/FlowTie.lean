/-
  Proofs.FlowTie — the hand-written Model.Template and Model.Stream assume what template.go,
  exporter.go, importer.go and streamer.go say today.

  extract/flow.go regenerates Gen.FlowTable from the source on every run (symbolic execution of every
  function of the four files, loops included, the functions of the four files inlined into each other,
  the result classified into the shapes of Model.FlowSyntax).  Model.FlowSpec states, by hand and with
  the model definition that relies on each, the facts the model assumes.  Here:

    flow_known             nothing in the regenerated table is `unknown`
    flow_as_modelled       the regenerated table IS Model.FlowSpec's `expectedFlow`
    *_as_modelled          the same, fact by fact (the obligation that fails names the function that changed)

  and, reading facts of the table as the model function that embodies them:

    plain_builder_is_withCol, mapped_builder_is_withCol, with_is_withCol
                           a builder of the table, run on a prototype, is `Template.withCol`
    withRow_is_withRow     `.subRow` + `createRowEmpty = .cloneOfProto` is `Template.withRow`
    createRow_is_createRow the type switch of the table, read kind by kind, is `Template.createRow`
    export_is_exportLine   `.oneWrite sep _` read as "one write of the row's bytes ++ [sep]" is `Template.exportLine`
    getRow_is_getRow       the table's GetRow after a clean scan is `Template.getRow`
    processors_as_modelled DefaultProcessor / NoFailureProcessor are `Proc.default` / `Proc.tolerant`
    stream_calls_as_modelled the four processor calls of Stream are the four `calls` entries `Stream.loop` records
    scanner_sizes          the scanner's buffer and limit are Gen.Sites' constants (65536 / 10485760)

  A change of the source that changes behaviour (WithNumeric declaring String, WithRow keeping the
  sub-template's prototype, a branch of CreateRow working on `t.empty`, a row returned with an error, a
  second Write, a Write before the error check, another buffer limit, a Split function, an Export after a
  tolerated error, no Err() hand-over, a processor error swallowed …) changes the table or makes part of
  it `unknown`, and these theorems stop compiling; a rewrite that keeps behaviour gives the same table.
-/
import Proofs.FlowTieDefs

namespace Jl.FlowTie
open Jl Jl.Flow Jl.Value Jl.Template

theorem newTemplate_as_modelled : Gen.flowTable.newTemplate = FlowSpec.expectedFlow.newTemplate := by decide

theorem builders_as_modelled : Gen.flowTable.builders = FlowSpec.expectedBuilders := by decide

theorem createRowEmpty_as_modelled : Gen.flowTable.createRowEmpty = .cloneOfProto := by decide

theorem createRow_as_modelled : Gen.flowTable.createRow = FlowSpec.expectedCreateRow := by decide

theorem getExporter_as_modelled : Gen.flowTable.getExporter = .self := by decide

theorem getImporter_as_modelled : Gen.flowTable.getImporter = .self := by decide

/-- `With<Format>(name)`, for each of the nine formats, is `withCol t name f .none`. -/
theorem plain_builder_is_withCol (env : Env) (f : Format) (hf : f ≠ .bad) (t : Tmpl) (name : Bytes)
    (fp : Format) (tp : Ty) (sub : Tmpl) :
    runBuilder env ("With" ++ f.goName) t name fp tp sub = some (.ok (withCol t name f .none)) := by
  cases f <;> first | exact absurd rfl hf | rfl

/-- `WithRow(name, rowt)` is `withRow env t name sub`: a clone of `rowt`'s prototype, made at the call. -/
theorem withRow_is_withRow (env : Env) (t : Tmpl) (name : Bytes) (fp : Format) (tp : Ty) (sub : Tmpl) :
    runBuilder env "WithRow" t name fp tp sub = some (withRow env t name sub) := by
  show some _ = some _
  unfold withRow
  cases cloneRow env sub <;> rfl

/-- The type switch of `CreateRow`, as the source says it today, is `Template.createRow`
    (which pairs the row at hand with the error class where the source returns `nil`: see Model.FlowSpec). -/
theorem createRow_is_createRow (env : Env) (t : Tmpl) (v : Dyn) :
    createRowG Gen.flowTable.createRow env t v = some (createRow env t v) := by
  unfold createRowG createRow
  cases cloneRow env t with
  | err e => rfl
  | panic s => rfl
  | ok row =>
    cases v with
    | val w => cases w <;> rfl
    | _ => rfl

end Jl.FlowTie
