/-
  Proofs.ValueTie — the hand-written Model.Value IS the interpretation of what value.go,
  conversions_import.go and conversions_export.go say today.

  extract/value.go regenerates Gen.ValueTable from the source on every run (symbolic execution of
  `value.Import`, `value.Export`, `NewValue`, `CloneValue`, format by format, the package's own
  functions inlined, the result classified into the shapes of Model.ValueSyntax).  Model.ValueGen
  interprets that table from the meaning of its constructors.  Here:

    table_known            nothing in the regenerated table is `unknown`; the four irregular bodies
                           (Import's nil / Row / Value preamble, Export's nil check, NewValue,
                           CloneValue) were recognised as what Model.Value says
    import_as_modelled     the table's import switch = `Value.importByFormat`
    export_as_modelled     the table's Export = the `.cell` case of `Value.exportVal`
    sentinels_as_modelled  the three `%w` sentinels are the three error classes of the model
    formats_as_modelled    the `Format` constants are numbered as Model.Basic's `Format` is ordered
    importCell_as_modelled Import with its preamble = `Value.importCell`, for the nine declared formats

  A change of the source that changes behaviour (another caster for a format, a layout instead of
  cast.ToString, a format handled by another function, a dropped nil check, another sentinel, a
  Row accepted by another format …) changes the table or makes part of it `unknown`, and one of
  these theorems stops compiling; a rewrite that keeps behaviour gives the same table.

  ONE DISAGREEMENT between Model.Value and the source, stated at the end (`undeclared_format_*`):
  for a `Format` that is none of the nine constants, `value.Import` returns ErrUnsupportedFormat and
  leaves `v.raw` as it was, while `Value.importByFormat` / `importCell` say the raw value becomes
  nil.  `importByFormatG` has, like `importByFormat`, no previous raw value: it is the table's
  switch on a cell whose raw value is nil, which is why `import_as_modelled` holds for `.bad` too.
-/
import Model.ValueGen
import Gen.ValueTable

namespace Jl.ValueTie
open Jl Jl.ValueGen

/-- The regenerated table holds no `.unknown` and its four irregular bodies are `.asModelled`. -/
theorem table_known :
    Gen.valueTable.known = true
    ∧ Gen.valueTable.importPreamble = .asModelled ∧ Gen.valueTable.exportPreamble = .asModelled
    ∧ Gen.valueTable.newValue = .asModelled ∧ Gen.valueTable.cloneValue = .asModelled := by
  decide

theorem format_beq (a b : Format) : (a == b) = decide (a = b) := rfl

theorem wrap_import (o : Outcome Dyn) : wrapWith .unsupportedImport o = Value.importFail o := by
  cases o with
  | err e => cases e <;> rfl
  | _ => rfl

theorem wrap_export (o : Outcome Dyn) : wrapWith .unsupportedExport o = Value.exportFail o := by
  cases o with
  | err e => cases e <;> rfl
  | _ => rfl

/-- The switch of `value.Import`, as the source says it today, is `Value.importByFormat`. -/
theorem import_as_modelled (env : Value.Env) (f : Format) (typ : Ty) (val : Dyn) :
    importByFormatG Gen.valueTable env f typ val = Value.importByFormat env f typ val := by
  cases f <;> cases typ <;>
    simp (config := { decide := true }) [importByFormatG, importSwitchG, importFnG, assignRaw,
      format_beq, Gen.valueTable, List.lookup, sentinelClass, Value.importByFormat, Value.importFrom,
      Value.importFromBinary, wrap_import]
  all_goals rfl

theorem chain_one (env : Value.Env) (c : ErrClass) (n : String) (v : Dyn) :
    chainG env c [n] v = wrapWith c (Cast.castNamed env.T env.ext n v) := by
  simp only [chainG]
  generalize wrapWith c (Cast.castNamed env.T env.ext n v) = o
  cases o <;> rfl

theorem chain_cons (env : Value.Env) (c : ErrClass) (n m : String) (ns : List String) (v : Dyn) :
    chainG env c (n :: m :: ns) v =
      match wrapWith c (Cast.castNamed env.T env.ext n v) with
      | .ok t => chainG env c (m :: ns) t
      | o => o := by
  rw [chainG]
  rfl

/-- `value.Export`, as the source says it today, is the `.cell` case of `Value.exportVal`. -/
theorem export_as_modelled (env : Value.Env) (raw : Dyn) (f : Format) (typ : Ty) :
    exportCellG Gen.valueTable env raw f = Value.exportVal env (.cell raw f typ) := by
  rw [Value.exportVal.eq_def]
  cases f <;> cases raw <;>
    simp (config := { decide := true }) [exportCellG, exportFnG, chain_one, chain_cons, format_beq, Gen.valueTable,
      List.lookup, sentinelClass, wrap_export]
  all_goals rfl

/-- The three `%w` sentinels are the three error classes of Model.Value (`importFail`,
    `exportFail`, the `.bad` rows), and in errors.go they are roots: none wraps another. -/
theorem sentinels_as_modelled :
    Gen.valueTable.importSentinel = "ErrUnsupportedImportType"
    ∧ Gen.valueTable.exportSentinel = "ErrUnsupportedExportType"
    ∧ Gen.valueTable.importDefault = .fail "ErrUnsupportedFormat"
    ∧ Gen.valueTable.exportDefault = .fail "ErrUnsupportedFormat"
    ∧ sentinelClass Gen.valueTable.importSentinel = some .unsupportedImport
    ∧ sentinelClass Gen.valueTable.exportSentinel = some .unsupportedExport
    ∧ (∀ s ∈ ["ErrUnsupportedImportType", "ErrUnsupportedExportType", "ErrUnsupportedFormat"],
        Gen.valueTable.sentinels.lookup s = some none) := by
  decide

/-- The `Format` constants, in declaration order, are numbered as Model.Basic's `Format` is
    ordered (`String` = 0 … `Hidden` = 8; `Format.bad` stands for every other number). -/
theorem formats_as_modelled :
    Gen.valueTable.formats = Format.declared.map (fun f => (f.goName, (f.ctorIdx : Int))) := by
  decide

/-- `value.Import` with its preamble (nil, Row, Value), as the source says it today, is
    `Value.importCell` — for the nine declared formats, whatever the cell held before. -/
theorem importCell_as_modelled (env : Value.Env) (old : Dyn) (f : Format) (typ : Ty) (val : Dyn)
    (hf : f ≠ .bad) :
    importCellG Gen.valueTable env old f typ val = Value.importCell env f typ val := by
  have sw : ∀ v, importSwitchG Gen.valueTable env old f typ v = Value.importByFormat env f typ v := by
    intro v
    rw [← import_as_modelled]
    cases f <;> first | exact absurd rfl hf | rfl
  unfold importCellG Value.importCell
  have hp : Gen.valueTable.importPreamble = .asModelled := rfl
  simp only [hp, sw]
  rfl

/-! ### The one place where Model.Value and the source disagree

A `Format` outside the nine constants (`jsonline.Format(42)`): `value.Import` takes the `default`
clause, `err = fmt.Errorf("%w: %#v", ErrUnsupportedFormat, v.f)`, and `v.raw` is NOT assigned
(checked on the Go side: `NewValue("old", Format(42), nil).Import("new")` leaves `Raw() == "old"`).
The table says so (`importDefault`; the translator checks that nothing is written), the
interpreter with the previous raw value says so, and Model.Value says the raw value becomes nil. -/

theorem undeclared_format_source (env : Value.Env) (old : Dyn) (typ : Ty) (s : Bytes) :
    importCellG Gen.valueTable env old .bad typ (.str s)
      = .ok (.cell old .bad typ, some .unsupportedFormat) := rfl

theorem undeclared_format_model (env : Value.Env) (typ : Ty) (s : Bytes) :
    Value.importCell env .bad typ (.str s)
      = .ok (.cell .nil .bad typ, some .unsupportedFormat) := rfl

end Jl.ValueTie
