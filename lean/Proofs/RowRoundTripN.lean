/-
  Proofs.RowRoundTripN — C13 at ROW / LINE level for templates with ANY number of columns:
  typed columns survive write-then-read.

  The route (harness route 1, `RowRoundTrip.Route` generalised), for a template `t` and a Go map `m`:
      createRow env t (.gomap m)               = .ok (row, none)
      marshalRow env (Members.ofList row)      = .ok bytes
      createRowEmpty env t                     = .ok r0
      unmarshalInto env r0 bytes               = .ok (r, none)          (`RouteN`)
      exportLine env t (.gomap m) = .ok (bytes ++ "\n", none),  getRow env t bytes = .ok (r, none)
                                                                        (`LineRouteN`)
  and, for every declared column `k`, `lookup r k` against `valOf m k` (the value the map holds
  under `k`, nil for a name it does not hold).

  1. Generic lifting (any environment, any cast tables): `route_N` (explicit rows: `fillRow`,
     `readBack`; hypotheses per cell in the style of `RowRoundTrip.route_of_wire`: `CellRoute`),
     `lossless_N_of_cells` (existential form, conclusion `RowLosslessN` / `ColumnsSurvive`).
     Handled: any number of columns, names absent from the map (nil cell, written `null`, read
     back nil: `cellRoute_nil`), HIDDEN columns (filled by `CreateRow`, not written, read back
     nil: they do NOT survive — `hidden_lost`), declaration order whatever the map's order
     (`OMap.keys row`, `Order.inputKeys bytes`, `OMap.keys r`), and names the template does not
     declare (`ExtrasOK`: carried as Auto cells after the declared columns; vacuous when every
     name of the map is declared, `extrasOK_of_declared`; `extrasOK_of_scalars`).
  2. The regenerated tables: `gen_route_N`, `gen_cell_covered` / `gen_cell_coveredExt` (the
     cell-level form of `RowRoundTrip.row_lossless_covered` / `…Ext`), `gen_lossless_N_of_cols`.
  3. In the words of the tables: `lossless_N`, `lossless_N_ext`, `line_lossless_N`
     (`coveredB`, `WellTypedMap` = `valueTy` + `Tables.inDomain`, `Tables.sameValue`,
     `Tables.lossless`).
  4. `ofCols_ok`: every template built by `With(…)` calls has distinct names and cell prototypes.
  5. `Demo`: four columns, one hidden, every step computed; the general theorems apply and agree.
  6. `Clash.clash`: the hypothesis on undeclared names is needed — an undeclared name that is not
     UTF-8 is written `\ufffd` and read back INTO the declared column named U+FFFD.
-/
import Model.Tables
import Model.Value
import Model.Template
import Model.RowPrint
import Model.CastGen
import Proofs.CastTyped
import Proofs.Pairings
import Proofs.JsonPrint
import Proofs.Order
import Proofs.RowRoundTrip
import Proofs.LineFixedPoint

namespace Jl.RowRoundTripN
open Jl Jl.Value Jl.Template Jl.RowPrint Jl.JsonPrint Jl.JsonQuote Cast
open Jl.RowRoundTrip (Wire valueTy coveredB)

set_option linter.unusedSimpArgs false

/-! ### 0. Vocabulary -/

/-- Every column of the template is a cell prototype, as `withCol … k f ty` makes them. -/
def Proto (t : Tmpl) : Prop := ∀ kc ∈ t, ∃ f ty, kc.2 = .cell .nil f ty

/-- The entry of a column with its raw value replaced by `g name`. -/
def setRaw (g : Bytes → Dyn) (kc : Bytes × Val) : Bytes × Val :=
  (kc.1, .cell (g kc.1) (Cells.format kc.2) (Cells.rawType kc.2))

/-- The row of the template's columns, in declaration order, holding `g name` under each name. -/
def fillRow (t : Tmpl) (g : Bytes → Dyn) : List (Bytes × Val) := t.map (setRaw g)

def upd (g : Bytes → Dyn) (k : Bytes) (x : Dyn) : Bytes → Dyn := fun k' => if k' = k then x else g k'

def valOfFrom (g : Bytes → Dyn) (kvs : List (Bytes × Dyn)) : Bytes → Dyn :=
  kvs.foldl (fun g kv => upd g kv.1 kv.2) g

/-- The value a Go map holds under a name; nil for a name it does not hold.  (A `DynMap` is a
    list: should a name be repeated, the last entry counts, as `CreateRow` fills in order.) -/
def valOf (m : DynMap) : Bytes → Dyn := valOfFrom (fun _ => .nil) m.toList

/-- The entries of the map under names the template does not declare, in the map's order. -/
def undeclared (t : Tmpl) (kvs : List (Bytes × Dyn)) : List (Bytes × Dyn) :=
  kvs.filter fun kv => decide (kv.1 ∉ OMap.keys t)

/-- Fresh Auto cells (what `CreateRow` and `parseobject` store under an undeclared name). -/
def autoRow (l : List (Bytes × Dyn)) : List (Bytes × Val) := l.map fun kv => (kv.1, Cells.autoCell kv.2)

/-- What is read back under each declared name: `back name` for a visible column, nil for a
    hidden one (a hidden column is not written). -/
def readBack (t : Tmpl) (back : Bytes → Dyn) : Bytes → Dyn :=
  fun k => if k ∈ visibleKeys t then back k else .nil

theorem valOfFrom_nil (g : Bytes → Dyn) : valOfFrom g [] = g := rfl

theorem valOfFrom_cons (g : Bytes → Dyn) (k : Bytes) (x : Dyn) (kvs : List (Bytes × Dyn)) :
    valOfFrom g ((k, x) :: kvs) = valOfFrom (upd g k x) kvs := rfl

theorem valOfFrom_not_mem (kvs : List (Bytes × Dyn)) : ∀ (g : Bytes → Dyn) (k : Bytes),
    k ∉ kvs.map Prod.fst → valOfFrom g kvs k = g k := by
  induction kvs with
  | nil => intro g k _; rfl
  | cons a l ih =>
    intro g k hk
    obtain ⟨k0, x0⟩ := a
    simp only [List.map_cons, List.mem_cons, not_or] at hk
    rw [valOfFrom_cons, ih _ _ hk.2]
    simp only [upd, hk.1, if_false]

theorem valOfFrom_mem (kvs : List (Bytes × Dyn)) : ∀ (g : Bytes → Dyn) (k : Bytes) (x : Dyn),
    (kvs.map Prod.fst).Nodup → (k, x) ∈ kvs → valOfFrom g kvs k = x := by
  induction kvs with
  | nil => intro g k x _ h; cases h
  | cons a l ih =>
    intro g k x hnd h
    obtain ⟨k0, x0⟩ := a
    simp only [List.map_cons, List.nodup_cons] at hnd
    rw [valOfFrom_cons]
    rcases List.mem_cons.mp h with h | h
    · cases h
      rw [valOfFrom_not_mem _ _ _ hnd.1]
      simp [upd]
    · exact ih _ _ _ hnd.2 h

theorem valOfFrom_congr_at (kvs : List (Bytes × Dyn)) : ∀ (g g' : Bytes → Dyn) (k : Bytes),
    g k = g' k → valOfFrom g kvs k = valOfFrom g' kvs k := by
  induction kvs with
  | nil => intro g g' k h; exact h
  | cons a l ih =>
    intro g g' k h
    obtain ⟨k0, x0⟩ := a
    rw [valOfFrom_cons, valOfFrom_cons]
    apply ih
    simp only [upd, h]

/-- A name the map does not hold: nil. -/
theorem valOf_absent (m : DynMap) (k : Bytes) (h : k ∉ m.toList.map Prod.fst) : valOf m k = .nil :=
  valOfFrom_not_mem _ _ _ h

/-- A name the map holds (a Go map holds a name once): its value. -/
theorem valOf_present (m : DynMap) (k : Bytes) (x : Dyn) (hnd : (m.toList.map Prod.fst).Nodup)
    (h : (k, x) ∈ m.toList) : valOf m k = x :=
  valOfFrom_mem _ _ _ _ hnd h

/-- In any case the value under a name is nil or one of the map's entries for that name. -/
theorem valOfFrom_cases (kvs : List (Bytes × Dyn)) : ∀ (g : Bytes → Dyn) (k : Bytes),
    valOfFrom g kvs k = g k ∨ (k, valOfFrom g kvs k) ∈ kvs := by
  induction kvs with
  | nil => intro g k; exact .inl rfl
  | cons a l ih =>
    intro g k
    obtain ⟨k0, x0⟩ := a
    rw [valOfFrom_cons]
    rcases ih (upd g k0 x0) k with h | h
    · rw [h]
      by_cases hk : k = k0
      · subst hk; right; simp [upd]
      · left; simp [upd, hk]
    · exact .inr (List.mem_cons_of_mem _ h)

theorem valOf_cases (m : DynMap) (k : Bytes) : valOf m k = .nil ∨ (k, valOf m k) ∈ m.toList :=
  valOfFrom_cases m.toList _ k

/-! ### 1. Rows as lists: lookups and upserts on `fillRow t g ++ extras` -/

theorem keys_fillRow (t : Tmpl) (g : Bytes → Dyn) : OMap.keys (fillRow t g) = OMap.keys t := by
  simp [OMap.keys, fillRow, setRaw, List.map_map, Function.comp_def]

theorem fillRow_congr (t : Tmpl) (g g' : Bytes → Dyn) (h : ∀ k ∈ OMap.keys t, g k = g' k) :
    fillRow t g = fillRow t g' := by
  apply List.map_congr_left
  intro kc hkc
  have : kc.1 ∈ OMap.keys t := List.mem_map_of_mem (f := Prod.fst) hkc
  simp only [setRaw, h _ this]

theorem fillRow_proto (t : Tmpl) (h : Proto t) : fillRow t (fun _ => .nil) = t := by
  have : ∀ kc ∈ t, setRaw (fun _ => Dyn.nil) kc = id kc := by
    intro kc hkc
    obtain ⟨f, ty, e⟩ := h kc hkc
    obtain ⟨k, c⟩ := kc
    simp only at e
    subst e
    rfl
  rw [fillRow, List.map_congr_left this, List.map_id]

theorem lookup_fillRow (t : Tmpl) (g : Bytes → Dyn) (k : Bytes) :
    OMap.lookup (fillRow t g) k =
      (OMap.lookup t k).map fun c => .cell (g k) (Cells.format c) (Cells.rawType c) := by
  induction t with
  | nil => rfl
  | cons a t ih =>
    obtain ⟨k0, c0⟩ := a
    by_cases hk : k0 = k
    · subst hk
      simp only [fillRow, List.map_cons, setRaw, LineFixedPoint.lookup_cons_self, Option.map_some]
    · have : fillRow ((k0, c0) :: t) g = (k0, _) :: fillRow t g := rfl
      rw [this, LineFixedPoint.lookup_cons_ne _ _ hk, LineFixedPoint.lookup_cons_ne _ _ hk, ih]

theorem upsert_fillRow (t : Tmpl) (g : Bytes → Dyn) (k : Bytes) (x : Dyn) (c : Val)
    (hnd : (OMap.keys t).Nodup) (hl : OMap.lookup t k = some c) :
    OMap.upsert (fillRow t g) k (.cell x (Cells.format c) (Cells.rawType c)) = fillRow t (upd g k x) := by
  induction t with
  | nil => cases hl
  | cons a t ih =>
    obtain ⟨k0, c0⟩ := a
    rw [Order.keys_cons, List.nodup_cons] at hnd
    have hcons : ∀ g, fillRow ((k0, c0) :: t) g = setRaw g (k0, c0) :: fillRow t g := fun _ => rfl
    rw [hcons, hcons]
    by_cases hk : k0 = k
    · subst hk
      rw [LineFixedPoint.lookup_cons_self] at hl
      cases hl
      have h1 : fillRow t (upd g k0 x) = fillRow t g := by
        apply fillRow_congr
        intro k' hk'
        have : ¬ k' = k0 := fun e => hnd.1 (e ▸ hk')
        simp only [upd, this, if_false]
      rw [h1]
      simp [setRaw, OMap.upsert, upd]
    · rw [LineFixedPoint.lookup_cons_ne _ _ hk] at hl
      have h1 := ih hnd.2 hl
      simp only [setRaw, OMap.upsert, hk, if_false, upd]
      rw [h1]

theorem lookup_append (a b : List (Bytes × Val)) (k : Bytes) :
    OMap.lookup (a ++ b) k = (OMap.lookup a k).or (OMap.lookup b k) := by
  induction a with
  | nil => simp [OMap.lookup]
  | cons x a ih =>
    obtain ⟨k0, c0⟩ := x
    by_cases hk : k0 = k
    · subst hk
      simp [OMap.lookup]
    · simp only [List.cons_append, LineFixedPoint.lookup_cons_ne _ _ hk, ih]

theorem upsert_append_mem (a b : List (Bytes × Val)) (k : Bytes) (c : Val) (h : k ∈ OMap.keys a) :
    OMap.upsert (a ++ b) k c = OMap.upsert a k c ++ b := by
  induction a with
  | nil => cases h
  | cons x a ih =>
    obtain ⟨k0, c0⟩ := x
    by_cases hk : k0 = k
    · subst hk
      simp [OMap.upsert]
    · rw [Order.keys_cons, List.mem_cons] at h
      have h' : k ∈ OMap.keys a := by
        rcases h with h | h
        · exact absurd h.symm hk
        · exact h
      simp only [List.cons_append, OMap.upsert, hk, if_false, ih h']

theorem upsert_append_not_mem (a b : List (Bytes × Val)) (k : Bytes) (c : Val) (h : k ∉ OMap.keys a) :
    OMap.upsert (a ++ b) k c = a ++ OMap.upsert b k c := by
  induction a with
  | nil => rfl
  | cons x a ih =>
    obtain ⟨k0, c0⟩ := x
    rw [Order.keys_cons, List.mem_cons, not_or] at h
    have hk : ¬ k0 = k := fun e => h.1 e.symm
    simp only [List.cons_append, OMap.upsert, hk, if_false, ih h.2]

theorem keys_append (a b : List (Bytes × Val)) : OMap.keys (a ++ b) = OMap.keys a ++ OMap.keys b := by
  simp [OMap.keys]

theorem keys_autoRow (l : List (Bytes × Dyn)) : OMap.keys (autoRow l) = l.map Prod.fst := by
  simp [OMap.keys, autoRow, List.map_map, Function.comp_def]

/-! ### 2. `CloneRow` / `CreateRowEmpty` of a template of cell prototypes: the template itself -/

theorem cloneInto_self (env : Env) : ∀ (rest acc : List (Bytes × Val)),
    (∀ k ∈ OMap.keys rest, k ∉ OMap.keys acc) → (OMap.keys rest).Nodup →
    (∀ kc ∈ rest, cloneValue env kc.2 = .ok kc.2) →
    cloneInto env acc rest = .ok (acc ++ rest)
  | [], acc, _, _, _ => by simp [cloneInto]
  | (k, c) :: rest, acc, hdis, hnd, hcl => by
    rw [Order.keys_cons, List.nodup_cons] at hnd
    have h1 : cloneValue env c = .ok c := hcl (k, c) List.mem_cons_self
    have h2 : k ∉ OMap.keys acc := hdis k (by rw [Order.keys_cons]; exact List.mem_cons_self)
    simp only [cloneInto, h1, upsert, OMap.upsert_of_not_mem acc k c h2]
    rw [cloneInto_self env rest (acc ++ [(k, c)]) ?_ hnd.2
      (fun kc h => hcl kc (List.mem_cons_of_mem _ h))]
    · simp
    · intro k' hk'
      rw [keys_append, List.mem_append, not_or]
      refine ⟨hdis k' (by rw [Order.keys_cons]; exact List.mem_cons_of_mem _ hk'), ?_⟩
      simp only [OMap.keys, List.map_cons, List.map_nil, List.mem_singleton]
      intro e
      exact hnd.1 (e ▸ hk')

/-- `CreateRowEmpty` (= `CloneRow`) of a template with distinct names whose columns are cell
    prototypes gives the template's own list of nil cells, in declaration order. -/
theorem cloneRow_proto (env : Env) (t : Tmpl) (hnd : (OMap.keys t).Nodup) (hp : Proto t)
    (h0 : ∀ k f ty, (k, Val.cell .nil f ty) ∈ t → newValue env .nil f ty = .ok (.cell .nil f ty)) :
    cloneRow env t = .ok t := by
  have := cloneInto_self env t [] (fun _ _ h => by cases h) hnd (by
    intro kc hkc
    obtain ⟨f, ty, e⟩ := hp kc hkc
    obtain ⟨k, c⟩ := kc
    simp only at e
    subst e
    simp only [cloneValue, Cells.raw, Cells.format, Cells.rawType]
    exact h0 k f ty hkc)
  simpa [cloneRow] using this

/-! ### 3. `CreateRow(map)`: the declared columns hold the map's values, undeclared names follow -/

theorem fill_declared (env : Env) (t : Tmpl) (g : Bytes → Dyn) (X : List (Bytes × Val)) (k : Bytes)
    (x : Dyn) (c : Val) (hnd : (OMap.keys t).Nodup) (hl : OMap.lookup t k = some c)
    (hnv : newValue env x (Cells.format c) (Cells.rawType c) =
      .ok (.cell x (Cells.format c) (Cells.rawType c))) :
    fill env (fillRow t g ++ X) k x = .ok (fillRow t (upd g k x) ++ X) := by
  have h1 : lookup (fillRow t g ++ X) k = some (.cell (g k) (Cells.format c) (Cells.rawType c)) := by
    rw [lookup, lookup_append, lookup_fillRow, hl]; rfl
  have h2 : k ∈ OMap.keys (fillRow t g) := by
    rw [keys_fillRow]; exact LineFixedPoint.mem_keys_of_lookup hl
  simp only [fill, h1, LineFixedPoint.format_cell, LineFixedPoint.rawType_cell, hnv, upsert]
  rw [upsert_append_mem _ _ _ _ h2, upsert_fillRow t g k x c hnd hl]

theorem fill_undeclared (env : Env) (t : Tmpl) (g : Bytes → Dyn) (X : List (Bytes × Val)) (k : Bytes)
    (x : Dyn) (hk : k ∉ OMap.keys t) (hX : k ∉ OMap.keys X) :
    fill env (fillRow t g ++ X) k x = .ok (fillRow t g ++ (X ++ [(k, Cells.autoCell x)])) := by
  have hk' : k ∉ OMap.keys (fillRow t g) := by rw [keys_fillRow]; exact hk
  have h1 : lookup (fillRow t g ++ X) k = none := by
    rw [lookup, lookup_append, OMap.lookup_none_of_not_mem _ _ hk', OMap.lookup_none_of_not_mem _ _ hX]
    rfl
  simp only [fill, h1, upsert]
  rw [upsert_append_not_mem _ _ _ _ hk', OMap.upsert_of_not_mem _ _ _ hX]

theorem undeclared_cons_mem (t : Tmpl) (k : Bytes) (x : Dyn) (kvs : List (Bytes × Dyn))
    (h : k ∈ OMap.keys t) : undeclared t ((k, x) :: kvs) = undeclared t kvs := by
  simp [undeclared, List.filter_cons, h]

theorem undeclared_cons_not_mem (t : Tmpl) (k : Bytes) (x : Dyn) (kvs : List (Bytes × Dyn))
    (h : k ∉ OMap.keys t) : undeclared t ((k, x) :: kvs) = (k, x) :: undeclared t kvs := by
  simp [undeclared, List.filter_cons, h]

theorem fillPairs_shape (env : Env) (t : Tmpl) (hnd : (OMap.keys t).Nodup) :
    ∀ (kvs : List (Bytes × Dyn)) (g : Bytes → Dyn) (X : List (Bytes × Val)),
    (∀ k x c, (k, x) ∈ kvs → OMap.lookup t k = some c →
      newValue env x (Cells.format c) (Cells.rawType c) =
        .ok (.cell x (Cells.format c) (Cells.rawType c))) →
    (OMap.keys X ++ (undeclared t kvs).map Prod.fst).Nodup →
    fillPairs env (fillRow t g ++ X) kvs =
      .ok (fillRow t (valOfFrom g kvs) ++ (X ++ autoRow (undeclared t kvs)))
  | [], g, X, _, _ => by simp [fillPairs, undeclared, autoRow, valOfFrom]
  | (k, x) :: kvs, g, X, hnv, hx => by
    by_cases hk : k ∈ OMap.keys t
    · rw [undeclared_cons_mem t k x kvs hk] at hx ⊢
      obtain ⟨c, hc⟩ := Order.lookup_isSome_of_mem t k hk
      rw [fillPairs, fill_declared env t g X k x c hnd hc (hnv k x c List.mem_cons_self hc)]
      dsimp only
      exact fillPairs_shape env t hnd kvs (upd g k x) X
        (fun k' x' c' hm hl => hnv k' x' c' (List.mem_cons_of_mem _ hm) hl) hx
    · rw [undeclared_cons_not_mem t k x kvs hk] at hx ⊢
      have hX : k ∉ OMap.keys X := by
        intro hm
        rw [List.map_cons, List.nodup_append] at hx
        exact hx.2.2 k hm k List.mem_cons_self rfl
      rw [fillPairs, fill_undeclared env t g X k x hk hX]
      dsimp only
      have := fillPairs_shape env t hnd kvs g (X ++ [(k, Cells.autoCell x)])
        (fun k' x' c' hm hl => hnv k' x' c' (List.mem_cons_of_mem _ hm) hl) (by
          rw [keys_append]
          simpa [OMap.keys] using hx)
      rw [this, valOfFrom_cons]
      have hg : fillRow t (valOfFrom (upd g k x) kvs) = fillRow t (valOfFrom g kvs) := by
        apply fillRow_congr
        intro k' hk'
        apply valOfFrom_congr_at
        have : ¬ k' = k := fun e => hk (e ▸ hk')
        simp only [upd, this, if_false]
      rw [hg]
      simp [autoRow]

/-- `CreateRow(map[string]interface{})` on a template of cell prototypes: the declared columns in
    declaration order — whatever the order of the map — holding the map's values (nil for the
    names the map does not hold), then the undeclared names in the map's order as Auto cells. -/
theorem createRow_shape (env : Env) (t : Tmpl) (m : DynMap) (hnd : (OMap.keys t).Nodup) (hp : Proto t)
    (h0 : ∀ k f ty, (k, Val.cell .nil f ty) ∈ t → newValue env .nil f ty = .ok (.cell .nil f ty))
    (ha : ∀ k x f ty, (k, x) ∈ m.toList → (k, Val.cell .nil f ty) ∈ t →
      newValue env x f ty = .ok (.cell x f ty))
    (hx : ((undeclared t m.toList).map Prod.fst).Nodup) :
    createRow env t (.gomap m) =
      .ok (fillRow t (valOf m) ++ autoRow (undeclared t m.toList), none) := by
  have h1 := fillPairs_shape env t hnd m.toList (fun _ => .nil) [] (by
    intro k x c hm hl
    have hmem := LineFixedPoint.mem_of_lookup hl
    obtain ⟨f, ty, e⟩ := hp _ hmem
    simp only at e
    subst e
    exact ha k x f ty hm hmem) (by simpa [OMap.keys] using hx)
  rw [fillRow_proto t hp, List.append_nil, List.nil_append] at h1
  simp only [createRow, cloneRow_proto env t hnd hp h0, h1, valOf]

/-! ### 4. The printed row and what the reader delivers for it -/

/-- The cell is marshalled, and the reader hands `d` to `Import` / `NewValueAuto` for its text. -/
def CellOut (env : Env) (c : Val) (d : Dyn) : Prop :=
  ∃ b j, marshalVal env c = .ok b ∧ ReadsAs b j ∧ ofJV env j = .ok d

/-- `RowOut env row ds`: every visible cell of `row` is marshalled, and `ds` is the list of members
    (name as the reader delivers it, value as `handledelim` builds it) of the text, in order;
    hidden cells contribute nothing. -/
inductive RowOut (env : Env) : List (Bytes × Val) → List (Bytes × Dyn) → Prop
  | nil : RowOut env [] []
  | hidden {k c row ds} : Cells.format c = .hidden → RowOut env row ds → RowOut env ((k, c) :: row) ds
  | vis {k c d row ds} : Cells.format c ≠ .hidden → CellOut env c d → RowOut env row ds →
      RowOut env ((k, c) :: row) ((sanitize k, d) :: ds)

theorem RowOut.append {env : Env} {a b : List (Bytes × Val)} {da db : List (Bytes × Dyn)}
    (ha : RowOut env a da) (hb : RowOut env b db) : RowOut env (a ++ b) (da ++ db) := by
  induction ha with
  | nil => exact hb
  | hidden h _ ih => exact .hidden h ih
  | vis h hc _ ih => exact .vis h hc ih

theorem RowOut.members {env : Env} {row : List (Bytes × Val)} {ds : List (Bytes × Dyn)}
    (h : RowOut env row ds) :
    ∃ parts ms, marshalMembers env (Members.ofList row) = .ok parts ∧ ReadsMembers parts ms ∧
      ofJVMembers env ms = .ok ds := by
  induction h with
  | nil => exact ⟨[], .nil, marshalMembers_nil env, .nil, by rw [ofJVMembers.eq_def]⟩
  | @hidden k c row ds hh _ ih =>
    obtain ⟨parts, ms, h1, h2, h3⟩ := ih
    exact ⟨parts, ms, by rw [Members.ofList, marshalMembers_hidden env _ _ _ hh]; exact h1, h2, h3⟩
  | @vis k c d row ds hv hc _ ih =>
    obtain ⟨parts, ms, h1, h2, h3⟩ := ih
    obtain ⟨b, j, hb, hr, hj⟩ := hc
    refine ⟨_, _, by rw [Members.ofList]; exact marshalMembers_cons env k c _ hv hb h1,
      ReadsMembers.cons hr h2, ?_⟩
    rw [ofJVMembers.eq_def]
    simp only [hj, h3]

/-- The row is marshalled; the text is accepted by the reader, which delivers the members `ds`. -/
theorem RowOut.text {env : Env} {row : List (Bytes × Val)} {ds : List (Bytes × Dyn)}
    (h : RowOut env row ds) :
    ∃ bytes ms, marshalRow env (Members.ofList row) = .ok bytes ∧ Json.unmarshal bytes = (ms, true) ∧
      ofJVMembers env ms = .ok ds := by
  obtain ⟨parts, ms, h1, h2, h3⟩ := h.members
  exact ⟨_, ms, marshalRow_eq env _ h1, unmarshal_object h2, h3⟩

/-- A wire value (`RowRoundTrip.Wire`): the cell that exports it is marshalled and read as `e'`. -/
theorem cellOut_of_wire (env : Env) (v : Dyn) (f : Format) (ty : Ty) (e e' : Dyn)
    (hb : exportVal env (.cell v f ty) = .ok e) (hw : Wire e e') : CellOut env (.cell v f ty) e' := by
  obtain ⟨b, j, hm, hr, hj⟩ := hw.marshal env v
  refine ⟨b, j, ?_, hr, hj⟩
  rw [marshalVal.eq_def]; simp only [hb, hm]

/-- The same in the words of the printed tree (`RowRoundTrip.route_of_cell`): any cell that is
    marshalled — nested data under an Auto column included — given that json.Marshal's spelling
    of a float is a JSON number (`FloatTextOK`). -/
theorem cellOut_of_tree (env : Env) (hx : FloatTextOK env.ext) (c : Val) (b : Bytes) (d : Dyn)
    (hm : marshalVal env c = .ok b) (hd : ofJV env (treeVal env c) = .ok d) : CellOut env c d :=
  ⟨b, treeVal env c, hm, marshalVal_tree env hx c b hm, hd⟩

/-- The declared part of the created row, printed: one member per visible column, in declaration
    order, under the column's own name; `Q` carries any fact about the value delivered. -/
theorem rowOut_fillRow (env : Env) (g : Bytes → Dyn) (Q : Bytes → Val → Dyn → Prop) :
    ∀ (t : Tmpl),
    (∀ k c, (k, c) ∈ t → Cells.format c ≠ .hidden →
      sanitize k = k ∧ ∃ d, CellOut env (.cell (g k) (Cells.format c) (Cells.rawType c)) d ∧ Q k c d) →
    ∃ ds, RowOut env (fillRow t g) ds ∧ ds.map Prod.fst = visibleKeys t ∧
      ∀ k d, (k, d) ∈ ds → ∃ c, (k, c) ∈ t ∧ Cells.format c ≠ .hidden ∧ Q k c d
  | [], _ => ⟨[], .nil, rfl, fun _ _ h => by cases h⟩
  | (k0, c0) :: t, h => by
    obtain ⟨ds, h1, h2, h3⟩ := rowOut_fillRow env g Q t
      (fun k c hm => h k c (List.mem_cons_of_mem _ hm))
    have hcons : fillRow ((k0, c0) :: t) g =
        (k0, .cell (g k0) (Cells.format c0) (Cells.rawType c0)) :: fillRow t g := rfl
    by_cases hh : Cells.format c0 = .hidden
    · refine ⟨ds, ?_, ?_, fun k d hm => ?_⟩
      · rw [hcons]; exact .hidden hh h1
      · simp [visibleKeys, List.filter_cons, hh] at h2 ⊢; exact h2
      · obtain ⟨c, hc⟩ := h3 k d hm
        exact ⟨c, List.mem_cons_of_mem _ hc.1, hc.2⟩
    · obtain ⟨hk, d, hd, hq⟩ := h k0 c0 List.mem_cons_self hh
      refine ⟨(k0, d) :: ds, ?_, ?_, fun k d' hm => ?_⟩
      · rw [hcons]
        have := RowOut.vis (k := k0) (c := .cell (g k0) (Cells.format c0) (Cells.rawType c0)) hh hd h1
        rwa [hk] at this
      · simp [visibleKeys, List.filter_cons, hh] at h2 ⊢; exact h2
      · rcases List.mem_cons.mp hm with hm | hm
        · cases hm; exact ⟨c0, List.mem_cons_self, hh, hq⟩
        · obtain ⟨c, hc⟩ := h3 k d' hm
          exact ⟨c, List.mem_cons_of_mem _ hc.1, hc.2⟩

/-- What the reader delivers for the undeclared entries `E` of the map: entry by entry, the name
    after the trip through the escaper and the value `handledelim` builds for the text of the
    Auto cell. -/
inductive Delivered (env : Env) : List (Bytes × Dyn) → List (Bytes × Dyn) → Prop
  | nil : Delivered env [] []
  | cons {k x d E ds} : CellOut env (Cells.autoCell x) d → Delivered env E ds →
      Delivered env ((k, x) :: E) ((sanitize k, d) :: ds)

theorem Delivered.keys {env : Env} {E ds : List (Bytes × Dyn)} (h : Delivered env E ds) :
    ds.map Prod.fst = E.map fun kv => sanitize kv.1 := by
  induction h with
  | nil => rfl
  | cons _ _ ih => simp [ih]

/-- The undeclared part of the created row, printed: Auto cells are never hidden. -/
theorem rowOut_autoRow (env : Env) : ∀ (E : List (Bytes × Dyn)),
    (∀ kv ∈ E, ∃ d, CellOut env (Cells.autoCell kv.2) d) →
    ∃ ds, RowOut env (autoRow E) ds ∧ Delivered env E ds
  | [], _ => ⟨[], .nil, .nil⟩
  | (k, x) :: E, h => by
    obtain ⟨ds, h1, h2⟩ := rowOut_autoRow env E (fun kv hm => h kv (List.mem_cons_of_mem _ hm))
    obtain ⟨d, hd⟩ := h (k, x) List.mem_cons_self
    exact ⟨(sanitize k, d) :: ds, .vis (by simp [Cells.autoCell, Cells.format]) hd h1, .cons hd h2⟩

/-! ### 5. `parseobject` on the empty row: declared members import into their columns,
    undeclared ones are appended as Auto cells -/

theorem parseMember_declared (env : Env) (t : Tmpl) (g : Bytes → Dyn) (Y : List (Bytes × Val))
    (k : Bytes) (d v' : Dyn) (c : Val) (hnd : (OMap.keys t).Nodup) (hl : OMap.lookup t k = some c)
    (hi : importCell env (Cells.format c) (Cells.rawType c) d =
      .ok (.cell v' (Cells.format c) (Cells.rawType c), none)) :
    parseMember env (fillRow t g ++ Y) k d = .ok (fillRow t (upd g k v') ++ Y, none) := by
  have h1 : lookup (fillRow t g ++ Y) k = some (.cell (g k) (Cells.format c) (Cells.rawType c)) := by
    rw [lookup, lookup_append, lookup_fillRow, hl]; rfl
  have h2 : k ∈ OMap.keys (fillRow t g) := by
    rw [keys_fillRow]; exact LineFixedPoint.mem_keys_of_lookup hl
  simp only [parseMember, h1, LineFixedPoint.importVal_cell, hi, upsert]
  rw [upsert_append_mem _ _ _ _ h2, upsert_fillRow t g k v' c hnd hl]

theorem parseMembers_declared (env : Env) (t : Tmpl) (back : Bytes → Dyn) (Y : List (Bytes × Val))
    (hnd : (OMap.keys t).Nodup) :
    ∀ (ds : List (Bytes × Dyn)) (g : Bytes → Dyn),
    (∀ k d, (k, d) ∈ ds → ∃ c, OMap.lookup t k = some c ∧
      importCell env (Cells.format c) (Cells.rawType c) d =
        .ok (.cell (back k) (Cells.format c) (Cells.rawType c), none)) →
    parseMembers env (fillRow t g ++ Y) ds =
      .ok (fillRow t (fun k => if k ∈ ds.map Prod.fst then back k else g k) ++ Y, none)
  | [], g, _ => by simp [parseMembers]
  | (k0, d0) :: ds, g, h => by
    obtain ⟨c, hl, hi⟩ := h k0 d0 List.mem_cons_self
    rw [parseMembers, parseMember_declared env t g Y k0 d0 (back k0) c hnd hl hi]
    dsimp only
    rw [parseMembers_declared env t back Y hnd ds (upd g k0 (back k0))
      (fun k d hm => h k d (List.mem_cons_of_mem _ hm))]
    have : (fun k => if k ∈ ds.map Prod.fst then back k else upd g k0 (back k0) k) =
        (fun k => if k ∈ ((k0, d0) :: ds).map Prod.fst then back k else g k) := by
      funext k
      by_cases h1 : k ∈ ds.map Prod.fst
      · simp [h1]
      · by_cases h2 : k = k0
        · subst h2; simp [upd]
        · simp [h1, h2, upd]
    rw [this]

theorem parseMember_undeclared (env : Env) (B Y : List (Bytes × Val)) (k : Bytes) (d : Dyn)
    (hB : k ∉ OMap.keys B) (hY : k ∉ OMap.keys Y) :
    parseMember env (B ++ Y) k d = .ok (B ++ (Y ++ [(k, Cells.autoCell d)]), none) := by
  have h1 : lookup (B ++ Y) k = none := by
    rw [lookup, lookup_append, OMap.lookup_none_of_not_mem _ _ hB, OMap.lookup_none_of_not_mem _ _ hY]
    rfl
  simp only [parseMember, h1, upsert]
  rw [upsert_append_not_mem _ _ _ _ hB, OMap.upsert_of_not_mem _ _ _ hY]

theorem parseMembers_undeclared (env : Env) (B : List (Bytes × Val)) :
    ∀ (ds : List (Bytes × Dyn)) (Y : List (Bytes × Val)),
    (∀ k ∈ ds.map Prod.fst, k ∉ OMap.keys B) → (OMap.keys Y ++ ds.map Prod.fst).Nodup →
    parseMembers env (B ++ Y) ds = .ok (B ++ (Y ++ autoRow ds), none)
  | [], Y, _, _ => by simp [parseMembers, autoRow]
  | (k, d) :: ds, Y, hB, hnd => by
    have hY : k ∉ OMap.keys Y := by
      intro hm
      rw [List.map_cons, List.nodup_append] at hnd
      exact hnd.2.2 k hm k List.mem_cons_self rfl
    rw [parseMembers, parseMember_undeclared env B Y k d (hB k (by simp)) hY]
    dsimp only
    rw [parseMembers_undeclared env B ds (Y ++ [(k, Cells.autoCell d)])
      (fun k' hk' => hB k' (by simp only [List.map_cons]; exact List.mem_cons_of_mem _ hk')) (by
        rw [keys_append]
        simpa [OMap.keys] using hnd)]
    simp [autoRow]

theorem parseMembers_append (env : Env) : ∀ (l1 l2 : List (Bytes × Dyn)) (o o1 : List (Bytes × Val)),
    parseMembers env o l1 = .ok (o1, none) →
    parseMembers env o (l1 ++ l2) = parseMembers env o1 l2
  | [], l2, o, o1, h => by
    simp only [parseMembers, Outcome.ok.injEq, Prod.mk.injEq, and_true] at h
    subst h; rfl
  | (k, d) :: l1, l2, o, o1, h => by
    rw [parseMembers] at h
    rw [List.cons_append, parseMembers]
    split at h
    · rename_i o' ho'
      exact parseMembers_append env l1 l2 o' o1 h
    · rename_i r hne
      rw [h] at hne
      exact absurd rfl (hne o1)

/-! ### 6. The route, and the generic N-column lifting theorem -/

/-- Harness route 1 on a template `t` and an input `v` (a Go map here): `CreateRow` gives `row`,
    `row.MarshalJSON` gives `bytes`, `CreateRowEmpty` + `UnmarshalJSON(bytes)` give `r`; every
    step without error. -/
def RouteN (env : Env) (t : Tmpl) (v : Dyn) (row : List (Bytes × Val)) (bytes : Bytes)
    (r : List (Bytes × Val)) : Prop :=
  createRow env t v = .ok (row, none) ∧
  marshalRow env (Members.ofList row) = .ok bytes ∧
  ∃ r0, createRowEmpty env t = .ok r0 ∧ unmarshalInto env r0 bytes = .ok (r, none)

/-- The same through the two public entry points: `exporter.Export(v)` writes `bytes` and a
    newline; `importer.GetRow` on the scanned line `bytes` gives `r`. -/
def LineRouteN (env : Env) (t : Tmpl) (v : Dyn) (bytes : Bytes) (r : List (Bytes × Val)) : Prop :=
  exportLine env t v = .ok (bytes ++ [0x0A], none) ∧ getRow env t bytes = .ok (r, none)

theorem RouteN.line {env : Env} {t : Tmpl} {v : Dyn} {row r : List (Bytes × Val)} {bytes : Bytes}
    (h : RouteN env t v row bytes r) : LineRouteN env t v bytes r := by
  obtain ⟨h1, h2, r0, h3, h4⟩ := h
  constructor
  · simp only [exportLine, h1, h2]
  · simp only [getRow, h3, h4]

/-- The route is a function of its inputs. -/
theorem RouteN.unique {env : Env} {t : Tmpl} {v : Dyn} {row row' r r' : List (Bytes × Val)}
    {bytes bytes' : Bytes} (h : RouteN env t v row bytes r) (h' : RouteN env t v row' bytes' r') :
    row = row' ∧ bytes = bytes' ∧ r = r' := by
  obtain ⟨a1, a2, r0, a3, a4⟩ := h
  obtain ⟨b1, b2, r0', b3, b4⟩ := h'
  rw [a1] at b1; injection b1 with b1; injection b1 with b1; subst b1
  rw [a2] at b2; injection b2 with b2; subst b2
  rw [a3] at b3; injection b3 with b3; subst b3
  rw [a4] at b4; injection b4 with b4; injection b4 with b4
  exact ⟨rfl, rfl, b4⟩

/-- On a one-column template and a one-entry map, this is `RowRoundTrip.Route`. -/
theorem RouteN.toRoute {env : Env} {key : Bytes} {f : Format} {ty : Ty} {v v' : Dyn}
    {row r : List (Bytes × Val)} {bytes : Bytes}
    (h : RouteN env (withCol [] key f ty) (.gomap (.cons key v .nil)) row bytes r)
    (hv : (lookup r key).map Cells.raw = some v') : RowRoundTrip.Route env key f ty v v' := by
  obtain ⟨h1, h2, r0, h3, h4⟩ := h
  exact ⟨row, bytes, r0, r, h1, h2, h3, h4, hv⟩

/-- The cell-level facts asked of one visible column `(f, ty)` holding `v`: the cell is marshalled
    and the reader hands some `d` to `Import` for its text (`CellOut`), and `Import(d)` under the
    column's descriptor gives `v'` without error.  `CellRoute.of_wire`: hypotheses (b), (c), (d)
    of `RowRoundTrip.route_of_wire` / `gen_route` suffice. -/
def CellRoute (env : Env) (f : Format) (ty : Ty) (v v' : Dyn) : Prop :=
  ∃ d, CellOut env (.cell v f ty) d ∧ importCell env f ty d = .ok (.cell v' f ty, none)

/-- From the facts of `RowRoundTrip.gen_route`: the cell exports to `e`, `e` travels through the
    text as `e'` (`Wire`), `Import(e')` gives `v'`. -/
theorem CellRoute.of_wire {env : Env} {f : Format} {ty : Ty} {v v' e e' : Dyn}
    (hb : exportVal env (.cell v f ty) = .ok e) (hw : Wire e e')
    (hd : importCell env f ty e' = .ok (.cell v' f ty, none)) : CellRoute env f ty v v' :=
  ⟨e', cellOut_of_wire env v f ty e e' hb hw, hd⟩

/-- A nil cell — a column the map does not hold, or holds as nil — whatever the environment:
    exported as nil, written `null`, imported as nil. -/
theorem cellRoute_nil (env : Env) (f : Format) (ty : Ty) : CellRoute env f ty .nil .nil :=
  .of_wire (e := .nil) (by rw [exportVal.eq_def]) Wire.nil (by simp only [importCell])

theorem mem_visibleKeys {t : List (Bytes × Val)} {k : Bytes} {c : Val} (hm : (k, c) ∈ t)
    (hv : Cells.format c ≠ .hidden) : k ∈ visibleKeys t := by
  simp only [visibleKeys, List.mem_map, List.mem_filter, bne_iff_ne, ne_eq]
  exact ⟨(k, c), ⟨hm, hv⟩, rfl⟩

theorem of_mem_visibleKeys {t : List (Bytes × Val)} {k : Bytes} (h : k ∈ visibleKeys t) :
    ∃ c, (k, c) ∈ t ∧ Cells.format c ≠ .hidden := by
  simp only [visibleKeys, List.mem_map, List.mem_filter, bne_iff_ne, ne_eq] at h
  obtain ⟨⟨k', c⟩, ⟨hm, hv⟩, rfl⟩ := h
  exact ⟨c, hm, hv⟩

/-- **Generic N-column lifting theorem** (any environment, any cast tables, any number of
    columns).  `t` has distinct column names, each column a cell prototype; the names of the
    visible columns are delivered unchanged by the reader; `m` is a Go map.  If
      (a0) `NewValue(nil, f, ty)` is the nil cell for every declared column,
      (a)  `NewValue(x, f, ty)` keeps `x` for every entry of the map under a declared name
           (hidden columns included: `CreateRow` fills them too),
      (bcd) every VISIBLE declared column `k : (f, ty)` has the cell-level facts `CellRoute` for
           the value the map holds under `k` (nil if none: `cellRoute_nil`), giving `back k`,
      (x)  the map's entries under UNDECLARED names are marshalled and read (`CellOut` of their
           Auto cell), and their names, as the reader delivers them, are distinct and not
           declared by `t` (vacuous when every name of the map is declared),
    then the whole route succeeds, and:
      * the created row is the declared columns IN DECLARATION ORDER — whatever the order of the
        map — holding the map's values, followed by the undeclared entries in the map's order;
      * the text holds the visible declared names in declaration order, then the undeclared ones;
      * the row read back is the declared columns in declaration order, each VISIBLE column
        holding `back k`, each HIDDEN column holding nil — a hidden column is not written, so its
        value does NOT survive —, followed by one Auto cell per undeclared entry. -/
theorem route_N_explicit (env : Env) (t : Tmpl) (m : DynMap) (back : Bytes → Dyn)
    (hnd : (OMap.keys t).Nodup) (hp : Proto t) (hkeys : ∀ k ∈ visibleKeys t, sanitize k = k)
    (h0 : ∀ k f ty, (k, Val.cell .nil f ty) ∈ t → newValue env .nil f ty = .ok (.cell .nil f ty))
    (ha : ∀ k x f ty, (k, x) ∈ m.toList → (k, Val.cell .nil f ty) ∈ t →
      newValue env x f ty = .ok (.cell x f ty))
    (hcell : ∀ k f ty, (k, Val.cell .nil f ty) ∈ t → f ≠ .hidden →
      CellRoute env f ty (valOf m k) (back k))
    (hxk : ((undeclared t m.toList).map fun kv => sanitize kv.1).Nodup)
    (hxt : ∀ kv ∈ undeclared t m.toList, sanitize kv.1 ∉ OMap.keys t)
    (hxo : ∀ kv ∈ undeclared t m.toList, ∃ d, CellOut env (Cells.autoCell kv.2) d) :
    ∃ bytes dsE, Delivered env (undeclared t m.toList) dsE ∧
      RouteN env t (.gomap m) (fillRow t (valOf m) ++ autoRow (undeclared t m.toList)) bytes
        (fillRow t (readBack t back) ++ autoRow dsE) ∧
      Order.inputKeys bytes =
        visibleKeys t ++ (undeclared t m.toList).map fun kv => sanitize kv.1 := by
  have hx : ((undeclared t m.toList).map Prod.fst).Nodup := by
    have : ((undeclared t m.toList).map Prod.fst).map sanitize =
        (undeclared t m.toList).map fun kv => sanitize kv.1 := by
      simp [List.map_map, Function.comp_def]
    rw [← this] at hxk
    exact List.Pairwise.of_map sanitize (fun a b h e => h (congrArg sanitize e)) hxk
  have hcreate := createRow_shape env t m hnd hp h0 ha hx
  -- the declared part, printed
  obtain ⟨ds, hout, hdk, hdq⟩ := rowOut_fillRow env (valOf m)
    (fun k c d => importCell env (Cells.format c) (Cells.rawType c) d =
      .ok (.cell (back k) (Cells.format c) (Cells.rawType c), none)) t (by
    intro k c hm hv
    obtain ⟨f, ty, e⟩ := hp _ hm
    simp only at e
    subst e
    obtain ⟨d, hco, hd⟩ := hcell k f ty hm hv
    exact ⟨hkeys k (mem_visibleKeys hm hv), d, hco, hd⟩)
  -- the undeclared part, printed
  obtain ⟨dsE, houtE, hdel⟩ := rowOut_autoRow env (undeclared t m.toList) hxo
  obtain ⟨bytes, ms, hmar, hun, hof⟩ := (hout.append houtE).text
  -- read back
  have hparse1 := parseMembers_declared env t back [] hnd ds (fun _ => .nil) (by
    intro k d hm
    obtain ⟨c, hc, _, hq⟩ := hdq k d hm
    exact ⟨c, LineFixedPoint.lookup_of_mem hnd hc, hq⟩)
  rw [fillRow_proto t hp, List.append_nil, List.append_nil, hdk] at hparse1
  have hparse2 := parseMembers_undeclared env (fillRow t (readBack t back)) dsE [] (by
    intro k hk
    rw [hdel.keys] at hk
    obtain ⟨kv, hkv, rfl⟩ := List.mem_map.mp hk
    rw [keys_fillRow]
    exact hxt kv hkv) (by
    rw [hdel.keys]
    simpa [OMap.keys] using hxk)
  rw [List.append_nil, List.nil_append] at hparse2
  have hparse : parseMembers env t (ds ++ dsE) =
      .ok (fillRow t (readBack t back) ++ autoRow dsE, none) := by
    rw [parseMembers_append env ds dsE t _ hparse1]
    exact hparse2
  refine ⟨bytes, dsE, hdel, ⟨hcreate, hmar, t, cloneRow_proto env t hnd hp h0,
    LineFixedPoint.unmarshalInto_of env t _ bytes ms _ hun hof hparse⟩, ?_⟩
  rw [Order.inputKeys, hun, ← Order.ofJVMembers_keys env ms _ hof, List.map_append, hdk, hdel.keys]

/-- (x) The hypotheses on the entries of the map under names `t` does not declare. -/
def ExtrasOK (env : Env) (t : Tmpl) (m : DynMap) : Prop :=
  ((undeclared t m.toList).map fun kv => sanitize kv.1).Nodup ∧
  (∀ kv ∈ undeclared t m.toList, sanitize kv.1 ∉ OMap.keys t) ∧
  (∀ kv ∈ undeclared t m.toList, ∃ d, CellOut env (Cells.autoCell kv.2) d)

theorem undeclared_nil_of_declared (t : Tmpl) (kvs : List (Bytes × Dyn))
    (h : ∀ kv ∈ kvs, kv.1 ∈ OMap.keys t) : undeclared t kvs = [] := by
  rw [undeclared, List.filter_eq_nil_iff]
  intro kv hkv
  simp [h kv hkv]

/-- Every name of the map is declared: nothing is asked. -/
theorem extrasOK_of_declared (env : Env) (t : Tmpl) (m : DynMap)
    (h : ∀ kv ∈ m.toList, kv.1 ∈ OMap.keys t) : ExtrasOK env t m := by
  unfold ExtrasOK
  rw [undeclared_nil_of_declared t _ h]
  refine ⟨by simp, ?_, ?_⟩ <;> intro _ h <;> cases h

/-- An undeclared entry holding a scalar (`Wire`: nil, bool, an integer, a string, a valid
    json.Number) is marshalled and read. -/
theorem cellOut_auto_of_wire (env : Env) {x x' : Dyn} (hw : Wire x x') :
    CellOut env (Cells.autoCell x) x' := by
  apply cellOut_of_wire env x .auto .none x x' ?_ hw
  rw [exportVal.eq_def]
  cases hw <;> rfl

/-- Sufficient for (x): the undeclared names are delivered unchanged by the reader (ASCII, or
    well-formed UTF-8), distinct, and their values are scalars. -/
theorem extrasOK_of_scalars (env : Env) (t : Tmpl) (m : DynMap)
    (hk : ∀ kv ∈ undeclared t m.toList, sanitize kv.1 = kv.1)
    (hnd : ((undeclared t m.toList).map Prod.fst).Nodup)
    (hw : ∀ kv ∈ undeclared t m.toList, ∃ x', Wire kv.2 x') : ExtrasOK env t m := by
  have e : ((undeclared t m.toList).map fun kv => sanitize kv.1) =
      (undeclared t m.toList).map Prod.fst := List.map_congr_left hk
  refine ⟨by rw [e]; exact hnd, fun kv hkv => ?_, fun kv hkv => ?_⟩
  · rw [hk kv hkv]
    have := (List.mem_filter.mp hkv).2
    simpa using this
  · obtain ⟨x', hx'⟩ := hw kv hkv
    exact ⟨x', cellOut_auto_of_wire env hx'⟩

/-- **Generic N-column lifting theorem**: `route_N_explicit` (see its comment) with the
    hypotheses on undeclared names bundled (`ExtrasOK`). -/
theorem route_N (env : Env) (t : Tmpl) (m : DynMap) (back : Bytes → Dyn)
    (hnd : (OMap.keys t).Nodup) (hp : Proto t) (hkeys : ∀ k ∈ visibleKeys t, sanitize k = k)
    (h0 : ∀ k f ty, (k, Val.cell .nil f ty) ∈ t → newValue env .nil f ty = .ok (.cell .nil f ty))
    (ha : ∀ k x f ty, (k, x) ∈ m.toList → (k, Val.cell .nil f ty) ∈ t →
      newValue env x f ty = .ok (.cell x f ty))
    (hcell : ∀ k f ty, (k, Val.cell .nil f ty) ∈ t → f ≠ .hidden →
      CellRoute env f ty (valOf m k) (back k))
    (hx : ExtrasOK env t m) :
    ∃ bytes dsE, Delivered env (undeclared t m.toList) dsE ∧
      RouteN env t (.gomap m) (fillRow t (valOf m) ++ autoRow (undeclared t m.toList)) bytes
        (fillRow t (readBack t back) ++ autoRow dsE) ∧
      Order.inputKeys bytes =
        visibleKeys t ++ (undeclared t m.toList).map fun kv => sanitize kv.1 :=
  route_N_explicit env t m back hnd hp hkeys h0 ha hcell hx.1 hx.2.1 hx.2.2

/-! ### 7. Reading the result column by column -/

/-- A declared column of `fillRow t g ++ extras`: the cell with the column's descriptor, holding
    `g name`. -/
theorem lookup_declared (t : Tmpl) (g : Bytes → Dyn) (X : List (Bytes × Val)) (k : Bytes) (f : Format)
    (ty : Ty) (hnd : (OMap.keys t).Nodup) (hm : (k, Val.cell .nil f ty) ∈ t) :
    lookup (fillRow t g ++ X) k = some (.cell (g k) f ty) := by
  rw [lookup, lookup_append, lookup_fillRow, LineFixedPoint.lookup_of_mem hnd hm]
  rfl

theorem keys_result (t : Tmpl) (g : Bytes → Dyn) (ds : List (Bytes × Dyn)) :
    OMap.keys (fillRow t g ++ autoRow ds) = OMap.keys t ++ ds.map Prod.fst := by
  rw [keys_append, keys_fillRow, keys_autoRow]

theorem readBack_visible (t : Tmpl) (back : Bytes → Dyn) (k : Bytes) (c : Val) (hm : (k, c) ∈ t)
    (hv : Cells.format c ≠ .hidden) : readBack t back k = back k := by
  simp only [readBack, mem_visibleKeys hm hv, if_true]

theorem readBack_hidden (t : Tmpl) (back : Bytes → Dyn) (k : Bytes) (c : Val)
    (hnd : (OMap.keys t).Nodup) (hm : (k, c) ∈ t) (hh : Cells.format c = .hidden) :
    readBack t back k = .nil := by
  have : k ∉ visibleKeys t := by
    intro hk
    obtain ⟨c', hm', hv'⟩ := of_mem_visibleKeys hk
    have := (LineFixedPoint.lookup_of_mem hnd hm').symm.trans (LineFixedPoint.lookup_of_mem hnd hm)
    cases this
    exact hv' hh
  simp only [readBack, this, if_false]

/-- An undeclared entry of the map lands, in the row read back, in a fresh Auto cell under the
    name as the reader delivers it, holding what the reader delivers for its text. -/
theorem lookup_delivered {env : Env} {E ds : List (Bytes × Dyn)} (hd : Delivered env E ds)
    (B : List (Bytes × Val)) (hB : ∀ kv ∈ E, sanitize kv.1 ∉ OMap.keys B)
    (hnd : (E.map fun kv => sanitize kv.1).Nodup) :
    ∀ kv ∈ E, ∃ d, CellOut env (Cells.autoCell kv.2) d ∧
      lookup (B ++ autoRow ds) (sanitize kv.1) = some (Cells.autoCell d) := by
  induction hd generalizing B with
  | nil => intro kv h; cases h
  | @cons k x d E ds hc _ ih =>
    intro kv hkv
    simp only [List.map_cons, List.nodup_cons] at hnd
    have hsplit : B ++ autoRow ((sanitize k, d) :: ds) =
        (B ++ [(sanitize k, Cells.autoCell d)]) ++ autoRow ds := by simp [autoRow]
    rcases List.mem_cons.mp hkv with h | h
    · subst h
      refine ⟨d, hc, ?_⟩
      rw [lookup, lookup_append, OMap.lookup_none_of_not_mem _ _ (hB _ List.mem_cons_self)]
      simp [autoRow, OMap.lookup]
    · rw [hsplit]
      refine ih (B ++ [(sanitize k, Cells.autoCell d)]) ?_ hnd.2 kv h
      intro kv' hkv'
      rw [keys_append, List.mem_append, not_or]
      refine ⟨hB kv' (List.mem_cons_of_mem _ hkv'), ?_⟩
      simp only [OMap.keys, List.map_cons, List.map_nil, List.mem_singleton]
      intro e
      exact hnd.1 (e ▸ List.mem_map_of_mem (f := fun kv => sanitize kv.1) hkv')

/-- Skolemisation of a per-column `∃ v'` over a template with distinct names. -/
theorem choose_back (t : Tmpl) (hnd : (OMap.keys t).Nodup) (R : Bytes → Format → Ty → Dyn → Prop)
    (h : ∀ k f ty, (k, Val.cell .nil f ty) ∈ t → f ≠ .hidden → ∃ v', R k f ty v') :
    ∃ back : Bytes → Dyn, ∀ k f ty, (k, Val.cell .nil f ty) ∈ t → f ≠ .hidden → R k f ty (back k) := by
  have : ∀ k, ∃ v', ∀ f ty, (k, Val.cell .nil f ty) ∈ t → f ≠ .hidden → R k f ty v' := by
    intro k
    by_cases hex : ∃ f ty, (k, Val.cell .nil f ty) ∈ t ∧ f ≠ .hidden
    · obtain ⟨f, ty, hm, hv⟩ := hex
      obtain ⟨v', hv'⟩ := h k f ty hm hv
      refine ⟨v', fun f' ty' hm' _ => ?_⟩
      have := (LineFixedPoint.lookup_of_mem hnd hm').symm.trans (LineFixedPoint.lookup_of_mem hnd hm)
      cases this
      exact hv'
    · exact ⟨.nil, fun f ty hm hv => absurd ⟨f, ty, hm, hv⟩ hex⟩
  exact ⟨fun k => Classical.choose (this k), fun k => Classical.choose_spec (this k)⟩

/-- The conclusion of the summary theorems, column by column, on the row `r` read back: every
    VISIBLE declared column holds, under its own descriptor, a value equal to the one the map
    held (same Go type, `Tables.sameValue`; nil for a name the map does not hold); every HIDDEN
    declared column holds nil whatever the map held (hidden columns are not written: they do
    NOT survive, which is why `Tables.lossless` excludes them). -/
def ColumnsSurvive (t : Tmpl) (m : DynMap) (r : List (Bytes × Val)) : Prop :=
  ∀ k f ty, (k, Val.cell .nil f ty) ∈ t →
    (f ≠ .hidden → ∃ v', lookup r k = some (.cell v' f ty) ∧ Tables.sameValue (valOf m k) v' = true) ∧
    (f = .hidden → lookup r k = some (.cell .nil f ty))

/-- In the words of the one-column `RowRoundTrip.Route`: the raw value of the column read back. -/
theorem ColumnsSurvive.raw {t : Tmpl} {m : DynMap} {r : List (Bytes × Val)} (h : ColumnsSurvive t m r)
    (k : Bytes) (f : Format) (ty : Ty) (hm : (k, Val.cell .nil f ty) ∈ t) (hv : f ≠ .hidden) :
    ∃ v', (lookup r k).map Cells.raw = some v' ∧ Tables.sameValue (valOf m k) v' = true := by
  obtain ⟨v', h1, h2⟩ := (h k f ty hm).1 hv
  exact ⟨v', by rw [h1]; simp [Cells.raw], h2⟩

/-- The whole N-column statement: the route succeeds (both forms), the row read back has the
    declared columns in declaration order followed by the undeclared names, the text has the
    visible names in declaration order, and every column is read back as `ColumnsSurvive` says. -/
def RowLosslessN (env : Env) (t : Tmpl) (m : DynMap) : Prop :=
  ∃ (row : List (Bytes × Val)) (bytes : Bytes) (r : List (Bytes × Val)),
    RouteN env t (.gomap m) row bytes r ∧ LineRouteN env t (.gomap m) bytes r ∧
    OMap.keys row = OMap.keys t ++ (undeclared t m.toList).map Prod.fst ∧
    Order.inputKeys bytes = visibleKeys t ++ (undeclared t m.toList).map (fun kv => sanitize kv.1) ∧
    OMap.keys r = OMap.keys t ++ (undeclared t m.toList).map (fun kv => sanitize kv.1) ∧
    ColumnsSurvive t m r ∧
    (∀ kv ∈ undeclared t m.toList, ∃ d, CellOut env (Cells.autoCell kv.2) d ∧
      lookup r (sanitize kv.1) = some (Cells.autoCell d))

/-- **Generic N-column theorem, existential form** (any environment): as `route_N`, with the
    cell-level facts of each visible column given as `∃ v', CellRoute … v' ∧ sameValue … v'`. -/
theorem lossless_N_of_cells (env : Env) (t : Tmpl) (m : DynMap)
    (hnd : (OMap.keys t).Nodup) (hp : Proto t) (hkeys : ∀ k ∈ visibleKeys t, sanitize k = k)
    (h0 : ∀ k f ty, (k, Val.cell .nil f ty) ∈ t → newValue env .nil f ty = .ok (.cell .nil f ty))
    (ha : ∀ k x f ty, (k, x) ∈ m.toList → (k, Val.cell .nil f ty) ∈ t →
      newValue env x f ty = .ok (.cell x f ty))
    (hcell : ∀ k f ty, (k, Val.cell .nil f ty) ∈ t → f ≠ .hidden →
      ∃ v', CellRoute env f ty (valOf m k) v' ∧ Tables.sameValue (valOf m k) v' = true)
    (hx : ExtrasOK env t m) :
    RowLosslessN env t m := by
  obtain ⟨back, hback⟩ := choose_back t hnd
    (fun k f ty v' => CellRoute env f ty (valOf m k) v' ∧ Tables.sameValue (valOf m k) v' = true) hcell
  obtain ⟨bytes, dsE, hdel, hroute, hin⟩ := route_N env t m back hnd hp hkeys h0 ha
    (fun k f ty hm hv => (hback k f ty hm hv).1) hx
  refine ⟨_, bytes, _, hroute, hroute.line, ?_, hin, ?_,
    fun k f ty hm => ⟨fun hv => ?_, fun hh => ?_⟩, ?_⟩
  · rw [keys_result]
  · rw [keys_result, hdel.keys]
  · refine ⟨back k, ?_, (hback k f ty hm hv).2⟩
    rw [lookup_declared t _ _ k f ty hnd hm, readBack_visible t back k _ hm hv]
  · rw [lookup_declared t _ _ k f ty hnd hm, readBack_hidden t back k _ hnd hm hh]
  · exact lookup_delivered hdel _ (fun kv hkv => by rw [keys_fillRow]; exact hx.2.1 kv hkv) hx.1

/-! ### 8. The regenerated tables -/

/-- (a) for the regenerated tables: a value that is nil, or already of the column's Go type
    (`valueTy`: the raw type, or — for a column without raw type — anything), is kept by
    `NewValue`.  Holds for every format, hidden included. -/
theorem gen_newValue_typed (ext : Ext) (x : Dyn) (f : Format) (ty : Ty)
    (h : x = .nil ∨ ty = .none ∨ typeOf x = ty) :
    newValue ⟨genTables, ext⟩ x f ty = .ok (.cell x f ty) := by
  rcases h with rfl | rfl | h
  · exact RowRoundTrip.gen_newValue_nil ext f ty
  · exact RowRoundTrip.gen_newValue_none ext x f
  · by_cases ho : ty = .other
    · subst ho
      simp only [newValue, LineFixedPoint.gen_castTo_other]
    · exact RowRoundTrip.newValue_of_castTo ⟨genTables, ext⟩ x f ty
        (LineFixedPoint.gen_castTo_self ext x ty h ho)

theorem gen_newValue_valueTy (ext : Ext) (x : Dyn) (f : Format) (ty : Ty)
    (h : x = .nil ∨ typeOf x = valueTy f ty) :
    newValue ⟨genTables, ext⟩ x f ty = .ok (.cell x f ty) := by
  apply gen_newValue_typed
  rcases h with h | h
  · exact .inl h
  · by_cases hn : ty = .none
    · exact .inr (.inl hn)
    · exact .inr (.inr (by simpa [valueTy, hn] using h))

theorem CellRoute.mk' {env : Env} {f : Format} {ty : Ty} {v v' e e' : Dyn} (hw : Wire e e')
    (hp : exportVal env (.cell v f ty) = .ok e ∧ importCell env f ty e' = .ok (.cell v' f ty, none)) :
    CellRoute env f ty v v' := .of_wire hp.1 hw hp.2

open RowRoundTrip in
/-- The cell-level form of `RowRoundTrip.row_lossless_covered`: for every pairing of `covered`
    (as the predicate `coveredB`), every value of the column's Go type (or nil) in the
    property's domain, the cell exports to a wire value and the reader's image of it imports
    as a value equal to the original — for the regenerated tables and EVERY standard-library
    parameter. -/
theorem gen_cell_covered (ext : Ext) (f : Format) (ty : Ty) (hcb : coveredB f ty = true) (v : Dyn)
    (hty : v = .nil ∨ typeOf v = valueTy f ty) (hd : Tables.inDomain f ty v = true) :
    ∃ v', CellRoute ⟨genTables, ext⟩ f ty v v' ∧ Tables.sameValue v v' = true := by
  rcases hty with rfl | hty
  · exact ⟨.nil, cellRoute_nil _ f ty, rfl⟩
  cases f <;> cases ty <;> simp [coveredB] at hcb <;>
    simp [valueTy, Tables.defaultTy] at hty
  case string.int t =>
    obtain ⟨x, rfl⟩ := typeOf_int hty
    simp [Tables.inDomain] at hd
    exact ⟨_, .mk' (wire_formatInt x) (string_int ext t x hd), by simp [Tables.sameValue]⟩
  case string.str =>
    obtain ⟨x, rfl⟩ := typeOf_str hty
    simp [Tables.inDomain] at hd
    exact ⟨_, .mk' (Wire.str x) (Pairings.string_str ext x hd).1, by simp [Tables.sameValue]⟩
  case string.none =>
    obtain ⟨x, rfl⟩ := typeOf_str hty
    simp [Tables.inDomain] at hd
    exact ⟨_, .mk' (Wire.str x) (Pairings.string_str ext x hd).2.1, by simp [Tables.sameValue]⟩
  case string.bool =>
    obtain ⟨x, rfl⟩ := typeOf_bool hty
    obtain ⟨h3, h4⟩ := toString_bool ext x
    refine ⟨.bool x, .mk' (wire_formatBool x) ⟨?_, ?_⟩, by simp [Tables.sameValue]⟩
    · simp only [exportVal, Pairings.exportFail_ok _ _ h3]
    · simp only [importCell, importByFormat, importFrom, Pairings.importFail_ok _ _ h4]
  case string.time =>
    obtain ⟨x, rfl⟩ := typeOf_time hty
    obtain ⟨hy0, hy1, h60, hlo, hhi⟩ := Pairings.time_inDomain _ _ x hd
    exact ⟨_, .mk' (wire_rfc3339 x) (Pairings.string_time ext x hy0 hy1 h60 hlo hhi),
      by simp [Tables.sameValue]⟩
  case numeric.int t =>
    obtain ⟨x, rfl⟩ := typeOf_int hty
    simp [Tables.inDomain] at hd
    exact ⟨_, .mk' (wire_formatInt_num x) (numeric_int ext t x hd), by simp [Tables.sameValue]⟩
  case numeric.num =>
    obtain ⟨x, rfl⟩ := typeOf_num hty
    simp [Tables.inDomain] at hd
    exact ⟨_, .mk' (Wire.num x hd) (Pairings.numeric_num ext x hd).2.1, by simp [Tables.sameValue]⟩
  case numeric.none =>
    obtain ⟨x, rfl⟩ := typeOf_num hty
    simp [Tables.inDomain] at hd
    exact ⟨_, .mk' (Wire.num x hd) (Pairings.numeric_num ext x hd).2.2.1, by simp [Tables.sameValue]⟩
  case boolean.bool =>
    obtain ⟨x, rfl⟩ := typeOf_bool hty
    refine ⟨.bool x, .mk' (Wire.bool x) ⟨?_, ?_⟩, by simp [Tables.sameValue]⟩
    · simp only [exportVal, Pairings.exportFail_ok _ _ (Pairings.toBool_bool ext x)]
    · simp only [importCell, importByFormat, importFrom,
        Pairings.importFail_ok _ _ (Pairings.castTo_bool_bool ext x)]
  case boolean.none =>
    obtain ⟨x, rfl⟩ := typeOf_bool hty
    exact ⟨_, .mk' (Wire.bool x) (Pairings.auto_bool ext x).2, by simp [Tables.sameValue]⟩
  case binary.int t =>
    obtain ⟨x, rfl⟩ := typeOf_int hty
    simp [Tables.inDomain] at hd
    exact ⟨_, .mk' (wire_base64 _) (binary_int ext t x hd), by simp [Tables.sameValue]⟩
  case binary.bytes =>
    obtain ⟨x, rfl⟩ := typeOf_bytes hty
    exact ⟨_, .mk' (wire_base64 x) (Pairings.binary_bytes ext x).1, by simp [Tables.sameValue]⟩
  case binary.none =>
    obtain ⟨x, rfl⟩ := typeOf_bytes hty
    exact ⟨_, .mk' (wire_base64 x) (Pairings.binary_bytes ext x).2, by simp [Tables.sameValue]⟩
  case binary.str =>
    obtain ⟨x, rfl⟩ := typeOf_str hty
    exact ⟨_, .mk' (wire_base64 x) (Pairings.binary_str ext x), by simp [Tables.sameValue]⟩
  case binary.bool =>
    obtain ⟨x, rfl⟩ := typeOf_bool hty
    exact ⟨_, .mk' (wire_base64 _) (Pairings.binary_bool ext x), by simp [Tables.sameValue]⟩
  case binary.num =>
    obtain ⟨x, rfl⟩ := typeOf_num hty
    exact ⟨_, .mk' (wire_base64 x) (Pairings.binary_num ext x), by simp [Tables.sameValue]⟩
  case datetime.time =>
    obtain ⟨x, rfl⟩ := typeOf_time hty
    obtain ⟨hy0, hy1, h60, hlo, hhi⟩ := Pairings.time_inDomain _ _ x hd
    exact ⟨_, .mk' (wire_rfc3339 x) (Pairings.datetime_time ext x hy0 hy1 h60 hlo hhi).1,
      by simp [Tables.sameValue]⟩
  case datetime.none =>
    obtain ⟨x, rfl⟩ := typeOf_time hty
    obtain ⟨hy0, hy1, h60, hlo, hhi⟩ := Pairings.time_inDomain _ _ x hd
    exact ⟨_, .mk' (wire_rfc3339 x) (Pairings.datetime_time ext x hy0 hy1 h60 hlo hhi).2,
      by simp [Tables.sameValue]⟩
  case timestamp.int t =>
    obtain ⟨x, rfl⟩ := typeOf_int hty
    simp [Tables.inDomain] at hd
    exact ⟨_, .mk' (Wire.int .i64 x) (Pairings.timestamp_int ext t x hd.1 hd.2),
      by simp [Tables.sameValue]⟩
  case timestamp.none =>
    obtain ⟨x, rfl⟩ := typeOf_int hty
    simp [Tables.inDomain] at hd
    exact ⟨_, .mk' (Wire.int .i64 x) (Pairings.timestamp_none ext x hd.1), by simp [Tables.sameValue]⟩
  case auto.int t =>
    obtain ⟨x, rfl⟩ := typeOf_int hty
    simp [Tables.inDomain] at hd
    exact ⟨_, .mk' (Wire.int t x) (Pairings.auto_int ext t x hd), by simp [Tables.sameValue]⟩
  case auto.bool =>
    obtain ⟨x, rfl⟩ := typeOf_bool hty
    exact ⟨_, .mk' (Wire.bool x) (Pairings.auto_bool ext x).1, by simp [Tables.sameValue]⟩
  case auto.str =>
    obtain ⟨x, rfl⟩ := typeOf_str hty
    simp [Tables.inDomain] at hd
    exact ⟨_, .mk' (Wire.str x) (Pairings.string_str ext x hd).2.2, by simp [Tables.sameValue]⟩
  case auto.num =>
    obtain ⟨x, rfl⟩ := typeOf_num hty
    simp [Tables.inDomain] at hd
    exact ⟨_, .mk' (Wire.num x hd) (Pairings.numeric_num ext x hd).2.2.2.1, by simp [Tables.sameValue]⟩

open RowRoundTrip in
/-- The same for the pairings of `RowRoundTrip.coveredExt`, which consult the standard-library
    parameter: given that the process zone answers at every second and that ParseFloat reads
    "1" and "0" (`Pairings.DigitLaw`). -/
theorem gen_cell_coveredExt (ext : Ext) (hzone : ∀ s, ∃ off, ext.zoneOffset s = some off)
    (law : Pairings.DigitLaw ext) (f : Format) (ty : Ty) (hc : (f, ty) ∈ coveredExt) (v : Dyn)
    (hty : v = .nil ∨ typeOf v = valueTy f ty) (hd : Tables.inDomain f ty v = true) :
    ∃ v', CellRoute ⟨genTables, ext⟩ f ty v v' ∧ Tables.sameValue v v' = true := by
  rcases hty with rfl | hty
  · exact ⟨.nil, cellRoute_nil _ f ty, rfl⟩
  simp only [coveredExt, List.mem_cons, Prod.mk.injEq, List.not_mem_nil, or_false] at hc
  rcases hc with ⟨rfl, rfl⟩ | ⟨rfl, rfl⟩ | ⟨rfl, rfl⟩ | ⟨rfl, rfl⟩ | ⟨rfl, rfl⟩ <;>
    simp [valueTy] at hty
  · obtain ⟨x, rfl⟩ := typeOf_time hty
    obtain ⟨off, hz⟩ := hzone x.sec
    obtain ⟨hy0, hy1, _, hlo, hhi⟩ := Pairings.time_inDomain _ _ x hd
    exact ⟨_, .mk' (wire_formatInt_num _)
      (Pairings.numeric_time ext x off hz (Pairings.sec_bounds_of_year x hy0 hy1 hlo hhi)).1,
      by simp [Tables.sameValue]⟩
  · obtain ⟨x, rfl⟩ := typeOf_time hty
    obtain ⟨off, hz⟩ := hzone x.sec
    obtain ⟨hy0, hy1, _, hlo, hhi⟩ := Pairings.time_inDomain _ _ x hd
    exact ⟨_, .mk' (Wire.int .i64 _)
      (Pairings.numeric_time ext x off hz (Pairings.sec_bounds_of_year x hy0 hy1 hlo hhi)).2,
      by simp [Tables.sameValue]⟩
  · obtain ⟨x, rfl⟩ := typeOf_time hty
    obtain ⟨off, hz⟩ := hzone x.sec
    obtain ⟨hy0, hy1, _, hlo, hhi⟩ := Pairings.time_inDomain _ _ x hd
    have hr := Pairings.sec_range_of_year x hy0 hy1 hlo hhi
    exact ⟨_, .mk' (wire_base64 _) (Pairings.binary_time ext x off hz (by omega)),
      by simp [Tables.sameValue]⟩
  · obtain ⟨x, rfl⟩ := typeOf_bool hty
    exact ⟨_, .mk' (Wire.num _ (by cases x <;> decide)) (Pairings.numeric_bool ext law x).1,
      by simp [Tables.sameValue]⟩
  · obtain ⟨x, rfl⟩ := typeOf_bool hty
    exact ⟨_, .mk' (Wire.int .i64 _) (Pairings.numeric_bool ext law x).2, by simp [Tables.sameValue]⟩

/-! Cell-level facts for lossless pairings outside `covered` / `coveredExt`, to plug into
    `gen_lossless_N_of_cols` (they mirror `RowRoundTrip.row_string_num_utf8`, `row_binary_f64`,
    `row_binary_f32`, `row_text_f64`, `row_text_f32`). -/

/-- string(json.Number): every literal of the domain (well-formed UTF-8, or a valid number). -/
theorem gen_cell_string_num (ext : Ext) (v : Dyn) (hty : v = .nil ∨ typeOf v = .num)
    (hd : Tables.inDomain .string .num v = true) :
    ∃ v', CellRoute ⟨genTables, ext⟩ .string .num v v' ∧ Tables.sameValue v v' = true := by
  rcases hty with rfl | hty
  · exact ⟨.nil, cellRoute_nil _ _ _, rfl⟩
  obtain ⟨l, rfl⟩ := RowRoundTrip.typeOf_num hty
  have hs : sanitize l = l := by
    simp [Tables.inDomain] at hd
    rcases hd with h | h
    · exact sanitize_valid l h
    · exact Pairings.sanitize_validNumber l h
  refine ⟨.num l, .mk' (e := .str l) (RowRoundTrip.Wire.str_fixed hs) ⟨?_, ?_⟩,
    by simp [Tables.sameValue]⟩
  · simp only [exportVal]; exact Pairings.exportFail_ok _ _ (Pairings.toString_num ext l)
  · simp only [importCell, importByFormat, importFrom,
      Pairings.importFail_ok _ _ (Pairings.castTo_num_str ext l)]

/-- binary(float64), binary(float32): every bit pattern of the width.  (`Tables.inDomain` does
    not bound the `Nat` that models the bits, hence the explicit bound.) -/
theorem gen_cell_binary_f64 (ext : Ext) (b : Nat) (hb : b < 2 ^ 64) :
    CellRoute ⟨genTables, ext⟩ .binary .f64 (.f64 b) (.f64 b) :=
  .mk' (RowRoundTrip.wire_base64 _) ((Pairings.binary_float ext).1 b hb)

theorem gen_cell_binary_f32 (ext : Ext) (b : Nat) (hb : b < 2 ^ 32) :
    CellRoute ⟨genTables, ext⟩ .binary .f32 (.f32 b) (.f32 b) :=
  .mk' (RowRoundTrip.wire_base64 _) ((Pairings.binary_float ext).2 b hb)

/-- string(float64) and numeric(float64), given strconv's answers for this value. -/
theorem gen_cell_text_f64 (ext : Ext) (b : Nat) (s : Bytes) (hfm : ext.fmtFloat b 64 = some s)
    (hp : ext.parseFloat s 64 = some (some b)) (hs : JsonWrite.isValidNumber s = true) :
    CellRoute ⟨genTables, ext⟩ .string .f64 (.f64 b) (.f64 b) ∧
    CellRoute ⟨genTables, ext⟩ .numeric .f64 (.f64 b) (.f64 b) :=
  ⟨.mk' (RowRoundTrip.Wire.str_fixed (Pairings.sanitize_validNumber s hs)) (Pairings.text_f64 ext b s hfm hp).1,
   .mk' (Wire.num s hs) (Pairings.text_f64 ext b s hfm hp).2⟩

/-- string(float32) and numeric(float32), likewise. -/
theorem gen_cell_text_f32 (ext : Ext) (b r : Nat) (s : Bytes)
    (hfm : ext.fmtFloat (Float.f32to64 b) 32 = some s) (hp : ext.parseFloat s 32 = some (some r))
    (hr : Float.f64to32 r = b) (hs : JsonWrite.isValidNumber s = true) :
    CellRoute ⟨genTables, ext⟩ .string .f32 (.f32 b) (.f32 b) ∧
    CellRoute ⟨genTables, ext⟩ .numeric .f32 (.f32 b) (.f32 b) :=
  ⟨.mk' (RowRoundTrip.Wire.str_fixed (Pairings.sanitize_validNumber s hs))
      (Pairings.text_f32 ext b r s hfm hp hr).1,
   .mk' (Wire.num s hs) (Pairings.text_f32 ext b r s hfm hp hr).2⟩

/-- **The lifting theorem for the regenerated tables** (`RowRoundTrip.gen_route`, N columns):
    (a0) holds, (a) is `cast.To(ty, x) = x` for the map's entries under declared names. -/
theorem gen_route_N (ext : Ext) (t : Tmpl) (m : DynMap) (back : Bytes → Dyn)
    (hnd : (OMap.keys t).Nodup) (hp : Proto t) (hkeys : ∀ k ∈ visibleKeys t, sanitize k = k)
    (ha : ∀ k x f ty, (k, x) ∈ m.toList → (k, Val.cell .nil f ty) ∈ t →
      castTo genTables ext ty x = .ok x)
    (hcell : ∀ k f ty, (k, Val.cell .nil f ty) ∈ t → f ≠ .hidden →
      CellRoute ⟨genTables, ext⟩ f ty (valOf m k) (back k))
    (hx : ExtrasOK ⟨genTables, ext⟩ t m) :
    ∃ bytes dsE, Delivered ⟨genTables, ext⟩ (undeclared t m.toList) dsE ∧
      RouteN ⟨genTables, ext⟩ t (.gomap m) (fillRow t (valOf m) ++ autoRow (undeclared t m.toList))
        bytes (fillRow t (readBack t back) ++ autoRow dsE) ∧
      Order.inputKeys bytes =
        visibleKeys t ++ (undeclared t m.toList).map fun kv => sanitize kv.1 :=
  route_N ⟨genTables, ext⟩ t m back hnd hp hkeys
    (fun _ f ty _ => RowRoundTrip.gen_newValue_nil ext f ty)
    (fun k x f ty h1 h2 => RowRoundTrip.newValue_of_castTo ⟨genTables, ext⟩ x f ty (ha k x f ty h1 h2))
    hcell hx

/-- What is asked of the values of the map, in the words of the tables: under a declared name
    `k : (f, ty)`, for a VISIBLE column the value is nil or of the column's Go type
    (`RowRoundTrip.valueTy`: the raw type, or the format's default type when there is none) and
    in the property's domain; for a HIDDEN column it is nil or of the raw type (anything when
    there is none) — `CreateRow` casts it too, although it is never written. -/
def WellTypedMap (t : Tmpl) (m : DynMap) : Prop :=
  ∀ k x f ty, (k, x) ∈ m.toList → (k, Val.cell .nil f ty) ∈ t →
    (f ≠ .hidden → (x = .nil ∨ typeOf x = valueTy f ty) ∧ Tables.inDomain f ty x = true) ∧
    (f = .hidden → x = .nil ∨ ty = .none ∨ typeOf x = ty)

/-- The value a well-typed map holds under a declared visible name is nil (absent names
    included) or of the column's type, and in the domain. -/
theorem WellTypedMap.valOf {t : Tmpl} {m : DynMap} (h : WellTypedMap t m) (k : Bytes) (f : Format)
    (ty : Ty) (hm : (k, Val.cell .nil f ty) ∈ t) (hv : f ≠ .hidden) :
    (valOf m k = .nil ∨ typeOf (valOf m k) = valueTy f ty) ∧
      Tables.inDomain f ty (valOf m k) = true := by
  rcases valOf_cases m k with h0 | h1
  · rw [h0]; exact ⟨.inl rfl, rfl⟩
  · exact (h k _ f ty h1 hm).1 hv

theorem WellTypedMap.newValue {t : Tmpl} {m : DynMap} (h : WellTypedMap t m) (ext : Ext) (k : Bytes)
    (x : Dyn) (f : Format) (ty : Ty) (h1 : (k, x) ∈ m.toList) (h2 : (k, Val.cell .nil f ty) ∈ t) :
    newValue ⟨genTables, ext⟩ x f ty = .ok (.cell x f ty) := by
  by_cases hv : f = .hidden
  · exact gen_newValue_typed ext x f ty ((h k x f ty h1 h2).2 hv)
  · exact gen_newValue_valueTy ext x f ty ((h k x f ty h1 h2).1 hv).1

/-- **Generic theorem for the regenerated tables, per-column form**: every visible declared
    column comes with a cell-level theorem `hcol` (for all values of its type in the domain:
    `gen_cell_covered`, `gen_cell_coveredExt`, or any other proof in the style of
    `RowRoundTrip.gen_route`); every value of the map is of its column's type. -/
theorem gen_lossless_N_of_cols (ext : Ext) (t : Tmpl) (m : DynMap)
    (hnd : (OMap.keys t).Nodup) (hp : Proto t) (hkeys : ∀ k ∈ visibleKeys t, sanitize k = k)
    (hcol : ∀ k f ty, (k, Val.cell .nil f ty) ∈ t → f ≠ .hidden → ∀ v,
      (v = .nil ∨ typeOf v = valueTy f ty) → Tables.inDomain f ty v = true →
      ∃ v', CellRoute ⟨genTables, ext⟩ f ty v v' ∧ Tables.sameValue v v' = true)
    (hm : WellTypedMap t m) (hx : ExtrasOK ⟨genTables, ext⟩ t m) :
    RowLosslessN ⟨genTables, ext⟩ t m :=
  lossless_N_of_cells ⟨genTables, ext⟩ t m hnd hp hkeys
    (fun _ f ty _ => RowRoundTrip.gen_newValue_nil ext f ty)
    (fun k x f ty h1 h2 => hm.newValue ext k x f ty h1 h2)
    (fun k f ty h1 hv => hcol k f ty h1 hv _ (hm.valOf k f ty h1 hv).1 (hm.valOf k f ty h1 hv).2)
    hx

/-! ### 9. In the words of the tables (C13 for templates with any number of columns) -/

/-- **C13 at row / line level, N columns.**  For the regenerated cast tables, every
    standard-library parameter `ext`, every template `t` with distinct column names, each a cell
    prototype, whose visible names the reader delivers unchanged and whose visible columns are
    all covered pairings (`coveredB f ty`), and every Go map `m` whose values under declared names
    are nil or of the column's Go type and in the property's domain (names `t` does not declare
    being allowed under `ExtrasOK`):
      * every visible declared column's pairing is one of the table's lossless pairings;
      * the whole route succeeds, in both forms (`RouteN`: create → marshal → create empty →
        unmarshal; `LineRouteN`: `exporter.Export` → `importer.GetRow`);
      * columns are written and read back in declaration order, whatever the map's order;
      * every visible declared column is read back holding a value equal to the one written
        and of the same Go type (`Tables.sameValue`), nil for a name the map does not hold;
      * every hidden column is read back nil. -/
theorem lossless_N (ext : Ext) (t : Tmpl) (m : DynMap)
    (hnd : (OMap.keys t).Nodup) (hp : Proto t) (hkeys : ∀ k ∈ visibleKeys t, sanitize k = k)
    (hcov : ∀ k f ty, (k, Val.cell .nil f ty) ∈ t → f ≠ .hidden → coveredB f ty = true)
    (hm : WellTypedMap t m) (hx : ExtrasOK ⟨genTables, ext⟩ t m) :
    (∀ k f ty, (k, Val.cell .nil f ty) ∈ t → f ≠ .hidden → Tables.lossless f ty = true) ∧
    RowLosslessN ⟨genTables, ext⟩ t m := by
  refine ⟨fun k f ty h1 hv => ?_, gen_lossless_N_of_cols ext t m hnd hp hkeys
    (fun k f ty h1 hv v hty hd => gen_cell_covered ext f ty (hcov k f ty h1 hv) v hty hd) hm hx⟩
  have := hcov k f ty h1 hv
  revert this
  cases f <;> cases ty <;> simp [coveredB, Tables.lossless, Tables.isInt, Tables.isFlt]

/-- The same with the pairings that consult the standard-library parameter allowed too
    (`RowRoundTrip.coveredExt`: numeric / timestamp / binary × time.Time, numeric / timestamp ×
    bool), given that the process zone answers at every second and ParseFloat reads "1", "0". -/
theorem lossless_N_ext (ext : Ext) (hzone : ∀ s, ∃ off, ext.zoneOffset s = some off)
    (law : Pairings.DigitLaw ext) (t : Tmpl) (m : DynMap)
    (hnd : (OMap.keys t).Nodup) (hp : Proto t) (hkeys : ∀ k ∈ visibleKeys t, sanitize k = k)
    (hcov : ∀ k f ty, (k, Val.cell .nil f ty) ∈ t → f ≠ .hidden →
      coveredB f ty = true ∨ (f, ty) ∈ RowRoundTrip.coveredExt)
    (hm : WellTypedMap t m) (hx : ExtrasOK ⟨genTables, ext⟩ t m) :
    (∀ k f ty, (k, Val.cell .nil f ty) ∈ t → f ≠ .hidden → Tables.lossless f ty = true) ∧
    RowLosslessN ⟨genTables, ext⟩ t m := by
  refine ⟨fun k f ty h1 hv => ?_, gen_lossless_N_of_cols ext t m hnd hp hkeys
    (fun k f ty h1 hv v hty hd => ?_) hm hx⟩
  · rcases hcov k f ty h1 hv with h | h
    · revert h
      cases f <;> cases ty <;> simp [coveredB, Tables.lossless, Tables.isInt, Tables.isFlt]
    · exact (RowRoundTrip.covered_lossless (f, ty) (List.mem_append_right _ h)).1
  · rcases hcov k f ty h1 hv with h | h
    · exact gen_cell_covered ext f ty h v hty hd
    · exact gen_cell_coveredExt ext hzone law f ty h v hty hd

/-- Target 2 on its own: the two public entry points, every name of the map declared. -/
theorem line_lossless_N (ext : Ext) (t : Tmpl) (m : DynMap)
    (hnd : (OMap.keys t).Nodup) (hp : Proto t) (hkeys : ∀ k ∈ visibleKeys t, sanitize k = k)
    (hcov : ∀ k f ty, (k, Val.cell .nil f ty) ∈ t → f ≠ .hidden → coveredB f ty = true)
    (hm : WellTypedMap t m) (hdecl : ∀ kv ∈ m.toList, kv.1 ∈ OMap.keys t) :
    ∃ bytes r, LineRouteN ⟨genTables, ext⟩ t (.gomap m) bytes r ∧
      Order.inputKeys bytes = visibleKeys t ∧ OMap.keys r = OMap.keys t ∧ ColumnsSurvive t m r := by
  obtain ⟨_, row, bytes, r, _, h2, _, h4, h5, h6, _⟩ :=
    lossless_N ext t m hnd hp hkeys hcov hm (extrasOK_of_declared _ t m hdecl)
  rw [undeclared_nil_of_declared t _ hdecl] at h4 h5
  exact ⟨bytes, r, h2, by simpa using h4, by simpa using h5, h6⟩

/-! ### 10. Hidden columns do not survive; the order is the declaration's -/

/-- A value that is not nil is never `sameValue` to nil: a hidden column holding anything but
    nil is NOT read back as the same value (it is not written at all). -/
theorem sameValue_nil_right (v : Dyn) (h : v ≠ .nil) : Tables.sameValue v .nil = false := by
  cases v <;> first | exact absurd rfl h | rfl

theorem hidden_lost {t : Tmpl} {m : DynMap} {r : List (Bytes × Val)} (h : ColumnsSurvive t m r)
    (k : Bytes) (ty : Ty) (hm : (k, Val.cell .nil .hidden ty) ∈ t) (hv : valOf m k ≠ .nil) :
    ∃ v', (lookup r k).map Cells.raw = some v' ∧ Tables.sameValue (valOf m k) v' = false := by
  refine ⟨.nil, ?_, sameValue_nil_right _ hv⟩
  rw [(h k .hidden ty hm).2 rfl]
  simp [Cells.raw]

/-! ### 11. Templates built by `With(name, format, rawtype)` -/

/-- The template built by successive `With` calls. -/
def ofCols (cols : List (Bytes × Format × Ty)) : Tmpl :=
  cols.foldl (fun t c => withCol t c.1 c.2.1 c.2.2) []

def protoRow (cols : List (Bytes × Format × Ty)) : Tmpl :=
  cols.map fun c => (c.1, .cell .nil c.2.1 c.2.2)

theorem keys_protoRow (cols : List (Bytes × Format × Ty)) :
    OMap.keys (protoRow cols) = cols.map Prod.fst := by
  simp [OMap.keys, protoRow, List.map_map, Function.comp_def]

theorem foldl_withCol (cols : List (Bytes × Format × Ty)) : ∀ (acc : Tmpl),
    (OMap.keys acc ++ cols.map Prod.fst).Nodup →
    cols.foldl (fun t c => withCol t c.1 c.2.1 c.2.2) acc = acc ++ protoRow cols := by
  induction cols with
  | nil => intro acc _; simp [protoRow]
  | cons c cols ih =>
    intro acc hnd
    have hc : c.1 ∉ OMap.keys acc := by
      intro hm
      rw [List.map_cons, List.nodup_append] at hnd
      exact hnd.2.2 _ hm _ List.mem_cons_self rfl
    rw [List.foldl_cons, withCol, upsert, OMap.upsert_of_not_mem _ _ _ hc, ih]
    · simp [protoRow]
    · rw [keys_append]
      simpa [OMap.keys] using hnd

theorem nodup_upsert (o : List (Bytes × Val)) (k : Bytes) (c : Val) (h : (OMap.keys o).Nodup) :
    (OMap.keys (OMap.upsert o k c)).Nodup := by
  rw [OMap.keys_upsert]
  split
  · exact h
  · rename_i hk
    rw [List.nodup_append]
    refine ⟨h, by simp, fun a ha b hb => ?_⟩
    simp only [List.mem_singleton] at hb
    subst hb
    exact fun e => hk (e ▸ ha)

theorem mem_upsert {o : List (Bytes × Val)} {k : Bytes} {c : Val} {x : Bytes × Val}
    (h : x ∈ OMap.upsert o k c) : x ∈ o ∨ x.2 = c := by
  induction o with
  | nil =>
    simp only [OMap.upsert, List.mem_singleton] at h
    subst h; exact .inr rfl
  | cons a o ih =>
    obtain ⟨k0, c0⟩ := a
    rw [OMap.upsert] at h
    split at h
    · rcases List.mem_cons.mp h with h | h
      · subst h; exact .inr rfl
      · exact .inl (List.mem_cons_of_mem _ h)
    · rcases List.mem_cons.mp h with h | h
      · subst h; exact .inl List.mem_cons_self
      · rcases ih h with h | h
        · exact .inl (List.mem_cons_of_mem _ h)
        · exact .inr h

theorem foldl_withCol_inv (cols : List (Bytes × Format × Ty)) : ∀ (acc : Tmpl),
    (OMap.keys acc).Nodup → Proto acc →
    (OMap.keys (cols.foldl (fun t c => withCol t c.1 c.2.1 c.2.2) acc)).Nodup ∧
      Proto (cols.foldl (fun t c => withCol t c.1 c.2.1 c.2.2) acc) := by
  induction cols with
  | nil => intro acc h1 h2; exact ⟨h1, h2⟩
  | cons c cols ih =>
    intro acc h1 h2
    rw [List.foldl_cons]
    apply ih
    · exact nodup_upsert _ _ _ h1
    · intro kc hkc
      rcases mem_upsert hkc with h | h
      · exact h2 kc h
      · exact ⟨_, _, h⟩

/-- EVERY template built from the empty one by `With(name, format, rawtype)` calls has distinct
    names and cell prototypes (`With` on a name already declared replaces the column in place):
    the two hypotheses `(OMap.keys t).Nodup` and `Proto t` of the theorems above are no
    restriction on such templates. -/
theorem ofCols_ok (cols : List (Bytes × Format × Ty)) :
    (OMap.keys (ofCols cols)).Nodup ∧ Proto (ofCols cols) :=
  foldl_withCol_inv cols [] (by simp [OMap.keys]) (fun _ h => by cases h)

/-- With distinct names, `With … With …` is the list of prototype cells in declaration order. -/
theorem ofCols_eq (cols : List (Bytes × Format × Ty)) (hnd : (cols.map Prod.fst).Nodup) :
    ofCols cols = protoRow cols := by
  have := foldl_withCol cols [] (by simpa [OMap.keys] using hnd)
  simpa [ofCols] using this

theorem proto_protoRow (cols : List (Bytes × Format × Ty)) : Proto (protoRow cols) := by
  intro kc hkc
  obtain ⟨c, _, rfl⟩ := List.mem_map.mp hkc
  exact ⟨c.2.1, c.2.2, rfl⟩

theorem mem_protoRow {cols : List (Bytes × Format × Ty)} {k : Bytes} {f : Format} {ty : Ty} :
    (k, Val.cell .nil f ty) ∈ protoRow cols ↔ (k, f, ty) ∈ cols := by
  simp only [protoRow, List.mem_map, Prod.mk.injEq, Val.cell.injEq, true_and]
  constructor
  · rintro ⟨⟨k', f', ty'⟩, hm, rfl, rfl, rfl⟩; exact hm
  · intro h; exact ⟨(k, f, ty), h, rfl, rfl, rfl⟩

/-! ### 12. Non-vacuity: columns `n` numeric(int16), `s` string, `h` HIDDEN, `b` binary — and
    the map `{b: []byte{1,2,3}, h: 5, n: int16(300), s: "é"}`; every step by evaluation -/

namespace Demo
open Json

def kn : Bytes := [0x6E]
def ks : Bytes := [0x73]
def kh : Bytes := [0x68]
def kb : Bytes := [0x62]

def tmpl : Tmpl :=
  withCol (withCol (withCol (withCol [] kn .numeric (.int .i16)) ks .string .none) kh .hidden .none)
    kb .binary .none

def eacute : Bytes := [0xC3, 0xA9]

def m : DynMap :=
  .cons kb (.bytes [1, 2, 3]) (.cons kh (.int .int 5) (.cons kn (.int .i16 300)
    (.cons ks (.str eacute) .nil)))

def text : Bytes :=
  [0x7B, 0x22, 0x6E, 0x22, 0x3A, 0x33, 0x30, 0x30, 0x2C,
   0x22, 0x73, 0x22, 0x3A, 0x22, 0xC3, 0xA9, 0x22, 0x2C,
   0x22, 0x62, 0x22, 0x3A, 0x22, 0x41, 0x51, 0x49, 0x44, 0x22, 0x7D]

def created : List (Bytes × Val) :=
  [(kn, .cell (.int .i16 300) .numeric (.int .i16)), (ks, .cell (.str eacute) .string .none),
   (kh, .cell (.int .int 5) .hidden .none), (kb, .cell (.bytes [1, 2, 3]) .binary .none)]

def readRow : List (Bytes × Val) :=
  [(kn, .cell (.int .i16 300) .numeric (.int .i16)), (ks, .cell (.str eacute) .string .none),
   (kh, .cell .nil .hidden .none), (kb, .cell (.bytes [1, 2, 3]) .binary .none)]

theorem tmpl_eq : tmpl = [(kn, .cell .nil .numeric (.int .i16)), (ks, .cell .nil .string .none),
    (kh, .cell .nil .hidden .none), (kb, .cell .nil .binary .none)] := by
  simp [tmpl, withCol, upsert, OMap.upsert, kn, ks, kh, kb]

theorem cast_nil (ext : Ext) : castTo genTables ext (.int .i16) .nil = .ok .nil := by
  simp [castTo, callNamed, genTables, Gen.casters, Gen.dispatchTo, findClause, typeOf, evalBranch, evalE]

theorem cast_v (ext : Ext) : castTo genTables ext (.int .i16) (.int .i16 300) = .ok (.int .i16 300) := by
  simp [castTo, callNamed, genTables, Gen.casters, Gen.dispatchTo, findClause, typeOf, evalBranch, evalE]

theorem cast_none (ext : Ext) (x : Dyn) : castTo genTables ext .none x = .ok x :=
  CastTyped.gen_castTo_none ext x

theorem empty (ext : Ext) : createRowEmpty ⟨genTables, ext⟩ tmpl = .ok tmpl := by
  rw [tmpl_eq]
  simp [createRowEmpty, cloneRow, upsert, OMap.upsert, cloneInto, cloneValue, newValue,
    Cells.raw, Cells.format, Cells.rawType, cast_nil, cast_none, kn, ks, kh, kb]

theorem create (ext : Ext) : createRow ⟨genTables, ext⟩ tmpl (.gomap m) = .ok (created, none) := by
  rw [tmpl_eq]
  simp [createRow, cloneRow, upsert, OMap.upsert, cloneInto, cloneValue, newValue,
    Cells.raw, Cells.format, Cells.rawType, cast_nil, cast_v, cast_none, DynMap.toList, fillPairs, fill,
    lookup, OMap.lookup, m, created, kn, ks, kh, kb]

theorem toNumber_v (ext : Ext) :
    castNamed genTables ext "ToNumber" (.int .i16 300) = .ok (.num [0x33, 0x30, 0x30]) := by
  simp [castNamed, callNamed, genTables, Gen.casters, findClause, typeOf, evalBranch, evalE,
    IntText.formatInt, IntText.natDigits, IntText.digitChar, IntTy.wrap, IntTy.bits, IntTy.signed]

theorem toString_s (ext : Ext) :
    castNamed genTables ext "ToString" (.str eacute) = .ok (.str eacute) := by
  simp [castNamed, callNamed, genTables, Gen.casters, findClause, typeOf, evalBranch, evalE]

theorem toBinary_b (ext : Ext) :
    castNamed genTables ext "ToBinary" (.bytes [1, 2, 3]) = .ok (.bytes [1, 2, 3]) := by
  simp [castNamed, callNamed, genTables, Gen.casters, findClause, typeOf, evalBranch, evalE]

theorem b64 : Base64.encode [1, 2, 3] = [0x41, 0x51, 0x49, 0x44] := by decide

theorem marshal (ext : Ext) : marshalRow ⟨genTables, ext⟩ (Members.ofList created) = .ok text := by
  have hn : marshalVal ⟨genTables, ext⟩ (.cell (.int .i16 300) .numeric (.int .i16)) =
      .ok [0x33, 0x30, 0x30] := by
    rw [marshalVal.eq_def]
    simp [exportVal, exportFail, toNumber_v]
    rw [marshalExported.eq_def]
    simp [JsonWrite.isValidNumber, JsonWrite.dropDigits, JsonWrite.isDigit]
  have hs : marshalVal ⟨genTables, ext⟩ (.cell (.str eacute) .string .none) =
      .ok [0x22, 0xC3, 0xA9, 0x22] := by
    rw [marshalVal.eq_def]
    simp [exportVal, exportFail, toString_s]
    rw [marshalExported.eq_def]
    simp [eacute, JsonWrite.quote, JsonWrite.quoteBody, Utf8.seqLen, Utf8.isCont]
  have hb : marshalVal ⟨genTables, ext⟩ (.cell (.bytes [1, 2, 3]) .binary .none) =
      .ok [0x22, 0x41, 0x51, 0x49, 0x44, 0x22] := by
    rw [marshalVal.eq_def]
    simp [exportVal, exportFail, toBinary_b, b64]
    rw [marshalExported.eq_def]
    simp [JsonWrite.quote, JsonWrite.quoteBody, JsonWrite.htmlSafe]
  have := marshalRow_eq ⟨genTables, ext⟩ _
    (marshalMembers_cons ⟨genTables, ext⟩ kn _ _ (by decide) hn
      (marshalMembers_cons ⟨genTables, ext⟩ ks _ _ (by decide) hs
        ((marshalMembers_hidden ⟨genTables, ext⟩ kh (.cell (.int .int 5) .hidden .none) _ rfl).trans
          (marshalMembers_cons ⟨genTables, ext⟩ kb _ .nil (by decide) hb (marshalMembers_nil _)))))
  simpa [Members.ofList, created, text, kn, ks, kb, joinComma, JsonWrite.quote, JsonWrite.quoteBody,
    JsonWrite.htmlSafe, Utf8.seqLen, Utf8.isCont] using this

/-- The reader's view of the text: three members, in declaration order; no `h`. -/
theorem read : Json.unmarshal text =
    (.cons kn (.num [0x33, 0x30, 0x30]) (.cons ks (.str eacute)
      (.cons kb (.str [0x41, 0x51, 0x49, 0x44]) .nil)), true) := by
  simp [text, kn, ks, kb, eacute, unmarshal, token, tokenCore, skipSpace, isSpace, asClose, parseObject,
    parseArray, more, asKey, asTok, strBody, pre, handleDelim, scanScalar, scanNumber, scanInt,
    scanFracExp, scanExp, digits, isDigit, valueAllowed, valueEnd, isEof, hex4, hexVal, simpleEscape,
    isSurrogate, Utf8.encode, Utf8.seqLen, Utf8.isCont, stripPrefix]

theorem cast_back (ext : Ext) :
    castTo genTables ext (.int .i16) (.num [0x33, 0x30, 0x30]) = .ok (.int .i16 300) := by
  have hp : IntText.parseInt0 [0x33, 0x30, 0x30] 16 = some 300 := by decide
  simp [castTo, callNamed, genTables, Gen.casters, Gen.dispatchTo, findClause, typeOf, evalBranch, evalE,
    runParse, hp, evalG, cmpInt, IntTy.wrap, IntTy.bits, IntTy.signed]

theorem toString_b64 (ext : Ext) :
    castNamed genTables ext "ToString" (.str [0x41, 0x51, 0x49, 0x44]) =
      .ok (.str [0x41, 0x51, 0x49, 0x44]) := by
  simp [castNamed, callNamed, genTables, Gen.casters, findClause, typeOf, evalBranch, evalE]

theorem unb64 : Base64.decode [0x41, 0x51, 0x49, 0x44] = some [1, 2, 3] := by decide

/-- `row.UnmarshalJSON` into the empty row. -/
theorem readBack' (ext : Ext) : unmarshalInto ⟨genTables, ext⟩ tmpl text = .ok (readRow, none) := by
  rw [tmpl_eq]
  simp [unmarshalInto, read, ofJVMembers, ofJV, parseMembers, parseMember, lookup, OMap.lookup, importVal,
    importInto, importCell, importByFormat, importFrom, importFromBinary, importFail, cast_back,
    toString_s, toString_b64, unb64, upsert, OMap.upsert, readRow, kn, ks, kh, kb]

/-- The whole route on the concrete data, assembled from the evaluated steps: the text is
    `{"n":300,"s":"é","b":"AQID"}` — declaration order, not the map's (`b, h, n, s`); no `h`. -/
theorem route (ext : Ext) : RouteN ⟨genTables, ext⟩ tmpl (.gomap m) created text readRow :=
  ⟨create ext, marshal ext, tmpl, empty ext, readBack' ext⟩

theorem line (ext : Ext) : LineRouteN ⟨genTables, ext⟩ tmpl (.gomap m) text readRow := (route ext).line

/-- What was read back, column by column: the three visible columns hold the values written,
    with their Go types; the hidden column holds nil, not 5. -/
theorem columns :
    (lookup readRow kn).map Cells.raw = some (.int .i16 300) ∧
    (lookup readRow ks).map Cells.raw = some (.str eacute) ∧
    (lookup readRow kb).map Cells.raw = some (.bytes [1, 2, 3]) ∧
    (lookup readRow kh).map Cells.raw = some .nil ∧
    Tables.sameValue (.int .int 5) .nil = false := by
  simp [readRow, lookup, OMap.lookup, Cells.raw, kn, ks, kh, kb, Tables.sameValue]

/-! The hypotheses of the general theorems hold for this template and this map. -/

theorem nodup : (OMap.keys tmpl).Nodup := by
  rw [tmpl_eq]; simp [OMap.keys, kn, ks, kh, kb]

theorem proto : Proto tmpl := by
  rw [tmpl_eq]
  intro kc h
  simp only [List.mem_cons, List.not_mem_nil, or_false] at h
  rcases h with rfl | rfl | rfl | rfl <;> exact ⟨_, _, rfl⟩

theorem visible_eq : visibleKeys tmpl = [kn, ks, kb] := by
  rw [tmpl_eq]; simp [visibleKeys, Cells.format]

theorem keys_fixed : ∀ k ∈ visibleKeys tmpl, sanitize k = k := by
  rw [visible_eq]
  intro k h
  apply RowRoundTrip.key_ascii
  simp only [List.mem_cons, List.not_mem_nil, or_false] at h
  rcases h with rfl | rfl | rfl <;> simp [Pairings.Ascii, kn, ks, kb]

theorem cols_covered : ∀ k f ty, (k, Val.cell .nil f ty) ∈ tmpl → f ≠ .hidden → coveredB f ty = true := by
  rw [tmpl_eq]
  intro k f ty h hv
  simp only [List.mem_cons, List.not_mem_nil, or_false, Prod.mk.injEq, Val.cell.injEq, true_and] at h
  rcases h with ⟨_, rfl, rfl⟩ | ⟨_, rfl, rfl⟩ | ⟨_, rfl, rfl⟩ | ⟨_, rfl, rfl⟩ <;>
    first | rfl | exact absurd rfl hv

theorem valid_eacute : Utf8.valid eacute = true := by
  simp [eacute, Utf8.valid, Utf8.seqLen, Utf8.isCont]

theorem wellTyped : WellTypedMap tmpl m := by
  rw [tmpl_eq]
  intro k x f ty h1 h2
  simp only [m, DynMap.toList, List.mem_cons, List.not_mem_nil, or_false, Prod.mk.injEq] at h1
  simp only [List.mem_cons, List.not_mem_nil, or_false, Prod.mk.injEq, Val.cell.injEq, true_and] at h2
  rcases h1 with ⟨rfl, rfl⟩ | ⟨rfl, rfl⟩ | ⟨rfl, rfl⟩ | ⟨rfl, rfl⟩ <;>
    rcases h2 with ⟨hk, rfl, rfl⟩ | ⟨hk, rfl, rfl⟩ | ⟨hk, rfl, rfl⟩ | ⟨hk, rfl, rfl⟩ <;>
    first
    | exact absurd hk (by decide)
    | exact ⟨fun h => absurd rfl h, fun _ => .inr (.inl rfl)⟩
    | (refine ⟨fun _ => ⟨.inr rfl, ?_⟩, fun h => by cases h⟩
       first | decide | simp [Tables.inDomain, valid_eacute])

theorem declared : ∀ kv ∈ m.toList, kv.1 ∈ OMap.keys tmpl := by
  rw [tmpl_eq]
  simp [m, DynMap.toList, OMap.keys]

/-- The table-level theorem applies … -/
theorem general_applies (ext : Ext) :
    (∀ k f ty, (k, Val.cell .nil f ty) ∈ tmpl → f ≠ .hidden → Tables.lossless f ty = true) ∧
    RowLosslessN ⟨genTables, ext⟩ tmpl m :=
  lossless_N ext tmpl m nodup proto keys_fixed cols_covered wellTyped
    (extrasOK_of_declared _ tmpl m declared)

/-- … and what it says exists is what the evaluation found. -/
theorem general_agrees (ext : Ext) (row : List (Bytes × Val)) (bytes : Bytes) (r : List (Bytes × Val))
    (h : RouteN ⟨genTables, ext⟩ tmpl (.gomap m) row bytes r) :
    row = created ∧ bytes = text ∧ r = readRow :=
  h.unique (route ext)

theorem survive : ColumnsSurvive tmpl m readRow := by
  obtain ⟨_, row, bytes, r, h1, _, _, _, _, h6, _⟩ := general_applies Ext.empty
  obtain ⟨_, _, rfl⟩ := general_agrees Ext.empty row bytes r h1
  exact h6

/-- The values of the map, as the general theorems name them. -/
theorem valOf_m : valOf m kn = .int .i16 300 ∧ valOf m ks = .str eacute ∧
    valOf m kb = .bytes [1, 2, 3] ∧ valOf m kh = .int .int 5 := by
  simp [valOf, valOfFrom, upd, m, DynMap.toList, kn, ks, kh, kb]

/-- The hidden column held 5 and is read back nil: not the same value. -/
example : ∃ v', (lookup readRow kh).map Cells.raw = some v' ∧
    Tables.sameValue (valOf m kh) v' = false :=
  hidden_lost survive kh .none (by rw [tmpl_eq]; simp) (by rw [valOf_m.2.2.2]; simp)

/-! A map with a name the template does not declare (`x`: true), and without `s`, `b`, `h`:
    the general theorem applies (`extrasOK_of_scalars`); `x` is carried through as an Auto cell
    after the declared columns, the absent columns are written `null` and read back nil. -/

def kx : Bytes := [0x78]

def m2 : DynMap := .cons kn (.int .i16 300) (.cons kx (.bool true) .nil)

theorem undeclared_m2 : undeclared tmpl m2.toList = [(kx, .bool true)] := by
  rw [tmpl_eq]
  simp [undeclared, m2, DynMap.toList, OMap.keys, kn, ks, kh, kb, kx]

theorem extras_m2 (env : Env) : ExtrasOK env tmpl m2 := by
  apply extrasOK_of_scalars <;> rw [undeclared_m2]
  · intro kv h
    simp only [List.mem_singleton] at h
    subst h
    exact RowRoundTrip.key_ascii _ (by simp [Pairings.Ascii, kx])
  · simp
  · intro kv h
    simp only [List.mem_singleton] at h
    subst h
    exact ⟨_, Wire.bool true⟩

theorem wellTyped_m2 : WellTypedMap tmpl m2 := by
  rw [tmpl_eq]
  intro k x f ty h1 h2
  simp only [m2, DynMap.toList, List.mem_cons, List.not_mem_nil, or_false, Prod.mk.injEq] at h1
  simp only [List.mem_cons, List.not_mem_nil, or_false, Prod.mk.injEq, Val.cell.injEq, true_and] at h2
  rcases h1 with ⟨rfl, rfl⟩ | ⟨rfl, rfl⟩ <;>
    rcases h2 with ⟨hk, rfl, rfl⟩ | ⟨hk, rfl, rfl⟩ | ⟨hk, rfl, rfl⟩ | ⟨hk, rfl, rfl⟩ <;>
    first
    | exact absurd hk (by decide)
    | exact ⟨fun _ => ⟨.inr rfl, by decide⟩, fun h => by cases h⟩

theorem general_applies_m2 (ext : Ext) :
    ∃ row bytes r, RouteN ⟨genTables, ext⟩ tmpl (.gomap m2) row bytes r ∧
      Order.inputKeys bytes = [kn, ks, kb, kx] ∧ OMap.keys r = [kn, ks, kh, kb, kx] ∧
      ColumnsSurvive tmpl m2 r ∧ valOf m2 ks = .nil := by
  obtain ⟨_, row, bytes, r, h1, _, _, h4, h5, h6, _⟩ :=
    lossless_N ext tmpl m2 nodup proto keys_fixed cols_covered wellTyped_m2 (extras_m2 _)
  refine ⟨row, bytes, r, h1, ?_, ?_, h6, ?_⟩
  · rw [h4, visible_eq, undeclared_m2]
    simp [RowRoundTrip.key_ascii kx (by simp [Pairings.Ascii, kx])]
  · rw [h5, undeclared_m2, tmpl_eq]
    simp [OMap.keys, RowRoundTrip.key_ascii kx (by simp [Pairings.Ascii, kx])]
  · simp [valOf, valOfFrom, upd, m2, DynMap.toList, kn, ks, kx]

end Demo
/-! ### 13. The hypothesis on undeclared names is needed -/

namespace Clash
open Json

/-- U+FFFD -/
def kr : Bytes := [0xEF, 0xBF, 0xBD]
/-- not UTF-8: the writer spells it `�` -/
def kbad : Bytes := [0xFF]

def tmpl : Tmpl := withCol [] kr .string .none
def m : DynMap := .cons kbad (.str [0x78]) .nil

/-- `{"<U+FFFD>":null,"�":"x"}` -/
def text : Bytes :=
  [0x7B, 0x22, 0xEF, 0xBF, 0xBD, 0x22, 0x3A, 0x6E, 0x75, 0x6C, 0x6C, 0x2C,
   0x22, 0x5C, 0x75, 0x66, 0x66, 0x66, 0x64, 0x22, 0x3A, 0x22, 0x78, 0x22, 0x7D]

def created : List (Bytes × Val) := [(kr, .cell .nil .string .none), (kbad, .cell (.str [0x78]) .auto .none)]
def readRow : List (Bytes × Val) := [(kr, .cell (.str [0x78]) .string .none)]

theorem tmpl_eq : tmpl = [(kr, .cell .nil .string .none)] := rfl

theorem empty (ext : Ext) : createRowEmpty ⟨genTables, ext⟩ tmpl = .ok tmpl := by
  rw [tmpl_eq]
  simp [createRowEmpty, cloneRow, upsert, OMap.upsert, cloneInto, cloneValue, newValue,
    Cells.raw, Cells.format, Cells.rawType, CastTyped.gen_castTo_none]

theorem create (ext : Ext) : createRow ⟨genTables, ext⟩ tmpl (.gomap m) = .ok (created, none) := by
  rw [tmpl_eq]
  simp [createRow, cloneRow, upsert, OMap.upsert, cloneInto, cloneValue, newValue,
    Cells.raw, Cells.format, Cells.rawType, CastTyped.gen_castTo_none, DynMap.toList, fillPairs, fill,
    lookup, OMap.lookup, m, created, kr, kbad, Cells.autoCell]

theorem marshal (ext : Ext) : marshalRow ⟨genTables, ext⟩ (Members.ofList created) = .ok text := by
  have h1 : marshalVal ⟨genTables, ext⟩ (.cell .nil .string .none) = .ok RowPrint.null := by
    rw [marshalVal.eq_def]
    simp [exportVal]
    rw [marshalExported.eq_def]
  have h2 : marshalVal ⟨genTables, ext⟩ (.cell (.str [0x78]) .auto .none) = .ok [0x22, 0x78, 0x22] := by
    rw [marshalVal_auto, marshalDyn_str]
    simp [JsonWrite.quote, JsonWrite.quoteBody, JsonWrite.htmlSafe]
  have := marshalRow_eq ⟨genTables, ext⟩ _
    (marshalMembers_cons ⟨genTables, ext⟩ kr _ _ (by decide) h1
      (marshalMembers_cons ⟨genTables, ext⟩ kbad _ .nil (by decide) h2 (marshalMembers_nil _)))
  simpa [Members.ofList, created, text, kr, kbad, joinComma, JsonWrite.quote, JsonWrite.quoteBody,
    JsonWrite.htmlSafe, Utf8.seqLen, Utf8.isCont, RowPrint.null] using this

theorem read : Json.unmarshal text = (.cons kr .null (.cons kr (.str [0x78]) .nil), true) := by
  simp [text, kr, unmarshal, token, tokenCore, skipSpace, isSpace, asClose, parseObject,
    parseArray, more, asKey, asTok, strBody, pre, handleDelim, scanScalar, scanNumber, scanInt,
    scanFracExp, scanExp, digits, isDigit, valueAllowed, valueEnd, isEof, hex4, hexVal, simpleEscape,
    isSurrogate, Utf8.encode, Utf8.seqLen, Utf8.isCont, stripPrefix]

theorem readBack' (ext : Ext) : unmarshalInto ⟨genTables, ext⟩ tmpl text = .ok (readRow, none) := by
  rw [tmpl_eq]
  simp [unmarshalInto, read, ofJVMembers, ofJV, parseMembers, parseMember, lookup, OMap.lookup, importVal,
    importInto, importCell, importByFormat, importFrom, importFail, Pairings.toString_str,
    upsert, OMap.upsert, readRow, kr]

theorem sanitize_kbad : sanitize kbad = kr := by
  simp [sanitize, Utf8.seqLen, Utf8.replacement, kbad, kr]

theorem sanitize_kr : sanitize kr = kr := by
  simp [sanitize, Utf8.seqLen, Utf8.isCont, kr]

theorem undeclared_m : undeclared tmpl m.toList = [(kbad, .str [0x78])] := by
  rw [tmpl_eq]
  simp [undeclared, m, DynMap.toList, OMap.keys, kr, kbad]

/-- The route succeeds, the map holds NOTHING under the declared name U+FFFD, and yet the column
    is read back holding "x": the undeclared name `FF`, which the writer spells `\ufffd`, comes
    back under the declared name.  Every hypothesis of `lossless_N` holds except `ExtrasOK`
    (the name, as the reader delivers it, IS declared). -/
theorem clash (ext : Ext) :
    RouteN ⟨genTables, ext⟩ tmpl (.gomap m) created text readRow ∧
    valOf m kr = .nil ∧
    (lookup readRow kr).map Cells.raw = some (.str [0x78]) ∧
    Tables.sameValue (valOf m kr) (.str [0x78]) = false ∧
    ¬ ExtrasOK ⟨genTables, ext⟩ tmpl m := by
  have hv : valOf m kr = .nil := by simp [valOf, valOfFrom, upd, m, DynMap.toList, kr, kbad]
  refine ⟨⟨create ext, marshal ext, tmpl, empty ext, readBack' ext⟩, hv, ?_, by rw [hv]; rfl, ?_⟩
  · simp [readRow, lookup, OMap.lookup, Cells.raw]
  · intro h
    have := h.2.1 (kbad, .str [0x78]) (by rw [undeclared_m]; exact List.mem_singleton.mpr rfl)
    rw [sanitize_kbad, tmpl_eq] at this
    exact this (by simp [OMap.keys])

theorem other_hypotheses :
    (OMap.keys tmpl).Nodup ∧ Proto tmpl ∧ (∀ k ∈ visibleKeys tmpl, sanitize k = k) ∧
    (∀ k f ty, (k, Val.cell .nil f ty) ∈ tmpl → f ≠ .hidden → coveredB f ty = true) ∧
    WellTypedMap tmpl m := by
  rw [tmpl_eq]
  refine ⟨by simp [OMap.keys], ?_, ?_, ?_, ?_⟩
  · intro kc h
    simp only [List.mem_singleton] at h
    subst h
    exact ⟨_, _, rfl⟩
  · intro k h
    simp [visibleKeys, Cells.format] at h
    subst h
    exact sanitize_kr
  · intro k f ty h _
    simp only [List.mem_singleton, Prod.mk.injEq, Val.cell.injEq, true_and] at h
    obtain ⟨_, rfl, rfl⟩ := h
    rfl
  · intro k x f ty h1 h2
    simp only [m, DynMap.toList, List.mem_singleton, Prod.mk.injEq] at h1 h2
    exact absurd (h1.1.symm.trans h2.1) (by decide)

end Clash
end Jl.RowRoundTripN
