/-
  Proofs.GettersExact — the sixteen typed getters of row.go (`Model/Getters.lean`) on the regenerated cast
  tables: property C09 read on the getters ("the value when it fits the getter's type, the zero value otherwise,
  never a wrapped one"), and the contrast with `Row.MapTo`, whose integers DO wrap (the documented exception).

  Everything is about `genTables` and holds for every `Ext`.

  1. `int_getter_exact_or_zero` (+ `int_getter_float64/32`): what the ten integer getters answer on a cell that
     carries an integer (a Go integer of any of the ten types, canonical decimal text, a json.Number, an integral
     float), and on any float.
  2. `int_cast_no_violation` / `int_getter_never_wraps`: C09's oracle (`CastSpec.intCastViolation`) never fires, for
     EVERY stored raw value whose Go integers are in the range of their own type.
  3. `getter_zero_of_unconvertible`: absent key, nil, nested row, array, map, foreign type: the zero value.
  4. The six other getters, one line each.
  5. Non-vacuity, computed.
-/
import Model.Getters
import Model.CastSpec
import Proofs.CastInt
import Proofs.CastTyped
import Proofs.IntText
import Proofs.NoPanic
import Proofs.MapTo

set_option linter.unusedSimpArgs false
set_option linter.unusedVariables false

namespace Jl.GettersExact
open Jl Jl.Value Cast CastTyped

/-! ## 0. The getters as functions of their caster's answer -/

/-- The getter of each integer type. -/
def getterOfInt : IntTy → String
  | .int => "GetInt" | .i64 => "GetInt64" | .i32 => "GetInt32" | .i16 => "GetInt16" | .i8 => "GetInt8"
  | .uint => "GetUint" | .u64 => "GetUint64" | .u32 => "GetUint32" | .u16 => "GetUint16" | .u8 => "GetUint8"

theorem table_int (t : IntTy) :
    Getters.table.lookup (getterOfInt t) = some (casterOfInt t, .int t) := by
  cases t <;> rfl

/-- `result, _ := cast.ToX(raw); v, _ := result.(T); return v` — what a getter of result type `ty` answers, from
    what its caster answers. -/
def answer (ty : Ty) (o : Outcome Dyn) : Outcome Dyn :=
  match o with
  | .ok r => if typeOf r == ty then .ok r else .ok (Getters.zeroOf ty)
  | .err .ext => .err .ext
  | .err _ => .ok (Getters.zeroOf ty)
  | .panic s => .panic s

theorem typedGet_eq (env : Env) (name caster : String) (ty : Ty)
    (h : Getters.table.lookup name = some (caster, ty)) (row : List (Bytes × Val)) (k : Bytes) :
    Getters.typedGet env name row k =
      some (answer ty (castNamed env.T env.ext caster (Getters.getOrNil row k))) := by
  unfold Getters.typedGet
  rw [h]
  rfl

theorem typedGet_int (ext : Ext) (t : IntTy) (row : List (Bytes × Val)) (k : Bytes) :
    Getters.typedGet ⟨genTables, ext⟩ (getterOfInt t) row k =
      some (answer (.int t) (castNamed genTables ext (casterOfInt t) (Getters.getOrNil row k))) :=
  typedGet_eq ⟨genTables, ext⟩ _ _ _ (table_int t) row k

/-- `GetOrNil` on a present key: the raw value of the cell (for a nested row: its `Raw()` map). -/
theorem getOrNil_of_lookup {row : List (Bytes × Val)} {k : Bytes} {raw : Dyn}
    (h : (Value.lookup row k).map Cells.raw = some raw) : Getters.getOrNil row k = raw := by
  unfold Getters.getOrNil
  cases hl : Value.lookup row k with
  | none => rw [hl] at h; cases h
  | some c => rw [hl] at h; simpa using h

theorem getOrNil_absent {row : List (Bytes × Val)} {k : Bytes}
    (h : Value.lookup row k = none) : Getters.getOrNil row k = .nil := by
  unfold Getters.getOrNil
  rw [h]

theorem answer_exact (t : IntTy) (v : Int) :
    answer (.int t) (if t.inRange v then .ok (.int t v) else .err .cast) =
      .ok (.int t (if t.inRange v then v else 0)) := by
  by_cases h : t.inRange v <;> simp [h, answer, typeOf, Getters.zeroOf]

/-! ## 1a. Float sources: exactly what the casters do

  `floatBranchSpec` (Proofs/CastInt) leaves open whether a fractional value whose truncation fits is accepted.
  The guards of the source are `!(val >= MIN && val < MAX+1)` on the float itself, so the answer is: accepted iff
  the truncation fits AND the value is not below MIN — the only fractional values with a fitting truncation that
  are refused are those in (MIN-1, MIN): -128.5 for int8, -0.5 for every unsigned type. -/

def FloatFits (t : IntTy) : FVal → Prop
  | .fin tr frac neg => t.inRange tr ∧ ¬ (frac = true ∧ neg = true ∧ tr = t.min)
  | _ => False

instance (t : IntTy) (x : FVal) : Decidable (FloatFits t x) := by
  unfold FloatFits; split <;> infer_instance

def floatBranchExact (T : CastTables) (tgt : IntTy) : Branch → Prop
  | .guarded g s (.toInt t .val) =>
    t = tgt ∧ wrapsRoot T.sentinels 4 s = true ∧ floatGuardOK g = true ∧
      evalGF g .nan = true ∧ (∀ n, evalGF g (.inf n) = true) ∧
      (∀ tr frac neg, (FVal.fin tr frac neg).WF →
        (evalGF g (.fin tr frac neg) = false ↔ FloatFits tgt (.fin tr frac neg)))
  | _ => False

set_option maxRecDepth 8192 in
set_option maxHeartbeats 3200000 in
theorem float64_branches_exact : ∀ tgt : IntTy,
    floatBranchExact genTables tgt (findClause (casterOf genTables (casterOfInt tgt)) .f64) := by
  intro tgt
  cases tgt <;>
  simp only [casterOf, casterOfInt, genTables, Gen.casters, findClause, floatBranchExact, Gen.sentinels,
    List.find?, List.contains, List.elem, wrapsRoot] <;>
  simp [floatGuardOK, evalGF, cmpF_lt, cmpF_le, cmpF_gt, cmpF_ge, cmpF_eq, cmpF_ne,
    FVal.lt, FVal.le, FVal.gt, FVal.ge, FVal.eq, FVal.ne, FVal.WF, FloatFits,
    IntTy.inRange, IntTy.min, IntTy.max, IntTy.signed, IntTy.bits] <;>
  (intros; omega)

set_option maxRecDepth 8192 in
set_option maxHeartbeats 3200000 in
theorem float32_branches_exact : ∀ tgt : IntTy,
    floatBranchExact genTables tgt (findClause (casterOf genTables (casterOfInt tgt)) .f32) := by
  intro tgt
  cases tgt <;>
  simp only [casterOf, casterOfInt, genTables, Gen.casters, findClause, floatBranchExact, Gen.sentinels,
    List.find?, List.contains, List.elem, wrapsRoot] <;>
  simp [floatGuardOK, evalGF, cmpF_lt, cmpF_le, cmpF_gt, cmpF_ge, cmpF_eq, cmpF_ne,
    FVal.lt, FVal.le, FVal.gt, FVal.ge, FVal.eq, FVal.ne, FVal.WF, FloatFits,
    IntTy.inRange, IntTy.min, IntTy.max, IntTy.signed, IntTy.bits] <;>
  (intros; omega)


/-- The truncation toward zero of a finite float (0 for NaN / ±Inf, where it is not used). -/
def truncOf : FVal → Int
  | .fin tr _ _ => tr
  | _ => 0

theorem floatFits_inRange {t : IntTy} {x : FVal} (h : FloatFits t x) : t.inRange (truncOf x) := by
  cases x with
  | fin tr frac neg => exact h.1
  | nan => exact absurd h id
  | inf n => exact absurd h id

theorem cast_float_exact (T : CastTables) (ext : Ext) (name : String) (c : Caster) (tgt : IntTy)
    (src : Dyn) (x : FVal) (b : Nat)
    (hsrc : (src = .f64 b ∧ x = Float.toFVal Float.f64 b) ∨ (src = .f32 b ∧ x = Float.toFVal Float.f32 b))
    (hc : T.casters.find? (fun c => c.name == name) = some c)
    (hspec : floatBranchExact T tgt (findClause c (typeOf src))) :
    castNamed T ext name src =
      if FloatFits tgt x then .ok (.int tgt (truncOf x)) else .err .cast := by
  have hwf : x.WF := by
    rcases hsrc with ⟨_, rfl⟩ | ⟨_, rfl⟩ <;> exact toFVal_WF _ _
  unfold castNamed callNamed
  simp only [hc]
  generalize findClause c (typeOf src) = br at hspec
  unfold floatBranchExact at hspec
  split at hspec
  · obtain ⟨ht, hs, hg, hnan, hinf, hfin⟩ := hspec
    subst ht
    rename_i g s t
    simp only [evalBranch, evalG_float T ext src x g hsrc hg, failWith, hs]
    cases x with
    | nan => simp [hnan, FloatFits]
    | inf n => simp [hinf n, FloatFits]
    | fin tr frac neg =>
      by_cases hf : FloatFits t (.fin tr frac neg)
      · have hgv := (hfin tr frac neg hwf).mpr hf
        rw [hgv, if_pos hf]
        rcases hsrc with ⟨rfl, hx⟩ | ⟨rfl, hx⟩ <;>
          simp [evalE, ← hx, floatToInt_exact t tr frac neg hf.1, truncOf]
      · have hgv : evalGF g (.fin tr frac neg) = true := by
          cases hgv : evalGF g (.fin tr frac neg) with
          | true => rfl
          | false => exact absurd ((hfin tr frac neg hwf).mp hgv) hf
        rw [hgv, if_neg hf]
        simp
  · exact absurd hspec id

/-! ## 1b. ANY text: `strconv.ParseInt` / `ParseUint` against the specification's reading -/

/-- The specification's reading of a text that is not canonical decimal (`CastSpec.numVal`): optional sign, then
    Go's base-0 unsigned literal syntax, no range check. -/
def specText (s : Bytes) : Option Int :=
  (IntText.parseInt0.parseUintAny (match s with | 0x2D :: r => r | 0x2B :: r => r | _ => s)).map fun u =>
    match s with | 0x2D :: _ => -(u : Int) | _ => (u : Int)

theorem numVal_str (s : Bytes) :
    CastSpec.numVal (.str s) =
      some (match CastSpec.canonicalDecimal s with
            | some v => .int v
            | none => .text (specText s)) := by
  simp only [CastSpec.numVal, specText]
  cases CastSpec.canonicalDecimal s <;> rfl

theorem numVal_num (s : Bytes) : CastSpec.numVal (.num s) = CastSpec.numVal (.str s) := rfl

theorem specText_minus (r : Bytes) :
    specText (0x2D :: r) = (IntText.parseInt0.parseUintAny r).map fun (u : Nat) => -(u : Int) := by
  unfold specText
  show Option.map _ (do let a ← IntText.parseInt0.parseUintAny r; pure (a : Int)) = _
  cases IntText.parseInt0.parseUintAny r <;> rfl

theorem specText_plus (r : Bytes) :
    specText (0x2B :: r) = (IntText.parseInt0.parseUintAny r).map fun (u : Nat) => (u : Int) := by
  unfold specText
  show Option.map _ (do let a ← IntText.parseInt0.parseUintAny r; pure (a : Int)) = _
  cases IntText.parseInt0.parseUintAny r <;> rfl

theorem specText_nosign {c : UInt8} (tl : Bytes) (h1 : c ≠ 0x2B) (h2 : c ≠ 0x2D) :
    specText (c :: tl) = (IntText.parseInt0.parseUintAny (c :: tl)).map fun (u : Nat) => (u : Int) := by
  unfold specText
  split
  · rename_i h; injection h with h _; exact absurd h h2
  · rename_i h; injection h with h _; exact absurd h h1
  · cases IntText.parseInt0.parseUintAny (c :: tl) with
    | none => rfl
    | some n =>
      show some (match c :: tl, (n : Int) with | 0x2D :: _, u => -u | _, u => u) = some (n : Int)
      congr 1
      split
      · rename_i heq; injection heq with hc _; exact absurd hc h2
      · rfl

theorem parseInt0_plus (r : Bytes) (bits : Nat) :
    IntText.parseInt0 (0x2B :: r) bits =
      (IntText.parseInt0.parseUintAny r).bind fun un =>
        if un ≥ 2 ^ ((if bits = 0 then 64 else bits) - 1) then none else some (un : Int) := by
  unfold IntText.parseInt0
  simp
  cases IntText.parseInt0.parseUintAny r <;> simp

/-- `strconv.ParseInt(s, 0, bits)` is the specification's reading followed by the signed range check. -/
theorem parseInt0_eq_spec (s : Bytes) (bits : Nat) :
    IntText.parseInt0 s bits =
      (specText s).bind fun v =>
        if -(2 ^ ((if bits = 0 then 64 else bits) - 1) : Int) ≤ v ∧ v < 2 ^ ((if bits = 0 then 64 else bits) - 1)
        then some v else none := by
  generalize hk : (if bits = 0 then 64 else bits) - 1 = k
  have hP : ((2 ^ k : Nat) : Int) = (2 : Int) ^ k := by simp
  rw [← hP]
  have hpos : 0 < (2 ^ k : Nat) := Nat.two_pow_pos k
  cases s with
  | nil => rfl
  | cons c tl =>
    by_cases h2 : c = 0x2D
    · subst h2
      rw [IntText.parseInt0_minus, specText_minus, hk]
      generalize (2 ^ k : Nat) = P at hpos ⊢
      cases IntText.parseInt0.parseUintAny tl with
      | none => rfl
      | some un =>
        simp only [Option.bind_some, Option.map_some]
        by_cases h : un > P
        · rw [if_pos h, if_neg (by omega)]
        · rw [if_neg h, if_pos (by omega)]
    · by_cases h1 : c = 0x2B
      · subst h1
        rw [parseInt0_plus, specText_plus, hk]
        generalize (2 ^ k : Nat) = P at hpos ⊢
        cases IntText.parseInt0.parseUintAny tl with
        | none => rfl
        | some un =>
          simp only [Option.bind_some, Option.map_some]
          by_cases h : un ≥ P
          · rw [if_pos h, if_neg (by omega)]
          · rw [if_neg h, if_pos (by omega)]
      · rw [IntText.parseInt0_nosign tl bits h1 h2, specText_nosign tl h1 h2, hk]
        generalize (2 ^ k : Nat) = P at hpos ⊢
        cases IntText.parseInt0.parseUintAny (c :: tl) with
        | none => rfl
        | some un =>
          simp only [Option.bind_some, Option.map_some]
          by_cases h : un ≥ P
          · rw [if_pos h, if_neg (by omega)]
          · rw [if_neg h, if_pos (by omega)]

theorem parseUintAny_sign (c : UInt8) (tl : Bytes) (h : c = 0x2D ∨ c = 0x2B) :
    IntText.parseInt0.parseUintAny (c :: tl) = none := by
  rw [IntText.parseUintAny_eq]
  have hc : c ≠ 0x30 := by rcases h with rfl | rfl <;> decide
  rw [IntText.basePrefix_of_ne _ hc]
  have hd : IntText.digitVal c = none := by rcases h with rfl | rfl <;> decide
  have hu : (c == 0x5F) = false := by rcases h with rfl | rfl <;> decide
  simp [IntText.digitsVal, hd, hu]

/-- `strconv.ParseUint(s, 0, bits)`: no sign is accepted; otherwise the specification's reading followed by the
    unsigned range check. -/
theorem parseUint0_some_spec {s : Bytes} {bits n : Nat} (h : IntText.parseUint0 s bits = some n) :
    specText s = some (n : Int) ∧ n < 2 ^ (if bits = 0 then 64 else bits) := by
  rw [IntText.parseUint0_eq_bind] at h
  cases s with
  | nil => simp [IntText.parseUintAny_eq] at h
  | cons c tl =>
    by_cases h2 : c = 0x2D
    · rw [parseUintAny_sign c tl (Or.inl h2)] at h; cases h
    · by_cases h1 : c = 0x2B
      · rw [parseUintAny_sign c tl (Or.inr h1)] at h; cases h
      · rw [specText_nosign tl h1 h2]
        cases hp : IntText.parseInt0.parseUintAny (c :: tl) with
        | none => rw [hp] at h; cases h
        | some m =>
          rw [hp] at h
          simp only [Option.bind_some] at h
          by_cases hm : m < 2 ^ (if bits = 0 then 64 else bits)
          · rw [if_pos hm] at h; cases h; exact ⟨rfl, hm⟩
          · rw [if_neg hm] at h; cases h


/-- What the integer caster of `t` reads of a string: `strconv.ParseInt` / `ParseUint` in base 0 at `t`'s width. -/
def textVal (t : IntTy) (s : Bytes) : Option Int :=
  if t.signed then IntText.parseInt0 s t.bits
  else (IntText.parseUint0 s t.bits).map fun (n : Nat) => (n : Int)

theorem bits_if (t : IntTy) : (if t.bits = 0 then 64 else t.bits) = t.bits := if_neg (bits_pos t)

theorem textVal_some {t : IntTy} {s : Bytes} {v : Int} (h : textVal t s = some v) :
    specText s = some v ∧ t.inRange v := by
  unfold textVal at h
  by_cases hs : t.signed = true
  · rw [if_pos hs, parseInt0_eq_spec, bits_if] at h
    cases hp : specText s with
    | none => rw [hp] at h; cases h
    | some w =>
      rw [hp] at h
      simp only [Option.bind_some] at h
      by_cases hr : -(2 ^ (t.bits - 1) : Int) ≤ w ∧ w < 2 ^ (t.bits - 1)
      · rw [if_pos hr] at h
        have hv : w = v := Option.some.inj h
        subst hv
        exact ⟨rfl, (inRange_signed_iff t hs w).mpr hr⟩
      · rw [if_neg hr] at h; cases h
  · have hs' : t.signed = false := by simpa using hs
    rw [if_neg hs] at h
    cases hp : IntText.parseUint0 s t.bits with
    | none => rw [hp] at h; cases h
    | some n =>
      rw [hp] at h
      simp only [Option.map_some] at h
      have hv : (n : Int) = v := Option.some.inj h
      subst hv
      obtain ⟨h1, h2⟩ := parseUint0_some_spec hp
      rw [bits_if] at h2
      refine ⟨h1, (inRange_unsigned_iff t hs' _).mpr ⟨by omega, ?_⟩⟩
      have : ((2 ^ t.bits : Nat) : Int) = (2 : Int) ^ t.bits := by simp
      rw [← this]; omega

theorem parseInt0_bits (s : Bytes) (b₁ b₂ : Nat)
    (h : (if b₁ = 0 then 64 else b₁) = (if b₂ = 0 then 64 else b₂)) :
    IntText.parseInt0 s b₁ = IntText.parseInt0 s b₂ := by
  rw [parseInt0_eq_spec, parseInt0_eq_spec s b₂, h]

theorem parseUint0_bits (s : Bytes) (b₁ b₂ : Nat)
    (h : (if b₁ = 0 then 64 else b₁) = (if b₂ = 0 then 64 else b₂)) :
    IntText.parseUint0 s b₁ = IntText.parseUint0 s b₂ := by
  rw [IntText.parseUint0_eq_bind, IntText.parseUint0_eq_bind s b₂, h]

/-- ANY text cast to an integer type: what `strconv` reads at the target's width, or the cast failure — at any
    fuel ≥ 2. -/
theorem call_text_any (T : CastTables) (ext : Ext) (name : String) (c : Caster) (tgt : IntTy) (s : Bytes)
    (fuel : Nat)
    (hc : T.casters.find? (fun c => c.name == name) = some c)
    (hspec : textBranchSpec T tgt (findClause c .str)) :
    callNamed T ext (fuel + 2) name (.str s) =
      match textVal tgt s with
      | some v => .ok (.int tgt v)
      | none => .err .cast := by
  unfold callNamed
  simp only [hc, typeOf]
  generalize findClause c .str = br at hspec
  unfold textBranchSpec at hspec
  split at hspec
  · obtain ⟨hsig, rfl, hbits, he, hs⟩ := hspec
    rename_i bits e s'
    simp only [evalBranch, runParse, failWith, hs]
    have hb : (if bits = 0 then 64 else bits) = (if tgt.bits = 0 then 64 else tgt.bits) := by
      rw [bits_if]
      rcases hbits with h | ⟨h0, h64⟩
      · subst h; simp [bits_pos]
      · subst h0; simp [h64]
    have htv : textVal tgt s = IntText.parseInt0 s tgt.bits := by unfold textVal; rw [if_pos hsig]
    rw [parseInt0_bits s bits tgt.bits hb]
    cases hp : IntText.parseInt0 s tgt.bits with
    | none => simp [htv, hp]
    | some v =>
      have hr := (textVal_some (htv.trans hp)).2
      rcases he with rfl | ⟨rfl, rfl⟩ <;> simp [htv, hp, evalE, wrap_of_inRange _ _ hr]
  · obtain ⟨hsig, rfl, hbits, he, hs⟩ := hspec
    rename_i bits e s'
    simp only [evalBranch, runParse, failWith, hs]
    have hb : (if bits = 0 then 64 else bits) = (if tgt.bits = 0 then 64 else tgt.bits) := by
      rw [bits_if]
      rcases hbits with h | ⟨h0, h64⟩
      · subst h; simp [bits_pos]
      · subst h0; simp [h64]
    have htv : textVal tgt s = (IntText.parseUint0 s tgt.bits).map fun (n : Nat) => (n : Int) := by
      unfold textVal; rw [if_neg (by simp [hsig])]
    rw [parseUint0_bits s bits tgt.bits hb]
    cases hp : IntText.parseUint0 s tgt.bits with
    | none => simp [htv, hp]
    | some n =>
      have hr := (textVal_some (htv.trans (by rw [hp]; rfl))).2
      rcases he with rfl | ⟨rfl, rfl⟩ <;> simp [htv, hp, evalE, wrap_of_inRange _ _ hr]
  · exact absurd hspec id


/-- C09's oracle never fires on ANY text carried by a string, at any fuel ≥ 2. -/
theorem str_no_violation (ext : Ext) (tgt : IntTy) (s : Bytes) (fuel : Nat) :
    CastSpec.intCastViolation tgt (.str s)
      (callNamed genTables ext (fuel + 2) (casterOfInt tgt) (.str s)) = none := by
  cases hcd : CastSpec.canonicalDecimal s with
  | some v =>
    have hs := IntText.eq_formatInt_of_canonicalDecimal hcd
    subst hs
    rw [call_text_source genTables ext _ _ tgt v fuel (caster_present tgt) (text_branches_ok tgt)]
    by_cases h : tgt.inRange v <;>
      simp [CastSpec.intCastViolation, CastSpec.numVal, IntText.canonicalDecimal_formatInt, h]
  | none =>
    rw [call_text_any genTables ext _ _ tgt s fuel (caster_present tgt) (text_branches_ok tgt)]
    unfold CastSpec.intCastViolation
    rw [numVal_str, hcd]
    cases htv : textVal tgt s with
    | none => cases specText s <;> rfl
    | some v =>
      obtain ⟨h1, h2⟩ := textVal_some htv
      rw [h1]
      simp [h2]

/-- … nor on a json.Number. -/
theorem num_no_violation (ext : Ext) (tgt : IntTy) (s : Bytes) :
    CastSpec.intCastViolation tgt (.num s)
      (castNamed genTables ext (casterOfInt tgt) (.num s)) = none := by
  have hnum := num_branches_ok tgt
  have hcast : castNamed genTables ext (casterOfInt tgt) (.num s) =
      callNamed genTables ext 22 (casterOfInt tgt) (.str s) := by
    conv => lhs; unfold castNamed callNamed
    simp only [caster_present tgt, typeOf]
    generalize findClause (casterOf genTables (casterOfInt tgt)) .num = br at hnum
    unfold numBranchSpec at hnum
    split at hnum
    · subst hnum
      simp only [evalBranch, evalE]
    · exact absurd hnum id
  rw [hcast]
  have := str_no_violation ext tgt s 20
  unfold CastSpec.intCastViolation at this ⊢
  rw [numVal_num]
  exact this

/-! ## 1. The integer getters on a cell that carries an integer -/

/-- The stored raw value carries the integer `v`: a Go integer of any of the ten types (within its type),
    the canonical decimal text of `v` in a string or a json.Number, or a float whose value is the integer `v`. -/
inductive Carries : Dyn → Int → Prop
  | int (s : IntTy) (v : Int) (h : s.inRange v) : Carries (.int s v) v
  | text (v : Int) : Carries (.str (IntText.formatInt v)) v
  | number (v : Int) : Carries (.num (IntText.formatInt v)) v
  | f64 (b : Nat) (v : Int) (neg : Bool) (h : Float.toFVal Float.f64 b = .fin v false neg) : Carries (.f64 b) v
  | f32 (b : Nat) (v : Int) (neg : Bool) (h : Float.toFVal Float.f32 b = .fin v false neg) : Carries (.f32 b) v

theorem floatFits_integral (t : IntTy) (tr : Int) (neg : Bool) :
    FloatFits t (.fin tr false neg) ↔ t.inRange tr := by
  simp [FloatFits]

theorem cast_f64 (ext : Ext) (t : IntTy) (b : Nat) :
    castNamed genTables ext (casterOfInt t) (.f64 b) =
      if FloatFits t (Float.toFVal Float.f64 b) then .ok (.int t (truncOf (Float.toFVal Float.f64 b)))
      else .err .cast :=
  cast_float_exact genTables ext _ _ t (.f64 b) _ b (Or.inl ⟨rfl, rfl⟩) (caster_present t)
    (float64_branches_exact t)

theorem cast_f32 (ext : Ext) (t : IntTy) (b : Nat) :
    castNamed genTables ext (casterOfInt t) (.f32 b) =
      if FloatFits t (Float.toFVal Float.f32 b) then .ok (.int t (truncOf (Float.toFVal Float.f32 b)))
      else .err .cast :=
  cast_float_exact genTables ext _ _ t (.f32 b) _ b (Or.inr ⟨rfl, rfl⟩) (caster_present t)
    (float32_branches_exact t)

/-- The caster on a value that carries `v`: exactly `v` when it fits, the cast failure otherwise — the same verdict
    whatever the carrier. -/
theorem cast_of_carries (ext : Ext) (t : IntTy) {raw : Dyn} {v : Int} (h : Carries raw v) :
    castNamed genTables ext (casterOfInt t) raw =
      if t.inRange v then .ok (.int t v) else .err .cast := by
  cases h with
  | int s v hv =>
    exact cast_int_source genTables ext _ _ t s v (caster_present t) (int_branches_ok t s) hv
  | text v =>
    exact call_text_source genTables ext _ _ t v 22 (caster_present t) (text_branches_ok t)
  | number v =>
    exact cast_num_source genTables ext _ t v (caster_present t) (text_branches_ok t) (num_branches_ok t)
  | f64 b v neg hb =>
    rw [cast_f64, hb]
    by_cases hr : t.inRange v
    · rw [if_pos ((floatFits_integral t v neg).mpr hr), if_pos hr]; rfl
    · rw [if_neg (fun hf => hr ((floatFits_integral t v neg).mp hf)), if_neg hr]
  | f32 b v neg hb =>
    rw [cast_f32, hb]
    by_cases hr : t.inRange v
    · rw [if_pos ((floatFits_integral t v neg).mpr hr), if_pos hr]; rfl
    · rw [if_neg (fun hf => hr ((floatFits_integral t v neg).mp hf)), if_neg hr]

/-- **Target 1.** A row whose cell under `k` carries the integer `v` — as a Go integer `.int s v` of any of the ten
    types, as canonical decimal text, as a json.Number, or as an integral float: the integer getter of type `t`
    answers `v` when `v` fits `t`, and `0` otherwise. Never a wrapped value, never an error, never a panic. -/
theorem int_getter_exact_or_zero (ext : Ext) (t : IntTy) (row : List (Bytes × Val)) (k : Bytes)
    (raw : Dyn) (v : Int) (hk : (Value.lookup row k).map Cells.raw = some raw) (hc : Carries raw v) :
    Getters.typedGet ⟨genTables, ext⟩ (getterOfInt t) row k =
      some (if t.inRange v then .ok (.int t v) else .ok (.int t 0)) := by
  rw [typedGet_int, getOrNil_of_lookup hk, cast_of_carries ext t hc, answer_exact]
  by_cases h : t.inRange v <;> simp [h]

/-- The Go-integer carrier, spelled out. -/
theorem int_getter_int_source (ext : Ext) (t s : IntTy) (v : Int) (hv : s.inRange v)
    (row : List (Bytes × Val)) (k : Bytes) (hk : (Value.lookup row k).map Cells.raw = some (.int s v)) :
    Getters.typedGet ⟨genTables, ext⟩ (getterOfInt t) row k =
      some (if t.inRange v then .ok (.int t v) else .ok (.int t 0)) :=
  int_getter_exact_or_zero ext t row k _ v hk (.int s v hv)

/-- Canonical decimal text in a string. -/
theorem int_getter_text_source (ext : Ext) (t : IntTy) (v : Int)
    (row : List (Bytes × Val)) (k : Bytes)
    (hk : (Value.lookup row k).map Cells.raw = some (.str (IntText.formatInt v))) :
    Getters.typedGet ⟨genTables, ext⟩ (getterOfInt t) row k =
      some (if t.inRange v then .ok (.int t v) else .ok (.int t 0)) :=
  int_getter_exact_or_zero ext t row k _ v hk (.text v)

/-- Canonical decimal text in a json.Number. -/
theorem int_getter_number_source (ext : Ext) (t : IntTy) (v : Int)
    (row : List (Bytes × Val)) (k : Bytes)
    (hk : (Value.lookup row k).map Cells.raw = some (.num (IntText.formatInt v))) :
    Getters.typedGet ⟨genTables, ext⟩ (getterOfInt t) row k =
      some (if t.inRange v then .ok (.int t v) else .ok (.int t 0)) :=
  int_getter_exact_or_zero ext t row k _ v hk (.number v)

theorem answer_float (t : IntTy) (x : FVal) :
    answer (.int t) (if FloatFits t x then .ok (.int t (truncOf x)) else .err .cast) =
      .ok (.int t (if FloatFits t x then truncOf x else 0)) := by
  by_cases h : FloatFits t x <;> simp [h, answer, typeOf, Getters.zeroOf]

/-- float64 carriers, every bit pattern: the truncation toward zero when `FloatFits` (finite, truncation in range,
    value not below the type's minimum), else 0 — NaN, ±Inf, out of range, and the fractional values in (MIN-1, MIN). -/
theorem int_getter_float64 (ext : Ext) (t : IntTy) (b : Nat)
    (row : List (Bytes × Val)) (k : Bytes) (hk : (Value.lookup row k).map Cells.raw = some (.f64 b)) :
    Getters.typedGet ⟨genTables, ext⟩ (getterOfInt t) row k =
      some (.ok (.int t (if FloatFits t (Float.toFVal Float.f64 b)
                         then truncOf (Float.toFVal Float.f64 b) else 0))) := by
  rw [typedGet_int, getOrNil_of_lookup hk, cast_f64, answer_float]

/-- float32 carriers, every bit pattern. -/
theorem int_getter_float32 (ext : Ext) (t : IntTy) (b : Nat)
    (row : List (Bytes × Val)) (k : Bytes) (hk : (Value.lookup row k).map Cells.raw = some (.f32 b)) :
    Getters.typedGet ⟨genTables, ext⟩ (getterOfInt t) row k =
      some (.ok (.int t (if FloatFits t (Float.toFVal Float.f32 b)
                         then truncOf (Float.toFVal Float.f32 b) else 0))) := by
  rw [typedGet_int, getOrNil_of_lookup hk, cast_f32, answer_float]

/-- `FloatFits` read case by case: NaN and ±Inf never; an integral value iff it is in range; a positive fractional
    value iff its truncation is in range; a negative fractional value iff its truncation is in range and is not the
    minimum of the type (the value itself would be below it). -/
theorem floatFits_cases (t : IntTy) :
    ¬ FloatFits t .nan ∧ (∀ n, ¬ FloatFits t (.inf n)) ∧
    (∀ tr neg, FloatFits t (.fin tr false neg) ↔ t.inRange tr) ∧
    (∀ tr, FloatFits t (.fin tr true false) ↔ t.inRange tr) ∧
    (∀ tr, FloatFits t (.fin tr true true) ↔ (t.inRange tr ∧ tr ≠ t.min)) := by
  refine ⟨fun h => h, fun n h => h, fun tr neg => floatFits_integral t tr neg, ?_, ?_⟩ <;>
    intro tr <;> simp [FloatFits]

/-- A float answer that is not zero is the truncation of the stored float, and fits. -/
theorem int_getter_float_nonzero (ext : Ext) (t : IntTy) (raw : Dyn) (x : FVal)
    (hx : (∃ b, raw = .f64 b ∧ x = Float.toFVal Float.f64 b) ∨ (∃ b, raw = .f32 b ∧ x = Float.toFVal Float.f32 b))
    (row : List (Bytes × Val)) (k : Bytes) (hk : (Value.lookup row k).map Cells.raw = some raw)
    (r : Int) (hr : r ≠ 0)
    (h : Getters.typedGet ⟨genTables, ext⟩ (getterOfInt t) row k = some (.ok (.int t r))) :
    ∃ tr frac neg, x = .fin tr frac neg ∧ r = tr ∧ t.inRange tr := by
  have key : Getters.typedGet ⟨genTables, ext⟩ (getterOfInt t) row k =
      some (.ok (.int t (if FloatFits t x then truncOf x else 0))) := by
    rcases hx with ⟨b, rfl, rfl⟩ | ⟨b, rfl, rfl⟩
    · exact int_getter_float64 ext t b row k hk
    · exact int_getter_float32 ext t b row k hk
  rw [key] at h
  have h' : (if FloatFits t x then truncOf x else 0) = r := by
    injection h with h; injection h with h; injection h
  by_cases hf : FloatFits t x
  · rw [if_pos hf] at h'
    cases x with
    | fin tr frac neg => exact ⟨tr, frac, neg, rfl, h'.symm, hf.1⟩
    | nan => exact absurd hf id
    | inf n => exact absurd hf id
  · rw [if_neg hf] at h'; exact absurd h'.symm hr

/-! ## 2. Never a wrapped value: the oracle's statement, for every stored raw value -/

/-- The one requirement on a raw value: a Go integer it IS lies in the range of its own Go type (an `int8` cannot
    hold 65537; the constructor `Dyn.int` can). Nothing is asked of any other kind of value. -/
def IntCarrierOK (raw : Dyn) : Prop := ∀ s v, raw = .int s v → s.inRange v

/-- C09's oracle on the integer caster of `t` and ANY raw value: it never fires — integers, every float bit pattern,
    booleans, ANY text in a string or a json.Number (canonical or not, numeric or not), and everything that carries
    no number. -/
theorem int_cast_no_violation (ext : Ext) (t : IntTy) (raw : Dyn) (hraw : IntCarrierOK raw) :
    CastSpec.intCastViolation t raw (castNamed genTables ext (casterOfInt t) raw) = none := by
  cases raw with
  | int s v =>
    rw [cast_int_source genTables ext _ _ t s v (caster_present t) (int_branches_ok t s) (hraw s v rfl)]
    by_cases h : t.inRange v <;> simp [CastSpec.intCastViolation, CastSpec.numVal, h]
  | f64 b =>
    rw [cast_f64]
    simp only [CastSpec.intCastViolation, CastSpec.numVal]
    cases hx : Float.toFVal Float.f64 b with
    | nan => simp [FloatFits]
    | inf n => simp [FloatFits]
    | fin tr frac neg =>
      by_cases hf : FloatFits t (.fin tr frac neg)
      · have hin : t.inRange tr := hf.1
        cases frac <;> simp [hf, hin, truncOf]
      · have hno : frac = false → ¬ t.inRange tr := by
          intro h0 hin; subst h0; exact hf ((floatFits_integral t tr neg).mpr hin)
        cases frac
        · simp [hf, hno rfl]
        · simp [hf]
  | f32 b =>
    rw [cast_f32]
    simp only [CastSpec.intCastViolation, CastSpec.numVal]
    cases hx : Float.toFVal Float.f32 b with
    | nan => simp [FloatFits]
    | inf n => simp [FloatFits]
    | fin tr frac neg =>
      by_cases hf : FloatFits t (.fin tr frac neg)
      · have hin : t.inRange tr := hf.1
        cases frac <;> simp [hf, hin, truncOf]
      · have hno : frac = false → ¬ t.inRange tr := by
          intro h0 hin; subst h0; exact hf ((floatFits_integral t tr neg).mpr hin)
        cases frac
        · simp [hf, hno rfl]
        · simp [hf]
  | bool b =>
    rw [cast_bool_source genTables ext _ _ t b (caster_present t) (bool_branches_ok t)]
    cases t <;> cases b <;> decide
  | str s => exact str_no_violation ext t s 22
  | num s => exact num_no_violation ext t s
  | _ => rfl

/-- **Target 2.** Whatever the stored raw value is: if an integer getter answers a non-zero integer `r`, then
    `r` is accepted by C09's oracle as the cast of that raw value (`CastSpec.intCastViolation … = none`): it is the
    integer the cell carries (exactly; the truncation for a fractional float) and it fits — never a wrapped one.
    This is the check `Driver/PathCase.runGetter` applies to the implementation, proved of the model. -/
theorem int_getter_never_wraps (ext : Ext) (t : IntTy) (row : List (Bytes × Val)) (k : Bytes)
    (raw : Dyn) (hk : (Value.lookup row k).map Cells.raw = some raw) (hraw : IntCarrierOK raw)
    (r : Int) (hr : r ≠ 0)
    (h : Getters.typedGet ⟨genTables, ext⟩ (getterOfInt t) row k = some (.ok (.int t r))) :
    CastSpec.intCastViolation t raw (.ok (.int t r)) = none := by
  have hv := int_cast_no_violation ext t raw hraw
  rw [typedGet_int, getOrNil_of_lookup hk] at h
  have h' : answer (.int t) (castNamed genTables ext (casterOfInt t) raw) = .ok (.int t r) :=
    Option.some.inj h
  cases hc : castNamed genTables ext (casterOfInt t) raw with
  | ok x =>
    rw [hc] at h' hv
    unfold answer at h'
    simp only at h'
    by_cases hty : (typeOf x == Ty.int t) = true
    · rw [if_pos hty] at h'
      have : x = .int t r := Outcome.ok.inj h'
      rw [← this]; exact hv
    · rw [if_neg hty] at h'
      have : Getters.zeroOf (.int t) = .int t r := Outcome.ok.inj h'
      have : (0 : Int) = r := by simpa [Getters.zeroOf] using this
      exact absurd this.symm hr
  | err e =>
    rw [hc] at h'
    cases e <;> simp [answer, Getters.zeroOf] at h' <;> exact absurd h'.symm hr
  | panic s =>
    rw [hc] at h'
    simp [answer] at h'

/-- The same, unfolded for the three kinds of carrier that hold an integer: a non-zero answer IS the carried integer,
    and it fits the getter's type. -/
theorem int_getter_nonzero_is_value (ext : Ext) (t : IntTy) (row : List (Bytes × Val)) (k : Bytes)
    (raw : Dyn) (v : Int) (hk : (Value.lookup row k).map Cells.raw = some raw) (hc : Carries raw v)
    (r : Int) (hr : r ≠ 0)
    (h : Getters.typedGet ⟨genTables, ext⟩ (getterOfInt t) row k = some (.ok (.int t r))) :
    r = v ∧ t.inRange v := by
  rw [int_getter_exact_or_zero ext t row k raw v hk hc] at h
  by_cases hin : t.inRange v
  · rw [if_pos hin] at h
    have : v = r := by injection h with h; injection h with h; injection h
    exact ⟨this.symm, hin⟩
  · rw [if_neg hin] at h
    have : (0 : Int) = r := by injection h with h; injection h with h; injection h
    exact absurd this.symm hr


/-! ## 3. Absent key, nil, nested row, array, map, foreign value: the zero value (all sixteen getters) -/

theorem lookup_mem {name : String} {c : String} {ty : Ty} (h : Getters.table.lookup name = some (c, ty)) :
    (name, c, ty) ∈ Getters.table := by
  have : ∀ (l : List (String × String × Ty)), l.lookup name = some (c, ty) → (name, c, ty) ∈ l := by
    intro l
    induction l with
    | nil => intro h; simp [List.lookup] at h
    | cons hd tl ih =>
      intro h
      obtain ⟨a, b⟩ := hd
      simp only [List.lookup] at h
      split at h
      · rename_i heq
        have : name = a := by simpa using heq
        cases h; subst this; simp
      · exact List.mem_cons_of_mem _ (ih h)
  exact this _ h

/-- Values no caster of a getter converts: containers, rows used as data, and values of a type jsonline has no
    case for. (`[N]byte` is the one `other`-typed value a caster — `ToBinary` — does convert; it is not here.) -/
inductive Unconvertible : Dyn → Prop
  | arr (xs : DynList) : Unconvertible (.arr xs)
  | gomap (m : DynMap) : Unconvertible (.gomap m)
  | val (v : Val) : Unconvertible (.val v)
  | other (tag : Nat) : Unconvertible (.other tag)

set_option maxRecDepth 8192 in
set_option maxHeartbeats 1600000 in
theorem unconvertible_cast_fails (ext : Ext) (x : Dyn) (hx : Unconvertible x) :
    ∀ e ∈ Getters.table, castNamed genTables ext e.2.1 x = .err .cast := by
  intro e he
  simp only [Getters.table, List.mem_cons, List.not_mem_nil, or_false] at he
  cases hx <;>
  rcases he with rfl | rfl | rfl | rfl | rfl | rfl | rfl | rfl | rfl | rfl | rfl | rfl | rfl | rfl | rfl | rfl <;>
  simp [castNamed, callNamed, genTables, Gen.casters, findClause, typeOf, evalBranch, special, failWith,
    wrapsRoot, Gen.sentinels]

theorem getter_type_ne_none : ∀ e ∈ Getters.table, e.2.2 ≠ .none := by decide

theorem getter_casters_known : ∀ e ∈ Getters.table, e.2.1 ∈ casterNames := by decide

/-- A nested row's `Raw()` is a Go map. -/
theorem raw_row (ms : Members) : Unconvertible (Cells.raw (.row ms)) := by
  unfold Cells.raw
  exact .gomap _

/-- **Target 3.** Every one of the sixteen getters answers the zero value of its type when the key is absent, when
    the cell holds nil (JSON null), and when it holds something no caster converts: an array, a map, a row (nested
    row as a value, or a `Row` kept as data by an Auto column), a value of a foreign type. -/
theorem getter_zero_of_unconvertible (ext : Ext) (name caster : String) (ty : Ty)
    (h : Getters.table.lookup name = some (caster, ty)) (row : List (Bytes × Val)) (k : Bytes)
    (hraw : Getters.getOrNil row k = .nil ∨ Unconvertible (Getters.getOrNil row k)) :
    Getters.typedGet ⟨genTables, ext⟩ name row k = some (.ok (Getters.zeroOf ty)) := by
  have hm := lookup_mem h
  rw [typedGet_eq ⟨genTables, ext⟩ name caster ty h]
  rcases hraw with hnil | hun
  · rw [hnil, gen_cast_nil ext caster (getter_casters_known _ hm)]
    have hne : ty ≠ .none := getter_type_ne_none _ hm
    have : (typeOf Dyn.nil == ty) = false := by
      cases ty <;> first | rfl | exact absurd rfl hne
    simp [answer, this]
  · rw [unconvertible_cast_fails ext _ hun _ hm]
    rfl

/-- Absent key. -/
theorem getter_absent_key (ext : Ext) (name caster : String) (ty : Ty)
    (h : Getters.table.lookup name = some (caster, ty)) (row : List (Bytes × Val)) (k : Bytes)
    (hk : Value.lookup row k = none) :
    Getters.typedGet ⟨genTables, ext⟩ name row k = some (.ok (Getters.zeroOf ty)) :=
  getter_zero_of_unconvertible ext name caster ty h row k (Or.inl (getOrNil_absent hk))

/-- A cell holding nil. -/
theorem getter_nil_value (ext : Ext) (name caster : String) (ty : Ty)
    (h : Getters.table.lookup name = some (caster, ty)) (row : List (Bytes × Val)) (k : Bytes)
    (f : Format) (typ : Ty) (hk : Value.lookup row k = some (.cell .nil f typ)) :
    Getters.typedGet ⟨genTables, ext⟩ name row k = some (.ok (Getters.zeroOf ty)) :=
  getter_zero_of_unconvertible ext name caster ty h row k
    (Or.inl (getOrNil_of_lookup (by rw [hk]; rfl)))

/-- A nested row. -/
theorem getter_nested_row (ext : Ext) (name caster : String) (ty : Ty)
    (h : Getters.table.lookup name = some (caster, ty)) (row : List (Bytes × Val)) (k : Bytes)
    (ms : Members) (hk : Value.lookup row k = some (.row ms)) :
    Getters.typedGet ⟨genTables, ext⟩ name row k = some (.ok (Getters.zeroOf ty)) := by
  refine getter_zero_of_unconvertible ext name caster ty h row k (Or.inr ?_)
  rw [getOrNil_of_lookup (raw := Cells.raw (.row ms)) (by rw [hk]; rfl)]
  exact raw_row ms

/-- An array (`[]interface{}`) in a cell. -/
theorem getter_array (ext : Ext) (name caster : String) (ty : Ty)
    (h : Getters.table.lookup name = some (caster, ty)) (row : List (Bytes × Val)) (k : Bytes)
    (xs : DynList) (f : Format) (typ : Ty) (hk : Value.lookup row k = some (.cell (.arr xs) f typ)) :
    Getters.typedGet ⟨genTables, ext⟩ name row k = some (.ok (Getters.zeroOf ty)) := by
  refine getter_zero_of_unconvertible ext name caster ty h row k (Or.inr ?_)
  rw [getOrNil_of_lookup (raw := .arr xs) (by rw [hk]; rfl)]
  exact .arr xs

/-- The zero values of the ten integer getters, spelled out: `0` of the getter's type. -/
theorem int_getter_zero (ext : Ext) (t : IntTy) (row : List (Bytes × Val)) (k : Bytes)
    (hraw : Getters.getOrNil row k = .nil ∨ Unconvertible (Getters.getOrNil row k)) :
    Getters.typedGet ⟨genTables, ext⟩ (getterOfInt t) row k = some (.ok (.int t 0)) :=
  getter_zero_of_unconvertible ext _ _ _ (table_int t) row k hraw

/-! ## 4. The other getters, and all sixteen at once -/

theorem getter_zero_typed : ∀ e ∈ Getters.table, typeOf (Getters.zeroOf e.2.2) = e.2.2 := by decide

/-- Every typed getter, on every row and key (restated from `Props/C17.getter_total_and_typed`): never a panic, a
    result of exactly the getter's type; `err .ext` only where the model abstains (a stdlib answer not supplied). -/
theorem getter_total_and_typed (ext : Ext) (name caster : String) (ty : Ty)
    (h : Getters.table.lookup name = some (caster, ty)) (row : List (Bytes × Val)) (k : Bytes) :
    ∃ o, Getters.typedGet ⟨genTables, ext⟩ name row k = some o ∧
      match o with
      | .ok r => typeOf r = ty
      | .err e => e = .ext
      | .panic _ => False := by
  have hm := lookup_mem h
  have hz : typeOf (Getters.zeroOf ty) = ty := getter_zero_typed _ hm
  have hc : caster ∈ casterNames := getter_casters_known _ hm
  rw [typedGet_eq ⟨genTables, ext⟩ name caster ty h]
  refine ⟨_, rfl, ?_⟩
  unfold answer
  cases hr : castNamed genTables ext caster (Getters.getOrNil row k) with
  | ok r =>
    simp only
    by_cases hb : (typeOf r == ty) = true
    · simp only [hb, if_true]; simpa using hb
    · simp only [hb]; exact hz
  | err e =>
    cases e <;> simp [hz]
  | panic s => exact absurd hr (gen_cast_no_panic ext caster hc _ s)

/-- "The cast of the stored value, or the zero value": when the caster succeeds on a non-nil raw value the getter
    answers exactly the caster's result (it HAS the getter's type: C10); when the caster fails, or the value is nil,
    the zero value. -/
theorem getter_cast_or_zero (ext : Ext) (name caster : String) (ty : Ty)
    (h : Getters.table.lookup name = some (caster, ty)) (row : List (Bytes × Val)) (k : Bytes) :
    (∀ r, castNamed genTables ext caster (Getters.getOrNil row k) = .ok r → Getters.getOrNil row k ≠ .nil →
      typeOf r = ty ∧ Getters.typedGet ⟨genTables, ext⟩ name row k = some (.ok r)) ∧
    (castNamed genTables ext caster (Getters.getOrNil row k) = .err .cast →
      Getters.typedGet ⟨genTables, ext⟩ name row k = some (.ok (Getters.zeroOf ty))) ∧
    (castNamed genTables ext caster (Getters.getOrNil row k) = .err .ext →
      Getters.typedGet ⟨genTables, ext⟩ name row k = some (.err .ext)) ∧
    (∀ e, castNamed genTables ext caster (Getters.getOrNil row k) = .err e → e = .cast ∨ e = .ext) ∧
    (∀ s, castNamed genTables ext caster (Getters.getOrNil row k) ≠ .panic s) := by
  have hm := lookup_mem h
  have hc : caster ∈ casterNames := getter_casters_known _ hm
  have hres : resultTyOfCaster? caster = some ty := by
    revert hm
    have : ∀ e ∈ Getters.table, resultTyOfCaster? e.2.1 = some e.2.2 := by decide
    intro hm; exact this _ hm
  rw [typedGet_eq ⟨genTables, ext⟩ name caster ty h]
  refine ⟨?_, ?_, ?_, ?_, ?_⟩
  · intro r hr hne
    have hty := (gen_cast_typed ext caster hc _ r hr).2 hne
    rw [hres] at hty
    have hty' : typeOf r = ty := Option.some.inj hty
    refine ⟨hty', ?_⟩
    show some (answer ty (castNamed genTables ext caster (Getters.getOrNil row k))) = _
    rw [hr]
    simp [answer, hty']
  · intro he
    show some (answer ty (castNamed genTables ext caster (Getters.getOrNil row k))) = _
    rw [he]; rfl
  · intro he
    show some (answer ty (castNamed genTables ext caster (Getters.getOrNil row k))) = _
    rw [he]; rfl
  · intro e he; exact gen_cast_err ext caster hc _ e he
  · intro s; exact gen_cast_no_panic ext caster hc _ s

/-- GetFloat64: the `float64` the caster returns, or 0. -/
theorem getFloat64_eq (ext : Ext) (row : List (Bytes × Val)) (k : Bytes) :
    Getters.typedGet ⟨genTables, ext⟩ "GetFloat64" row k =
      some (match castNamed genTables ext "ToFloat64" (Getters.getOrNil row k) with
            | .ok (.f64 b) => .ok (.f64 b)
            | .err .ext => .err .ext
            | _ => .ok (.f64 0)) := by
  rw [typedGet_eq ⟨genTables, ext⟩ "GetFloat64" "ToFloat64" .f64 rfl]
  cases hc : castNamed genTables ext "ToFloat64" (Getters.getOrNil row k) with
  | ok r => cases r <;> rfl
  | err e => cases e <;> rfl
  | panic s => exact absurd hc (gen_cast_no_panic ext _ (by decide) _ s)

/-- GetFloat32: the `float32` the caster returns, or 0. -/
theorem getFloat32_eq (ext : Ext) (row : List (Bytes × Val)) (k : Bytes) :
    Getters.typedGet ⟨genTables, ext⟩ "GetFloat32" row k =
      some (match castNamed genTables ext "ToFloat32" (Getters.getOrNil row k) with
            | .ok (.f32 b) => .ok (.f32 b)
            | .err .ext => .err .ext
            | _ => .ok (.f32 0)) := by
  rw [typedGet_eq ⟨genTables, ext⟩ "GetFloat32" "ToFloat32" .f32 rfl]
  cases hc : castNamed genTables ext "ToFloat32" (Getters.getOrNil row k) with
  | ok r => cases r <;> rfl
  | err e => cases e <;> rfl
  | panic s => exact absurd hc (gen_cast_no_panic ext _ (by decide) _ s)

/-- GetBool: the `bool` the caster returns, or false. -/
theorem getBool_eq (ext : Ext) (row : List (Bytes × Val)) (k : Bytes) :
    Getters.typedGet ⟨genTables, ext⟩ "GetBool" row k =
      some (match castNamed genTables ext "ToBool" (Getters.getOrNil row k) with
            | .ok (.bool b) => .ok (.bool b)
            | .err .ext => .err .ext
            | _ => .ok (.bool false)) := by
  rw [typedGet_eq ⟨genTables, ext⟩ "GetBool" "ToBool" .bool rfl]
  cases hc : castNamed genTables ext "ToBool" (Getters.getOrNil row k) with
  | ok r => cases r <;> rfl
  | err e => cases e <;> rfl
  | panic s => exact absurd hc (gen_cast_no_panic ext _ (by decide) _ s)

/-- GetString: the `string` the caster returns, or "". -/
theorem getString_eq (ext : Ext) (row : List (Bytes × Val)) (k : Bytes) :
    Getters.typedGet ⟨genTables, ext⟩ "GetString" row k =
      some (match castNamed genTables ext "ToString" (Getters.getOrNil row k) with
            | .ok (.str s) => .ok (.str s)
            | .err .ext => .err .ext
            | _ => .ok (.str [])) := by
  rw [typedGet_eq ⟨genTables, ext⟩ "GetString" "ToString" .str rfl]
  cases hc : castNamed genTables ext "ToString" (Getters.getOrNil row k) with
  | ok r => cases r <;> rfl
  | err e => cases e <;> rfl
  | panic s => exact absurd hc (gen_cast_no_panic ext _ (by decide) _ s)

/-- GetBytes: the `[]byte` the caster returns, or the empty (nil) slice. -/
theorem getBytes_eq (ext : Ext) (row : List (Bytes × Val)) (k : Bytes) :
    Getters.typedGet ⟨genTables, ext⟩ "GetBytes" row k =
      some (match castNamed genTables ext "ToBinary" (Getters.getOrNil row k) with
            | .ok (.bytes s) => .ok (.bytes s)
            | .err .ext => .err .ext
            | _ => .ok (.bytes [])) := by
  rw [typedGet_eq ⟨genTables, ext⟩ "GetBytes" "ToBinary" .bytes rfl]
  cases hc : castNamed genTables ext "ToBinary" (Getters.getOrNil row k) with
  | ok r => cases r <;> rfl
  | err e => cases e <;> rfl
  | panic s => exact absurd hc (gen_cast_no_panic ext _ (by decide) _ s)

/-- GetTime: the `time.Time` the caster returns, or `time.Time{}` (January 1, year 1, UTC). -/
theorem getTime_eq (ext : Ext) (row : List (Bytes × Val)) (k : Bytes) :
    Getters.typedGet ⟨genTables, ext⟩ "GetTime" row k =
      some (match castNamed genTables ext "ToTime" (Getters.getOrNil row k) with
            | .ok (.time t) => .ok (.time t)
            | .err .ext => .err .ext
            | _ => .ok (.time ⟨-62135596800, 0, 0⟩)) := by
  rw [typedGet_eq ⟨genTables, ext⟩ "GetTime" "ToTime" .time rfl]
  cases hc : castNamed genTables ext "ToTime" (Getters.getOrNil row k) with
  | ok r => cases r <;> rfl
  | err e => cases e <;> rfl
  | panic s => exact absurd hc (gen_cast_no_panic ext _ (by decide) _ s)

/-- … and the ten integer getters in the same words: the integer of the getter's type the caster returns, or 0. -/
theorem getInt_eq (ext : Ext) (t : IntTy) (row : List (Bytes × Val)) (k : Bytes) :
    Getters.typedGet ⟨genTables, ext⟩ (getterOfInt t) row k =
      some (match castNamed genTables ext (casterOfInt t) (Getters.getOrNil row k) with
            | .ok (.int t' r) => if t' = t then .ok (.int t r) else .ok (.int t 0)
            | .err .ext => .err .ext
            | _ => .ok (.int t 0)) := by
  rw [typedGet_int]
  have hcn : casterOfInt t ∈ casterNames := by cases t <;> decide
  cases hc : castNamed genTables ext (casterOfInt t) (Getters.getOrNil row k) with
  | ok r =>
    cases r with
    | int t' r =>
      by_cases ht : t' = t
      · subst ht; simp [answer, typeOf]
      · simp [answer, typeOf, ht, Getters.zeroOf]
    | _ => rfl
  | err e => cases e <;> rfl
  | panic s => exact absurd hc (gen_cast_no_panic ext _ hcn _ s)


/-! ## 5. Non-vacuity, computed by the interpreter on the regenerated tables -/

/-- The one-cell row `{"v": x}` (an Auto cell without raw type, as the parser builds it). -/
def rowV (x : Dyn) : List (Bytes × Val) := [([0x76], .cell x .auto .none)]

/-- "70000" -/
def s70000 : Bytes := [0x37, 0x30, 0x30, 0x30, 0x30]

-- {"v": 128 (int)}
example : Getters.typedGet ⟨genTables, Ext.empty⟩ "GetInt8" (rowV (.int .int 128)) [0x76] =
    some (.ok (.int .i8 0)) := by rfl                       -- not -128
example : Getters.typedGet ⟨genTables, Ext.empty⟩ "GetInt16" (rowV (.int .int 128)) [0x76] =
    some (.ok (.int .i16 128)) := by rfl
example : Getters.typedGet ⟨genTables, Ext.empty⟩ "GetUint8" (rowV (.int .int 128)) [0x76] =
    some (.ok (.int .u8 128)) := by rfl
-- {"v": "70000"}
example : Getters.typedGet ⟨genTables, Ext.empty⟩ "GetInt16" (rowV (.str s70000)) [0x76] =
    some (.ok (.int .i16 0)) := by rfl                      -- not 4464
example : Getters.typedGet ⟨genTables, Ext.empty⟩ "GetInt32" (rowV (.str s70000)) [0x76] =
    some (.ok (.int .i32 70000)) := by rfl
example : Getters.typedGet ⟨genTables, Ext.empty⟩ "GetInt32" (rowV (.num s70000)) [0x76] =
    some (.ok (.int .i32 70000)) := by rfl
-- {"v": 4294967301 (int64)}
example : Getters.typedGet ⟨genTables, Ext.empty⟩ "GetUint32" (rowV (.int .i64 4294967301)) [0x76] =
    some (.ok (.int .u32 0)) := by rfl                      -- not 5
example : Getters.typedGet ⟨genTables, Ext.empty⟩ "GetUint64" (rowV (.int .i64 4294967301)) [0x76] =
    some (.ok (.int .u64 4294967301)) := by rfl
-- floats: 255.5 truncates, -0.5 and -128.5 are refused (→ 0), -128.0 is accepted, NaN → 0
example : Getters.typedGet ⟨genTables, Ext.empty⟩ "GetUint8" (rowV (.f64 0x406FF00000000000)) [0x76] =
    some (.ok (.int .u8 255)) := by rfl
example : Getters.typedGet ⟨genTables, Ext.empty⟩ "GetInt8" (rowV (.f64 0xC060000000000000)) [0x76] =
    some (.ok (.int .i8 (-128))) := by rfl
example : Getters.typedGet ⟨genTables, Ext.empty⟩ "GetInt8" (rowV (.f64 0xC060100000000000)) [0x76] =
    some (.ok (.int .i8 0)) := by rfl                       -- -128.5: truncation -128 fits, the value does not
example : Getters.typedGet ⟨genTables, Ext.empty⟩ "GetInt8" (rowV (.f64 0x7FF8000000000001)) [0x76] =
    some (.ok (.int .i8 0)) := by rfl
example : ¬ FloatFits .i8 (Float.toFVal Float.f64 0xC060100000000000) := by decide
example : FloatFits .i8 (Float.toFVal Float.f64 0xC060000000000000) := by decide
-- the same through the theorems: the hypotheses are satisfiable
example : Getters.typedGet ⟨genTables, Ext.empty⟩ (getterOfInt .i8) (rowV (.int .int 128)) [0x76] =
    some (.ok (.int .i8 0)) := by
  rw [int_getter_int_source Ext.empty .i8 .int 128 (by decide) _ _ rfl]; rfl
example : s70000 = IntText.formatInt 70000 := by
  simp [s70000, IntText.formatInt, IntText.natDigits, IntText.digitChar]
-- absent key, null, nested row, array
example : Getters.typedGet ⟨genTables, Ext.empty⟩ "GetInt32" (rowV (.int .int 1)) [0x77] =
    some (.ok (.int .i32 0)) := by rfl
example : Getters.typedGet ⟨genTables, Ext.empty⟩ "GetTime" (rowV .nil) [0x76] =
    some (.ok (.time ⟨-62135596800, 0, 0⟩)) := by rfl
example : Getters.typedGet ⟨genTables, Ext.empty⟩ "GetString" [([0x76], .row (.cons [0x61] (.cell (.int .int 1) .auto .none) .nil))] [0x76] =
    some (.ok (.str [])) := by rfl
example : Getters.typedGet ⟨genTables, Ext.empty⟩ "GetBytes" (rowV (.arr (.cons (.int .int 1) .nil))) [0x76] =
    some (.ok (.bytes [])) := by rfl
-- the hypothesis of `int_getter_never_wraps` is needed: an "int8" holding 65537 is not a Go value, and on it the
-- model's ToInt16 converts without a guard (int8 always fits int16)
example : Getters.typedGet ⟨genTables, Ext.empty⟩ "GetInt16" (rowV (.int .i8 65537)) [0x76] =
    some (.ok (.int .i16 1)) := by rfl
example : CastSpec.intCastViolation .i16 (.int .i8 65537) (.ok (.int .i16 1)) = some "out-of-range-accepted" := by
  rfl

/-! ## 6. The documented exception: `Row.MapTo` DOES wrap (restated from `Proofs/MapTo`) -/

/-- A settable signed-integer field of width `ft` whose `LcFirst` name the row holds with a signed Go integer `x`
    receives `ft.wrap x` — `reflect.SetInt`'s silent conversion: the low bits when `x` does not fit. -/
theorem mapTo_int_wraps (ext : Ext) (row : List (Bytes × Val)) (fs fs' : List MapTo.Field)
    (h : MapTo.mapTo genTables ext row (.pointerToStruct fs) = .ok (.pointerToStruct fs'))
    (i : Nat) (hi : i < fs.length) (hi' : i < fs'.length) (ft st : IntTy) (key : Bytes) (v : Val) (x : Int)
    (hset : fs[i].settable = true) (hkind : fs[i].kind = .int ft) (hft : ft.signed = true)
    (hkey : MapTo.lcFirst fs[i].name = some key) (hv : Value.lookup row key = some v)
    (hraw : Cells.raw v = .int st x) (hst : st.signed = true) (hx : st.inRange x) :
    fs'[i] = { fs[i] with current := .int ft (ft.wrap x) } :=
  MapTo.mapTo_int_value ext row fs fs' h i hi hi' ft st key v x hset hkind hft hkey hv hraw hst hx

/-- The contrast on one row `{"v": 300 (int)}`: `GetInt8("v")` is 0; an `int8` field `V` filled by `MapTo` is 44. -/
example :
    Getters.typedGet ⟨genTables, Ext.empty⟩ "GetInt8" (rowV (.int .int 300)) [0x76] = some (.ok (.int .i8 0)) ∧
    MapTo.mapTo genTables Ext.empty (rowV (.int .int 300))
        (.pointerToStruct [⟨[0x56], .int .i8, true, .int .i8 7⟩]) =
      .ok (.pointerToStruct [⟨[0x56], .int .i8, true, .int .i8 44⟩]) := by
  refine ⟨by rfl, by rfl⟩

end Jl.GettersExact
