/-
  Proofs.Civil — the proleptic-Gregorian day-number functions of Model.Time are mutually
  inverse (all years, all day numbers): item 1 of C14.

  Method: every day number / valid date is decomposed as (era, year-of-era, day-of-year,
  shifted month, day).  Year-of-era: Hinnant's closed form is monotone in the day-of-era
  (omega) and is right at the first and the last day of each of the 400 years of an era (a
  400-row kernel-checked table), hence right everywhere.  Months: omega after a 12-way split.
-/
import Model.Time

namespace Jl.Time

/-- A civil date that exists in the proleptic Gregorian calendar. -/
def ValidDate (y : Int) (m d : Nat) : Prop := 1 ≤ m ∧ m ≤ 12 ∧ 1 ≤ d ∧ d ≤ daysIn m y

instance (y : Int) (m d : Nat) : Decidable (ValidDate y m d) := by
  unfold ValidDate; infer_instance

/-! ### Year of era -/

def nOf (doe : Nat) : Nat := doe - doe / 1460 + doe / 36524 - doe / 146096
/-- Hinnant's year-of-era closed form, on naturals. -/
def yoeOf (doe : Nat) : Nat := nOf doe / 365
/-- First day-of-era of a (March-based) year of era. -/
def dayOfYoe (yoe : Nat) : Nat := 365 * yoe + yoe / 4 - yoe / 100
/-- Length of the March-based year `yoe` of an era (its February belongs to civil year yoe+1). -/
def yearLen (yoe : Nat) : Nat := if yoe % 4 = 3 ∧ (yoe % 100 ≠ 99 ∨ yoe = 399) then 366 else 365

theorem nOf_mono {a b : Nat} (h : a ≤ b) (hb : b < 146097) : nOf a ≤ nOf b := by
  unfold nOf; omega

theorem yoeOf_mono {a b : Nat} (h : a ≤ b) (hb : b < 146097) : yoeOf a ≤ yoeOf b :=
  Nat.div_le_div_right (nOf_mono h hb)

/-- The closed form is right on the first and on the last day of every year of an era. -/
theorem yoeOf_table : ∀ y : Fin 400,
    yoeOf (dayOfYoe y) = y ∧ yoeOf (dayOfYoe y + yearLen y - 1) = y := by decide +kernel

theorem dayOfYoe_succ {n : Nat} (h : n ≤ 398) : dayOfYoe (n + 1) = dayOfYoe n + yearLen n := by
  unfold dayOfYoe yearLen; split <;> omega

theorem dayOfYoe_top {y : Nat} (h : y < 400) : dayOfYoe y + yearLen y ≤ 146097 := by
  unfold dayOfYoe yearLen; split <;> omega

theorem yearLen_pos (y : Nat) : 365 ≤ yearLen y := by unfold yearLen; split <;> omega

theorem yoeOf_unique {yoe doe : Nat} (hy : yoe < 400) (h1 : dayOfYoe yoe ≤ doe)
    (h2 : doe < dayOfYoe yoe + yearLen yoe) : yoeOf doe = yoe := by
  have ht := yoeOf_table ⟨yoe, hy⟩
  have htop := dayOfYoe_top hy
  have a := yoeOf_mono h1 (by omega)
  have b := yoeOf_mono (show doe ≤ dayOfYoe yoe + yearLen yoe - 1 by omega) (by omega)
  simp only at ht
  omega

theorem yoe_exists_aux : ∀ n, n ≤ 399 → ∀ doe, doe < dayOfYoe n →
    ∃ y, y < n ∧ dayOfYoe y ≤ doe ∧ doe < dayOfYoe y + yearLen y := by
  intro n
  induction n with
  | zero => intro _ doe h; simp [dayOfYoe] at h
  | succ n ih =>
    intro hn doe h
    rw [dayOfYoe_succ (by omega)] at h
    by_cases hlt : doe < dayOfYoe n
    · obtain ⟨y, hy, h1, h2⟩ := ih (by omega) doe hlt
      exact ⟨y, by omega, h1, h2⟩
    · exact ⟨n, by omega, by omega, h⟩

theorem yoeOf_spec {doe : Nat} (h : doe < 146097) :
    yoeOf doe < 400 ∧ dayOfYoe (yoeOf doe) ≤ doe ∧
      doe < dayOfYoe (yoeOf doe) + yearLen (yoeOf doe) := by
  have key : ∃ y, y < 400 ∧ dayOfYoe y ≤ doe ∧ doe < dayOfYoe y + yearLen y := by
    by_cases hlt : doe < dayOfYoe 399
    · obtain ⟨y, hy, h1, h2⟩ := yoe_exists_aux 399 (by omega) doe hlt
      exact ⟨y, by omega, h1, h2⟩
    · refine ⟨399, by omega, by omega, ?_⟩
      have : dayOfYoe 399 + yearLen 399 = 146097 := by decide
      omega
  obtain ⟨y, hy, h1, h2⟩ := key
  rw [yoeOf_unique hy h1 h2]
  exact ⟨hy, h1, h2⟩

theorem yoeOf_cast (doe : Nat) :
    ((doe : Int) - doe / 1460 + doe / 36524 - doe / 146096) / 365 = ((yoeOf doe : Nat) : Int) := by
  unfold yoeOf nOf; omega

/-! ### The decomposition (era, year of era, day of year, shifted month, day) -/

/-- Day of year (March-based) on which shifted month `mp` (0 = March … 11 = February) starts. -/
def monthStart (mp : Nat) : Nat := (153 * mp + 2) / 5

/-- `doy` is day `d` of shifted month `mp` of a March-based year of era `yoe` that has it. -/
def Rel (yoe doy mp d : Nat) : Prop :=
  yoe < 400 ∧ mp ≤ 11 ∧ 1 ≤ d ∧ doy + 1 = monthStart mp + d ∧ doy < monthStart (mp + 1) ∧
    doy < yearLen yoe

/-- Civil month of a shifted month. -/
def monthOf (mp : Nat) : Nat := if mp < 10 then mp + 3 else mp - 9
/-- Civil year of a year of era. -/
def yearOf (era : Int) (yoe mp : Nat) : Int := era * 400 + yoe + (if mp < 10 then 0 else 1)
/-- Day number of a decomposed date. -/
def dayNo (era : Int) (yoe doy : Nat) : Int := era * 146097 + ((dayOfYoe yoe + doy : Nat) : Int) - 719468

def cfdTail (era doe : Int) : Int × Nat × Nat :=
  let yoe := (doe - doe / 1460 + doe / 36524 - doe / 146096) / 365
  let y := yoe + era * 400
  let doy := doe - (365 * yoe + yoe / 4 - yoe / 100)
  let mp := (5 * doy + 2) / 153
  let d := doy - (153 * mp + 2) / 5 + 1
  let m := if mp < 10 then mp + 3 else mp - 9
  (if m ≤ 2 then y + 1 else y, m.toNat, d.toNat)

theorem cfd_eq (z : Int) : civilFromDays z =
    cfdTail ((z + 719468) / 146097) (z + 719468 - (z + 719468) / 146097 * 146097) := rfl

def cfdTail2 (y doy : Int) : Int × Nat × Nat :=
  let mp := (5 * doy + 2) / 153
  let d := doy - (153 * mp + 2) / 5 + 1
  let m := if mp < 10 then mp + 3 else mp - 9
  (if m ≤ 2 then y + 1 else y, m.toNat, d.toNat)

theorem cfdTail_of {era doe yoe : Int}
    (h : (doe - doe / 1460 + doe / 36524 - doe / 146096) / 365 = yoe) :
    cfdTail era doe = cfdTail2 (yoe + era * 400) (doe - (365 * yoe + yoe / 4 - yoe / 100)) := by
  subst h; rfl

theorem cfdTail2_of {y doy mp : Int} (h : (5 * doy + 2) / 153 = mp) :
    cfdTail2 y doy =
      (if (if mp < 10 then mp + 3 else mp - 9) ≤ 2 then y + 1 else y,
        (if mp < 10 then mp + 3 else mp - 9).toNat, (doy - (153 * mp + 2) / 5 + 1).toNat) := by
  subst h; rfl

theorem cfd_spec (era : Int) {yoe doy mp d : Nat} (h : Rel yoe doy mp d) :
    civilFromDays (dayNo era yoe doy) = (yearOf era yoe mp, monthOf mp, d) := by
  obtain ⟨hy, hmp, hd, hdoy, hlt, hlen⟩ := h
  have htop := dayOfYoe_top hy
  unfold dayNo yearOf monthOf
  rw [cfd_eq]
  have e1 : (era * 146097 + ((dayOfYoe yoe + doy : Nat) : Int) - 719468 + 719468) / 146097
      = era := by omega
  rw [e1]
  have e2 : era * 146097 + ((dayOfYoe yoe + doy : Nat) : Int) - 719468 + 719468 - era * 146097
      = ((dayOfYoe yoe + doy : Nat) : Int) := by omega
  rw [e2]
  have e3 : yoeOf (dayOfYoe yoe + doy) = yoe :=
    yoeOf_unique hy (Nat.le_add_right _ _) (by omega)
  rw [cfdTail_of (yoe := (yoe : Int)) (by rw [yoeOf_cast, e3])]
  have e4 : ((dayOfYoe yoe + doy : Nat) : Int) - (365 * (yoe : Int) + yoe / 4 - yoe / 100)
      = (doy : Int) := by unfold dayOfYoe; omega
  rw [e4]
  have e5 : (5 * (doy : Int) + 2) / 153 = (mp : Int) := by
    unfold monthStart at hdoy hlt; omega
  rw [cfdTail2_of e5]
  have e6 : ((doy : Int) - (153 * (mp : Int) + 2) / 5 + 1).toNat = d := by
    unfold monthStart at hdoy; omega
  rw [e6]
  by_cases h10 : mp < 10
  · have h10' : (mp : Int) < 10 := by omega
    simp only [h10, h10', if_true]
    have : ¬ ((mp : Int) + 3 ≤ 2) := by omega
    simp only [this, if_false]
    refine Prod.ext ?_ (Prod.ext ?_ rfl)
    · simp only; omega
    · simp only; omega
  · have h10' : ¬ (mp : Int) < 10 := by omega
    simp only [h10, h10', if_false]
    have : ((mp : Int) - 9 ≤ 2) := by omega
    simp only [this, if_true]
    refine Prod.ext ?_ (Prod.ext ?_ rfl)
    · simp only; omega
    · simp only; omega

theorem dfc_spec (era : Int) {yoe doy mp d : Nat} (h : Rel yoe doy mp d) :
    daysFromCivil (yearOf era yoe mp) (monthOf mp) d = dayNo era yoe doy := by
  obtain ⟨hy, hmp, hd, hdoy, hlt, hlen⟩ := h
  unfold daysFromCivil dayNo yearOf monthOf dayOfYoe
  unfold monthStart at hdoy
  by_cases h10 : mp < 10
  · have hm : ¬ (mp + 3 ≤ 2) := by omega
    simp only [h10, if_true, hm, if_false]
    omega
  · have hm : mp - 9 ≤ 2 := by omega
    simp only [h10, if_false, hm, if_true]
    omega

theorem yearLen_le (y : Nat) : yearLen y ≤ 366 := by unfold yearLen; split <;> omega

theorem isLeap_iff (y : Int) : isLeap y = true ↔ y % 4 = 0 ∧ (y % 100 ≠ 0 ∨ y % 400 = 0) := by
  simp [isLeap]

theorem valid_spec (era : Int) {yoe doy mp d : Nat} (h : Rel yoe doy mp d) :
    ValidDate (yearOf era yoe mp) (monthOf mp) d := by
  obtain ⟨hy, hmp, hd, hdoy, hlt, hlen⟩ := h
  have hmp' : mp = 0 ∨ mp = 1 ∨ mp = 2 ∨ mp = 3 ∨ mp = 4 ∨ mp = 5 ∨ mp = 6 ∨ mp = 7 ∨ mp = 8 ∨
      mp = 9 ∨ mp = 10 ∨ mp = 11 := by omega
  unfold monthStart at hdoy hlt
  rcases hmp' with rfl | rfl | rfl | rfl | rfl | rfl | rfl | rfl | rfl | rfl | rfl | rfl
  case inr.inr.inr.inr.inr.inr.inr.inr.inr.inr.inr =>
    -- February: the leap day exists exactly in the years whose March-based year has 366 days
    refine ⟨by decide, by decide, hd, ?_⟩
    show d ≤ if isLeap (yearOf era yoe 11) then 29 else 28
    unfold yearLen at hlen
    split
    · split at hlen <;> omega
    · rename_i hl
      rw [isLeap_iff] at hl
      unfold yearOf at hl
      simp only [show ¬ (11 < 10) by decide, if_false] at hl
      split at hlen <;> omega
  all_goals
    refine ⟨by decide, by decide, hd, ?_⟩
    simp [monthOf, daysIn]
    omega

/-- Every day number has a decomposition. -/
theorem decomp_of_day (z : Int) :
    ∃ era yoe doy mp d, Rel yoe doy mp d ∧ z = dayNo era yoe doy := by
  let era := (z + 719468) / 146097
  let doe := (z + 719468 - era * 146097).toNat
  have hdoe : doe < 146097 := by omega
  have hz : z + 719468 = era * 146097 + (doe : Int) := by omega
  obtain ⟨hy, h1, h2⟩ := yoeOf_spec hdoe
  have hlen := yearLen_le (yoeOf doe)
  refine ⟨era, yoeOf doe, doe - dayOfYoe (yoeOf doe), (5 * (doe - dayOfYoe (yoeOf doe)) + 2) / 153,
    (doe - dayOfYoe (yoeOf doe)) - monthStart ((5 * (doe - dayOfYoe (yoeOf doe)) + 2) / 153) + 1,
    ⟨hy, ?_, ?_, ?_, ?_, ?_⟩, ?_⟩
  · omega
  · omega
  · unfold monthStart; omega
  · unfold monthStart; omega
  · omega
  · unfold dayNo; omega

/-- Every valid civil date has a decomposition. -/
theorem decomp_of_date {y : Int} {m d : Nat} (h : ValidDate y m d) :
    ∃ era yoe doy mp, Rel yoe doy mp d ∧ y = yearOf era yoe mp ∧ m = monthOf mp := by
  obtain ⟨hm1, hm12, hd1, hd⟩ := h
  let y' : Int := if m ≤ 2 then y - 1 else y
  let era := y' / 400
  let yoe := (y' - era * 400).toNat
  have hyoe : yoe < 400 := by omega
  have hy' : y' = era * 400 + (yoe : Int) := by omega
  have hm' : m = 1 ∨ m = 2 ∨ m = 3 ∨ m = 4 ∨ m = 5 ∨ m = 6 ∨ m = 7 ∨ m = 8 ∨ m = 9 ∨
      m = 10 ∨ m = 11 ∨ m = 12 := by omega
  refine ⟨era, yoe, monthStart ((m + 9) % 12) + d - 1, (m + 9) % 12, ?_⟩
  have hlen := yearLen_pos yoe
  rcases hm' with rfl | rfl | rfl | rfl | rfl | rfl | rfl | rfl | rfl | rfl | rfl | rfl
  case inr.inl =>
    -- February
    have hd' : d ≤ if isLeap y then 29 else 28 := hd
    have hy'' : y - 1 = era * 400 + (yoe : Int) := hy'
    refine ⟨⟨hyoe, by decide, hd1, ?_, ?_, ?_⟩, ?_, by decide⟩
    · simp only [monthStart]; omega
    · simp only [monthStart]; split at hd' <;> omega
    · simp only [monthStart]
      unfold yearLen
      split at hd'
      · rename_i hl
        rw [isLeap_iff] at hl
        split <;> omega
      · split <;> omega
    · unfold yearOf; simp only [show ¬ ((2 + 9) % 12 < 10) by decide, if_false]; omega
  all_goals
    simp only [daysIn] at hd
    refine ⟨⟨hyoe, by decide, hd1, ?_, ?_, ?_⟩, ?_, by decide⟩
    · simp only [monthStart]; omega
    · simp only [monthStart]; omega
    · simp only [monthStart]; omega
    · unfold yearOf
      first
        | (have hy'' : y - 1 = era * 400 + (yoe : Int) := hy'
           simp only [show ¬ ((1 + 9) % 12 < 10) by decide, if_false]; omega)
        | (have hy'' : y = era * 400 + (yoe : Int) := hy'
           simp (config := {decide := true}) only [if_true]; omega)

/-- **Civil round trip, dates → days → dates** (all years). -/
theorem civilFromDays_daysFromCivil {y : Int} {m d : Nat} (h : ValidDate y m d) :
    civilFromDays (daysFromCivil y m d) = (y, m, d) := by
  obtain ⟨era, yoe, doy, mp, hrel, rfl, rfl⟩ := decomp_of_date h
  rw [dfc_spec era hrel, cfd_spec era hrel]

/-- **Civil round trip, days → dates → days** (all day numbers): the date is valid and it is
    the date of that day. -/
theorem daysFromCivil_civilFromDays (z : Int) :
    ValidDate (civilFromDays z).1 (civilFromDays z).2.1 (civilFromDays z).2.2 ∧
      daysFromCivil (civilFromDays z).1 (civilFromDays z).2.1 (civilFromDays z).2.2 = z := by
  obtain ⟨era, yoe, doy, mp, d, hrel, rfl⟩ := decomp_of_day z
  rw [cfd_spec era hrel]
  exact ⟨valid_spec era hrel, dfc_spec era hrel⟩

/-- The same, in the destructuring form. -/
theorem civilFromDays_valid (z : Int) :
    let (y, m, d) := civilFromDays z
    ValidDate y m d ∧ daysFromCivil y m d = z := by
  have := daysFromCivil_civilFromDays z
  revert this
  rcases civilFromDays z with ⟨y, m, d⟩
  exact id

end Jl.Time
