/-
  Proofs.LineLevel — from cells to emitted LINES: the key order (C03) and the lexical classes
  (C04) of the members of an emitted line, stated on the emitted JSON text.

  `Proofs.Order` gives the key list of the row that is printed, `Proofs.JsonPrint` the syntax
  tree the reader delivers for the printed text, `Proofs.CastTyped` + `Proofs.TimeShape` the
  class of what a cell exports.  Here they are put together: the bytes `jlLine` wrote, read back
  by the model of the reader, are an object whose member names are the expected key list (after
  the escaper's `sanitize`) and whose declared members are in the lexical class of their format.

  1.  `tree_keys`                     member names of the printed tree
  2.  `emitted_text_keys` (+ `_same_names`, `_expected`, `_expected_fixed`)   C03 on the bytes
  3.  `member_in_class` (+ one lemma per format, `numeric_member_valid`)      one printed cell
  4.  `emitted_line_classes_pointwise`, `_cell`, `emitted_line_classes` (oracle form),
      `emitted_line_classes_same_names`                                       C04 on the bytes
  5.  `Demo`, `DemoDT`: concrete lines over the regenerated tables; `Clash`, `Zone`: the
      separation hypothesis and the zone bound of target 4 cannot be dropped.

  Hypotheses of target 4 beyond the task's sketch, and why (details at the theorems):
  * separation — the reader finds a member by its WRITTEN name (`sanitize k`); two different keys
    of one line can be written alike when one of them is not well-formed UTF-8
    (`Clash.separation_needed`);
  * `DateTimeSide` — only when the output template has a date-time column: printable process-zone
    offsets (`Zone.zone_bound_needed`) and no unprintable `time.Time` in a prototype cell of a
    template.  That no other `time.Time` with an unprintable offset can reach a printed cell is
    proved (`getRow_rowOK`, `createRow_rowOK`).
-/
import Proofs.LineKeys
import Model.LineSpec
import Model.Template
import Model.CastGen
import Proofs.Order
import Proofs.JsonPrint
import Proofs.TimeShape
import Proofs.CastTyped
import Proofs.Base64

namespace Jl.LineLevel
open Jl Jl.Value Jl.Template Jl.Cast Jl.CastTyped
open Jl.JsonQuote (sanitize)
open Jl.JsonPrint (treeDyn treeVal treeMembers treeExported numText FloatTextOK)
open Jl.TimeShape (OffsetOK ZoneOK TimeSrcOK)
open Jl.IntText

/-! ### 3. The class of one printed cell -/

theorem typeOf_str {e : Dyn} (h : typeOf e = .str) : ∃ s, e = .str s := by
  cases e <;> first | exact ⟨_, rfl⟩ | simp [typeOf] at h
theorem typeOf_num {e : Dyn} (h : typeOf e = .num) : ∃ s, e = .num s := by
  cases e <;> first | exact ⟨_, rfl⟩ | simp [typeOf] at h
theorem typeOf_bool {e : Dyn} (h : typeOf e = .bool) : ∃ s, e = .bool s := by
  cases e <;> first | exact ⟨_, rfl⟩ | simp [typeOf] at h
theorem typeOf_i64 {e : Dyn} (h : typeOf e = .int .i64) : ∃ n, e = .int .i64 n := by
  cases e <;> first | (simp [typeOf] at h; subst h; exact ⟨_, rfl⟩) | simp [typeOf] at h

theorem digit_ascii {c : UInt8} (h : LineSpec.isDigit c = true) : c < 0x80 := by
  simp only [LineSpec.isDigit, Bool.and_eq_true, decide_eq_true_eq] at h
  exact UInt8.lt_of_le_of_lt h.2 (by decide)

theorem isDateText_ascii {s : Bytes} (h : LineSpec.isDateText s = true) : ∀ b ∈ s, b < 0x80 := by
  unfold LineSpec.isDateText at h
  split at h
  · simp only [List.all_cons, List.all_nil, Bool.and_true, Bool.and_eq_true, beq_iff_eq] at h
    obtain ⟨⟨⟨h1, h2, h3, h4, h5, h6, h7, h8⟩, rfl⟩, rfl⟩ := h
    intro b hb
    simp only [List.mem_cons, List.not_mem_nil, or_false] at hb
    rcases hb with rfl | rfl | rfl | rfl | rfl | rfl | rfl | rfl | rfl | rfl <;>
      first | exact digit_ascii (by assumption) | decide
  · cases h

theorem isIntegerLiteral_natDigits (n : Nat) :
    (match natDigits n with
      | [] => false
      | [0x30] => true
      | c :: rest => 0x31 ≤ c && c ≤ 0x39 && rest.all LineSpec.isDigit) = true := by
  by_cases hn : n = 0
  · subst hn; rw [natDigits_zero]; rfl
  · obtain ⟨c, tl, e, h1, h2, h3⟩ := natDigits_pos_shape n (by omega)
    rw [e]
    have hc0 : c ≠ 0x30 := ne_of_toNat_ne (by simp; omega)
    have hc1 : (0x31 ≤ c && c ≤ 0x39) = true := (nonzero_digit_iff c).2 ⟨h1, h2⟩
    have htl : tl.all LineSpec.isDigit = true := by
      rw [List.all_eq_true]
      intro d hd
      have := (isDig_iff d).1 (h3 d hd)
      simp [LineSpec.isDigit, this.1, this.2]
    split
    · rename_i heq; cases heq
    · rename_i heq; injection heq with h1 h2; exact absurd h1 hc0
    · rename_i heq; injection heq with h1 h2; subst h1; subst h2; simp only [hc1, htl, Bool.and_self]


/-- `strconv.FormatInt` writes `-?(0|[1-9][0-9]*)`. -/
theorem isIntegerLiteral_formatInt (v : Int) : LineSpec.isIntegerLiteral (formatInt v) = true := by
  unfold LineSpec.isIntegerLiteral formatInt
  by_cases hv : v < 0
  · simp only [hv, if_true]
    exact isIntegerLiteral_natDigits _
  · simp only [hv, if_false]
    obtain ⟨c, tl, e, _, h2⟩ := natDigits_head_ne_sign v.toNat
    have hnat := isIntegerLiteral_natDigits v.toNat
    rw [e] at hnat ⊢
    have inner : (match c :: tl with
        | 0x2D :: r => r
        | _ => c :: tl) = c :: tl := by
      split
      · rename_i heq; injection heq with h _; exact absurd h h2
      · rfl
    exact (congrArg (fun body : Bytes => match body with
      | [] => false
      | [0x30] => true
      | c :: rest => 0x31 ≤ c && c ≤ 0x39 && rest.all LineSpec.isDigit) inner).trans hnat

theorem dropWhile_digit_ascii (r : Bytes) (h : ∀ b ∈ r.dropWhile LineSpec.isDigit, b < 0x80) :
    ∀ b ∈ r, b < 0x80 := by
  induction r with
  | nil => intro b hb; cases hb
  | cons c r ih =>
    intro b hb
    by_cases hc : LineSpec.isDigit c = true
    · rw [List.dropWhile_cons_of_pos hc] at h
      rcases List.mem_cons.1 hb with rfl | hb
      · exact digit_ascii hc
      · exact ih h b hb
    · rw [List.dropWhile_cons_of_neg hc] at h
      exact h b hb

/-- The optional fraction of `isDateTimeText`. -/
def fracSkip (rest : Bytes) : Bytes :=
  match rest with
  | 0x2E :: d :: r => if LineSpec.isDigit d then r.dropWhile LineSpec.isDigit else 0x2E :: d :: r
  | _ => rest

/-- The zone designator of `isDateTimeText`. -/
def zoneTail (rest : Bytes) : Bool :=
  match rest with
  | [0x5A] => true
  | [sg, a, b, c, d, e] =>
    (sg == 0x2B || sg == 0x2D) && [a, b, d, e].all LineSpec.isDigit && c == 0x3A
  | _ => false

theorem zoneTail_ascii {rest : Bytes} (h : zoneTail rest = true) : ∀ b ∈ rest, b < 0x80 := by
  unfold zoneTail at h
  split at h
  · intro b hb
    simp only [List.mem_cons, List.not_mem_nil, or_false] at hb
    subst hb; decide
  · simp only [List.all_cons, List.all_nil, Bool.and_true, Bool.and_eq_true, Bool.or_eq_true,
      beq_iff_eq] at h
    obtain ⟨⟨hs, h1, h2, h3, h4⟩, rfl⟩ := h
    intro b hb
    simp only [List.mem_cons, List.not_mem_nil, or_false] at hb
    rcases hb with rfl | rfl | rfl | rfl | rfl | rfl
    · rcases hs with rfl | rfl <;> decide
    · exact digit_ascii h1
    · exact digit_ascii h2
    · decide
    · exact digit_ascii h3
    · exact digit_ascii h4
  · cases h

theorem isDateTimeText_ascii {s : Bytes} (h : LineSpec.isDateTimeText s = true) :
    ∀ b ∈ s, b < 0x80 := by
  unfold LineSpec.isDateTimeText at h
  simp only [Bool.and_eq_true] at h
  obtain ⟨hd, h2⟩ := h
  intro b hb
  rw [← List.take_append_drop 10 s] at hb
  rcases List.mem_append.1 hb with hb | hb
  · exact isDateText_ascii hd b hb
  · generalize s.drop 10 = d at h2 hb
    split at h2
    · rename_i t h1 h2' c1 m1 m2 c2 s1 s2 rest
      simp only [Bool.and_eq_true] at h2
      obtain ⟨⟨⟨⟨ht, hall⟩, hc1⟩, hc2⟩, hz⟩ := h2
      simp only [List.all_cons, List.all_nil, Bool.and_true, Bool.and_eq_true, beq_iff_eq] at ht hall hc1 hc2
      obtain ⟨d1, d2, d3, d4, d5, d6⟩ := hall
      subst ht hc1 hc2
      have hz' : zoneTail (fracSkip rest) = true := hz
      have hrest : ∀ b ∈ rest, b < 0x80 := by
        unfold fracSkip at hz'
        split at hz'
        · rename_i d r
          by_cases hdg : LineSpec.isDigit d = true
          · rw [if_pos hdg] at hz'
            intro b hb
            rcases List.mem_cons.1 hb with rfl | hb
            · decide
            · rcases List.mem_cons.1 hb with rfl | hb
              · exact digit_ascii hdg
              · exact dropWhile_digit_ascii r (zoneTail_ascii hz') b hb
          · rw [if_neg hdg] at hz'
            exact zoneTail_ascii hz'
        · exact zoneTail_ascii hz'
      simp only [List.mem_cons] at hb
      rcases hb with rfl | rfl | rfl | rfl | rfl | rfl | rfl | rfl | rfl | hb
      · decide
      · exact digit_ascii d1
      · exact digit_ascii d2
      · decide
      · exact digit_ascii d3
      · exact digit_ascii d4
      · decide
      · exact digit_ascii d5
      · exact digit_ascii d6
      · exact hrest b hb
    · cases h2

theorem sanitize_dateText {s : Bytes} (h : LineSpec.isDateText s = true) : sanitize s = s :=
  JsonPrint.sanitize_of_ascii s (isDateText_ascii h)

theorem sanitize_dateTimeText {s : Bytes} (h : LineSpec.isDateTimeText s = true) : sanitize s = s :=
  JsonPrint.sanitize_of_ascii s (isDateTimeText_ascii h)


/-- The tree printed for a cell whose export succeeded (`JsonPrint.treeVal`). -/
theorem treeVal_cell {env : Env} {raw : Dyn} {f : Format} {typ : Ty} {e : Dyn}
    (he : exportVal env (.cell raw f typ) = .ok e) :
    treeVal env (.cell raw f typ) = treeExported e (treeDyn env raw) := by
  simp only [treeVal, he]

theorem inClass_null (f : Format) : LineSpec.inClass f .null = true := by
  simp [LineSpec.inClass]

theorem nil_exports_nil (env : Env) (f : Format) (typ : Ty) :
    exportVal env (.cell .nil f typ) = .ok .nil := by
  simp [exportVal]

/-- For a non-nil raw value the scalar formats export through exactly one caster. -/
theorem export_scalar_formats (env : Env) (raw : Dyn) (typ : Ty) (hraw : raw ≠ .nil) :
    exportVal env (.cell raw .string typ) = exportFail (castNamed env.T env.ext "ToString" raw) ∧
    exportVal env (.cell raw .numeric typ) = exportFail (castNamed env.T env.ext "ToNumber" raw) ∧
    exportVal env (.cell raw .boolean typ) = exportFail (castNamed env.T env.ext "ToBool" raw) ∧
    exportVal env (.cell raw .timestamp typ) =
      exportFail (castNamed env.T env.ext "ToTimestamp" raw) := by
  cases raw <;> simp [exportVal] at hraw ⊢

theorem exportFail_typed (ext : Ext) (raw e : Dyn) (hraw : raw ≠ .nil) (name : String)
    (hn : name ∈ casterNames) (want : Ty) (hw : resultTyOfCaster? name = some want)
    (h : exportFail (castNamed genTables ext name raw) = .ok e) : typeOf e = want := by
  have hc := TimeShape.exportFail_ok h
  have := (gen_cast_typed ext name hn raw e hc).2 hraw
  rw [hw] at this
  exact Option.some.inj this

/-- What a string / numeric / boolean / timestamp cell exports (nil aside) has the Go type whose
    JSON encoding is the class. -/
theorem scalar_formats_typed (ext : Ext) (raw e : Dyn) (typ : Ty) (hraw : raw ≠ .nil) :
    (exportVal ⟨genTables, ext⟩ (.cell raw .string typ) = .ok e → typeOf e = .str) ∧
    (exportVal ⟨genTables, ext⟩ (.cell raw .numeric typ) = .ok e → typeOf e = .num) ∧
    (exportVal ⟨genTables, ext⟩ (.cell raw .boolean typ) = .ok e → typeOf e = .bool) ∧
    (exportVal ⟨genTables, ext⟩ (.cell raw .timestamp typ) = .ok e → typeOf e = .int .i64) := by
  obtain ⟨h1, h2, h3, h4⟩ := export_scalar_formats ⟨genTables, ext⟩ raw typ hraw
  refine ⟨?_, ?_, ?_, ?_⟩
  · rw [h1]; exact exportFail_typed ext raw e hraw "ToString" (by decide) _ rfl
  · rw [h2]; exact exportFail_typed ext raw e hraw "ToNumber" (by decide) _ rfl
  · rw [h3]; exact exportFail_typed ext raw e hraw "ToBool" (by decide) _ rfl
  · rw [h4]; exact exportFail_typed ext raw e hraw "ToTimestamp" (by decide) _ rfl

/-- A nil raw value prints `null`, which is in every class. -/
theorem nil_in_class (env : Env) (f : Format) (typ : Ty) :
    LineSpec.inClass f (treeVal env (.cell .nil f typ)) = true := by
  rw [treeVal_cell (nil_exports_nil env f typ)]
  exact inClass_null f

theorem string_in_class (ext : Ext) (raw : Dyn) (typ : Ty) (e : Dyn)
    (he : exportVal ⟨genTables, ext⟩ (.cell raw .string typ) = .ok e) :
    LineSpec.inClass .string (treeVal ⟨genTables, ext⟩ (.cell raw .string typ)) = true := by
  by_cases hraw : raw = .nil
  · subst hraw; exact nil_in_class _ _ _
  · obtain ⟨s, rfl⟩ := typeOf_str ((scalar_formats_typed ext raw e typ hraw).1 he)
    rw [treeVal_cell he]
    rfl

/-- Numeric: a number literal — `json.Number` is written verbatim (`0` when empty). -/
theorem numeric_in_class (ext : Ext) (raw : Dyn) (typ : Ty) (e : Dyn)
    (he : exportVal ⟨genTables, ext⟩ (.cell raw .numeric typ) = .ok e) :
    LineSpec.inClass .numeric (treeVal ⟨genTables, ext⟩ (.cell raw .numeric typ)) = true := by
  by_cases hraw : raw = .nil
  · subst hraw; exact nil_in_class _ _ _
  · obtain ⟨s, rfl⟩ := typeOf_num ((scalar_formats_typed ext raw e typ hraw).2.1 he)
    rw [treeVal_cell he]
    rfl

theorem boolean_in_class (ext : Ext) (raw : Dyn) (typ : Ty) (e : Dyn)
    (he : exportVal ⟨genTables, ext⟩ (.cell raw .boolean typ) = .ok e) :
    LineSpec.inClass .boolean (treeVal ⟨genTables, ext⟩ (.cell raw .boolean typ)) = true := by
  by_cases hraw : raw = .nil
  · subst hraw; exact nil_in_class _ _ _
  · obtain ⟨s, rfl⟩ := typeOf_bool ((scalar_formats_typed ext raw e typ hraw).2.2.1 he)
    rw [treeVal_cell he]
    rfl

/-- Timestamp: an `int64`, written by `strconv.FormatInt`: an integer literal. -/
theorem timestamp_in_class (ext : Ext) (raw : Dyn) (typ : Ty) (e : Dyn)
    (he : exportVal ⟨genTables, ext⟩ (.cell raw .timestamp typ) = .ok e) :
    LineSpec.inClass .timestamp (treeVal ⟨genTables, ext⟩ (.cell raw .timestamp typ)) = true := by
  by_cases hraw : raw = .nil
  · subst hraw; exact nil_in_class _ _ _
  · obtain ⟨n, rfl⟩ := typeOf_i64 ((scalar_formats_typed ext raw e typ hraw).2.2.2 he)
    rw [treeVal_cell he]
    exact isIntegerLiteral_formatInt n

/-- Binary columns: whatever is emitted is the standard base64 encoding of some bytes. -/
theorem binary_export (env : Env) (raw : Dyn) (typ : Ty) (e : Dyn)
    (h : exportVal env (.cell raw .binary typ) = .ok e) :
    e = .nil ∨ ∃ b, e = .str (Base64.encode b) := by
  cases raw with
  | nil => left; simpa [exportVal] using h.symm
  | _ =>
    right
    simp only [exportVal] at h
    split at h
    · rename_i b _
      cases h
      exact ⟨b, rfl⟩
    · cases h
    · rename_i o _ _
      cases o <;> simp_all

theorem binary_in_class (env : Env) (raw : Dyn) (typ : Ty) (e : Dyn)
    (he : exportVal env (.cell raw .binary typ) = .ok e) :
    LineSpec.inClass .binary (treeVal env (.cell raw .binary typ)) = true := by
  rw [treeVal_cell he]
  rcases binary_export env raw typ e he with rfl | ⟨b, rfl⟩
  · rfl
  · simp [treeExported, LineSpec.inClass, JsonPrint.sanitize_base64, LineSpec.isCanonicalBase64,
      Base64.decode_encode]

theorem date_in_class (ext : Ext) (raw : Dyn) (typ : Ty) (e : Dyn)
    (he : exportVal ⟨genTables, ext⟩ (.cell raw .date typ) = .ok e) :
    LineSpec.inClass .date (treeVal ⟨genTables, ext⟩ (.cell raw .date typ)) = true := by
  rw [treeVal_cell he]
  rcases TimeShape.date_column_class ext raw typ e he with rfl | ⟨s, rfl, hs⟩
  · rfl
  · simp [treeExported, LineSpec.inClass, sanitize_dateText hs, hs]

/-- Date-time: RFC 3339, provided the zone offsets that reach the `Z07:00` verb from outside the
    text stay below 100 h (the hypotheses of `TimeShape.datetime_column_class`). -/
theorem datetime_in_class (ext : Ext) (raw : Dyn) (typ : Ty) (e : Dyn)
    (hext : ZoneOK ext) (hraw : TimeSrcOK raw)
    (he : exportVal ⟨genTables, ext⟩ (.cell raw .datetime typ) = .ok e) :
    LineSpec.inClass .datetime (treeVal ⟨genTables, ext⟩ (.cell raw .datetime typ)) = true := by
  rw [treeVal_cell he]
  rcases TimeShape.datetime_column_class ext raw typ e hext hraw he with rfl | ⟨s, rfl, hs⟩
  · rfl
  · simp [treeExported, LineSpec.inClass, sanitize_dateTimeText hs, hs]

theorem inClass_auto (v : JV) : LineSpec.inClass .auto v = true := by
  cases v <;> rfl

theorem inClass_hidden (v : JV) : LineSpec.inClass .hidden v = true := by
  cases v <;> rfl

/-- Target 3. The member printed for a cell of declared format `f` whose export succeeded is in
    the lexical class of `f`.  The only side conditions are those of the date-time verb. -/
theorem member_in_class (ext : Ext) (raw : Dyn) (f : Format) (typ : Ty) (e : Dyn)
    (he : exportVal ⟨genTables, ext⟩ (.cell raw f typ) = .ok e)
    (hdt : f = .datetime → ZoneOK ext ∧ TimeSrcOK raw) :
    LineSpec.inClass f (treeVal ⟨genTables, ext⟩ (.cell raw f typ)) = true := by
  cases f with
  | string => exact string_in_class ext raw typ e he
  | numeric => exact numeric_in_class ext raw typ e he
  | boolean => exact boolean_in_class ext raw typ e he
  | binary => exact binary_in_class _ raw typ e he
  | date => exact date_in_class ext raw typ e he
  | datetime => exact datetime_in_class ext raw typ e (hdt rfl).1 (hdt rfl).2 he
  | timestamp => exact timestamp_in_class ext raw typ e he
  | auto => exact inClass_auto _
  | hidden => exact inClass_hidden _
  | bad =>
    by_cases hraw : raw = .nil
    · subst hraw; exact nil_in_class _ _ _
    · exfalso
      cases raw <;> simp [exportVal] at hraw he


/-! ### 4. C04 at byte level: the classes of the declared members of an emitted line -/

theorem visibleKeys_cons (k : Bytes) (c : Val) (row : List (Bytes × Val)) :
    RowPrint.visibleKeys ((k, c) :: row) =
      if Cells.format c = .hidden then RowPrint.visibleKeys row
      else k :: RowPrint.visibleKeys row := by
  unfold RowPrint.visibleKeys
  rw [List.filter_cons]
  by_cases hh : Cells.format c = .hidden <;> simp [hh]

theorem lookupJV_cons (k0 : Bytes) (v0 : JV) (ms : JVMembers) (k : Bytes) :
    LineSpec.lookupJV (.cons k0 v0 ms) k = if k0 = k then some v0 else LineSpec.lookupJV ms k := by
  unfold LineSpec.lookupJV
  simp only [JVMembers.toList, List.find?_cons]
  by_cases h : k0 = k
  · simp [h]
  · have : (k0 == k) = false := by simpa using h
    simp [this, h]

/-- Looking a declared name up in the printed tree finds the print of the row's cell at that
    name — provided no other emitted key has the same image under the escaper. -/
theorem lookupJV_tree (env : Env) (k : Bytes) : ∀ (row : List (Bytes × Val)) (v : JV),
    (∀ k' ∈ RowPrint.visibleKeys row, sanitize k' = sanitize k → k' = k) →
    LineSpec.lookupJV (treeMembers env (Members.ofList row)) (sanitize k) = some v →
    ∃ c, (k, c) ∈ row ∧ Cells.format c ≠ .hidden ∧ v = treeVal env c := by
  intro row
  induction row with
  | nil =>
    intro v _ h
    simp [Members.ofList, treeMembers, LineSpec.lookupJV, JVMembers.toList] at h
  | cons kc rest ih =>
    obtain ⟨k0, c0⟩ := kc
    intro v hsep h
    rw [visibleKeys_cons] at hsep
    by_cases hh : Cells.format c0 = .hidden
    · simp only [hh, if_true] at hsep
      simp only [Members.ofList, treeMembers, hh, beq_self_eq_true, if_true] at h
      obtain ⟨c, hm, hc⟩ := ih v hsep h
      exact ⟨c, List.mem_cons_of_mem _ hm, hc⟩
    · simp only [hh, if_false] at hsep
      simp only [Members.ofList, treeMembers, beq_iff_eq, hh, if_false] at h
      rw [lookupJV_cons] at h
      by_cases hk : sanitize k0 = sanitize k
      · rw [if_pos hk] at h
        have : k0 = k := hsep k0 (List.mem_cons_self ..) hk
        subst this
        exact ⟨c0, List.mem_cons_self .., hh, (Option.some.inj h).symm⟩
      · rw [if_neg hk] at h
        obtain ⟨c, hm, hc⟩ := ih v (fun k' hk' => hsep k' (List.mem_cons_of_mem _ hk')) h
        exact ⟨c, List.mem_cons_of_mem _ hm, hc⟩

theorem lookup_of_mem_nodup {row : List (Bytes × Val)} (hnd : (OMap.keys row).Nodup) {k : Bytes}
    {c : Val} (hm : (k, c) ∈ row) : OMap.lookup row k = some c := by
  induction row with
  | nil => cases hm
  | cons kc rest ih =>
    obtain ⟨k0, c0⟩ := kc
    rw [Order.keys_cons, List.nodup_cons] at hnd
    rcases List.mem_cons.1 hm with h | h
    · injection h with h1 h2
      subst h1 h2
      simp [OMap.lookup]
    · have hne : ¬ k0 = k := by
        intro e
        subst e
        exact hnd.1 (List.mem_map_of_mem (f := Prod.fst) h)
      simp only [OMap.lookup, hne, if_false]
      exact ih hnd.2 h

theorem mem_of_lookup {row : List (Bytes × Val)} {k : Bytes} {c : Val}
    (h : OMap.lookup row k = some c) : (k, c) ∈ row := by
  induction row with
  | nil => cases h
  | cons kc rest ih =>
    obtain ⟨k0, c0⟩ := kc
    simp only [OMap.lookup] at h
    split at h
    · rename_i hk
      subst hk
      cases h
      exact List.mem_cons_self ..
    · exact List.mem_cons_of_mem _ (ih h)

/-- A printed row: every visible cell was marshalled. -/
theorem marshalMembers_mem (env : Env) : ∀ (row : List (Bytes × Val)) (parts : List Bytes),
    RowPrint.marshalMembers env (Members.ofList row) = .ok parts →
    ∀ k c, (k, c) ∈ row → Cells.format c ≠ .hidden → ∃ b, RowPrint.marshalVal env c = .ok b := by
  intro row
  induction row with
  | nil => intro parts _ k c hm; cases hm
  | cons kc rest ih =>
    obtain ⟨k0, c0⟩ := kc
    intro parts h k c hm hh
    simp only [Members.ofList] at h
    rw [RowPrint.marshalMembers.eq_def] at h
    simp only at h
    split at h
    · rename_i hhid
      rcases List.mem_cons.1 hm with e | hm
      · injection e with e1 e2
        subst e2
        exact absurd (by simpa using hhid) hh
      · exact ih parts h k c hm hh
    · split at h
      · rename_i b hb
        split at h
        · rename_i restp hr
          rcases List.mem_cons.1 hm with e | hm
          · injection e with e1 e2
            subst e2
            exact ⟨b, hb⟩
          · exact ih restp hr k c hm hh
        · cases h
        · cases h
      · cases h
      · cases h

/-- A marshalled cell: its export succeeded, and what `Export` returned was marshalled. -/
theorem marshalVal_cell_inv {env : Env} {raw : Dyn} {f : Format} {typ : Ty} {b : Bytes}
    (h : RowPrint.marshalVal env (.cell raw f typ) = .ok b) :
    ∃ e, exportVal env (.cell raw f typ) = .ok e ∧ RowPrint.marshalExported env e raw = .ok b := by
  rw [RowPrint.marshalVal.eq_def] at h
  simp only at h
  split at h
  · rename_i e he
    exact ⟨e, he, h⟩
  · cases h
  · cases h

/-- The number printed for a numeric cell of a row that was marshalled is a valid JSON number
    literal (`json.Number` is validated at marshal time). -/
theorem numeric_member_valid (ext : Ext) (raw : Dyn) (typ : Ty) (b : Bytes) (hraw : raw ≠ .nil)
    (h : RowPrint.marshalVal ⟨genTables, ext⟩ (.cell raw .numeric typ) = .ok b) :
    ∃ l, treeVal ⟨genTables, ext⟩ (.cell raw .numeric typ) = .num l ∧ b = l ∧
      JsonWrite.isValidNumber l = true := by
  obtain ⟨e, he, hm⟩ := marshalVal_cell_inv h
  obtain ⟨s, rfl⟩ := typeOf_num ((scalar_formats_typed ext raw e typ hraw).2.1 he)
  rw [treeVal_cell he]
  rw [RowPrint.marshalExported.eq_def] at hm
  simp only at hm
  refine ⟨numText s, rfl, ?_⟩
  unfold numText
  split at hm
  · rename_i hem
    cases hm
    simp [hem]
    decide
  · rename_i hem
    split at hm
    · rename_i hv
      cases hm
      simp [hem, hv]
    · cases hm


/-! #### Where a `time.Time` raw value can come from

The date-time verb needs the offset of a raw `time.Time` to be printable
(`TimeShape.datetime_raw_offset_bound_needed`).  No such value is made up by the line's way
through importer and exporter: a time is read from RFC 3339 text (offset bounded by the parser),
built by `time.Unix` (process zone), or was in a template's prototype cell. -/

/-- The raw value of a cell, when it is a `time.Time`, has a printable offset. -/
def CellOK (c : Val) : Prop := TimeSrcOK (Cells.raw c)

def RowOK (row : List (Bytes × Val)) : Prop := ∀ kv ∈ row, CellOK kv.2

theorem timeSrcOK_nil : TimeSrcOK .nil := fun _ h => by cases h

theorem rowOK_upsert {row : List (Bytes × Val)} {k : Bytes} {c : Val} (hr : RowOK row)
    (hc : CellOK c) : RowOK (upsert row k c) := by
  unfold upsert
  induction row with
  | nil =>
    intro kv hkv
    simp only [OMap.upsert, List.mem_cons, List.not_mem_nil, or_false] at hkv
    subst hkv; exact hc
  | cons a rest ih =>
    obtain ⟨k0, c0⟩ := a
    have hrest : RowOK rest := fun kv hkv => hr kv (List.mem_cons_of_mem _ hkv)
    intro kv hkv
    simp only [OMap.upsert] at hkv
    split at hkv
    · rcases List.mem_cons.1 hkv with rfl | hkv
      · exact hc
      · exact hrest kv hkv
    · rcases List.mem_cons.1 hkv with rfl | hkv
      · exact hr _ (List.mem_cons_self ..)
      · exact ih hrest kv hkv

theorem castTo_time (ext : Ext) (x : Dyn) :
    castTo genTables ext .time x = callNamed genTables ext 23 "ToTime" x := by
  simp [castTo, genTables, Gen.dispatchTo, evalBranch, evalE]

/-- `cast.To` never makes up a time with an unprintable offset. -/
theorem castTo_timeOK (ext : Ext) (hz : ZoneOK ext) (typ : Ty) (x r : Dyn) (hx : TimeSrcOK x)
    (h : castTo genTables ext typ x = .ok r) : TimeSrcOK r := by
  by_cases hn : typ = .none
  · subst hn
    rw [gen_castTo_none] at h
    cases h; exact hx
  · by_cases ht : typ = .time
    · subst ht
      rw [castTo_time] at h
      rcases TimeShape.toTime_fuel ext hz 23 x r hx h with rfl | ⟨t, rfl, ht⟩
      · exact timeSrcOK_nil
      · intro t' e; cases e; exact ht
    · intro t e
      subst e
      obtain ⟨h1, h2⟩ := gen_castTo_typed ext typ hn x _ h
      have hxn : x ≠ .nil := fun hx0 => by
        have := h1.mpr hx0
        cases this
      have := h2 hxn
      simp only [typeOf] at this
      exact absurd this.symm ht

theorem newValue_ok (ext : Ext) (hz : ZoneOK ext) (x : Dyn) (f : Format) (typ : Ty) (c : Val)
    (hx : TimeSrcOK x) (h : newValue ⟨genTables, ext⟩ x f typ = .ok c) : CellOK c := by
  unfold newValue at h
  split at h
  · rename_i r hr
    cases h
    exact castTo_timeOK ext hz typ x r hx hr
  · cases h
  · cases h; exact hx
  · cases h

theorem cloneInto_ok (ext : Ext) (hz : ZoneOK ext) (r : List (Bytes × Val)) :
    ∀ (acc r' : List (Bytes × Val)), RowOK acc → RowOK r →
      cloneInto ⟨genTables, ext⟩ acc r = .ok r' → RowOK r' := by
  induction r with
  | nil =>
    intro acc r' ha _ h
    simp only [cloneInto, Outcome.ok.injEq] at h
    subst h; exact ha
  | cons kv rest ih =>
    intro acc r' ha hr h
    obtain ⟨k, v⟩ := kv
    simp only [cloneInto] at h
    split at h
    · rename_i c hc
      refine ih _ _ (rowOK_upsert ha ?_) (fun kv hkv => hr kv (List.mem_cons_of_mem _ hkv)) h
      exact newValue_ok ext hz _ _ _ c (hr (k, v) (List.mem_cons_self ..)) hc
    · cases h
    · cases h

theorem cloneRow_ok (ext : Ext) (hz : ZoneOK ext) (r r' : List (Bytes × Val)) (hr : RowOK r)
    (h : cloneRow ⟨genTables, ext⟩ r = .ok r') : RowOK r' :=
  cloneInto_ok ext hz r [] r' (fun _ h => by cases h) hr h

/-- What a caster other than `ToTime` returns is never a `time.Time`. -/
theorem castNamed_not_time (ext : Ext) (name : String) (hn : name ∈ casterNames)
    (hres : resultTyOfCaster? name ≠ some .time) (x r : Dyn)
    (h : castNamed genTables ext name x = .ok r) : TimeSrcOK r := by
  intro t e
  subst e
  obtain ⟨h1, h2⟩ := gen_cast_typed ext name hn x _ h
  have hxn : x ≠ .nil := fun hx0 => by
    have := h1.mpr hx0
    cases this
  have := h2 hxn
  simp only [typeOf] at this
  exact absurd this.symm hres

theorem castNamed_toTime_ok (ext : Ext) (hz : ZoneOK ext) (x r : Dyn) (hx : TimeSrcOK x)
    (h : castNamed genTables ext "ToTime" x = .ok r) : TimeSrcOK r := by
  rcases TimeShape.toTime_fuel ext hz 24 x r hx h with rfl | ⟨t, rfl, ht⟩
  · exact timeSrcOK_nil
  · intro t' e; cases e; exact ht

theorem importFail_ok {o : Outcome Dyn} {r : Dyn} (h : importFail o = .ok r) : o = .ok r := by
  cases o with
  | ok a => exact h
  | err e => cases e <;> cases h
  | panic p => cases h

theorem importFrom_ok (ext : Ext) (hz : ZoneOK ext) (name : String) (hn : name ∈ casterNames)
    (hres : name = "ToTime" ∨ resultTyOfCaster? name ≠ some .time) (x r : Dyn) (typ : Ty)
    (hx : TimeSrcOK x) (h : importFrom ⟨genTables, ext⟩ name x typ = .ok r) : TimeSrcOK r := by
  unfold importFrom at h
  split at h
  · have h' := importFail_ok h
    rcases hres with rfl | hres
    · exact castNamed_toTime_ok ext hz x r hx h'
    · exact castNamed_not_time ext name hn hres x r h'
  · exact castTo_timeOK ext hz typ x r hx (importFail_ok h)

theorem importFromBinary_ok (ext : Ext) (hz : ZoneOK ext) (x r : Dyn) (typ : Ty)
    (h : importFromBinary ⟨genTables, ext⟩ x typ = .ok r) : TimeSrcOK r := by
  unfold importFromBinary at h
  split at h
  · split at h
    · cases h
    · rename_i b _
      split at h
      · cases h; intro t e; cases e
      · exact castTo_timeOK ext hz typ _ r (fun t e => by cases e) (importFail_ok h)
  · cases h
  · cases h
  · rename_i hne
    exact absurd h (hne r)


theorem importByFormat_ok (ext : Ext) (hz : ZoneOK ext) (f : Format) (typ : Ty) (x : Dyn) (c : Val)
    (e : Option ErrClass) (hx : TimeSrcOK x)
    (h : importByFormat ⟨genTables, ext⟩ f typ x = .ok (c, e)) : CellOK c := by
  unfold importByFormat at h
  simp only at h
  split at h
  · rename_i r hr
    simp only [Outcome.ok.injEq, Prod.mk.injEq] at h
    rw [← h.1]
    show TimeSrcOK r
    cases f with
    | string =>
      exact importFrom_ok ext hz "ToString" (by decide) (.inr (by decide)) x r typ hx hr
    | numeric =>
      exact importFrom_ok ext hz "ToNumber" (by decide) (.inr (by decide)) x r typ hx hr
    | boolean =>
      exact importFrom_ok ext hz "ToBool" (by decide) (.inr (by decide)) x r typ hx hr
    | binary => exact importFromBinary_ok ext hz x r typ hr
    | date =>
      exact importFrom_ok ext hz "ToDate" (by decide) (.inr (by decide)) x r typ hx hr
    | datetime =>
      exact importFrom_ok ext hz "ToTime" (by decide) (.inl rfl) x r typ hx hr
    | timestamp =>
      exact importFrom_ok ext hz "ToInt64" (by decide) (.inr (by decide)) x r typ hx hr
    | auto => exact castTo_timeOK ext hz typ x r hx hr
    | hidden => exact castTo_timeOK ext hz typ x r hx hr
    | bad => cases hr
  · cases h
  · simp only [Outcome.ok.injEq, Prod.mk.injEq] at h
    rw [← h.1]
    exact timeSrcOK_nil
  · cases h

/-- The values the decoder hands to `parseobject`: never a `time.Time`, never a cell. -/
def JsonShape : Dyn → Prop
  | .time _ => False
  | .val (.cell _ _ _) => False
  | _ => True

theorem JsonShape.timeSrcOK {x : Dyn} (h : JsonShape x) : TimeSrcOK x := by
  intro t e; subst e; exact h.elim

theorem importCell_ok (ext : Ext) (hz : ZoneOK ext) (f : Format) (typ : Ty) (x : Dyn) (c : Val)
    (e : Option ErrClass) (hx : JsonShape x)
    (h : importCell ⟨genTables, ext⟩ f typ x = .ok (c, e)) : CellOK c := by
  unfold importCell at h
  split at h
  · simp only [Outcome.ok.injEq, Prod.mk.injEq] at h
    rw [← h.1]; exact timeSrcOK_nil
  · split at h
    · simp only [Outcome.ok.injEq, Prod.mk.injEq] at h
      rw [← h.1]; intro t e; cases e
    · exact importByFormat_ok ext hz f typ _ c e hx.timeSrcOK h
  · rename_i v hnr
    cases v with
    | cell _ _ _ => exact absurd hx (by simp [JsonShape])
    | row ms => exact absurd rfl (hnr ms)
  · exact importByFormat_ok ext hz f typ _ c e hx.timeSrcOK h

theorem cellOK_row (ms : Members) : CellOK (.row ms) := by
  intro t e
  simp [Cells.raw] at e

theorem importInto_ok (ext : Ext) (hz : ZoneOK ext) (fuel : Nat) (c : Val) (x : Dyn) (c' : Val)
    (e : Option ErrClass) (hx : JsonShape x)
    (h : importInto ⟨genTables, ext⟩ fuel c x = .ok (c', e)) : CellOK c' := by
  cases fuel with
  | zero => simp [importInto] at h
  | succ fuel =>
    cases c with
    | cell raw f typ =>
      simp only [importInto] at h
      exact importCell_ok ext hz f typ x c' e hx h
    | row ms =>
      simp only [importInto] at h
      split at h
      · split at h
        · simp only [Outcome.ok.injEq, Prod.mk.injEq] at h
          rw [← h.1]; exact cellOK_row _
        · cases h
        · cases h
      · split at h
        · simp only [Outcome.ok.injEq, Prod.mk.injEq] at h
          rw [← h.1]; exact cellOK_row _
        · cases h
        · cases h
      · simp only [Outcome.ok.injEq, Prod.mk.injEq] at h
        rw [← h.1]; exact cellOK_row _

theorem parseMember_ok (ext : Ext) (hz : ZoneOK ext) (o o' : List (Bytes × Val)) (k : Bytes)
    (x : Dyn) (e : Option ErrClass) (ho : RowOK o) (hx : JsonShape x)
    (h : parseMember ⟨genTables, ext⟩ o k x = .ok (o', e)) : RowOK o' := by
  unfold parseMember at h
  split at h
  · split at h
    · rename_i c _ _ c' e' hi
      simp only [Outcome.ok.injEq, Prod.mk.injEq] at h
      rw [← h.1]
      exact rowOK_upsert ho (importInto_ok ext hz 64 c x c' e' hx hi)
    · cases h
    · cases h
  · simp only [Outcome.ok.injEq, Prod.mk.injEq] at h
    rw [← h.1]
    exact rowOK_upsert ho hx.timeSrcOK

theorem parseMembers_ok (ext : Ext) (hz : ZoneOK ext) (l : List (Bytes × Dyn)) :
    ∀ (o o' : List (Bytes × Val)) (e : Option ErrClass), RowOK o → (∀ kx ∈ l, JsonShape kx.2) →
      parseMembers ⟨genTables, ext⟩ o l = .ok (o', e) → RowOK o' := by
  induction l with
  | nil =>
    intro o o' e ho _ h
    simp only [parseMembers, Outcome.ok.injEq, Prod.mk.injEq] at h
    rw [← h.1]; exact ho
  | cons kx l ih =>
    intro o o' e ho hl h
    obtain ⟨k, x⟩ := kx
    simp only [parseMembers] at h
    split at h
    · rename_i o1 h1
      exact ih _ _ _ (parseMember_ok ext hz o o1 k x none ho (hl (k, x) (List.mem_cons_self ..)) h1)
        (fun kx hkx => hl kx (List.mem_cons_of_mem _ hkx)) h
    · exact parseMember_ok ext hz o o' k x e ho (hl (k, x) (List.mem_cons_self ..)) h

theorem ofJV_shape (env : Env) (v : JV) (d : Dyn) (h : ofJV env v = .ok d) : JsonShape d := by
  cases v with
  | null => rw [ofJV] at h; cases h; trivial
  | bool b => rw [ofJV] at h; cases h; trivial
  | num l => rw [ofJV] at h; cases h; trivial
  | str s => rw [ofJV] at h; cases h; trivial
  | arr xs =>
    rw [ofJV] at h
    split at h
    · cases h; trivial
    · cases h
    · cases h
  | obj ms =>
    rw [ofJV] at h
    split at h
    · split at h
      · cases h; trivial
      · cases h
      · cases h
    · cases h
    · cases h

theorem ofJVMembers_shape (env : Env) : ∀ (ms : JVMembers) (l : List (Bytes × Dyn)),
    ofJVMembers env ms = .ok l → ∀ kx ∈ l, JsonShape kx.2
  | .nil, l, h => by
    rw [ofJVMembers] at h
    cases h
    intro kx hkx; cases hkx
  | .cons k v ms, l, h => by
    rw [ofJVMembers] at h
    split at h
    · rename_i d hd
      split at h
      · rename_i rest hrest
        cases h
        intro kx hkx
        rcases List.mem_cons.1 hkx with rfl | hkx
        · exact ofJV_shape env v d hd
        · exact ofJVMembers_shape env ms rest hrest kx hkx
      · cases h
      · cases h
    · cases h
    · cases h

/-- The row `GetRow` delivers for an accepted line. -/
theorem getRow_rowOK (ext : Ext) (hz : ZoneOK ext) (ti : Tmpl) (line : Bytes)
    (r : List (Bytes × Val)) (hti : RowOK ti)
    (h : getRow ⟨genTables, ext⟩ ti line = .ok (r, none)) : RowOK r := by
  obtain ⟨row0, h0, h1⟩ := Order.getRow_ok _ ti line r none h
  obtain ⟨l, hl, hp, _⟩ := Order.unmarshalInto_ok _ row0 r line h1
  exact parseMembers_ok ext hz l row0 r none (cloneRow_ok ext hz ti row0 hti h0)
    (ofJVMembers_shape _ _ l hl) hp

theorem fill_ok (ext : Ext) (hz : ZoneOK ext) (row row' : List (Bytes × Val)) (k : Bytes) (x : Dyn)
    (hr : RowOK row) (hx : TimeSrcOK x) (h : fill ⟨genTables, ext⟩ row k x = .ok row') :
    RowOK row' := by
  unfold fill at h
  split at h
  · split at h
    · rename_i c' hc'
      cases h
      exact rowOK_upsert hr (newValue_ok ext hz x _ _ c' hx hc')
    · cases h
    · cases h
  · cases h
    exact rowOK_upsert hr hx

theorem fillPairs_ok (ext : Ext) (hz : ZoneOK ext) (kvs : List (Bytes × Dyn)) :
    ∀ (row row' : List (Bytes × Val)), RowOK row → (∀ kx ∈ kvs, TimeSrcOK kx.2) →
      fillPairs ⟨genTables, ext⟩ row kvs = .ok row' → RowOK row' := by
  induction kvs with
  | nil =>
    intro row row' hr _ h
    simp only [fillPairs, Outcome.ok.injEq] at h
    subst h; exact hr
  | cons kx kvs ih =>
    intro row row' hr hk h
    obtain ⟨k, x⟩ := kx
    simp only [fillPairs] at h
    split at h
    · rename_i r1 h1
      exact ih _ _ (fill_ok ext hz row r1 k x hr (hk (k, x) (List.mem_cons_self ..)) h1)
        (fun kx hkx => hk kx (List.mem_cons_of_mem _ hkx)) h
    · rename_i hne
      exact absurd h (hne row')

/-- The row `CreateRow` makes of a row. -/
theorem createRow_rowOK (ext : Ext) (hz : ZoneOK ext) (to : Tmpl) (r row' : List (Bytes × Val))
    (hto : RowOK to) (hr : RowOK r)
    (h : createRow ⟨genTables, ext⟩ to (.val (.row (Members.ofList r))) = .ok (row', none)) :
    RowOK row' := by
  obtain ⟨row0, h0, h1, _⟩ := Order.createRow_row_ok _ to r row' none h
  refine fillPairs_ok ext hz _ row0 row' (cloneRow_ok ext hz to row0 hto h0) ?_ h1
  intro kx hkx
  obtain ⟨⟨k, c⟩, hm, rfl⟩ := List.mem_map.1 hkx
  exact hr (k, c) hm


/-! #### The theorem -/

/-- The side conditions of the date-time verb for one line through `jlLine`: the process zone's
    offsets are printable (below 100 h) and no prototype cell of either template holds a
    `time.Time` with an unprintable offset (prototype cells made by `With` hold nil). -/
def DateTimeSide (ext : Ext) (ti to : Tmpl) : Prop := ZoneOK ext ∧ RowOK ti ∧ RowOK to

theorem rowOK_nil : RowOK [] := fun _ h => by cases h

theorem rowOK_withCol {t : Tmpl} (h : RowOK t) (name : Bytes) (f : Format) (typ : Ty) :
    RowOK (withCol t name f typ) :=
  rowOK_upsert h timeSrcOK_nil

theorem visibleKeys_subset (row : List (Bytes × Val)) :
    ∀ k ∈ RowPrint.visibleKeys row, k ∈ OMap.keys row := by
  intro k hk
  unfold RowPrint.visibleKeys at hk
  obtain ⟨kv, hkv, rfl⟩ := List.mem_map.1 hk
  exact List.mem_map_of_mem (f := Prod.fst) (List.mem_filter.1 hkv).1

/-- Every key of the printed row is a column of one of the templates or a member name of the
    input text. -/
theorem created_keys_origin (env : Env) (ti to : Tmpl) (line : Bytes) (r row' : List (Bytes × Val))
    (hget : getRow env ti line = .ok (r, none))
    (hcr : createRow env to (.val (.row (Members.ofList r))) = .ok (row', none)) :
    ∀ k ∈ OMap.keys row', k ∈ OMap.keys to ++ OMap.keys ti ++ Order.inputKeys line := by
  intro k hk
  rw [Order.createRow_row_keys env to r row' hcr, Order.mem_appendNew, Order.mem_appendNew,
    Order.getRow_keys env ti line r hget, Order.mem_appendNew, Order.mem_appendNew] at hk
  simp only [List.not_mem_nil, false_or] at hk
  simp only [List.mem_append]
  rcases hk with hk | hk | hk
  · exact .inl (.inl hk)
  · exact .inl (.inr hk)
  · exact .inr hk

theorem created_keys_nodup (env : Env) (to : Tmpl) (r row' : List (Bytes × Val))
    (hcr : createRow env to (.val (.row (Members.ofList r))) = .ok (row', none)) :
    (OMap.keys row').Nodup := by
  rw [Order.createRow_row_keys env to r row' hcr]
  exact Order.nodup_appendNew _ (Order.nodup_appendNew _ List.nodup_nil)

/-- Target 4, pointwise form (C04 on the emitted bytes).  One accepted line through `jlLine` over
    the regenerated cast tables; output template with distinct column names.  The written bytes
    are an object text and a newline; in the object the reader delivers, the member found under a
    declared column's name (as the escaper writes it) is in the lexical class of the column's
    format — for every column whose written name no other key of the line shares.

    `hdt` is only asked when the output template has a date-time column. -/
theorem emitted_line_classes_pointwise (ext : Ext) (ti to : Tmpl) (line b : Bytes)
    (h : jlLine ⟨genTables, ext⟩ ti to line = .ok (b, none)) (hx : FloatTextOK ext)
    (hto : (OMap.keys to).Nodup)
    (hdt : (∃ kv ∈ to, Cells.format kv.2 = .datetime) → DateTimeSide ext ti to) :
    ∃ body t, b = body ++ [0x0A] ∧ Json.unmarshal body = (t, true) ∧
      ∀ k c0, OMap.lookup to k = some c0 →
        (∀ k' ∈ OMap.keys to ++ OMap.keys ti ++ Order.inputKeys line,
          sanitize k' = sanitize k → k' = k) →
        ∀ v, LineSpec.lookupJV t (sanitize k) = some v →
          LineSpec.inClass (Cells.format c0) v = true := by
  obtain ⟨r, row', body, hget, hcr, hm, hb, hu⟩ :=
    emitted_text ⟨genTables, ext⟩ ti to line b h hx
  refine ⟨body, _, hb, hu, ?_⟩
  intro k c0 hk hsep v hv
  have hnd := created_keys_nodup _ to r row' hcr
  have horigin := created_keys_origin _ ti to line r row' hget hcr
  -- the member found is the print of the row's cell at `k`
  obtain ⟨c, hmem, hvis, rfl⟩ := lookupJV_tree _ k row' v
    (fun k' hk' => hsep k' (horigin k' (visibleKeys_subset row' k' hk'))) hv
  have hlk := lookup_of_mem_nodup hnd hmem
  -- which has the declared format
  have hkm : k ∈ OMap.keys to := by
    apply Classical.byContradiction
    intro hn; rw [(Order.lookup_eq_none_iff to k).mpr hn] at hk; cases hk
  have hfmt : Cells.format c = Cells.format c0 := by
    have := (Order.declared_formats_kept_nodup _ to r row' hto hcr k).1 hkm
    simp only [Order.formatAt, hlk, hk, Option.map_some, Option.some.injEq] at this
    exact this
  -- and was marshalled, hence exported
  obtain ⟨parts, hparts, _⟩ := JsonPrint.marshalRow_shape hm
  obtain ⟨bs, hbs⟩ := marshalMembers_mem _ row' parts hparts k c hmem hvis
  rw [← hfmt]
  cases c with
  | row ms => exact inClass_auto _
  | cell raw f typ =>
    obtain ⟨e, he, _⟩ := marshalVal_cell_inv hbs
    refine member_in_class ext raw f typ e he ?_
    intro hf
    have hside := hdt ⟨(k, c0), mem_of_lookup hk, by rw [← hfmt]; exact hf⟩
    refine ⟨hside.1, ?_⟩
    have hrow' : RowOK row' :=
      createRow_rowOK ext hside.1 to r row' hside.2.2
        (getRow_rowOK ext hside.1 ti line r hside.2.1 hget) hcr
    exact hrow' (k, .cell raw f typ) hmem

/-- The same for a column declared `With(name, f, typ)`. -/
theorem emitted_line_classes_cell (ext : Ext) (ti to : Tmpl) (line b : Bytes)
    (h : jlLine ⟨genTables, ext⟩ ti to line = .ok (b, none)) (hx : FloatTextOK ext)
    (hto : (OMap.keys to).Nodup)
    (hdt : (∃ kv ∈ to, Cells.format kv.2 = .datetime) → DateTimeSide ext ti to) :
    ∃ body t, b = body ++ [0x0A] ∧ Json.unmarshal body = (t, true) ∧
      ∀ k raw0 f typ, (k, Val.cell raw0 f typ) ∈ to →
        (∀ k' ∈ OMap.keys to ++ OMap.keys ti ++ Order.inputKeys line,
          sanitize k' = sanitize k → k' = k) →
        ∀ v, LineSpec.lookupJV t (sanitize k) = some v → LineSpec.inClass f v = true := by
  obtain ⟨body, t, hb, hu, hall⟩ := emitted_line_classes_pointwise ext ti to line b h hx hto hdt
  refine ⟨body, t, hb, hu, ?_⟩
  intro k raw0 f typ hmem hsep v hv
  exact hall k _ (lookup_of_mem_nodup hto hmem) hsep v hv

theorem foldl_none {α β : Type} (f : Option α → β → Option α) (l : List β)
    (h : ∀ c ∈ l, f none c = none) : l.foldl f none = none := by
  induction l with
  | nil => rfl
  | cons c l ih =>
    rw [List.foldl_cons, h c (List.mem_cons_self ..)]
    exact ih fun c' hc' => h c' (List.mem_cons_of_mem _ hc')

/-- Target 4 in the words of the oracle (`LineSpec.classViolation`): no class violation on the
    emitted object, for an output template whose column names are well-formed UTF-8 (fixed by the
    escaper) and are not the escaper's image of another key of the line. -/
theorem emitted_line_classes (ext : Ext) (ti to : Tmpl) (line b : Bytes) (fuel : Nat)
    (h : jlLine ⟨genTables, ext⟩ ti to line = .ok (b, none)) (hx : FloatTextOK ext)
    (hto : (OMap.keys to).Nodup)
    (hutf : ∀ k ∈ OMap.keys to, sanitize k = k)
    (hsep : ∀ k ∈ OMap.keys to, ∀ k' ∈ OMap.keys ti ++ Order.inputKeys line,
      sanitize k' = k → k' = k)
    (hdt : (∃ kv ∈ to, Cells.format kv.2 = .datetime) → DateTimeSide ext ti to) :
    ∃ body t, b = body ++ [0x0A] ∧ Json.unmarshal body = (t, true) ∧
      LineSpec.classViolation fuel (leafCols to) t = none := by
  obtain ⟨body, t, hb, hu, hall⟩ := emitted_line_classes_pointwise ext ti to line b h hx hto hdt
  refine ⟨body, t, hb, hu, ?_⟩
  cases fuel with
  | zero => rfl
  | succ fuel =>
    rw [LineSpec.classViolation]
    apply foldl_none
    intro c hc
    obtain ⟨⟨k, c0⟩, hmem, rfl⟩ := List.mem_map.1 hc
    have hkm : k ∈ OMap.keys to := List.mem_map_of_mem (f := Prod.fst) hmem
    have hsep' : ∀ k' ∈ OMap.keys to ++ OMap.keys ti ++ Order.inputKeys line,
        sanitize k' = sanitize k → k' = k := by
      intro k' hk' hs
      rw [hutf k hkm] at hs
      rw [List.append_assoc] at hk'
      rcases List.mem_append.1 hk' with hk' | hk'
      · rw [hutf k' hk'] at hs; exact hs
      · exact hsep k hkm k' hk' hs
    simp only [LineSpec.Col.name]
    cases hl : LineSpec.lookupJV t k with
    | none => rfl
    | some v =>
      have hv : LineSpec.lookupJV t (sanitize k) = some v := by rw [hutf k hkm]; exact hl
      have := hall k c0 (lookup_of_mem_nodup hto hmem) hsep' v hv
      simp only [this, if_true]


/-- Target 4 for templates declaring the same names (as every `jl` definition does), all
    well-formed UTF-8: no separation hypothesis is left, given that the member names the reader
    delivered for the input are fixed by the escaper.  (That last fact holds of every input —
    the reader has already put U+FFFD in place of ill-formed bytes: `RoundTrip.reader_strings`,
    not imported here.) -/
theorem emitted_line_classes_same_names (ext : Ext) (ti to : Tmpl) (line b : Bytes) (fuel : Nat)
    (h : jlLine ⟨genTables, ext⟩ ti to line = .ok (b, none)) (hx : FloatTextOK ext)
    (hto : (OMap.keys to).Nodup) (hperm : (OMap.keys ti).Perm (OMap.keys to))
    (hutf : ∀ k ∈ OMap.keys to, sanitize k = k)
    (hin : ∀ k ∈ Order.inputKeys line, sanitize k = k)
    (hdt : (∃ kv ∈ to, Cells.format kv.2 = .datetime) → DateTimeSide ext ti to) :
    ∃ body t, b = body ++ [0x0A] ∧ Json.unmarshal body = (t, true) ∧
      LineSpec.classViolation fuel (leafCols to) t = none := by
  refine emitted_line_classes ext ti to line b fuel h hx hto hutf ?_ hdt
  intro k _ k' hk' hs
  rcases List.mem_append.1 hk' with hk' | hk'
  · rw [hutf k' (hperm.mem_iff.mp hk')] at hs; exact hs
  · rw [hin k' hk'] at hs; exact hs


/-- When every key in sight is fixed by the escaper (well-formed UTF-8, e.g. ASCII), no two
    different keys are written alike: the separation hypotheses hold. -/
theorem separated_of_fixed {ti to : Tmpl} {line : Bytes}
    (hfix : ∀ k ∈ OMap.keys to ++ OMap.keys ti ++ Order.inputKeys line, sanitize k = k)
    (k : Bytes) (hk : k ∈ OMap.keys to) :
    ∀ k' ∈ OMap.keys to ++ OMap.keys ti ++ Order.inputKeys line,
      sanitize k' = sanitize k → k' = k := by
  intro k' hk' hs
  rw [hfix k' hk', hfix k (List.mem_append_left _ (List.mem_append_left _ hk))] at hs
  exact hs

/-! ### 5. Non-vacuity: a concrete line through concrete templates over the regenerated tables

  Template `n` (numeric), `d` (date) on both sides, empty stdlib oracle; input line
  `{"d":"2020-01-02","n":1}`.  Every hypothesis of the theorems above holds and the line comes
  out as `{"n":1,"d":"2020-01-02"}`. -/
namespace Demo
open RowPrint JsonWrite

def env : Env := ⟨genTables, Ext.empty⟩

/-- `n` numeric, `d` date -/
def tmpl : Tmpl := withCol (withCol [] [0x6E] .numeric .none) [0x64] .date .none

/-- `2020-01-02` -/
def dateS : Bytes := [0x32, 0x30, 0x32, 0x30, 0x2D, 0x30, 0x31, 0x2D, 0x30, 0x32]

/-- `{"d":"2020-01-02","n":1}` -/
def line : Bytes :=
  [0x7B, 0x22, 0x64, 0x22, 0x3A, 0x22] ++ dateS ++ [0x22, 0x2C, 0x22, 0x6E, 0x22, 0x3A, 0x31, 0x7D]

/-- `{"n":1,"d":"2020-01-02"}` -/
def out : Bytes :=
  [0x7B, 0x22, 0x6E, 0x22, 0x3A, 0x31, 0x2C, 0x22, 0x64, 0x22, 0x3A, 0x22] ++ dateS ++ [0x22, 0x7D]

theorem tmpl_eq :
    tmpl = [([0x6E], .cell .nil .numeric .none), ([0x64], .cell .nil .date .none)] := rfl

theorem tmpl_nodup : (OMap.keys tmpl).Nodup := by rw [tmpl_eq]; decide

open Json in
theorem unmarshal_line : Json.unmarshal line =
    (.cons [0x64] (.str dateS) (.cons [0x6E] (.num [0x31]) .nil), true) := by
  simp [line, dateS, unmarshal, token, tokenCore, skipSpace, isSpace, asClose, parseObject, more,
    asKey, asTok, strBody, pre, handleDelim, scanScalar, scanNumber, scanInt, scanFracExp, digits,
    Json.isDigit, valueAllowed, valueEnd, isEof]

theorem inputKeys_line : Order.inputKeys line = [[0x64], [0x6E]] := by
  simp [Order.inputKeys, unmarshal_line, JVMembers.toList]

/-- the row `GetRow` delivers, which is also the row `CreateRow` makes of it -/
def imported : List (Bytes × Val) :=
  [([0x6E], .cell (.num [0x31]) .numeric .none), ([0x64], .cell (.str dateS) .date .none)]

theorem getRow_line : getRow env tmpl line = .ok (imported, none) := by
  unfold getRow createRowEmpty
  have h0 : cloneRow env tmpl = .ok tmpl := rfl
  rw [h0]
  simp only [unmarshalInto, unmarshal_line]
  rfl

theorem createRow_imported :
    createRow env tmpl (.val (.row (Members.ofList imported))) = .ok (imported, none) := rfl

theorem quote_n : quote [0x6E] = [0x22, 0x6E, 0x22] := by
  simp [JsonWrite.quote, JsonWrite.quoteBody, JsonWrite.htmlSafe]

theorem quote_d : quote [0x64] = [0x22, 0x64, 0x22] := by
  simp [JsonWrite.quote, JsonWrite.quoteBody, JsonWrite.htmlSafe]

theorem quote_date : quote dateS = [0x22] ++ dateS ++ [0x22] := by
  simp [JsonWrite.quote, JsonWrite.quoteBody, JsonWrite.htmlSafe, dateS]

theorem export_n : exportVal env (.cell (.num [0x31]) .numeric .none) = .ok (.num [0x31]) := rfl
theorem export_d : exportVal env (.cell (.str dateS) .date .none) = .ok (.str dateS) := rfl

theorem marshal_n : marshalVal env (.cell (.num [0x31]) .numeric .none) = .ok [0x31] := by
  rw [marshalVal.eq_def]
  simp only [export_n]
  rw [marshalExported.eq_def]
  rfl

theorem marshal_d : marshalVal env (.cell (.str dateS) .date .none) = .ok (quote dateS) := by
  rw [marshalVal.eq_def]
  simp only [export_d]
  rw [marshalExported.eq_def]

theorem marshal_imported : marshalRow env (Members.ofList imported) = .ok out := by
  have h : marshalMembers env (Members.ofList imported) =
      .ok [quote [0x6E] ++ 0x3A :: [0x31], quote [0x64] ++ 0x3A :: quote dateS] :=
    JsonPrint.marshalMembers_cons env _ _ _ (by decide) marshal_n
      (JsonPrint.marshalMembers_cons env _ _ _ (by decide) marshal_d
        (JsonPrint.marshalMembers_nil env))
  rw [JsonPrint.marshalRow_eq env _ h, quote_n, quote_d, quote_date]
  rfl

/-- The whole line through `jlLine`. -/
theorem jlLine_line : jlLine env tmpl tmpl line = .ok (out ++ [0x0A], none) := by
  simp [jlLine, getRow_line, exportLine, createRow_imported, marshal_imported]

theorem floatOK : FloatTextOK env.ext := by
  intro b sz s h; cases h

theorem sanitize_n : sanitize [0x6E] = [0x6E] :=
  JsonPrint.sanitize_of_ascii _ (by decide)

theorem sanitize_d : sanitize [0x64] = [0x64] :=
  JsonPrint.sanitize_of_ascii _ (by decide)

/-- The tree of the printed row, computed. -/
theorem tree_imported : treeMembers env (Members.ofList imported) =
    .cons [0x6E] (.num [0x31]) (.cons [0x64] (.str dateS) .nil) := by
  have h1 : treeVal env (.cell (.num [0x31]) .numeric .none) = .num [0x31] := by
    rw [treeVal_cell export_n]; rfl
  have h2 : treeVal env (.cell (.str dateS) .date .none) = .str dateS := by
    rw [treeVal_cell export_d]
    simp only [treeExported]
    rw [sanitize_dateText (by decide)]
  simp [imported, Members.ofList, treeMembers, Cells.format, h1, h2, sanitize_n, sanitize_d]

/-- `tree_keys`, instantiated. -/
example : (treeMembers env (Members.ofList imported)).toList.map Prod.fst = [[0x6E], [0x64]] := by
  rw [tree_keys, Members.toList_ofList]
  simp [imported, RowPrint.visibleKeys, Cells.format, sanitize_n, sanitize_d]

/-- `emitted_text_keys` applies (all its hypotheses hold) and its conclusion, computed, says:
    the written line is the text `out` and a newline, `out` is accepted by the reader, and the
    member names are `n`, `d` — the template's order, not the input's. -/
example : ∃ t, Json.unmarshal out = (t, true) ∧ LineSpec.keysOf t = [[0x6E], [0x64]] := by
  obtain ⟨body, t, hb, hu, hk⟩ :=
    emitted_text_keys env tmpl tmpl line _ jlLine_line floatOK tmpl_nodup tmpl_nodup
  have : body = out := (List.append_cancel_right hb).symm
  subst this
  refine ⟨t, hu, ?_⟩
  rw [hk]
  simp [tmpl_eq, inputKeys_line, OMap.keys, Order.formatAt, OMap.lookup, Cells.format,
    Order.appendNew, sanitize_n, sanitize_d]

/-- …the same through the corollary for templates declaring the same names. -/
example : ∃ t, Json.unmarshal out = (t, true) ∧ LineSpec.keysOf t = [[0x6E], [0x64]] := by
  obtain ⟨body, t, hb, hu, hk⟩ :=
    emitted_text_keys_same_names env tmpl tmpl line _ jlLine_line floatOK tmpl_nodup
      (List.Perm.refl _)
  have : body = out := (List.append_cancel_right hb).symm
  subst this
  refine ⟨t, hu, ?_⟩
  rw [hk]
  simp [tmpl_eq, inputKeys_line, OMap.keys, Order.formatAt, OMap.lookup, Cells.format,
    sanitize_n, sanitize_d]

/-- `member_in_class`, instantiated for both cells of the printed row. -/
example : LineSpec.inClass .numeric (treeVal env (.cell (.num [0x31]) .numeric .none)) = true :=
  member_in_class Ext.empty _ _ _ _ export_n (fun h => by cases h)

example : LineSpec.inClass .date (treeVal env (.cell (.str dateS) .date .none)) = true :=
  member_in_class Ext.empty _ _ _ _ export_d (fun h => by cases h)

theorem no_datetime : ¬ ∃ kv ∈ tmpl, Cells.format kv.2 = .datetime := by
  rw [tmpl_eq]
  rintro ⟨kv, hkv, hf⟩
  simp only [List.mem_cons, List.not_mem_nil, or_false] at hkv
  rcases hkv with rfl | rfl <;> cases hf

theorem keys_fixed :
    ∀ k ∈ OMap.keys tmpl ++ OMap.keys tmpl ++ Order.inputKeys line, sanitize k = k := by
  intro k hk
  rw [inputKeys_line, tmpl_eq] at hk
  simp only [OMap.keys, List.map_cons, List.map_nil, List.cons_append, List.nil_append,
    List.mem_cons, List.not_mem_nil, or_false] at hk
  rcases hk with rfl | rfl | rfl | rfl | rfl | rfl <;> first | exact sanitize_n | exact sanitize_d

/-- `emitted_line_classes` applies: the oracle finds no class violation in what the reader
    delivers for the written text. -/
example : ∃ t, Json.unmarshal out = (t, true) ∧
    LineSpec.classViolation 8 (leafCols tmpl) t = none := by
  obtain ⟨body, t, hb, hu, hc⟩ :=
    emitted_line_classes Ext.empty tmpl tmpl line _ 8 jlLine_line floatOK tmpl_nodup
      (fun k hk => keys_fixed k (List.mem_append_left _ (List.mem_append_left _ hk)))
      (fun k _ k' hk' hs => by
        rw [keys_fixed k' (by
          rw [List.append_assoc]; exact List.mem_append_right _ hk')] at hs
        exact hs)
      (fun h => absurd h no_datetime)
  have : body = out := (List.append_cancel_right hb).symm
  subst this
  exact ⟨t, hu, hc⟩

/-- `emitted_line_classes_cell` applies, and its conclusion for the column `d`: the member under
    `d` is a string of the form YYYY-MM-DD. -/
example : ∃ t, Json.unmarshal out = (t, true) ∧
    ∀ v, LineSpec.lookupJV t [0x64] = some v → LineSpec.inClass .date v = true := by
  obtain ⟨body, t, hb, hu, hc⟩ :=
    emitted_line_classes_cell Ext.empty tmpl tmpl line _ jlLine_line floatOK tmpl_nodup
      (fun h => absurd h no_datetime)
  have : body = out := (List.append_cancel_right hb).symm
  subst this
  refine ⟨t, hu, fun v hv => ?_⟩
  refine hc [0x64] .nil .date .none (by rw [tmpl_eq]; simp)
    (separated_of_fixed keys_fixed _ (by rw [tmpl_eq]; simp [OMap.keys])) v ?_
  rw [sanitize_d]; exact hv

/-- What the reader delivers for `out` is the computed tree, and on it the oracle and the
    look-ups can be evaluated directly: they agree with the theorems. -/
theorem unmarshal_out : Json.unmarshal out =
    (.cons [0x6E] (.num [0x31]) (.cons [0x64] (.str dateS) .nil), true) := by
  rw [JsonPrint.unmarshal_marshalRow env floatOK _ out marshal_imported, tree_imported]

example : LineSpec.classViolation 8 (leafCols tmpl)
    (.cons [0x6E] (.num [0x31]) (.cons [0x64] (.str dateS) .nil)) = none := by decide

/-- The oracle is not vacuous: a string under the numeric column, or a malformed date under the
    date column, is reported. -/
example : LineSpec.classViolation 8 (leafCols tmpl)
    (.cons [0x6E] (.str [0x31]) (.cons [0x64] (.str dateS) .nil)) =
      some ("wrong-class-numeric", false) := by decide

example : LineSpec.classViolation 8 (leafCols tmpl)
    (.cons [0x6E] (.num [0x31]) (.cons [0x64] (.str [0x32, 0x30, 0x32, 0x30]) .nil)) =
      some ("wrong-class-date", false) := by decide

/-- `emitted_text_keys_expected_fixed` applies: the member names are the oracle's expected key
    list, computed from the template and the INPUT text's member names (`d`, `n`). -/
example : ∃ t, Json.unmarshal out = (t, true) ∧
    LineSpec.keysOf t = LineSpec.expectedKeys (leafCols tmpl) [[0x64], [0x6E]] ∧
    LineSpec.expectedKeys (leafCols tmpl) [[0x64], [0x6E]] = [[0x6E], [0x64]] := by
  obtain ⟨body, t, hb, hu, hk⟩ :=
    emitted_text_keys_expected_fixed env tmpl tmpl line _ jlLine_line floatOK tmpl_nodup
      (List.Perm.refl _) (fun k hk => keys_fixed k (by
        rcases List.mem_append.1 hk with hk | hk
        · exact List.mem_append_left _ (List.mem_append_left _ hk)
        · exact List.mem_append_right _ hk))
  have : body = out := (List.append_cancel_right hb).symm
  subst this
  refine ⟨t, hu, ?_, by decide⟩
  rw [hk, unmarshal_line]
  rfl

end Demo



/-! ### Non-vacuity with a date-time column: the side conditions are satisfiable and used

  Template `t` (datetime) on both sides, empty stdlib oracle (no process zone is consulted: the
  time is read from the text); input line `{"t":"1970-01-01T00:00:00Z"}`. -/
namespace DemoDT
open RowPrint JsonWrite

def env : Env := ⟨genTables, Ext.empty⟩

def tmpl : Tmpl := withCol [] [0x74] .datetime .none

/-- `1970-01-01T00:00:00Z` -/
def epochS : Bytes :=
  [0x31, 0x39, 0x37, 0x30, 0x2D, 0x30, 0x31, 0x2D, 0x30, 0x31, 0x54,
   0x30, 0x30, 0x3A, 0x30, 0x30, 0x3A, 0x30, 0x30, 0x5A]

/-- `{"t":"1970-01-01T00:00:00Z"}` -/
def line : Bytes := [0x7B, 0x22, 0x74, 0x22, 0x3A, 0x22] ++ epochS ++ [0x22, 0x7D]

theorem tmpl_eq : tmpl = [([0x74], .cell .nil .datetime .none)] := rfl

open Json in
theorem unmarshal_line : Json.unmarshal line = (.cons [0x74] (.str epochS) .nil, true) := by
  simp [line, epochS, unmarshal, token, tokenCore, skipSpace, isSpace, asClose, parseObject, more,
    asKey, asTok, strBody, pre, handleDelim, scanScalar, valueAllowed, valueEnd, isEof]

theorem inputKeys_line : Order.inputKeys line = [[0x74]] := by
  simp [Order.inputKeys, unmarshal_line, JVMembers.toList]

/-- the row `GetRow` delivers and `CreateRow` keeps: the raw value is a `time.Time` -/
def imported : List (Bytes × Val) := [([0x74], .cell (.time ⟨0, 0, 0⟩) .datetime .none)]

theorem getRow_line : getRow env tmpl line = .ok (imported, none) := by
  unfold getRow createRowEmpty
  have h0 : cloneRow env tmpl = .ok tmpl := rfl
  rw [h0]
  simp only [unmarshalInto, unmarshal_line]
  rfl

theorem createRow_imported :
    createRow env tmpl (.val (.row (Members.ofList imported))) = .ok (imported, none) := rfl

theorem export_t :
    exportVal env (.cell (.time ⟨0, 0, 0⟩) .datetime .none) = .ok (.str epochS) := by
  have hc : Time.civilOf ⟨0, 0, 0⟩ = ⟨1970, 1, 1, 0, 0, 0⟩ := by decide
  rw [env, TimeShape.datetime_column_of_time _ _ _ (by simp [Time.year, hc])
    (by simp [Time.year, hc])]
  simp [Time.formatRFC3339, Time.formatDate, Time.formatZone, hc, Time.appendInt, Time.pad,
    natDigits, epochS]
  decide

theorem marshal_t :
    marshalVal env (.cell (.time ⟨0, 0, 0⟩) .datetime .none) = .ok (quote epochS) := by
  rw [marshalVal.eq_def]
  simp only [export_t]
  rw [marshalExported.eq_def]

theorem jlLine_line : ∃ body, jlLine env tmpl tmpl line = .ok (body ++ [0x0A], none) := by
  have h : marshalMembers env (Members.ofList imported) =
      .ok [quote [0x74] ++ 0x3A :: quote epochS] :=
    JsonPrint.marshalMembers_cons env _ _ _ (by decide) marshal_t (JsonPrint.marshalMembers_nil env)
  refine ⟨0x7B :: (joinComma [quote [0x74] ++ 0x3A :: quote epochS] ++ [0x7D]), ?_⟩
  simp [jlLine, getRow_line, exportLine, createRow_imported, JsonPrint.marshalRow_eq env _ h]

theorem floatOK : FloatTextOK env.ext := by
  intro b sz s h; cases h

theorem zoneOK_empty : ZoneOK Ext.empty := by
  intro sec off h; cases h

/-- The side conditions of the date-time verb hold: the empty oracle names no zone, and the
    prototype cells of a template built with `With` hold nil. -/
theorem side : DateTimeSide Ext.empty tmpl tmpl :=
  ⟨zoneOK_empty, rowOK_withCol rowOK_nil _ _ _, rowOK_withCol rowOK_nil _ _ _⟩

theorem sanitize_t : sanitize [0x74] = [0x74] := JsonPrint.sanitize_of_ascii _ (by decide)

/-- `emitted_line_classes_cell` applies, through its date-time branch: the member under `t` is an
    RFC 3339 date-time. -/
example : ∃ body t, jlLine env tmpl tmpl line = .ok (body ++ [0x0A], none) ∧
    Json.unmarshal body = (t, true) ∧
    ∀ v, LineSpec.lookupJV t [0x74] = some v → LineSpec.inClass .datetime v = true := by
  obtain ⟨body0, hj⟩ := jlLine_line
  obtain ⟨body, t, hb, hu, hc⟩ :=
    emitted_line_classes_cell Ext.empty tmpl tmpl line _ hj floatOK (by rw [tmpl_eq]; decide)
      (fun _ => side)
  have : body = body0 := (List.append_cancel_right hb).symm
  subst this
  refine ⟨body, t, hj, hu, fun v hv => ?_⟩
  refine hc [0x74] .nil .datetime .none (by rw [tmpl_eq]; simp) ?_ v (by rw [sanitize_t]; exact hv)
  intro k' hk' _
  rw [inputKeys_line, tmpl_eq] at hk'
  simp only [OMap.keys, List.map_cons, List.map_nil, List.cons_append, List.nil_append,
    List.mem_cons, List.not_mem_nil, or_false] at hk'
  rcases hk' with rfl | rfl | rfl <;> rfl

/-- The invariant behind it, instantiated: the raw `time.Time` of the printed row has a printable
    offset because it was read from the text. -/
example : RowOK imported :=
  createRow_rowOK Ext.empty side.1 tmpl imported imported side.2.2
    (getRow_rowOK Ext.empty side.1 tmpl line imported side.2.1 getRow_line) createRow_imported

end DemoDT

/-! ### The separation hypothesis is needed

  Output template `U+FFFD` (numeric), `0xFF` (string: a name that is not well-formed UTF-8); no
  importer column; input line `{"�":1}` (the key as raw UTF-8).  The escaper writes both
  names alike, so the line comes out as `{"<U+FFFD>":1,"�":null}` and the member found under
  the written name of the string column is the number `1`. -/
namespace Clash
open RowPrint JsonWrite

def env : Env := ⟨genTables, Ext.empty⟩

def fffd : Bytes := [0xEF, 0xBF, 0xBD]

def to : Tmpl := withCol (withCol [] fffd .numeric .none) [0xFF] .string .none

/-- `{"<U+FFFD>":1}` -/
def line : Bytes := [0x7B, 0x22, 0xEF, 0xBF, 0xBD, 0x22, 0x3A, 0x31, 0x7D]

theorem to_eq : to = [(fffd, .cell .nil .numeric .none), ([0xFF], .cell .nil .string .none)] := rfl

theorem to_nodup : (OMap.keys to).Nodup := by rw [to_eq]; decide

open Json in
theorem unmarshal_line : Json.unmarshal line = (.cons fffd (.num [0x31]) .nil, true) := by
  simp [line, fffd, unmarshal, token, tokenCore, skipSpace, isSpace, asClose, parseObject, more,
    asKey, asTok, strBody, pre, handleDelim, scanScalar, scanNumber, scanInt, scanFracExp, digits,
    Json.isDigit, valueAllowed, valueEnd, isEof, Utf8.seqLen, Utf8.isCont]

/-- the row `GetRow` delivers (no importer column: an Auto cell) -/
def imported : List (Bytes × Val) := [(fffd, .cell (.num [0x31]) .auto .none)]

/-- the row `CreateRow` makes of it -/
def created : List (Bytes × Val) :=
  [(fffd, .cell (.num [0x31]) .numeric .none), ([0xFF], .cell .nil .string .none)]

theorem getRow_line : getRow env [] line = .ok (imported, none) := by
  unfold getRow createRowEmpty
  have h0 : cloneRow env [] = .ok [] := rfl
  rw [h0]
  simp only [unmarshalInto, unmarshal_line]
  rfl

theorem createRow_imported :
    createRow env to (.val (.row (Members.ofList imported))) = .ok (created, none) := rfl

theorem sanitize_ff : sanitize [0xFF] = fffd := by
  simp [sanitize, Utf8.seqLen, Utf8.replacement, fffd]

theorem sanitize_fffd : sanitize fffd = fffd := by
  simp [sanitize, Utf8.seqLen, Utf8.isCont, fffd]

theorem export_1 : exportVal env (.cell (.num [0x31]) .numeric .none) = .ok (.num [0x31]) := rfl
theorem export_2 : exportVal env (.cell .nil .string .none) = .ok .nil := rfl

theorem marshal_1 : marshalVal env (.cell (.num [0x31]) .numeric .none) = .ok [0x31] := by
  rw [marshalVal.eq_def]
  simp only [export_1]
  rw [marshalExported.eq_def]
  rfl

theorem marshal_2 : marshalVal env (.cell .nil .string .none) = .ok RowPrint.null := by
  rw [marshalVal.eq_def]
  simp only [export_2]
  rw [marshalExported.eq_def]

/-- The line is accepted and written. -/
theorem jlLine_line : ∃ body, jlLine env [] to line = .ok (body ++ [0x0A], none) ∧
    marshalRow env (Members.ofList created) = .ok body := by
  have h : marshalMembers env (Members.ofList created) =
      .ok [quote fffd ++ 0x3A :: [0x31], quote [0xFF] ++ 0x3A :: RowPrint.null] :=
    JsonPrint.marshalMembers_cons env _ _ _ (by decide) marshal_1
      (JsonPrint.marshalMembers_cons env _ _ _ (by decide) marshal_2
        (JsonPrint.marshalMembers_nil env))
  refine ⟨_, ?_, JsonPrint.marshalRow_eq env _ h⟩
  simp [jlLine, getRow_line, exportLine, createRow_imported, JsonPrint.marshalRow_eq env _ h]

/-- The tree the reader delivers for the written text: two members of the same name. -/
theorem tree_created : treeMembers env (Members.ofList created) =
    .cons fffd (.num [0x31]) (.cons fffd .null .nil) := by
  have h1 : treeVal env (.cell (.num [0x31]) .numeric .none) = .num [0x31] := by
    rw [treeVal_cell export_1]; rfl
  have h2 : treeVal env (.cell .nil .string .none) = .null := by
    rw [treeVal_cell export_2]; rfl
  simp [created, Members.ofList, treeMembers, Cells.format, h1, h2, sanitize_ff, sanitize_fffd]

theorem floatOK : FloatTextOK env.ext := by
  intro b sz s h; cases h

/-- Without the separation hypothesis the pointwise statement of target 4 is false: every other
    hypothesis of `emitted_line_classes_cell` holds here, `0xFF` is a declared string column, and
    the member the reader finds under its written name is a number. -/
theorem separation_needed :
    ∃ body t, jlLine env [] to line = .ok (body ++ [0x0A], none) ∧ FloatTextOK env.ext ∧
      (OMap.keys to).Nodup ∧ (¬ ∃ kv ∈ to, Cells.format kv.2 = .datetime) ∧
      Json.unmarshal body = (t, true) ∧
      ([0xFF], Val.cell .nil .string .none) ∈ to ∧
      LineSpec.lookupJV t (sanitize [0xFF]) = some (.num [0x31]) ∧
      LineSpec.inClass .string (.num [0x31]) = false := by
  obtain ⟨body, hj, hm⟩ := jlLine_line
  refine ⟨body, _, hj, floatOK, to_nodup, ?_,
    JsonPrint.unmarshal_marshalRow env floatOK _ body hm, ?_, ?_, rfl⟩
  · rw [to_eq]
    rintro ⟨kv, hkv, hf⟩
    simp only [List.mem_cons, List.not_mem_nil, or_false] at hkv
    rcases hkv with rfl | rfl <;> cases hf
  · rw [to_eq]; simp
  · rw [tree_created, sanitize_ff, lookupJV_cons, if_pos rfl]

/-- …and so is the oracle form when a column name is not fixed by the escaper: with the names
    as written (`sanitize`d) the oracle reports the string column. -/
example : LineSpec.classViolation 8
    [.leaf fffd .numeric .none, .leaf (sanitize [0xFF]) .string .none]
    (.cons fffd (.num [0x31]) (.cons fffd .null .nil)) = some ("wrong-class-string", false) := by
  rw [sanitize_ff]; decide

end Clash


/-! ### The zone hypothesis is needed at line level

  Output template `t` (datetime), process zone 100 h east of UTC (`TimeShape.extPlus100`), input
  line `{"t":0}`: the line is accepted and `1970-01-05T04:00:00+100:00` is written, which is not
  an RFC 3339 date-time (`TimeShape.datetime_zone_offset_bound_needed` at cell level). -/
namespace Zone
open RowPrint JsonWrite

def env : Env := ⟨genTables, TimeShape.extPlus100⟩

def to : Tmpl := withCol [] [0x74] .datetime .none

/-- `{"t":0}` -/
def line : Bytes := [0x7B, 0x22, 0x74, 0x22, 0x3A, 0x30, 0x7D]

theorem to_eq : to = [([0x74], .cell .nil .datetime .none)] := rfl

open Json in
theorem unmarshal_line : Json.unmarshal line = (.cons [0x74] (.num [0x30]) .nil, true) := by
  simp [line, unmarshal, token, tokenCore, skipSpace, isSpace, asClose, parseObject, more,
    asKey, asTok, strBody, pre, handleDelim, scanScalar, scanNumber, scanInt, scanFracExp,
    Json.isDigit, valueAllowed, valueEnd, isEof]

/-- the row `CreateRow` makes (no importer column: the number reaches the cell as it is) -/
def created : List (Bytes × Val) := [([0x74], .cell (.num [0x30]) .datetime .none)]

theorem getRow_line : getRow env [] line = .ok ([([0x74], .cell (.num [0x30]) .auto .none)], none) := by
  unfold getRow createRowEmpty
  have h0 : cloneRow env [] = .ok [] := rfl
  rw [h0]
  simp only [unmarshalInto, unmarshal_line]
  rfl

theorem createRow_imported :
    createRow env to (.val (.row (Members.ofList [([0x74], .cell (.num [0x30]) .auto .none)]))) =
      .ok (created, none) := rfl

theorem toTime_zero :
    castNamed genTables TimeShape.extPlus100 "ToTime" (.num [0x30]) = .ok (.time ⟨0, 0, 360000⟩) := rfl

theorem export_t :
    exportVal env (.cell (.num [0x30]) .datetime .none) = .ok (.str TimeShape.text100h) := by
  have hs := TimeShape.toString_of_time TimeShape.extPlus100 ⟨0, 0, 360000⟩
    (by simp [Time.year, TimeShape.civilOf_100h]) (by simp [Time.year, TimeShape.civilOf_100h])
  simp [exportVal, env, toTime_zero, hs, exportFail, TimeShape.formatRFC3339_100h]

theorem marshal_t :
    marshalVal env (.cell (.num [0x30]) .datetime .none) = .ok (quote TimeShape.text100h) := by
  rw [marshalVal.eq_def]
  simp only [export_t]
  rw [marshalExported.eq_def]

theorem floatOK : FloatTextOK env.ext := by
  intro b sz s h; cases h

theorem sanitize_t : sanitize [0x74] = [0x74] := JsonPrint.sanitize_of_ascii _ (by decide)

theorem sanitize_text : sanitize TimeShape.text100h = TimeShape.text100h :=
  JsonPrint.sanitize_of_ascii _ (by decide)

/-- Every hypothesis of `emitted_line_classes_cell` but the zone bound holds, the line is
    written, and the member under the date-time column is not in its class. -/
theorem zone_bound_needed :
    ∃ body t, jlLine env [] to line = .ok (body ++ [0x0A], none) ∧ FloatTextOK env.ext ∧
      (OMap.keys to).Nodup ∧ RowOK [] ∧ RowOK to ∧
      Json.unmarshal body = (t, true) ∧
      ([0x74], Val.cell .nil .datetime .none) ∈ to ∧
      LineSpec.lookupJV t (sanitize [0x74]) = some (.str TimeShape.text100h) ∧
      LineSpec.inClass .datetime (.str TimeShape.text100h) = false := by
  have h : marshalMembers env (Members.ofList created) =
      .ok [quote [0x74] ++ 0x3A :: quote TimeShape.text100h] :=
    JsonPrint.marshalMembers_cons env _ _ _ (by decide) marshal_t (JsonPrint.marshalMembers_nil env)
  have hm := JsonPrint.marshalRow_eq env _ h
  have htree : treeMembers env (Members.ofList created) =
      .cons [0x74] (.str TimeShape.text100h) .nil := by
    have h1 : treeVal env (.cell (.num [0x30]) .datetime .none) = .str TimeShape.text100h := by
      rw [treeVal_cell export_t]
      simp only [treeExported, sanitize_text]
    simp [created, Members.ofList, treeMembers, Cells.format, h1, sanitize_t]
  refine ⟨_, _, ?_, floatOK, by rw [to_eq]; decide, rowOK_nil, rowOK_withCol rowOK_nil _ _ _,
    JsonPrint.unmarshal_marshalRow env floatOK _ _ hm, by rw [to_eq]; simp, ?_, ?_⟩
  · simp [jlLine, getRow_line, exportLine, createRow_imported, hm]
  · rw [htree, sanitize_t, lookupJV_cons, if_pos rfl]
  · simp only [LineSpec.inClass]
    exact TimeShape.text100h_not_datetime

end Zone

end Jl.LineLevel
